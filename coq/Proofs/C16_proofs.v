(* C16 -- Copies and derived sequences are independent values.
   The model store is a purely functional `list seq`; the theorems say which objects an operation can change
   (frame), that a copy equals its original, and that histories that do not operate on an object leave it
   literally unchanged. *)
From Coq Require Import ZArith List Bool Lia Permutation.
From Model Require Import Base Seq Pairing Util Bars Store.
Import ListNotations.
Open Scope Z_scope.

(* ---------------------------------------------------------------- index sets of an operation *)
Definition memn (j : nat) (l : list nat) : bool := existsb (Nat.eqb j) l.

(* every object index named by the operation *)
Definition names (o : op) : list nat :=
  match o with
  | ONew | ONewAbs _ | ONewRel _ => []
  | OCopy i | OAddAbs i _ | OAddRel i _ _ | OConcatLit i _ | OCutoff i _ _ | ONormalise i | OPad i _
  | OSetChannel i _ | OOverwriteAbs i _ | OOverwriteRel i _ | OSplit i _ | OScale i _ | OTranspose i _
  | OQuantise i _ | OQnl i _ _ _ | OQuantNorm i _ _ | ORefresh i | OReadAbs i | OReadRel i | OPairings i
  | ODuration i | OEditAbs i _ | OEditRel i _ | OBarInit i _ _ | OBarCopy i _ _ => [i]
  | OConcat i js | OMerge i js => i :: js
  | OEquals i j _ _ _ _ => [i; j]
  | OSplitBars is_ meta _ => meta :: is_
  end.

(* the objects whose stored value may differ after the operation (content written, or a view regenerated /
   the absolute view sorted in place by a getter).  The source of a copy and the arguments of concatenate are
   only read from the old store. *)
Definition may_change (o : op) : list nat :=
  match o with
  | ONew | ONewAbs _ | ONewRel _ | OCopy _ | OBarCopy _ _ _ => []
  | OConcat i _ => [i]
  | OMerge i js => i :: js
  | OEquals i j _ _ _ _ => [i; j]
  | OSplitBars is_ meta _ => meta :: is_
  | OAddAbs i _ | OAddRel i _ _ | OConcatLit i _ | OCutoff i _ _ | ONormalise i | OPad i _
  | OSetChannel i _ | OOverwriteAbs i _ | OOverwriteRel i _ | OSplit i _ | OScale i _ | OTranspose i _
  | OQuantise i _ | OQnl i _ _ _ | OQuantNorm i _ _ | ORefresh i | OReadAbs i | OReadRel i | OPairings i
  | ODuration i | OEditAbs i _ | OEditRel i _ | OBarInit i _ _ => [i]
  end.

(* the objects whose events the operation is meant to change (the receiver of a mutator) *)
Definition writes (o : op) : list nat :=
  match o with
  | OAddAbs i _ | OAddRel i _ _ | OConcat i _ | OConcatLit i _ | OMerge i _ | OCutoff i _ _ | ONormalise i
  | OPad i _ | OSetChannel i _ | OOverwriteAbs i _ | OOverwriteRel i _ | OScale i _ | OTranspose i _
  | OQuantise i _ | OQnl i _ _ _ | OQuantNorm i _ _ | OEditAbs i _ | OEditRel i _ | OBarInit i _ _ => [i]
  | _ => []
  end.

Lemma memn_cons j i l : memn j (i :: l) = Nat.eqb j i || memn j l.
Proof. reflexivity. Qed.
Lemma memn_In j l : memn j l = true <-> In j l.
Proof.
  unfold memn. rewrite existsb_exists. split.
  - intros [x [Hx E]]. apply Nat.eqb_eq in E. subst. exact Hx.
  - intro H. exists j. split; [exact H | apply Nat.eqb_refl].
Qed.
Lemma memn_false_incl j l l' : (forall x, In x l' -> In x l) -> memn j l = false -> memn j l' = false.
Proof.
  intros Hi H. destruct (memn j l') eqn:E; [| reflexivity]. apply memn_In in E. apply Hi in E.
  apply memn_In in E. congruence.
Qed.
Lemma may_change_names o x : In x (may_change o) -> In x (names o).
Proof. destruct o; cbn [may_change names In]; tauto. Qed.
Lemma writes_may_change o x : In x (writes o) -> In x (may_change o).
Proof. destruct o; cbn [may_change writes In]; tauto. Qed.

(* ---------------------------------------------------------------- list facts *)
Lemma set_nth_length {A} (f : A -> A) : forall n l, length (set_nth n f l) = length l.
Proof. intros n l. revert n. induction l as [| a l IH]; intros [| n]; cbn [set_nth length]; auto. Qed.
Lemma nth_error_set_nth_other {A} (f : A -> A) : forall n l j, n <> j -> nth_error (set_nth n f l) j = nth_error l j.
Proof.
  intros n l. revert n. induction l as [| a l IH]; intros [| n] [| j] H; cbn [set_nth nth_error]; auto; congruence.
Qed.
Lemma nth_error_set_nth_same {A} (f : A -> A) : forall n l x, nth_error l n = Some x ->
  nth_error (set_nth n f l) n = Some (f x).
Proof.
  intros n l. revert n. induction l as [| a l IH]; intros [| n] x H; cbn [set_nth nth_error] in *; try discriminate.
  - inversion H; reflexivity.
  - auto.
Qed.
Lemma nth_error_app_old {A} (l l' : list A) j x : nth_error l j = Some x -> nth_error (l ++ l') j = Some x.
Proof. intro H. rewrite nth_error_app1; [exact H |]. apply nth_error_Some. congruence. Qed.

Lemma getn_Some st i s : getn st i = Ok s <-> nth_error st i = Some s.
Proof. unfold getn. destruct (nth_error st i); split; intro H; inversion H; reflexivity. Qed.
Lemma setn_other st i s j : i <> j -> nth_error (setn st i s) j = nth_error st j.
Proof. apply nth_error_set_nth_other. Qed.
Lemma setn_same st i s s0 : nth_error st i = Some s0 -> nth_error (setn st i s) i = Some s.
Proof. intro H. unfold setn. rewrite (nth_error_set_nth_same _ _ _ _ H). reflexivity. Qed.
Lemma setn_length st i s : length (setn st i s) = length st.
Proof. apply set_nth_length. Qed.

(* ---------------------------------------------------------------- regeneration of views *)
(* one read-only access: the `abs` / `rel` property (regenerates a stale view) or a getter built on
   get_message_pairings (regenerates and sorts the absolute view in place) *)
Inductive regen1 : seq -> seq -> Prop :=
| R_abs s s' a : get_abs s = Ok (s', a) -> regen1 s s'
| R_rel s s' r : get_rel s = Ok (s', r) -> regen1 s s'
| R_sort s s' : seq_sort_abs s = Ok s' -> regen1 s s'.
Inductive regen : seq -> seq -> Prop :=
| regen_refl s : regen s s
| regen_snoc s s1 s2 : regen s s1 -> regen1 s1 s2 -> regen s s2.

Lemma regen_one s s' : regen1 s s' -> regen s s'.
Proof. intro H. eapply regen_snoc; [apply regen_refl | exact H]. Qed.
Lemma regen_trans s s1 s2 : regen s s1 -> regen s1 s2 -> regen s s2.
Proof. intros H1 H2. induction H2 as [| x y z _ IH Hyz]; [exact H1 |]. eapply regen_snoc; [apply IH; exact H1 | exact Hyz]. Qed.

(* ---------------------------------------------------------------- frame relation between two stores *)
(* C j = false : object j must be literally unchanged; W j = false : object j may only have been regenerated *)
Definition fr (st st' : store) (C W : nat -> bool) : Prop :=
  forall j s, nth_error st j = Some s ->
    exists s', nth_error st' j = Some s' /\ (C j = false -> s' = s) /\ (W j = false -> regen s s').

Lemma fr_refl st C W : fr st st C W.
Proof. intros j s H. exists s. split; [exact H |]. split; intros; [reflexivity | apply regen_refl]. Qed.
Lemma fr_trans st st1 st2 C W : fr st st1 C W -> fr st1 st2 C W -> fr st st2 C W.
Proof.
  intros H1 H2 j s Hj. destruct (H1 j s Hj) as [s1 [Hj1 [Hc1 Hw1]]]. destruct (H2 j s1 Hj1) as [s2 [Hj2 [Hc2 Hw2]]].
  exists s2. split; [exact Hj2 |]. split.
  - intro Hc. rewrite (Hc2 Hc). auto.
  - intro Hw. eapply regen_trans; eauto.
Qed.
Lemma fr_app st l C W : fr st (st ++ l) C W.
Proof.
  intros j s H. exists s. split; [apply nth_error_app_old; exact H |]. split; intros; [reflexivity | apply regen_refl].
Qed.
Lemma fr_setn_write st i s' C W : C i = true -> W i = true -> fr st (setn st i s') C W.
Proof.
  intros Hc Hw j s Hj. destruct (Nat.eq_dec i j) as [E | E].
  - subst j. exists s'. split; [eapply setn_same; eauto |]. split; intro H; congruence.
  - exists s. split; [rewrite setn_other; assumption |]. split; intros; [reflexivity | apply regen_refl].
Qed.
Lemma fr_setn_regen st i s s' C W : nth_error st i = Some s -> regen s s' -> C i = true -> fr st (setn st i s') C W.
Proof.
  intros Hi Hr Hc j t Hj. destruct (Nat.eq_dec i j) as [E | E].
  - subst j. exists s'. split; [eapply setn_same; eauto |]. split; intro H; [congruence |].
    rewrite Hi in Hj. inversion Hj; subst. exact Hr.
  - exists t. split; [rewrite setn_other; assumption |]. split; intros; [reflexivity | apply regen_refl].
Qed.

Lemma read_abss_fr C W js : forall st st' rs, (forall j, In j js -> C j = true) ->
  read_abss st js = Ok (st', rs) -> fr st st' C W.
Proof.
  induction js as [| j js IH]; intros st st' rs Hc E; cbn [read_abss] in E; [inversion E; subst; apply fr_refl |].
  destruct (getn st j) as [s | e] eqn:Eg; [| discriminate]. cbn [rbind] in E.
  destruct (get_abs s) as [[s1 a] | e] eqn:Ea; [| discriminate]. cbn [rbind] in E.
  destruct (read_abss (setn st j s1) js) as [[st1 rs1] | e] eqn:Er; [| discriminate]. cbn [rbind] in E.
  inversion E; subst. eapply fr_trans.
  - eapply fr_setn_regen; [apply getn_Some; exact Eg | eapply regen_one, R_abs; exact Ea | apply Hc; left; reflexivity].
  - eapply IH; [| exact Er]. intros x Hx. apply Hc. right. exact Hx.
Qed.
Lemma read_rels_fr C W js : forall st st' rs, (forall j, In j js -> C j = true) ->
  read_rels st js = Ok (st', rs) -> fr st st' C W.
Proof.
  induction js as [| j js IH]; intros st st' rs Hc E; cbn [read_rels] in E; [inversion E; subst; apply fr_refl |].
  destruct (getn st j) as [s | e] eqn:Eg; [| discriminate]. cbn [rbind] in E.
  destruct (get_rel s) as [[s1 a] | e] eqn:Ea; [| discriminate]. cbn [rbind] in E.
  destruct (read_rels (setn st j s1) js) as [[st1 rs1] | e] eqn:Er; [| discriminate]. cbn [rbind] in E.
  inversion E; subst. eapply fr_trans.
  - eapply fr_setn_regen; [apply getn_Some; exact Eg | eapply regen_one, R_rel; exact Ea | apply Hc; left; reflexivity].
  - eapply IH; [| exact Er]. intros x Hx. apply Hc. right. exact Hx.
Qed.

Lemma on_obj_fr_write st i f C W : C i = true -> W i = true -> fr st (fst (on_obj st i f)) C W.
Proof.
  intros Hc Hw. unfold on_obj. destruct (getn st i) as [s | e]; [| apply fr_refl].
  destruct (f s); [cbn [fst]; apply fr_setn_write; assumption | apply fr_refl].
Qed.
Lemma on_obj_fr_regen st i f C W : C i = true -> (forall s s', f s = Ok s' -> regen s s') ->
  fr st (fst (on_obj st i f)) C W.
Proof.
  intros Hc Hf. unfold on_obj. destruct (getn st i) as [s | e] eqn:Eg; [| apply fr_refl].
  destruct (f s) as [s' | e] eqn:Ef; [| apply fr_refl]. cbn [fst].
  eapply fr_setn_regen; [apply getn_Some; exact Eg | eapply Hf; exact Ef | exact Hc].
Qed.
Lemma lift_fr st r C W : (forall st' x, r = Ok (st', x) -> fr st st' C W) -> fr st (fst (lift st r)) C W.
Proof. intro H. unfold lift. destruct r as [[st' x] | e]; [eapply H; reflexivity | apply fr_refl]. Qed.

Ltac bind1 E x Ex :=
  match type of E with
  | rbind ?r _ = Ok _ => destruct r as [x | ?] eqn:Ex; [cbn [rbind] in E | discriminate E]
  end.

Lemma memn_hd i l : memn i (i :: l) = true.
Proof. rewrite memn_cons, Nat.eqb_refl. reflexivity. Qed.
Lemma memn_tl i j l : memn i l = true -> memn i (j :: l) = true.
Proof. intro H. rewrite memn_cons, H. apply orb_true_r. Qed.

Lemma seq_refresh_regen s s' : seq_refresh s = Ok s' -> regen s s'.
Proof.
  intro E. unfold seq_refresh in E. destruct (_ && _); [discriminate |].
  bind1 E x Ex. destruct x as [s1 a]. bind1 E y Ey. destruct y as [s2 r]. inversion E; subst.
  eapply regen_snoc; [eapply regen_one, R_abs; exact Ex | eapply R_rel; exact Ey].
Qed.

Lemma step_fr st o : fr st (fst (step st o)) (fun j => memn j (may_change o)) (fun j => memn j (writes o)).
Proof.
  destruct o; cbn [step may_change writes];
    try (apply on_obj_fr_write; apply memn_hd).
  - (* ONew *) apply fr_app.
  - apply fr_app.
  - apply fr_app.
  - (* OCopy *) apply lift_fr. intros st' x E. bind1 E s Es. inversion E; subst. apply fr_app.
  - (* OConcat *) apply lift_fr. intros st' x E. bind1 E s Es. bind1 E y Ey. destruct y as [s1 r]. bind1 E rs Ers.
    inversion E; subst. apply fr_setn_write; apply memn_hd.
  - (* OConcatLit *) apply lift_fr. intros st' x E. bind1 E s Es. bind1 E y Ey. destruct y as [s1 r].
    inversion E; subst. apply fr_setn_write; apply memn_hd.
  - (* OMerge *) apply lift_fr. intros st' x E. bind1 E s Es. bind1 E y Ey. destruct y as [s1 a].
    bind1 E z Ez. destruct z as [st1 as_]. bind1 E s2 E2. bind1 E s3 E3. inversion E; subst.
    eapply fr_trans; [apply fr_setn_write; apply memn_hd |].
    eapply fr_trans; [| apply fr_setn_write; apply memn_hd].
    eapply read_abss_fr; [| exact Ez]. intros j Hj. cbn beta. apply memn_tl, memn_In. exact Hj.
  - (* OSplit *) apply lift_fr. intros st' x E. bind1 E s Es. bind1 E y Ey. destruct y as [s1 r].
    inversion E; subst. eapply fr_trans; [| apply fr_app].
    eapply fr_setn_regen; [apply getn_Some; exact Es | eapply regen_one, R_rel; exact Ey | apply memn_hd].
  - (* OTranspose *) apply lift_fr. intros st' x E. bind1 E s Es. bind1 E y Ey. destruct y as [s' b].
    inversion E; subst. apply fr_setn_write; apply memn_hd.
  - (* ORefresh *) apply on_obj_fr_regen; [apply memn_hd | exact seq_refresh_regen].
  - (* OReadAbs *) apply lift_fr. intros st' x E. bind1 E s Es. bind1 E y Ey. destruct y as [s' a].
    inversion E; subst.
    eapply fr_setn_regen; [apply getn_Some; exact Es | eapply regen_one, R_abs; exact Ey | apply memn_hd].
  - (* OReadRel *) apply lift_fr. intros st' x E. bind1 E s Es. bind1 E y Ey. destruct y as [s' a].
    inversion E; subst.
    eapply fr_setn_regen; [apply getn_Some; exact Es | eapply regen_one, R_rel; exact Ey | apply memn_hd].
  - (* OEquals *) apply lift_fr. intros st' x E. bind1 E s Es. bind1 E y Ey. destruct y as [s1 a1].
    bind1 E t Et. bind1 E z Ez. destruct z as [t1 a2]. bind1 E s2 E2. bind1 E s3 E3.
    assert (Hi : memn i [i; j] = true) by apply memn_hd.
    assert (Hj : memn j [i; j] = true) by (apply memn_tl, memn_hd).
    assert (F1 : fr st (setn st i s1) (fun k => memn k [i; j]) (fun k => memn k [])).
    { eapply fr_setn_regen; [apply getn_Some; exact Es | eapply regen_one, R_abs; exact Ey | exact Hi]. }
    assert (F2 : fr (setn st i s1) (setn (setn st i s1) j t1) (fun k => memn k [i; j]) (fun k => memn k [])).
    { eapply fr_setn_regen; [apply getn_Some; exact Et | eapply regen_one, R_abs; exact Ez | exact Hj]. }
    assert (F3 : fr (setn (setn st i s1) j t1) (setn (setn (setn st i s1) j t1) i s3)
                    (fun k => memn k [i; j]) (fun k => memn k [])).
    { eapply fr_setn_regen; [apply getn_Some; exact E2 | eapply regen_one, R_sort; exact E3 | exact Hi]. }
    pose proof (fr_trans _ _ _ _ _ (fr_trans _ _ _ _ _ F1 F2) F3) as F123.
    destruct (interleaved _ _ _ _); [| inversion E; subst; exact F123].
    bind1 E t2 Et2. bind1 E t3 Et3.
    eapply fr_trans; [exact F123 |].
    assert (F4 : fr (setn (setn (setn st i s1) j t1) i s3) (setn (setn (setn (setn st i s1) j t1) i s3) j t3)
                    (fun k => memn k [i; j]) (fun k => memn k [])).
    { eapply fr_setn_regen; [apply getn_Some; exact Et2 | eapply regen_one, R_sort; exact Et3 | exact Hj]. }
    destruct (equals _ _ _ _ _ _); inversion E; subst; exact F4.
  - (* OPairings *) apply on_obj_fr_regen; [apply memn_hd |]. intros s s' E. eapply regen_one, R_sort; exact E.
  - (* ODuration *) apply lift_fr. intros st' x E. bind1 E s Es. bind1 E y Ey. destruct y as [s' a].
    destruct (last_opt a); inversion E; subst;
      (eapply fr_setn_regen; [apply getn_Some; exact Es | eapply regen_one, R_abs; exact Ey | apply memn_hd]).
  - (* OBarInit *) apply lift_fr. intros st' x E. bind1 E s Es. bind1 E y Ey. destruct y as [s1 r].
    destruct (bar_init_full r num den) as [r' e]. inversion E; subst. apply fr_setn_write; apply memn_hd.
  - (* OBarCopy *) apply lift_fr. intros st' x E. bind1 E s Es. bind1 E y Ey. destruct y as [c1 r].
    bind1 E r' Er. inversion E; subst. apply fr_app.
  - (* OSplitBars *) apply lift_fr. intros st' x E. bind1 E y Ey. destruct y as [st0 l0].
    bind1 E z Ez. destruct z as [st0' l0']. bind1 E m Em. bind1 E w Ew. destruct w as [m1 ma].
    bind1 E v Ev. destruct v as [st2 rels].
    assert (Hall : forall j, In j (meta :: is_) -> memn j (meta :: is_) = true) by (intros j Hj; apply memn_In; exact Hj).
    assert (F : fr st st2 (fun j => memn j (meta :: is_)) (fun j => memn j [])).
    { eapply fr_trans; [eapply read_abss_fr; [exact Hall | exact Ey] |].
      eapply fr_trans; [eapply read_rels_fr; [exact Hall | exact Ez] |].
      eapply fr_trans; [eapply fr_setn_regen; [apply getn_Some; exact Em | eapply regen_one, R_abs; exact Ew | apply memn_hd] |].
      eapply read_rels_fr; [| exact Ev]. intros j Hj. apply Hall. right. exact Hj. }
    destruct (split_bars rels ma qnl); inversion E; subst; [| exact F].
    eapply fr_trans; [exact F | apply fr_app].
Qed.

(* ---------------------------------------------------------------- what regeneration preserves *)
Lemma ins_sorted_perm x l : Permutation (x :: l) (ins_sorted x l).
Proof.
  induction l as [| y l IH]; cbn [ins_sorted]; [apply Permutation_refl |].
  destruct (key_le x y); [apply Permutation_refl |].
  eapply Permutation_trans; [apply perm_swap | apply perm_skip; exact IH].
Qed.
Lemma sort_abs_perm l : Permutation l (sort_abs l).
Proof.
  induction l as [| x l IH]; cbn [sort_abs]; [apply perm_nil |].
  eapply Permutation_trans; [apply perm_skip; exact IH | apply ins_sorted_perm].
Qed.

(* s' holds the same events as s: a fresh relative view is literally kept; a fresh absolute view is kept up to
   the order of its messages (the getters sort it in place); a stale view is either still stale (and its stored
   list untouched) or was regenerated from the other view *)
Definition same_events (s s' : seq) : Prop :=
  match s_abs_stale s, s_rel_stale s with
  | true, true => s' = s
  | false, false => s_abs_stale s' = false /\ s_rel_stale s' = false /\ s_rel s' = s_rel s /\
                    Permutation (s_abs s) (s_abs s')
  | false, true => s_abs_stale s' = false /\ Permutation (s_abs s) (s_abs s') /\
                   ((s_rel_stale s' = true /\ s_rel s' = s_rel s) \/
                    (s_rel_stale s' = false /\ exists a, Permutation (s_abs s) a /\ s_rel s' = to_rel a))
  | true, false => s_rel_stale s' = false /\ s_rel s' = s_rel s /\
                   ((s_abs_stale s' = true /\ s_abs s' = s_abs s) \/
                    (s_abs_stale s' = false /\ Permutation (to_abs (s_rel s)) (s_abs s')))
  end.

Lemma regen1_cases s1 s2 : regen1 s1 s2 ->
  s2 = s1 \/
  (s_abs_stale s1 = true /\ s_rel_stale s1 = false /\
   exists p, Permutation (to_abs (s_rel s1)) p /\ s2 = mkseq p (s_rel s1) false false) \/
  (s_abs_stale s1 = false /\ s_rel_stale s1 = true /\ s2 = mkseq (s_abs s1) (to_rel (s_abs s1)) false false) \/
  (s_abs_stale s1 = false /\ exists p, Permutation (s_abs s1) p /\ s2 = mkseq p (s_rel s1) false (s_rel_stale s1)).
Proof.
  intro H. destruct H as [s s' x E | s s' x E | s s' E].
  - unfold get_abs in E. destruct (s_abs_stale s) eqn:Ea.
    + destruct (s_rel_stale s) eqn:Er; [discriminate |]. inversion E; subst. right. left.
      split; [reflexivity |]. split; [reflexivity |]. eexists. split; [apply Permutation_refl | reflexivity].
    + inversion E; subst. left. reflexivity.
  - unfold get_rel in E. destruct (s_rel_stale s) eqn:Er.
    + destruct (s_abs_stale s) eqn:Ea; [discriminate |]. inversion E; subst. right. right. left. auto.
    + inversion E; subst. left. reflexivity.
  - unfold seq_sort_abs, get_abs in E. destruct (s_abs_stale s) eqn:Ea.
    + destruct (s_rel_stale s) eqn:Er; [discriminate |]. cbn [rbind s_rel s_rel_stale] in E. inversion E; subst.
      right. left. split; [reflexivity |]. split; [reflexivity |]. eexists. split; [apply sort_abs_perm | reflexivity].
    + cbn [rbind] in E. inversion E; subst. right. right. right. split; [reflexivity |].
      eexists. split; [apply sort_abs_perm | reflexivity].
Qed.

Lemma same_events_refl s : same_events s s.
Proof.
  unfold same_events. destruct (s_abs_stale s) eqn:Ea, (s_rel_stale s) eqn:Er; auto 10 using Permutation_refl.
Qed.

Lemma same_events_step s s1 s2 : same_events s s1 -> regen1 s1 s2 -> same_events s s2.
Proof.
  intros HI H1. apply regen1_cases in H1. unfold same_events in *.
  destruct (s_abs_stale s) eqn:Ea, (s_rel_stale s) eqn:Er.
  - (* both stale: nothing can be regenerated *) subst s1.
    destruct H1 as [E | [(E1 & E2 & _) | [(E1 & E2 & _) | (E1 & _)]]]; congruence.
  - (* abs stale, rel fresh *)
    destruct HI as (Hr1 & Hr2 & Habs).
    destruct H1 as [E | [(E1 & E2 & p & Hp & E) | [(E1 & E2 & E) | (E1 & p & Hp & E)]]]; subst s2;
      cbn [s_abs s_rel s_abs_stale s_rel_stale].
    + auto.
    + split; [reflexivity |]. split; [exact Hr2 |]. right. split; [reflexivity |]. rewrite <- Hr2. exact Hp.
    + congruence.
    + split; [exact Hr1 |]. split; [exact Hr2 |]. right. split; [reflexivity |].
      destruct Habs as [[Hs _] | [_ Hperm]]; [congruence |]. eapply Permutation_trans; eauto.
  - (* abs fresh, rel stale *)
    destruct HI as (Ha1 & Hperm & Hrel).
    destruct H1 as [E | [(E1 & E2 & p & Hp & E) | [(E1 & E2 & E) | (E1 & p & Hp & E)]]]; subst s2;
      cbn [s_abs s_rel s_abs_stale s_rel_stale].
    + auto.
    + congruence.
    + split; [reflexivity |]. split; [exact Hperm |]. right. split; [reflexivity |]. eexists. split; [exact Hperm | reflexivity].
    + split; [reflexivity |]. split; [eapply Permutation_trans; eauto |]. exact Hrel.
  - (* both fresh *)
    destruct HI as (Ha1 & Hr1 & Hr2 & Hperm).
    destruct H1 as [E | [(E1 & E2 & p & Hp & E) | [(E1 & E2 & E) | (E1 & p & Hp & E)]]]; subst s2;
      cbn [s_abs s_rel s_abs_stale s_rel_stale]; try congruence.
    + auto.
    + split; [reflexivity |]. split; [exact Hr1 |]. split; [exact Hr2 |]. eapply Permutation_trans; eauto.
Qed.

Theorem C16_regen_content : forall s s', regen s s' -> same_events s s'.
Proof.
  intros s s' H. induction H as [s | s s1 s2 _ IH H1]; [apply same_events_refl | eapply same_events_step; eauto].
Qed.

(* ---------------------------------------------------------------- C16_copy_equal *)
Theorem C16_copy_equal : forall s,
  (s_abs_stale s = false -> s_abs_stale (seq_copy s) = false /\ s_abs (seq_copy s) = s_abs s) /\
  (s_rel_stale s = false -> s_rel_stale (seq_copy s) = false /\ s_rel (seq_copy s) = s_rel s) /\
  (s_abs_stale s && s_rel_stale s = false ->
     s_abs_stale (seq_copy s) = s_abs_stale s /\ s_rel_stale (seq_copy s) = s_rel_stale s) /\
  (forall s1 a, get_abs s = Ok (s1, a) -> exists c1, get_abs (seq_copy s) = Ok (c1, a)) /\
  (forall s1 r, get_rel s = Ok (s1, r) -> exists c1, get_rel (seq_copy s) = Ok (c1, r)).
Proof.
  intros [a r fa fr]. unfold seq_copy, get_abs, get_rel. cbn [s_abs s_rel s_abs_stale s_rel_stale].
  destruct fa, fr; cbn; repeat split; try discriminate; intros; try discriminate;
    match goal with H : Ok _ = Ok _ |- _ => inversion H; subst; eexists; reflexivity end.
Qed.

Example C16_copy_equal_example :
  let s := seq_of_rel [mk_on 0 60 100 0 false; mk_wait 0 24 false; mk_off 0 60 0 false] in
  seq_copy s = s /\ exists s1 a, get_abs s = Ok (s1, a) /\ length a = 2%nat.
Proof. split; [reflexivity |]. eexists. eexists. split; vm_compute; reflexivity. Qed.

(* ---------------------------------------------------------------- C16_frame *)
Theorem C16_frame : forall st o j s, nth_error st j = Some s ->
  exists s', nth_error (fst (step st o)) j = Some s' /\
             (memn j (may_change o) = false -> s' = s) /\
             (memn j (writes o) = false -> regen s s').
Proof. intros st o j s H. exact (step_fr st o j s H). Qed.

Theorem C16_frame_names : forall st o j s, nth_error st j = Some s -> memn j (names o) = false ->
  nth_error (fst (step st o)) j = Some s.
Proof.
  intros st o j s H Hn. destruct (C16_frame st o j s H) as [s' [Hs' [Hc _]]]. rewrite Hs'. f_equal. apply Hc.
  eapply memn_false_incl; [| exact Hn]. apply may_change_names.
Qed.

Lemma fr_length st st' C W : fr st st' C W -> (length st <= length st')%nat.
Proof.
  intro H. destruct (le_lt_dec (length st) (length st')) as [L | L]; [exact L | exfalso].
  destruct (nth_error st (length st')) as [s |] eqn:E.
  - destruct (H _ _ E) as [s' [Hs' _]].
    assert (length st' < length st')%nat by (apply nth_error_Some; congruence). lia.
  - apply nth_error_None in E. lia.
Qed.
Theorem C16_length : forall st o, (length st <= length (fst (step st o)))%nat.
Proof. intros st o. eapply fr_length. apply step_fr. Qed.

(* ---------------------------------------------------------------- histories *)
Lemma run_cons st o ops : fst (run st (o :: ops)) = fst (run (fst (step st o)) ops).
Proof. cbn [run]. destruct (step st o) as [st1 x]. cbn [fst]. destruct (run st1 ops). reflexivity. Qed.

Definition leaves (j : nat) (ops : list op) : bool := forallb (fun o => negb (memn j (may_change o))) ops.
Definition no_write (j : nat) (ops : list op) : bool := forallb (fun o => negb (memn j (writes o))) ops.

Theorem C16_run_frame : forall ops st j s, nth_error st j = Some s -> leaves j ops = true ->
  nth_error (fst (run st ops)) j = Some s.
Proof.
  induction ops as [| o ops IH]; intros st j s H Hl; [exact H |].
  unfold leaves in Hl. cbn [forallb] in Hl. apply andb_true_iff in Hl. destruct Hl as [Ho Hops].
  rewrite run_cons. apply IH; [| exact Hops].
  destruct (C16_frame st o j s H) as [s' [Hs' [Hc _]]]. rewrite Hs'. f_equal. apply Hc.
  destruct (memn j (may_change o)); [discriminate | reflexivity].
Qed.

Theorem C16_run_reads : forall ops st j s, nth_error st j = Some s -> no_write j ops = true ->
  exists s', nth_error (fst (run st ops)) j = Some s' /\ regen s s'.
Proof.
  induction ops as [| o ops IH]; intros st j s H Hl; [exists s; split; [exact H | apply regen_refl] |].
  unfold no_write in Hl. cbn [forallb] in Hl. apply andb_true_iff in Hl. destruct Hl as [Ho Hops].
  rewrite run_cons. destruct (C16_frame st o j s H) as [s1 [Hs1 [_ Hw]]].
  destruct (IH _ _ _ Hs1 Hops) as [s2 [Hs2 Hr]]. exists s2. split; [exact Hs2 |].
  eapply regen_trans; [| exact Hr]. apply Hw. destruct (memn j (writes o)); [discriminate | reflexivity].
Qed.

Theorem C16_run_length : forall ops st, (length st <= length (fst (run st ops)))%nat.
Proof.
  induction ops as [| o ops IH]; intro st; [apply le_n |]. rewrite run_cons.
  eapply Nat.le_trans; [apply C16_length | apply IH].
Qed.

(* ---------------------------------------------------------------- derived objects *)
Lemma nth_error_app_new {A} (l l' : list A) k : nth_error (l ++ l') (length l + k) = nth_error l' k.
Proof. rewrite nth_error_app2 by lia. f_equal. lia. Qed.

(* copy *)
Theorem C16_copy_independent : forall st i s ops, nth_error st i = Some s ->
  let st1 := fst (step st (OCopy i)) in
  let c := length st in
  nth_error st1 i = Some s /\ nth_error st1 c = Some (seq_copy s) /\ i <> c /\
  (leaves i ops = true -> nth_error (fst (run st1 ops)) i = Some s) /\
  (leaves c ops = true -> nth_error (fst (run st1 ops)) c = Some (seq_copy s)).
Proof.
  intros st i s ops H st1 c.
  assert (E : st1 = st ++ [seq_copy s]).
  { unfold st1. cbn [step]. apply getn_Some in H. rewrite H. reflexivity. }
  assert (Hi : nth_error st1 i = Some s) by (rewrite E; apply nth_error_app_old; exact H).
  assert (Hc : nth_error st1 c = Some (seq_copy s)).
  { rewrite E. unfold c. rewrite <- (Nat.add_0_r (length st)), nth_error_app_new. reflexivity. }
  split; [exact Hi |]. split; [exact Hc |]. split.
  - assert (i < length st)%nat by (apply nth_error_Some; congruence). unfold c. lia.
  - split; intro Hl; apply C16_run_frame; assumption.
Qed.

(* split *)
Theorem C16_split_independent : forall st i caps s s1 r ops, nth_error st i = Some s -> get_rel s = Ok (s1, r) ->
  let st1 := fst (step st (OSplit i caps)) in
  nth_error st1 i = Some s1 /\ regen s s1 /\
  length st1 = (length st + length (seq_split r caps))%nat /\
  (forall k piece, nth_error (seq_split r caps) k = Some piece ->
     nth_error st1 (length st + k) = Some (seq_of_rel piece) /\
     (leaves (length st + k) ops = true -> nth_error (fst (run st1 ops)) (length st + k) = Some (seq_of_rel piece))) /\
  (leaves i ops = true -> nth_error (fst (run st1 ops)) i = Some s1).
Proof.
  intros st i caps s s1 r ops H Hg st1.
  assert (E : st1 = setn st i s1 ++ map seq_of_rel (seq_split r caps)).
  { unfold st1. cbn [step]. apply getn_Some in H. rewrite H. cbn [rbind]. rewrite Hg. reflexivity. }
  assert (Hi : nth_error st1 i = Some s1) by (rewrite E; apply nth_error_app_old; eapply setn_same; eauto).
  split; [exact Hi |]. split; [eapply regen_one, R_rel; exact Hg |]. split.
  - rewrite E, app_length, setn_length, map_length. reflexivity.
  - split.
    + intros k piece Hk.
      assert (Hn : nth_error st1 (length st + k) = Some (seq_of_rel piece)).
      { rewrite E, <- (setn_length st i s1), nth_error_app_new. apply map_nth_error. exact Hk. }
      split; [exact Hn |]. intro Hl. apply C16_run_frame; assumption.
    + intro Hl. apply C16_run_frame; assumption.
Qed.

(* any derivation route (copy, Bar.copy, split, bar splitting with either re-quantisation setting, or any other
   operation): every object of the resulting store -- old or newly created -- is left literally unchanged by
   every later history that does not operate on it, and keeps its events under every history that only reads it *)
Theorem C16_derived_independent : forall st o ops j x,
  let st1 := fst (step st o) in
  nth_error st1 j = Some x ->
  (length st <= length st1)%nat /\
  (leaves j ops = true -> nth_error (fst (run st1 ops)) j = Some x) /\
  (no_write j ops = true -> exists x', nth_error (fst (run st1 ops)) j = Some x' /\ same_events x x').
Proof.
  intros st o ops j x st1 H. split; [apply C16_length |]. split.
  - intro Hl. apply C16_run_frame; assumption.
  - intro Hw. destruct (C16_run_reads ops st1 j x H Hw) as [x' [Hx' Hr]]. exists x'. split; [exact Hx' |].
    apply C16_regen_content. exact Hr.
Qed.

(* bar splitting creates its bars as new objects behind the existing ones, and only regenerates its inputs *)
Theorem C16_split_bars_inputs : forall st is_ meta qnl j s, nth_error st j = Some s ->
  exists s', nth_error (fst (step st (OSplitBars is_ meta qnl))) j = Some s' /\ same_events s s' /\
             (memn j (meta :: is_) = false -> s' = s).
Proof.
  intros st is_ meta qnl j s H. destruct (C16_frame st (OSplitBars is_ meta qnl) j s H) as [s' [Hs' [Hc Hw]]].
  exists s'. split; [exact Hs' |]. split; [apply C16_regen_content, Hw; reflexivity | exact Hc].
Qed.

(* non-vacuity: a store with an original, operations that derive a copy, pieces and bars, then a history that
   mutates the derived objects and one that mutates the original *)
Definition ex_store : store :=
  [seq_of_rel [mk_on 0 60 100 0 false; mk_wait 0 30 false; mk_off 0 60 0 false; mk_wait 0 66 false;
               mk_on 0 62 90 0 false; mk_wait 0 24 false; mk_off 0 62 0 false];
   seq_of_abs [mk_ts 0 2 4 0 false]].
Definition ex_after_copy := fst (step ex_store (OCopy 0)).
Definition ex_ops_on_copy : list op := [OTranspose 2 5; OPad 2 200; OCutoff 2 12 6; OMerge 2 [1%nat]; OEditRel 2 [(0%nat, FNote, 40)]].
Definition ex_ops_on_orig : list op := [OTranspose 0 5; OPad 0 200; OCutoff 0 12 6; OSplit 0 [48]; OEditAbs 0 [(0%nat, FTime, 7)]].
Example C16_copy_nonvacuous :
  leaves 0 ex_ops_on_copy = true /\ leaves 2 ex_ops_on_orig = true /\
  nth_error (fst (run ex_after_copy ex_ops_on_copy)) 2 <> nth_error ex_after_copy 2 /\
  nth_error (fst (run ex_after_copy ex_ops_on_orig)) 0 <> nth_error ex_after_copy 0 /\
  existsb (fun x => match x with OErr _ => true | _ => false end)
          (snd (run ex_after_copy ex_ops_on_copy) ++ snd (run ex_after_copy ex_ops_on_orig)) = false.
Proof. vm_compute. repeat split; try reflexivity; discriminate. Qed.

Definition ex_after_bars := fst (step ex_store (OSplitBars [0%nat] 1 true)).
Example C16_bars_nonvacuous :
  length ex_after_bars = 5%nat /\ leaves 0 [OTranspose 2 3; ONormalise 3; OPad 4 100] = true /\
  no_write 0 [OMerge 2 [0%nat]; OEquals 0 3 false false false false; OPairings 0] = true.
Proof. vm_compute. repeat split; reflexivity. Qed.
