
(* ---------------------------------------------------------------- signature clause *)
From Proofs Require Import Sig_glue C12_sigs.
(* Definitions (Proofs/Sig_glue.v, Proofs/C12_sigs.v), all independent of the model functions:
     rts_events r / rks_events r := (tick, signature) of every TIME_SIGNATURE / KEY_SIGNATURE message of the saved
                        RELATIVE list r, tick = sum of the WAITs before it;   tsig := Z * Z, ts_none := (-1,-1) = "none"
     saved_ts rels := flat_map rts_events rels,  saved_ks rels := flat_map rks_events rels   (all saved sequences)
     sort_ev l     := l stably sorted by tick (each entry inserted after the last one with tick <= its own)
     dedup_ts prev l := l without every event whose signature equals that of the previously KEPT event (prev before the
                        list);  dedup_ks likewise
     with_default_ts K := K if some entry of K has tick 0, otherwise K with (0, (4,4)) inserted in front of the later ticks
     ts_events v / ks_events v := the signature events of the loaded ABSOLUTE list v, in list order
     ts_in_force d l t := signature of the entry of l with the greatest tick <= t (of several at that tick the last one),
                        d if there is none;  ks_in_force likewise
     ts_proper l   := no entry is the "none" signature;  ts_clash_free / ks_clash_free := no two different signatures
                        share a tick *)

Theorem C12_sig_with_default_unfold : forall K,
  with_default_ts K = if existsb (fun e => fst e =? 0) K then K else ins_ev (0, (4, 4)) K.
Proof. reflexivity. Qed.
Print Assumptions C12_sig_with_default_unfold.

(* clause "the designated meta sequence carries the signatures of all saved sequences" -- the events, FULL (default
   arguments: meta target = sequence 0): the absolute view of the loaded sequence 0 carries, as time-signature events,
   exactly the stably time-sorted union of ALL saved sequences' time-signature events without those that repeat the
   signature in force, plus a 4/4 at tick 0 when none of them sits at tick 0; as key-signature events the same for the
   saved key signatures (nothing added) *)
Theorem C12_signatures : forall rels : list (list msg),
  forallb rt_ok rels = true -> forallb C12_proofs.nonneg_waits rels = true ->
  forall seqs, save_load rels = Ok seqs ->
  exists s v, nth_error seqs 0 = Some s /\ get_abs s = Ok (s, v) /\
    ts_events v = with_default_ts (dedup_ts ts_none (sort_ev (saved_ts rels))) /\
    ks_events v = dedup_ks None (sort_ev (saved_ks rels)).
Proof. exact C12_sigs.C12_signatures. Qed.
Print Assumptions C12_signatures.

(* clause "... such that the time signature and the key signature in force at every tick are the ones that were saved
   (4/4 being in force from tick 0 when the file specifies nothing there)": at every tick t >= 0 the time signature in
   force in the loaded sequence 0 is that of the last saved event at or before t in the time-sorted union of all saved
   sequences, 4/4 before the first one; at every tick the key in force is the saved one (none before the first).
   ts_proper excludes a saved TIME_SIGNATURE without numerator and denominator (see C12_signatures_improper_refuted) *)
Theorem C12_signatures_in_force : forall rels : list (list msg),
  forallb rt_ok rels = true -> forallb C12_proofs.nonneg_waits rels = true ->
  forall seqs, save_load rels = Ok seqs ->
  exists s v, nth_error seqs 0 = Some s /\ get_abs s = Ok (s, v) /\
    (ts_proper (saved_ts rels) = true ->
     forall t, 0 <= t -> ts_in_force ts_none (ts_events v) t = ts_in_force (4, 4) (sort_ev (saved_ts rels)) t) /\
    (forall t, ks_in_force None (ks_events v) t = ks_in_force None (sort_ev (saved_ks rels)) t).
Proof. exact C12_sigs.C12_signatures_in_force. Qed.
Print Assumptions C12_signatures_in_force.

(* the same against the UNSORTED union of the saved events, PROVIDED no two different signatures of one type were saved
   at one tick (then "in force" does not depend on any order of the saved sequences) *)
Theorem C12_signatures_in_force_union : forall rels : list (list msg),
  forallb rt_ok rels = true -> forallb C12_proofs.nonneg_waits rels = true ->
  forall seqs, save_load rels = Ok seqs ->
  exists s v, nth_error seqs 0 = Some s /\ get_abs s = Ok (s, v) /\
    (ts_proper (saved_ts rels) = true -> ts_clash_free (saved_ts rels) = true ->
     forall t, 0 <= t -> ts_in_force ts_none (ts_events v) t = ts_in_force (4, 4) (saved_ts rels) t) /\
    (ks_clash_free (saved_ks rels) = true ->
     forall t, ks_in_force None (ks_events v) t = ks_in_force None (saved_ks rels) t).
Proof. exact C12_sigs.C12_signatures_in_force_union. Qed.
Print Assumptions C12_signatures_in_force_union.

(* outside ts_proper (finding, degenerate input): a saved TIME_SIGNATURE whose numerator and denominator are None is
   dropped by normalise (it "repeats" the initial state), the loader then sees no signature at tick 0 and inserts 4/4 *)
Theorem C12_signatures_improper_refuted : exists r seqs s v,
  rt_ok r = true /\ C12_proofs.nonneg_waits r = true /\ ts_proper (saved_ts [r]) = false /\
  save_load [r] = Ok seqs /\ nth_error seqs 0 = Some s /\ get_abs s = Ok (s, v) /\
  ts_in_force ts_none (ts_events v) 2 = (4, 4) /\ ts_in_force (4, 4) (sort_ev (saved_ts [r])) 2 = (-1, -1).
Proof.
  destruct C12_sigs.C12_signatures_needs_proper as (H1 & H2 & H3 & seqs & s & v & H4 & H5 & H6 & H7 & H8).
  eexists. exists seqs, s, v. repeat split; eassumption.
Qed.
Print Assumptions C12_signatures_improper_refuted.
