"""Operations of the library that are modelled: for each, a generator of inputs, the implementation runner producing
the canonical result string, and the Coq expression (of type string) that computes the model's result.

Every runner goes through the public Sequence / Bar / tokeniser API of the live tree at $SCODA_REPO.
"""
import os, sys, random
from canon import *
import gen as G

from scoda.sequences.sequence import Sequence
from scoda.sequences.relative_sequence import RelativeSequence
from scoda.sequences.absolute_sequence import AbsoluteSequence
from scoda.elements.bar import Bar
from scoda.enumerations.message_type import MessageType as MT
from scoda.settings.settings import PPQN

import scoda.sequences.sequence as _sq
assert os.path.realpath(_sq.__file__).startswith(os.path.realpath(REPO) + os.sep), (_sq.__file__, REPO)


# ---------------------------------------------------------------------------------------------- helpers
def mk_abs(ms):
    s = Sequence()
    for m in ms:
        s.add_absolute_message(to_message(m))
    return s


def mk_rel(ms):
    return Sequence(relative_sequence=RelativeSequence(messages=[to_message(m, rel=True) for m in ms]))


def abs_of(s):
    return [from_message(m) for m in s.abs._messages]


def rel_of(s):
    return [from_message(m, rel=True) for m in s.rel._messages]


def stored_abs(s):
    return [from_message(m) for m in s._abs._messages]


def guarded(f):
    def g(inp):
        try:
            return f(inp)
        except Exception as e:  # noqa
            return show_exc(e)
    return g


def show_seq(s):
    a = "~" if s._abs_stale else show_msgs([from_message(m) for m in s._abs._messages])
    r = "~" if s._rel_stale else show_msgs([from_message(m, rel=True) for m in s._rel._messages])
    return f"A{a}/R{r}"


OPS = {}


class Op:
    def __init__(self, name, gen, impl, coq, nontrivial=None):
        self.name, self.gen, self.impl, self.coq = name, gen, guarded(impl), coq
        self.nontrivial = nontrivial or (lambda inp: True)
        OPS[name] = self


# ---------------------------------------------------------------------------------------------- conversions
def _impl_to_abs(ms):
    return show_msgs(abs_of(mk_rel(ms)))


Op("to_abs", lambda r: r.choice([G.gen_rel_wf, G.gen_rel_malformed])(r), _impl_to_abs,
   lambda ms: f"show_msgs (to_abs {lit_msgs(ms)})", lambda ms: len(ms) > 2)


def _impl_to_rel(ms):
    return show_msgs(rel_of(mk_abs(ms)))


Op("to_rel", lambda r: G.gen_abs_wf(r), _impl_to_rel,
   lambda ms: f"show_msgs (to_rel (fold_left (fun acc m => insort m acc) {lit_msgs(ms)} []))", lambda ms: len(ms) > 2)


def _impl_roundtrip(ms):
    s = mk_rel(ms)
    a = s.abs
    s2 = Sequence(absolute_sequence=a.copy())
    return show_msgs(rel_of(s2))


Op("rel_abs_rel", lambda r: r.choice([G.gen_rel_wf, G.gen_rel_malformed])(r), _impl_roundtrip,
   lambda ms: f"show_msgs (to_rel (to_abs {lit_msgs(ms)}))", lambda ms: len(ms) > 2)


# ---------------------------------------------------------------------------------------------- normalise
def _impl_normalise(ms):
    s = mk_rel(ms)
    s.normalise()
    return show_msgs(rel_of(s))


Op("normalise", lambda r: G.gen_rel_malformed(r, floats=r.random() < 0.1) if r.random() < 0.7 else G.gen_rel_wf(r),
   _impl_normalise, lambda ms: f"show_msgs (normalise {lit_msgs(ms)})",
   lambda ms: sum(1 for m in ms if m[0] in ("NOTE_ON", "NOTE_OFF")) >= 2)


# ---------------------------------------------------------------------------------------------- pad, set_channel, scale
def _gen_pad(r):
    ms = r.choice([G.gen_rel_wf, G.gen_rel_malformed])(r)
    d = sum(m[2] for m in ms if m[0] == "WAIT")
    return ms, r.choice([0, d, d + 1, max(0, d - 1), d + 12, 96, r.randint(0, 100)])


def _impl_pad(inp):
    ms, p = inp
    s = mk_rel(ms)
    s.pad(p)
    return show_msgs(rel_of(s))


Op("pad", _gen_pad, _impl_pad, lambda inp: f"show_msgs (pad {lit_msgs(inp[0])} {z(inp[1])} false)")


def _impl_setch(inp):
    ms, c = inp
    s = mk_rel(ms)
    s.set_channel(c)
    return show_msgs(rel_of(s))


Op("set_channel", lambda r: (G.gen_rel_wf(r), r.choice([0, 1, 2, 5, 15])), _impl_setch,
   lambda inp: f"show_msgs (set_channel {lit_msgs(inp[0])} {z(inp[1])})")


def _impl_scale(inp):
    ms, k = inp
    s = mk_rel(ms)
    s.scale(k, quantise_afterwards=False)
    return show_msgs(rel_of(s))


Op("scale", lambda r: (G.gen_rel_wf(r), r.randint(1, 8)), _impl_scale,
   lambda inp: f"show_msgs (scale {lit_msgs(inp[0])} {z(inp[1])})")


# ---------------------------------------------------------------------------------------------- transpose
def _gen_transpose(r):
    ms = G.gen_rel_wf(r)
    k = r.choice([0, 1, -1, 2, 7, 12, -12, 24, 11, 13, -13, 40, -40, 88, 89, -88, 100, -130, 130, r.randint(-130, 130)])
    return ms, k


def _impl_transpose_rel(inp):
    ms, k = inp
    rs = RelativeSequence(messages=[to_message(m, rel=True) for m in ms])
    sh = rs.transpose(k)
    return ("T" if sh else "F") + "@" + show_msgs([from_message(m, rel=True) for m in rs._messages])


Op("transpose_rel", _gen_transpose, _impl_transpose_rel,
   lambda inp: f"(let '(l, b) := transpose {lit_msgs(inp[0])} {z(inp[1])} in show_bool b ++ \"@\" ++ show_msgs l)")


# ---------------------------------------------------------------------------------------------- split
def _gen_split(r):
    ms = G.gen_rel_wf(r, hi=r.choice([30, 60, 100])) if r.random() < 0.8 else G.gen_rel_malformed(r)
    return ms, G.gen_caps(r)


def _impl_split(inp):
    ms, caps = inp
    s = mk_rel(ms)
    before = show_seq(s)
    ps = s.split(list(caps))
    assert show_seq(s) == before, "split changed its source"
    return show_msgss([rel_of(p) for p in ps])


Op("split", _gen_split, _impl_split,
   lambda inp: f"show_msgss (seq_split {lit_msgs(inp[0])} {lit_zs(inp[1])})",
   lambda inp: sum(m[2] for m in inp[0] if m[0] == "WAIT") > inp[1][0])


# ---------------------------------------------------------------------------------------------- merge
def _gen_merge(r):
    k = r.choice([0, 1, 1, 2, 3])
    return [G.gen_abs_wf(r, n=r.randint(0, 4), pitches=[60, 61], chans=[0, 0, 1]) for _ in range(k + 1)]


def _impl_merge(seqs):
    ss = [mk_abs(ms) for ms in seqs]
    ss[0].merge(ss[1:])
    return show_seq(ss[0])


def _coq_merge(seqs):
    ins = lambda ms: f"(fold_left (fun acc m => insort m acc) {lit_msgs(ms)} [])"
    others = "[" + "; ".join(ins(ms) for ms in seqs[1:]) + "]"
    return (f"show_res show_seq (seq_normalise (mkseq (merge_abs {ins(seqs[0])} {others}) [] false true))")


Op("merge", _gen_merge, _impl_merge, _coq_merge, lambda seqs: len(seqs) > 1)


# ---------------------------------------------------------------------------------------------- cutoff
def _gen_cutoff(r):
    ms = G.gen_abs_wf(r)
    m = r.choice([6, 12, 24, 11, 13, 30, 1])
    return ms, m, r.choice([m, max(1, m - 1), 1, max(1, m // 2), 6])


def _impl_cutoff(inp):
    ms, mx, red = inp
    s = mk_abs(ms)
    s.cutoff(mx, red)
    return show_msgs(abs_of(s))


INS = lambda ms: f"(fold_left (fun acc m => insort m acc) {lit_msgs(ms)} [])"

Op("cutoff", _gen_cutoff, _impl_cutoff, lambda inp: f"show_msgs (cutoff {INS(inp[0])} {z(inp[1])} {z(inp[2])})",
   lambda inp: any(m[0] == "NOTE_ON" for m in inp[0]))


# ---------------------------------------------------------------------------------------------- quantise
def _gen_quantise(r):
    mode = r.random()
    if mode < 0.75:
        ms = G.gen_abs_wf(r, hi=r.choice([30, 60]))
    else:   # malformed absolute input: re-triggers, orphans
        ms = []
        for _ in range(r.randint(0, 8)):
            c, p, t = r.choice([0, 0, 1]), r.choice([60, 61]), G.tick(r, 40)
            ms.append(ON(c, p, 100, t) if r.random() < 0.5 else OFF(c, p, t))
    return ms, r.choice(G.STEP_POOLS)


def _impl_quantise(inp):
    ms, steps = inp
    s = mk_abs(ms)
    s.quantise(list(steps))
    return show_msgs(abs_of(s))


Op("quantise", _gen_quantise, _impl_quantise,
   lambda inp: f"show_res show_msgs (quantise {INS(inp[0])} {lit_zs(inp[1])})",
   lambda inp: any(m[0] == "NOTE_ON" and any(m[2] % s for s in inp[1]) for m in inp[0]))


# ---------------------------------------------------------------------------------------------- quantise_note_lengths
def _gen_qnl(r):
    ms = G.gen_abs_wf(r, hi=r.choice([30, 60])) if r.random() < 0.85 else _gen_quantise(r)[0]
    return ms, r.choice(G.VALUE_POOLS), r.choice([24, 24, 12]), r.random() < 0.5


def _impl_qnl(inp):
    ms, vals, std, dne = inp
    s = mk_abs(ms)
    s.quantise_note_lengths(list(vals), standard_length=std, do_not_extend=dne)
    return show_msgs(abs_of(s))


Op("qnl", _gen_qnl, _impl_qnl,
   lambda inp: f"show_msgs (quantise_note_lengths {INS(inp[0])} {lit_zs(inp[1])} {z(inp[2])} {lit_bool(inp[3])})",
   lambda inp: any(m[0] == "NOTE_ON" for m in inp[0]))


# ---------------------------------------------------------------------------------------------- pairings
def _show_pairing(p):
    s = show_msg(from_message(p[0]))
    if len(p) > 1:
        s += ">" + show_msg(from_message(p[1]))
    return s


def _impl_pairings(inp):
    ms, types, std, imp = inp
    s = mk_abs(ms)
    d = s.abs.get_message_pairings([MT[t] for t in types], standard_length=std, impute_notes=imp)
    return "|".join(f"{ch}=" + ";".join(_show_pairing(p) for p in ps) for ch, ps in d.items())


def _gen_pairings(r):
    ms = _gen_quantise(r)[0]
    types = r.choice([["NOTE_ON", "NOTE_OFF"], ["NOTE_ON", "NOTE_OFF", "TIME_SIGNATURE", "KEY_SIGNATURE"],
                      ["NOTE_ON", "NOTE_OFF", "TIME_SIGNATURE", "INTERNAL"]])
    return ms, types, r.choice([24, 12]), r.random() < 0.8


def lit_types(ts):
    return "[" + "; ".join(ts) + "]"


Op("pairings", _gen_pairings, _impl_pairings,
   lambda inp: f"show_pairings (pairings_sorted {lit_types(inp[1])} {z(inp[2])} {lit_bool(inp[3])} (sort_abs {INS(inp[0])}))")


def _impl_interleaved(inp):
    ms, types, std, imp = inp
    s = mk_abs(ms)
    l = s.abs.get_interleaved_message_pairings([MT[t] for t in types], standard_length=std, impute_notes=imp)
    return ";".join(f"{ch}=" + _show_pairing(p) for ch, p in l)


Op("interleaved", _gen_pairings, _impl_interleaved,
   lambda inp: f"show_res show_interleaved (interleaved {lit_types(inp[1])} {z(inp[2])} {lit_bool(inp[3])} (sort_abs {INS(inp[0])}))")


# ---------------------------------------------------------------------------------------------- equals
def perturb(r, ms):
    """one single-attribute perturbation of a message list (or none)"""
    ms = list(ms)
    if not ms:
        return ms, "none"
    kind = r.choice(["none", "reorder", "pitch", "onset", "duration", "velocity", "channel", "sig", "sigtick", "key",
                     "drop", "chan_all"])
    i = r.randrange(len(ms))
    m = ms[i]
    if kind == "reorder":
        r.shuffle(ms)
    elif kind == "pitch" and m[0] in ("NOTE_ON",):
        j = next((j for j in range(len(ms)) if ms[j][0] == "NOTE_OFF" and ms[j][1] == m[1] and ms[j][4] == m[4] and ms[j][2] > m[2]), None)
        if j is not None:
            ms[i] = m[:4] + (m[4] + 1,) + m[5:]
            ms[j] = ms[j][:4] + (ms[j][4] + 1,) + ms[j][5:]
    elif kind == "onset" and m[0] == "NOTE_ON":
        ms[i] = m[:2] + (max(0, m[2] - 1),) + m[3:]
    elif kind == "duration" and m[0] == "NOTE_OFF":
        ms[i] = m[:2] + (m[2] + 1,) + m[3:]
    elif kind == "velocity" and m[0] == "NOTE_ON":
        ms[i] = m[:5] + (m[5] % 127 + 1,) + m[6:]
    elif kind == "channel":
        ms[i] = m[:1] + (m[1] + 1,) + m[2:]
    elif kind == "chan_all":
        ms = [x[:1] + (x[1] + 3,) + x[2:] for x in ms]
    elif kind == "sig" and m[0] == "TIME_SIGNATURE":
        ms[i] = m[:8] + (m[8] + 1,) + m[9:]
    elif kind == "sigtick" and m[0] in ("TIME_SIGNATURE", "KEY_SIGNATURE"):
        ms[i] = m[:2] + (m[2] + 1,) + m[3:]
    elif kind == "key" and m[0] == "KEY_SIGNATURE":
        ms[i] = m[:10] + (G.KEYS[(G.KEYS.index(m[10]) + 1) % 15],)
    elif kind == "drop":
        del ms[i]
    return ms, kind


def _gen_equals(r):
    a = G.gen_abs_wf(r, chans=r.choice([[0], [0, 1]]), extra=False)
    b, kind = perturb(r, a)
    flags = tuple(r.random() < 0.3 for _ in range(4))
    return a, b, flags, kind


def _impl_equals(inp):
    a, b, fl, _ = inp
    return "T" if mk_abs(a).equals(mk_abs(b), *fl) else "F"


Op("equals", _gen_equals, _impl_equals,
   lambda inp: f"show_res show_bool (equals {INS(inp[0])} {INS(inp[1])} {' '.join(lit_bool(x) for x in inp[2])})",
   lambda inp: inp[3] != "none")


# ---------------------------------------------------------------------------------------------- Bar
def _gen_bar(r):
    num, den = r.choice(G.SIGS)
    cap = num * 96 // den
    mode = r.random()
    ms = G.gen_rel_wf(r, hi=r.choice([max(1, cap // 2), cap, cap + 20]), sigs=False) if mode < 0.8 else G.gen_rel_malformed(r)
    # signatures: none / matching / conflicting / several
    k = r.choice([0, 0, 1, 1, 2, 3])
    for _ in range(k):
        a, b = (num, den) if r.random() < 0.6 else r.choice(G.SIGS)
        ms.insert(r.randrange(len(ms) + 1), TS(0, a, b))
    if r.random() < 0.3:
        d = sum(m[2] for m in ms if m[0] == "WAIT")
        if d < cap:
            ms.append(WT(0, r.choice([cap - d, cap - d + 1, max(1, cap - d - 1)])))
    return ms, num, den


def show_sig(n, d, k):
    return f"{n}/{d}/{'~' if k is None else k.value}"


def _impl_bar(inp):
    ms, num, den = inp
    s = mk_rel(ms)
    try:
        b = Bar(s, num, den)
    except Exception as e:
        return show_exc(e) + "@" + show_seq(s)
    assert b.sequence is s
    c = b.copy()
    cs = show_sig(c.time_signature_numerator, c.time_signature_denominator, c.key_signature) + "=" + show_msgs(rel_of(c.sequence))
    return "ok@" + show_seq(s) + "@" + cs


def _coq_bar(inp):
    ms, num, den = inp
    return (f"(let '(r, e) := bar_init_full {lit_msgs(ms)} {z(num)} {z(den)} in "
            f"match e with Some e' => \"!\" ++ show_err e' ++ \"@\" ++ show_seq (mkseq [] r true false) "
            f"| None => \"ok@\" ++ show_seq (mkseq [] r true false) ++ \"@\" ++ "
            f"show_res (fun r' => show_bar (mkbar r' {z(num)} {z(den)} None)) (bar_init r {z(num)} {z(den)}) end)")


Op("bar", _gen_bar, _impl_bar, _coq_bar)


# ---------------------------------------------------------------------------------------------- split_bars
def gen_piece_tracks(r, ntracks=None, aligned=True):
    """tracks (relative lists); time signatures on bar boundaries of the running grid, on the meta track"""
    ntracks = ntracks or r.choice([1, 1, 2, 3])
    nbars = r.randint(0, 4)
    sig, t, metas = (4, 4), 0, []
    bounds = []
    for b in range(nbars):
        if r.random() < (0.5 if b == 0 else 0.3):
            sig = r.choice(G.SIGS)
            metas.append(TS(0, sig[0], sig[1], t))
        if r.random() < 0.25:
            metas.append(KS(0, r.choice(G.KEYS), t if aligned or r.random() < 0.5 else t + 1))
        bounds.append(t)
        t += sig[0] * 96 // sig[1]
    total = t
    tracks = []
    for i in range(ntracks):
        hi = r.choice([total, total, max(0, total - 30), total // 2]) if total else 0
        notes = G.gen_notes(r, n=r.randint(0, 6), chans=[i], pitches=[60, 61, 62, 64], hi=max(hi, 1)) if hi > 0 else []
        ms = []
        for c, p, on, d, v in notes:
            ms += [ON(c, p, v, on), OFF(c, p, on + d)]
        tracks.append(ms)
    meta = r.randrange(ntracks)
    tracks[meta] = tracks[meta] + metas
    return tracks, meta


def _gen_splitbars(r):
    tracks, meta = gen_piece_tracks(r, aligned=r.random() < 0.8)
    rels = []
    for ms in tracks:
        rel = G.abs_to_rel(ms)
        if r.random() < 0.4:
            rel.append(WT(0, r.choice([1, 12, 24, 96])))
        rels.append(rel)
    return rels, meta, r.random() < 0.5


def _impl_splitbars(inp):
    rels, meta, qnl = inp
    ss = [mk_rel(ms) for ms in rels]
    for s in ss:
        s.refresh()
    before = [show_seq(s) for s in ss]
    bars = Sequence.sequences_split_bars(ss, meta_track_index=meta, quantise_note_lengths=qnl)
    assert [show_seq(s) for s in ss] == before, "sequences_split_bars changed its inputs"
    return "|".join("&".join(show_sig(b.time_signature_numerator, b.time_signature_denominator, b.key_signature) + "=" +
                             show_msgs(rel_of(b.sequence)) for b in t) for t in bars)


def _coq_splitbars(inp):
    rels, meta, qnl = inp
    return f"show_bars (split_bars {lit_msgss(rels)} (to_abs {lit_msgs(rels[meta])}) {lit_bool(qnl)})"


Op("split_bars", _gen_splitbars, _impl_splitbars, _coq_splitbars,
   lambda inp: sum(len(x) for x in inp[0]) > 3)


# ---------------------------------------------------------------------------------------------- util
def _impl_util(inp):
    from scoda.misc import util
    kind, a = inp
    if kind == "defaults":
        return ",".join(map(str, util.get_default_note_values())) + "/" + ",".join(map(str, util.get_default_step_sizes())) + \
            "/" + ",".join(map(str, util.get_default_step_sizes(lower_bound_shift=1)))
    if kind == "vbins":
        return ",".join(str(int(x)) for x in util.get_velocity_bins(velocity_bins=a))
    if kind == "binvel":
        n, v = a
        bins = [int(x) for x in util.get_velocity_bins(velocity_bins=n)]
        return str(util.bin_velocity(v, bins))
    if kind == "fmd":
        e, l = a
        return str(util.find_minimal_distance(e, list(l)))
    if kind == "durs":
        ub, lb = a
        return ",".join(map(str, util.get_note_durations(ub, lb)))


def _gen_util(r):
    k = r.choice(["defaults", "vbins", "vbins", "binvel", "binvel", "fmd", "fmd", "durs"])
    if k == "defaults":
        return k, None
    if k == "vbins":
        return k, r.choice([1, 2, 3, 4, 5, 8, 16, 32, 64, 100, 127, 128, r.randint(1, 140)])
    if k == "binvel":
        return k, (r.choice([1, 2, 3, 4, 5, 8, 16, 32, 127]), r.randint(0, 127))
    if k == "fmd":
        return k, (r.randint(0, 40), [r.randint(0, 40) for _ in range(r.randint(1, 6))])
    return k, (r.choice([1, 2, 4, 8, 3]), r.choice([1, 2, 4, 8, 16]))


def _coq_util(inp):
    kind, a = inp
    if kind == "defaults":
        return ("(show_Zs get_default_note_values ++ \"/\" ++ show_Zs (get_default_step_sizes 0 0) ++ \"/\" ++ "
                "show_Zs (get_default_step_sizes 0 1))")
    if kind == "vbins":
        return f"show_Zs (velocity_bins {a})"
    if kind == "binvel":
        return f"show_Z (bin_velocity {a[1]} (velocity_bins {a[0]}))"
    if kind == "fmd":
        return f"show_Z (find_minimal_distance {a[0]} {lit_zs(a[1])})"
    return f"show_Zs (get_note_durations {a[0]} {a[1]} PPQN)"


Op("util", _gen_util, _impl_util, _coq_util)
