(* Show.v -- canonical textual rendering of model values, and short literals for generated case files.
   The Python harness (harness/canon.py) renders the implementation's results in exactly the same format; the
   correspondence check compares the two strings. *)
From Coq Require Import DecimalString.
From Model Require Import Base.
Open Scope string_scope.

Definition show_N (n : N) : string := NilZero.string_of_uint (N.to_uint n).
Definition show_Z (z : Z) : string :=
  match z with Z0 => "0" | Zpos p => show_N (Npos p) | Zneg p => "-" ++ show_N (Npos p) end.
Definition show_bool (b : bool) : string := if b then "T" else "F".

Fixpoint sjoin (sep : string) (l : list string) : string :=
  match l with [] => "" | [x] => x | x :: l' => x ++ sep ++ sjoin sep l' end.

Definition show_key (k : option Key) : string := match k with Some k' => key_value k' | None => "~" end.

Definition show_time (t : Z) (f : bool) : string := show_Z t ++ (if f then "f" else "").

(* type:chan:time:note:vel:ctrl:prog:num:den:key *)
Definition show_msg (m : msg) : string :=
  sjoin ":" [mtype_name (m_type m); show_Z (m_chan m); show_time (m_time m) (m_tf m); show_Z (m_note m);
             show_Z (m_vel m); show_Z (m_ctrl m); show_Z (m_prog m); show_Z (m_num m); show_Z (m_den m);
             show_key (m_key m)].
Definition show_msgs (l : list msg) : string := sjoin ";" (map show_msg l).
Definition show_msgss (l : list (list msg)) : string := sjoin "|" (map show_msgs l).

Definition show_err (e : err) : string :=
  match e with BarErr => "BarErr" | SeqErr => "SeqErr" | TokErr => "TokErr" | KeyErr => "KeyErr"
  | IndexErr => "IndexErr" | ValueErr => "ValueErr" | TypeErr => "TypeErr" | OutOfFuel => "OutOfFuel"
  | OutOfModel => "OutOfModel" | TrackErr => "TrackErr" end.
Definition show_res {A} (f : A -> string) (r : result A) : string :=
  match r with Ok a => f a | Err e => "!" ++ show_err e end.
Definition show_opt {A} (f : A -> string) (o : option A) : string :=
  match o with Some a => f a | None => "~" end.
Definition show_Zs (l : list Z) : string := sjoin "," (map show_Z l).

(* ---- short literals used by generated case files *)
Definition on (c n v t : Z) : msg := mk_on c n v t false.
Definition of (c n t : Z) : msg := mk_off c n t false.
Definition wt (c t : Z) : msg := mk_wait c t false.
Definition ts (c a b t : Z) : msg := mk_ts c a b t false.
Definition ks (c : Z) (k : Key) (t : Z) : msg := mk_ks c (Some k) t false.
Definition it (c t : Z) : msg := mk_internal c t.
Definition cc (c x v t : Z) : msg := mk_cc c x v t false.
Definition pc (c p t : Z) : msg := mk_pc c p t false.
Definition Fl (m : msg) : msg := set_time m (m_time m) true.

(* ---- comparison of a batch of cases: (id, got, expected); returns the failing ones *)
Definition mismatches (cs : list (string * string * string)) : list (string * string) :=
  flat_map (fun c => let '(i, g, e) := c in if String.eqb g e then [] else [(i, g)]) cs.
