# /verif/Makefile -- build the Coq development (full .vo build) from the live tree at $(SCODA_REPO)
SCODA_REPO ?= /repo
export SCODA_REPO
.PHONY: setup gen coq clean
setup: coq
gen:
	python3 harness/translate.py coq/Gen
coq: gen
	cd coq && coq_makefile -f _CoqProject -o Makefile.coq >/dev/null 2>&1 && timeout 3000 $(MAKE) -f Makefile.coq -j16
clean:
	cd coq && [ -f Makefile.coq ] && $(MAKE) -f Makefile.coq clean || true
	rm -rf coq/cases coq/Makefile.coq coq/Makefile.coq.conf
