(* C07 -- normalise returns a well-formed sequence with the same duration and sound.
   Statements about Model.Seq.normalise : list msg -> list msg (relative list, only WAIT messages carry a time).
   The predicates (alt, ts_ok, ks_ok, sounding, balanced, timed, nonneg_waits) are defined in the first part of
   Proofs/C07_proofs.v, independently of normalise. *)
From Coq Require Import ZArith List Bool.
From Model Require Import Base Seq.
From Proofs Require Import C07_proofs.
Open Scope Z_scope.

(* Clause "note-ons and note-offs strictly alternate, starting with a note-on and ending with a note-off": for EVERY
   input list (no hypothesis at all) and every (channel, pitch) k, the NOTE_ON / NOTE_OFF messages of k in the
   output form the word (on off)*: no re-trigger, no orphan off, no unclosed note. *)
Theorem C07_alternate : forall (l : list msg) (k : k2), alt k false (normalise l) = true.
Proof. exact C07_proofs.C07_alternate. Qed.
Print Assumptions C07_alternate.

(* Clause "a time or key signature that repeats the one in force is gone": for every input list, no TIME_SIGNATURE of
   the output has the (numerator, denominator) of the previous TIME_SIGNATURE of the output (initially none =
   (-1,-1)), and no KEY_SIGNATURE has the key of the previous one (initially None). *)
Theorem C07_nodup_sig : forall l : list msg,
  ts_ok (NONE, NONE) (normalise l) = true /\ ks_ok None (normalise l) = true.
Proof. exact C07_proofs.C07_nodup_sig. Qed.
Print Assumptions C07_nodup_sig.

(* Clause "the total duration is unchanged": for every input list whose waits are non-negative. *)
Theorem C07_duration : forall l : list msg, nonneg_waits l = true -> dur_rel (normalise l) = dur_rel l.
Proof. exact C07_proofs.C07_duration. Qed.
Print Assumptions C07_duration.

(* Clause "if the input's notes were already paired, the set of sounding (channel, pitch, tick) triples is unchanged,
   with overlapping notes of the same channel and pitch fused into their union": for every input with non-negative
   waits whose notes are paired (balanced: per (channel, pitch) no NOTE_OFF at depth 0 and final depth 0; nesting and
   overlap allowed), a tick t is sounding for key k (lies in a wait during which the nesting depth of k is > 0) in
   the output iff it is in the input.  Together with C07_alternate (output depth is 0 or 1) this is the fusion into
   the union. *)
Theorem C07_sound : forall l : list msg, nonneg_waits l = true -> balanced l = true ->
  forall (k : k2) (t : Z), sounding k t 0 0 (normalise l) = sounding k t 0 0 l.
Proof. exact C07_proofs.C07_sound. Qed.
Print Assumptions C07_sound.

(* Clause "normalising a second time changes nothing observable": for EVERY input list (no hypothesis), the second
   pass keeps every non-wait message, unchanged, in the same order and at the same tick, and keeps the duration.
   (Not list equality: see C07_idem_not_syntactic.) *)
Theorem C07_idem : forall l : list msg,
  timed 0 (normalise (normalise l)) = timed 0 (normalise l) /\
  dur_rel (normalise (normalise l)) = dur_rel (normalise l).
Proof. exact C07_proofs.C07_idem. Qed.
Print Assumptions C07_idem.

(* Finding: the second pass is not literally the identity, even on paired input: the channel of the trailing wait is
   taken from the first message of the list being normalised, which the first pass may have changed; on ill-formed
   input the two waits left around a removed unclosed NOTE_ON are merged only by the second pass. *)
Theorem C07_idem_not_syntactic :
  exists l, nonneg_waits l = true /\ balanced l = true /\ normalise (normalise l) <> normalise l.
Proof. exact C07_proofs.C07_idem_not_syntactic. Qed.
Print Assumptions C07_idem_not_syntactic.
