(* C20 -- key and circle-of-fifths tables.  Everything here is about coq/Gen/MusicTheory.v, which is regenerated
   from scoda/misc/music_theory.py on every run: the proofs are re-checked against what the file says now. *)
From Coq Require Import ZArith List Bool Lia.
From Gen Require Import MusicTheory.
Import ListNotations.
Open Scope Z_scope.

(* ---- congruence lemmas: the functions only look at their integer arguments modulo 12 *)
Lemma transpose_key_mod (k : Key) (i : Z) : transpose_key k i = transpose_key k (i mod 12).
Proof.
  unfold transpose_key. rewrite Z.mod_mod by lia.
  destruct (negb ((i mod 12) =? 0)); [|reflexivity].
  destruct (if dict_mem key_eqb k key_transpose_mapping then _ else _) as [k'|]; cbn [obind]; [|reflexivity].
  destruct (list_index key_eqb k' key_transpose_order) as [ix|]; cbn [obind]; [|reflexivity].
  now rewrite Zplus_mod_idemp_r.
Qed.

Lemma get_position_mod (n : Z) : get_position n = get_position (n mod 12).
Proof. unfold get_position. now rewrite Z.mod_mod by lia. Qed.

Lemma get_distance_mod (a b : Z) : get_distance a b = get_distance (a mod 12) (b mod 12).
Proof. unfold get_distance. now rewrite <- !get_position_mod. Qed.

Lemma from_distance_mod (a d : Z) : from_distance a d = from_distance (a mod 12) (d mod 12).
Proof.
  unfold from_distance. rewrite Z.mod_mod by lia.
  destruct (obind (note_of_value (a mod 12)) _) as [p|]; cbn [obind]; [|reflexivity].
  now rewrite Zplus_mod_idemp_r.
Qed.

(* ---- the finite quotient: 15 keys x 12 residues, 12 x 12 pitch classes *)
Definition residues : list Z := [0;1;2;3;4;5;6;7;8;9;10;11].
Lemma residues_spec (i : Z) : In (i mod 12) residues.
Proof.
  assert (H : 0 <= i mod 12 < 12) by (apply Z.mod_pos_bound; lia).
  unfold residues. cbn [In].
  assert (i mod 12 = 0 \/ i mod 12 = 1 \/ i mod 12 = 2 \/ i mod 12 = 3 \/ i mod 12 = 4 \/ i mod 12 = 5 \/
          i mod 12 = 6 \/ i mod 12 = 7 \/ i mod 12 = 8 \/ i mod 12 = 9 \/ i mod 12 = 10 \/ i mod 12 = 11) by lia.
  intuition.
Qed.
Lemma all_keys_spec (k : Key) : In k all_keys.
Proof. destruct k; cbn; tauto. Qed.

Definition tonic (k : Key) : option Z :=
  match dict_get key_eqb k KeyNoteMapping with
  | Some (n :: _, _) => Some (note_value n)
  | _ => None
  end.
Definition scale_set (k : Key) : option (list Z) :=
  match dict_get key_eqb k KeyNoteMapping with Some (ns, _) => Some (map note_value ns) | None => None end.
Definition same_set (a b : list Z) : bool :=
  forallb (fun x => existsb (Z.eqb x) b) a && forallb (fun x => existsb (Z.eqb x) a) b.
Definition major : list Z := [0; 2; 4; 5; 7; 9; 11].

(* one residue check for one key *)
Definition key_ok (k : Key) (i : Z) : bool :=
  match transpose_key k i, tonic k, scale_set k with
  | Some k', Some t, Some sc =>
      match tonic k', scale_set k' with
      | Some t', Some sc' =>
          Z.eqb t' ((t + i) mod 12) && same_set sc' (map (fun x => (x + i) mod 12) sc) &&
          same_set sc (map (fun x => (t + x) mod 12) major)
      | _, _ => false
      end
  | _, _, _ => false
  end.
Definition add_ok (k : Key) (i j : Z) : bool :=
  match transpose_key k i with
  | Some k1 => match transpose_key k1 j, transpose_key k ((i + j) mod 12) with
               | Some a, Some b => match tonic a, tonic b with Some x, Some y => Z.eqb x y | _, _ => false end
               | _, _ => false end
  | None => false
  end.
Lemma keys_sweep : forallb (fun k => forallb (key_ok k) residues) all_keys = true.
Proof. vm_compute. reflexivity. Qed.
Lemma add_sweep : forallb (fun k => forallb (fun i => forallb (add_ok k i) residues) residues) all_keys = true.
Proof. vm_compute. reflexivity. Qed.

Definition dist_ok (a b : Z) : bool :=
  match get_distance a b, get_position a, get_position b with
  | Some d, Some pa, Some pb =>
      (-5 <=? d) && (d <=? 6) && Z.eqb ((pb - pa - d) mod 12) 0 &&
      match from_distance a (d mod 12) with Some r => Z.eqb r b | None => false end
  | _, _, _ => false
  end.
Lemma dist_sweep : forallb (fun a => forallb (dist_ok a) residues) residues = true.
Proof. vm_compute. reflexivity. Qed.

(* ---- lifted to all integers *)
Lemma key_ok_all (k : Key) (i : Z) : key_ok k (i mod 12) = true.
Proof.
  pose proof keys_sweep as H. rewrite forallb_forall in H.
  specialize (H k (all_keys_spec k)). rewrite forallb_forall in H. apply H, residues_spec.
Qed.

Lemma C20_total (k : Key) (i : Z) : exists k', transpose_key k i = Some k'.
Proof.
  pose proof (key_ok_all k i) as H. unfold key_ok in H. rewrite <- transpose_key_mod in H.
  destruct (transpose_key k i) as [k'|]; [eauto|discriminate].
Qed.

Lemma C20_tonic_scale (k : Key) (i : Z) :
  exists k' t sc t' sc',
    transpose_key k i = Some k' /\ tonic k = Some t /\ scale_set k = Some sc /\
    tonic k' = Some t' /\ scale_set k' = Some sc' /\
    t' = (t + i) mod 12 /\
    same_set sc' (map (fun x => (x + i) mod 12) sc) = true /\
    same_set sc (map (fun x => (t + x) mod 12) major) = true.
Proof.
  pose proof (key_ok_all k i) as H. unfold key_ok in H. rewrite <- transpose_key_mod in H.
  destruct (transpose_key k i) as [k'|] eqn:Ek; [|discriminate].
  destruct (tonic k) as [t|] eqn:Et; [|discriminate]. destruct (scale_set k) as [sc|] eqn:Es; [|discriminate].
  destruct (tonic k') as [t'|] eqn:Et'; [|discriminate]. destruct (scale_set k') as [sc'|] eqn:Es'; [|discriminate].
  apply andb_prop in H as [H H3]. apply andb_prop in H as [H1 H2].
  exists k', t, sc, t', sc'.
  apply Z.eqb_eq in H1.
  assert (E1 : t' = (t + i) mod 12) by (rewrite H1; apply Zplus_mod_idemp_r).
  assert (E2 : same_set sc' (map (fun x => (x + i) mod 12) sc) = true).
  { erewrite map_ext; [exact H2|]. intros x. cbn. now rewrite Zplus_mod_idemp_r. }
  split; [reflexivity|]. split; [reflexivity|]. split; [reflexivity|]. split; [exact Et'|]. split; [exact Es'|].
  split; [exact E1|]. split; [exact E2|exact H3].
Qed.

Lemma C20_additive (k : Key) (i j : Z) :
  exists k1 a b x, transpose_key k i = Some k1 /\ transpose_key k1 j = Some a /\
                   transpose_key k (i + j) = Some b /\ tonic a = Some x /\ tonic b = Some x.
Proof.
  pose proof add_sweep as H. rewrite forallb_forall in H. specialize (H k (all_keys_spec k)).
  rewrite forallb_forall in H. specialize (H (i mod 12) (residues_spec i)).
  rewrite forallb_forall in H. specialize (H (j mod 12) (residues_spec j)).
  unfold add_ok in H. rewrite <- transpose_key_mod in H.
  destruct (transpose_key k i) as [k1|] eqn:E1; [|discriminate].
  rewrite <- (transpose_key_mod k1 j) in H.
  rewrite <- Zplus_mod, <- (transpose_key_mod k (i + j)) in H.
  destruct (transpose_key k1 j) as [a|] eqn:E2; [|discriminate].
  destruct (transpose_key k (i + j)) as [b|] eqn:E3; [|discriminate].
  destruct (tonic a) as [x|] eqn:E4; [|discriminate]. destruct (tonic b) as [y|] eqn:E5; [|discriminate].
  apply Z.eqb_eq in H. subst y. exists k1, a, b, x. auto.
Qed.

Lemma tonic_range (k : Key) (t : Z) : tonic k = Some t -> 0 <= t < 12.
Proof. destruct k; intros H; vm_compute in H; injection H as <-; lia. Qed.

Lemma C20_identity (k : Key) (m : Z) :
  exists k' t, transpose_key k (12 * m) = Some k' /\ tonic k = Some t /\ tonic k' = Some t.
Proof.
  destruct (C20_tonic_scale k (12 * m)) as (k' & t & sc & t' & sc' & H1 & H2 & _ & H4 & _ & H6 & _).
  exists k', t. split; [exact H1|]. split; [exact H2|]. rewrite H4, H6. f_equal.
  rewrite (Z.mul_comm 12 m), Z_mod_plus_full. apply Z.mod_small. eapply tonic_range; eauto.
Qed.

Lemma C20_distance (a b : Z) :
  exists d pa pb, get_distance a b = Some d /\ get_position a = Some pa /\ get_position b = Some pb /\
                  -5 <= d <= 6 /\ (pb - pa - d) mod 12 = 0 /\ from_distance a d = Some (b mod 12).
Proof.
  pose proof dist_sweep as H. rewrite forallb_forall in H. specialize (H (a mod 12) (residues_spec a)).
  rewrite forallb_forall in H. specialize (H (b mod 12) (residues_spec b)).
  unfold dist_ok in H. rewrite <- get_distance_mod, <- !get_position_mod in H.
  destruct (get_distance a b) as [d|] eqn:Ed; [|discriminate].
  destruct (get_position a) as [pa|] eqn:Ea; [|discriminate]. destruct (get_position b) as [pb|] eqn:Eb; [|discriminate].
  apply andb_prop in H as [H H4]. apply andb_prop in H as [H H3]. apply andb_prop in H as [H1 H2].
  rewrite <- from_distance_mod in H4.
  destruct (from_distance a d) as [r|] eqn:Er; [|discriminate].
  apply Z.eqb_eq in H4, H3. apply Z.leb_le in H1, H2.
  exists d, pa, pb. subst r. repeat split; auto.
Qed.

(* non-vacuity: concrete values *)
Example C20_example : transpose_key K_D_B (-13) = Some K_C /\ get_distance 60 66 = Some 6 /\ from_distance 60 6 = Some 6.
Proof. vm_compute. auto. Qed.

(* ---- accidental counts of KeyNoteMapping against the circle of fifths (15 keys, complete enumeration) *)
Definition accidentals (k : Key) : option Z :=
  match dict_get key_eqb k KeyNoteMapping with Some (_, c) => Some c | None => None end.
Definition acc_ok (k : Key) : bool :=
  match tonic k, accidentals k with
  | Some t, Some c =>
      match get_distance 0 t with
      | Some d => (0 <=? c) && (c <=? 7) && (Z.eqb ((c - d) mod 12) 0 || Z.eqb ((c + d) mod 12) 0)
      | None => false
      end
  | _, _ => false
  end.
Lemma acc_sweep : forallb acc_ok all_keys = true.
Proof. vm_compute. reflexivity. Qed.

Lemma C20_accidentals (k : Key) :
  exists t c d, tonic k = Some t /\ accidentals k = Some c /\ get_distance 0 t = Some d /\
                0 <= c <= 7 /\ ((c - d) mod 12 = 0 \/ (c + d) mod 12 = 0).
Proof.
  pose proof acc_sweep as H. rewrite forallb_forall in H. specialize (H k (all_keys_spec k)).
  unfold acc_ok in H.
  destruct (tonic k) as [t|]; [|discriminate]. destruct (accidentals k) as [c|]; [|discriminate].
  destruct (get_distance 0 t) as [d|] eqn:Ed; [|discriminate].
  apply andb_prop in H as [H H3]. apply andb_prop in H as [H1 H2].
  apply Z.leb_le in H1. apply Z.leb_le in H2. apply orb_prop in H3.
  exists t, c, d.
  split; [reflexivity|]. split; [reflexivity|]. split; [exact Ed|]. split; [split; assumption|].
  destruct H3 as [H3|H3]; apply Z.eqb_eq in H3; [left|right]; exact H3.
Qed.

(* two keys with the same tonic (enharmonic spellings) have accidental counts that add up to 12 *)
Definition enh_ok (a b : Key) : bool :=
  match tonic a, tonic b, accidentals a, accidentals b with
  | Some ta, Some tb, Some ca, Some cb =>
      if Z.eqb ta tb && negb (key_eqb a b) then Z.eqb (ca + cb) 12 else true
  | _, _, _, _ => false
  end.
Lemma enh_sweep : forallb (fun a => forallb (enh_ok a) all_keys) all_keys = true.
Proof. vm_compute. reflexivity. Qed.
Lemma C20_enharmonic_accidentals (a b : Key) (t ca cb : Z) :
  tonic a = Some t -> tonic b = Some t -> a <> b ->
  accidentals a = Some ca -> accidentals b = Some cb -> ca + cb = 12.
Proof.
  intros Ha Hb Hne Hca Hcb.
  pose proof enh_sweep as H. rewrite forallb_forall in H. specialize (H a (all_keys_spec a)).
  rewrite forallb_forall in H. specialize (H b (all_keys_spec b)).
  unfold enh_ok in H. rewrite Ha, Hb, Hca, Hcb, Z.eqb_refl in H. cbn [andb] in H.
  destruct (key_eqb a b) eqn:E.
  - exfalso. apply Hne. unfold key_eqb in E. apply Z.eqb_eq in E. destruct a, b; try reflexivity; discriminate E.
  - cbn [negb] in H. apply Z.eqb_eq in H. exact H.
Qed.
