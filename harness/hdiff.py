"""debug helper: first differing step of history correspondence cases"""
import sys, os, collections
sys.path.insert(0, os.path.dirname(os.path.abspath(__file__)))
import corr
n = int(sys.argv[1]) if len(sys.argv) > 1 else 300
r = corr.correspond("history", n, int(os.environ.get("VERIF_SEED", "0")))
cnt = collections.Counter()
for d in r["disagreements"]:
    a = d["impl"].split("$"); b = d["model"].split("$")
    for k, (x, y) in enumerate(zip(a, b)):
        if x != y:
            op = d["input"][k]
            cnt[op[0]] += 1
            print("STEP", k, "OP", op)
            print("  prev :", a[k - 1][-500:] if k else "")
            xa, ya = x.split("#"), y.split("#")
            for i, (u, v) in enumerate(zip(xa, ya)):
                if u != v:
                    print(f"  obj{i} impl :", u[:900]); print(f"  obj{i} model:", v[:900])
            if len(xa) != len(ya): print("  object counts", len(xa), len(ya))
            break
print(cnt)
