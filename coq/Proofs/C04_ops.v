(* C04_ops.v -- value level: every operation on an absolute list keeps it time-sorted and well-formed (no negative
   time, no WAIT), every operation on a relative list keeps it well-formed (no negative wait). *)
From Coq Require Import ZArith List Bool Lia Permutation.
From Model Require Import Base Seq Pairing Util Bars Store.
From Proofs Require Import C04_sort C04_proofs.
Import ListNotations.
Open Scope Z_scope.

(* ---------------------------------------------------------------- generic list facts *)
Lemma fold_left_inv {A B} (P : A -> Prop) (f : A -> B -> A) (l : list B) (a : A) :
  (forall acc x, In x l -> P acc -> P (f acc x)) -> P a -> P (fold_left f l a).
Proof.
  revert a. induction l as [|x l IH]; intros a Hf Ha; [exact Ha|].
  cbn [fold_left]. apply IH; [intros acc y Hy; apply Hf; now right|]. apply Hf; [now left|exact Ha].
Qed.

Lemma forallb_set_nth {A} (P : A -> bool) (f : A -> A) (n : nat) (l : list A) :
  (forall x, P x = true -> P (f x) = true) -> forallb P l = true -> forallb P (set_nth n f l) = true.
Proof.
  intro Hf. revert n. induction l as [|x l IH]; intros n H; [destruct n; exact H|].
  cbn [forallb] in H. apply andb_prop in H. destruct H as [Hx Hl].
  destruct n; cbn [set_nth forallb].
  - now rewrite (Hf x Hx), Hl.
  - now rewrite Hx, (IH n Hl).
Qed.

Lemma forallb_firstn {A} (P : A -> bool) (n : nat) (l : list A) :
  forallb P l = true -> forallb P (firstn n l) = true.
Proof.
  rewrite !forallb_forall. intros H x Hx. apply H. rewrite <- (firstn_skipn n l). apply in_or_app. now left.
Qed.
Lemma forallb_skipn {A} (P : A -> bool) (n : nat) (l : list A) :
  forallb P l = true -> forallb P (skipn n l) = true.
Proof.
  rewrite !forallb_forall. intros H x Hx. apply H. rewrite <- (firstn_skipn n l). apply in_or_app. now right.
Qed.
Lemma forallb_filter {A} (P Q : A -> bool) (l : list A) :
  forallb P l = true -> forallb P (filter Q l) = true.
Proof.
  rewrite !forallb_forall. intros H x Hx. apply H. apply filter_In in Hx. tauto.
Qed.
Lemma forallb_concat {A} (P : A -> bool) (ls : list (list A)) :
  forallb (forallb P) ls = true -> forallb P (concat ls) = true.
Proof.
  induction ls as [|l ls IH]; intro H; [reflexivity|].
  cbn [forallb] in H. apply andb_prop in H. destruct H as [H1 H2].
  cbn [concat]. now rewrite forallb_app, H1, (IH H2).
Qed.
Lemma forallb_map_same {A} (P : A -> bool) (f : A -> A) (l : list A) :
  (forall x, P x = true -> P (f x) = true) -> forallb P l = true -> forallb P (map f l) = true.
Proof.
  intros Hf. rewrite !forallb_forall. intros H y Hy. apply in_map_iff in Hy. destruct Hy as [x [<- Hx]].
  apply Hf, H, Hx.
Qed.

Lemma is_wait_type (m : msg) : is_wait m = true <-> m_type m = WAIT.
Proof. unfold is_wait, mtype_eqb. destruct (m_type m); cbn; split; congruence. Qed.

Lemma wfr_msg_nonwait (m : msg) : is_wait m = false -> wfr_msg m = true.
Proof. unfold wfr_msg. now intros ->. Qed.

Lemma wfr_msg_wait (c t : Z) (f : bool) : 0 <= t -> wfr_msg (mk_wait c t f) = true.
Proof. intro H. unfold wfr_msg. cbn. apply Z.leb_le. exact H. Qed.

Lemma wfr_cons (m : msg) (l : list msg) : wfr (m :: l) = wfr_msg m && wfr l.
Proof. reflexivity. Qed.
Lemma wfa_cons (m : msg) (l : list msg) : wfa (m :: l) = wfa_msg m && wfa l.
Proof. reflexivity. Qed.

Lemma wfr_snoc (l : list msg) (m : msg) : wfr l = true -> wfr_msg m = true -> wfr (l ++ [m]) = true.
Proof. intros H1 H2. rewrite wfr_app, H1. cbn. now rewrite H2. Qed.

(* ================================================================ absolute side *)
Definition abs_ok (a : list msg) : Prop := tsorted a = true /\ wfa a = true.

Lemma abs_ok_nil : abs_ok [].
Proof. split; reflexivity. Qed.

Lemma abs_ok_sort (a : list msg) : wfa a = true -> abs_ok (sort_abs a).
Proof. intro H. split; [apply sort_abs_tsorted|]. eapply wfa_perm; [apply sort_abs_perm|exact H]. Qed.

Lemma abs_ok_insort (m : msg) (a : list msg) : wfa_msg m = true -> abs_ok a -> abs_ok (insort m a).
Proof.
  intros Hm [Hs Hw]. split; [now apply insort_tsorted|].
  eapply wfa_perm; [apply insort_perm|]. now rewrite wfa_cons, Hm, Hw.
Qed.

Lemma abs_ok_fold_insort (ms : list msg) : wfa ms = true -> abs_ok (fold_left (fun acc m => insort m acc) ms []).
Proof.
  intro H. split; [now apply fold_insort_tsorted|].
  eapply wfa_perm; [apply fold_insort_perm|]. now rewrite app_nil_r.
Qed.

Lemma abs_ok_to_abs (r : list msg) : wfr r = true -> abs_ok (to_abs r).
Proof. intro H. split; [apply to_abs_tsorted|now apply to_abs_wfa]. Qed.

Lemma abs_ok_merge (a : list msg) (others : list (list msg)) :
  wfa a = true -> forallb wfa others = true -> abs_ok (merge_abs a others).
Proof.
  intros Ha Ho. unfold merge_abs. apply abs_ok_sort. rewrite wfa_app, Ha. cbn. now apply forallb_concat.
Qed.

(* edits: a time edit must set a non-negative time *)
Definition edit_wf (e : edit) : bool := match e with (_, FTime, v) => 0 <=? v | _ => true end.

Lemma apply_edit_wfa (m : msg) (f : field) (v : Z) :
  edit_wf (O, f, v) = true -> wfa_msg m = true -> wfa_msg (apply_edit m f v) = true.
Proof.
  intros He Hm. unfold wfa_msg in *. apply andb_prop in Hm. destruct Hm as [H1 H2].
  destruct f; cbn [apply_edit].
  - change (is_wait (set_time m v false)) with (is_wait m). cbn [set_time m_time]. cbn in He. now rewrite He, H2.
  - change (is_wait (set_chan m v)) with (is_wait m). cbn [set_chan m_time]. now rewrite H1, H2.
  - change (is_wait (set_note m v)) with (is_wait m). cbn [set_note m_time]. now rewrite H1, H2.
  - change (is_wait (set_vel m v)) with (is_wait m). cbn [set_vel m_time]. now rewrite H1, H2.
  - change (is_wait (set_sig m v (m_den m))) with (is_wait m). cbn [set_sig m_time]. now rewrite H1, H2.
  - change (is_wait (set_sig m (m_num m) v)) with (is_wait m). cbn [set_sig m_time]. now rewrite H1, H2.
Qed.

Lemma apply_edits_wfa (a : list msg) (es : list edit) :
  forallb edit_wf es = true -> wfa a = true -> wfa (apply_edits a es) = true.
Proof.
  intros He Ha. unfold apply_edits. apply fold_left_inv; [|exact Ha].
  intros acc [[i f] v] Hin Hacc. rewrite forallb_forall in He. specialize (He _ Hin).
  apply forallb_set_nth; [|exact Hacc]. intros m Hm. apply apply_edit_wfa; [|exact Hm].
  destruct f; try reflexivity. exact He.
Qed.

Lemma abs_ok_edit (a : list msg) (es : list edit) :
  forallb edit_wf es = true -> wfa a = true -> abs_ok (sort_abs (apply_edits a es)).
Proof. intros He Ha. apply abs_ok_sort. now apply apply_edits_wfa. Qed.

(* ================================================================ relative side *)
Lemma wfr_py_insert (r : list msg) (i : Z) (m : msg) :
  wfr r = true -> wfr_msg m = true -> wfr (py_insert r i m) = true.
Proof.
  intros Hr Hm. unfold py_insert. rewrite !wfr_app. unfold wfr in *.
  rewrite forallb_firstn, forallb_skipn by exact Hr. cbn. now rewrite Hm.
Qed.

Lemma wfr_set_channel (r : list msg) (c : Z) : wfr r = true -> wfr (set_channel r c) = true.
Proof. intro H. unfold set_channel, wfr. apply forallb_map_same; [|exact H]. intros m Hm. exact Hm. Qed.

Lemma wfr_scale (r : list msg) (k : Z) : 0 <= k -> wfr r = true -> wfr (scale r k) = true.
Proof.
  intros Hk H. unfold scale. destruct (k =? 1); [exact H|].
  unfold wfr. apply forallb_map_same; [|exact H]. intros m Hm.
  destruct (is_wait m) eqn:E; [|exact Hm].
  unfold wfr_msg in *. rewrite is_wait_set_time, E in *. cbn in *. apply Z.leb_le in Hm. apply Z.leb_le.
  apply Z.mul_nonneg_nonneg; assumption.
Qed.

Lemma transpose_msg_wfr (k : Z) (m : msg) : wfr_msg m = true -> wfr_msg (fst (transpose_msg k m)) = true.
Proof.
  intro H. unfold transpose_msg. destruct (is_note m); [exact H|].
  destruct (mtype_eqb (m_type m) KEY_SIGNATURE); exact H.
Qed.

Lemma wfr_transpose (r : list msg) (k : Z) : wfr r = true -> wfr (fst (transpose r k)) = true.
Proof.
  intro H. unfold transpose. cbn [fst]. rewrite map_map. unfold wfr in *.
  rewrite forallb_forall in *. intros y Hy. apply in_map_iff in Hy. destruct Hy as [x [<- Hx]].
  apply transpose_msg_wfr, H, Hx.
Qed.

Lemma wfr_pad (r : list msg) (p : Z) (pf : bool) : wfr r = true -> wfr (pad r p pf) = true.
Proof.
  intro H. unfold pad. destruct (pad_len r 0 false p) as [c f].
  destruct (c <? p) eqn:E; [|exact H]. apply Z.ltb_lt in E.
  apply wfr_snoc; [exact H|]. apply wfr_msg_wait. lia.
Qed.

(* relative edits: type never changes; a time edit only reaches WAIT messages *)
Lemma apply_edits_rel_wfr (r : list msg) (es : list edit) :
  forallb edit_wf es = true -> wfr r = true -> wfr (apply_edits_rel r es) = true.
Proof.
  intros He Hr. unfold apply_edits_rel. apply fold_left_inv; [|exact Hr].
  intros acc [[i f] v] Hin Hacc. rewrite forallb_forall in He. specialize (He _ Hin).
  apply forallb_set_nth; [|exact Hacc]. intros m Hm.
  destruct f; try exact Hm.
  destruct (is_wait m) eqn:E; [|exact Hm].
  unfold wfr_msg. cbn [apply_edit]. rewrite is_wait_set_time, E. cbn. exact He.
Qed.

(* ---------------------------------------------------------------- normalise: its output is ALWAYS well-formed *)
Lemma flush_wfr (s : nstate) (c : Z) (m : msg) :
  wfr (n_out s) = true -> wfr_msg m = true -> wfr (n_out (flush s c m)) = true.
Proof.
  intros Hs Hm. unfold flush. cbn [n_out]. apply wfr_snoc; [|exact Hm].
  destruct (0 <? n_wait s) eqn:E; [|exact Hs]. apply Z.ltb_lt in E.
  apply wfr_snoc; [exact Hs|]. apply wfr_msg_wait. lia.
Qed.

Lemma nstep_wfr (s : nstate) (m : msg) : wfr (n_out s) = true -> wfr (n_out (nstep s m)) = true.
Proof.
  intro Hs. unfold nstep.
  assert (Hnw : m_type m <> WAIT -> wfr_msg m = true).
  { intro H. apply wfr_msg_nonwait. destruct (is_wait m) eqn:E; [|reflexivity]. apply is_wait_type in E. contradiction. }
  destruct (m_type m) eqn:Et.
  - apply flush_wfr; [exact Hs|apply Hnw; discriminate].
  - apply flush_wfr; [exact Hs|apply Hnw; discriminate].
  - destruct (okey_eqb _ _); [exact Hs|]. apply flush_wfr; [exact Hs|apply Hnw; discriminate].
  - destruct (_ && _); [exact Hs|]. apply flush_wfr; [exact Hs|apply Hnw; discriminate].
  - apply flush_wfr; [exact Hs|apply Hnw; discriminate].
  - apply flush_wfr; [exact Hs|apply Hnw; discriminate].
  - destruct (depth _ _) as [|d]; [exact Hs|]. destruct d; [|exact Hs].
    apply flush_wfr; [exact Hs|apply Hnw; discriminate].
  - destruct (depth _ _) as [|d]; [|exact Hs]. apply flush_wfr; [exact Hs|apply Hnw; discriminate].
  - exact Hs.
Qed.

Lemma remove_last_on_wfr (k : k2) (l : list msg) : wfr l = true -> wfr (fst (remove_last_on k l)) = true.
Proof.
  induction l as [|m l IH]; intro H; [reflexivity|].
  rewrite wfr_cons in H. apply andb_prop in H. destruct H as [Hm Hl]. specialize (IH Hl).
  cbn [remove_last_on]. destruct (remove_last_on k l) as [r found]. cbn [fst] in IH.
  destruct found; cbn [fst]; [now rewrite wfr_cons, Hm, IH|].
  destruct (is_on m && k2_eqb k (m_chan m, m_note m)); cbn [fst]; [exact IH|now rewrite wfr_cons, Hm, IH].
Qed.

Lemma wfr_normalise (l : list msg) : wfr (normalise l) = true.
Proof.
  unfold normalise.
  set (s := fold_left nstep l _).
  assert (Hs : wfr (n_out s) = true).
  { unfold s. apply fold_left_inv; [|reflexivity]. intros acc x _ Hacc. now apply nstep_wfr. }
  unfold cleanup. apply fold_left_inv.
  - intros acc kd _ Hacc. destruct (snd kd); [exact Hacc|]. now apply remove_last_on_wfr.
  - destruct (0 <? n_wait s) eqn:E; [|exact Hs]. apply Z.ltb_lt in E.
    apply wfr_snoc; [exact Hs|]. apply wfr_msg_wait. lia.
Qed.

(* ---------------------------------------------------------------- Bar constructor *)
Lemma wfr_bar_init_full (r : list msg) (num den : Z) : wfr (fst (bar_init_full r num den)) = true.
Proof.
  unfold bar_init_full.
  pose proof (wfr_normalise r) as Hn.
  destruct (_ <? dur_rel (normalise r)); [exact Hn|].
  set (r1 := if dur_rel (normalise r) <? _ then _ else _).
  assert (H1 : wfr r1 = true). { unfold r1. destruct (_ <? _); [now apply wfr_pad|exact Hn]. }
  destruct (1 <? _); [exact H1|]. destruct (negb _); [exact H1|].
  cbn [fst]. rewrite wfr_cons. cbn. unfold wfr in *. now apply forallb_filter.
Qed.

Lemma wfr_bar_init (r r' : list msg) (num den : Z) : bar_init r num den = Ok r' -> wfr r' = true.
Proof.
  unfold bar_init. pose proof (wfr_bar_init_full r num den) as H.
  destruct (bar_init_full r num den) as [x [e|]]; [discriminate|]. intro E. injection E as <-. exact H.
Qed.
