(* C03 (piece level, without the open-end restriction), part 1 -- a "virtual cap": appending an INTERNAL cap at the end
   of the bar in which a call's events stop does not change what `core` does (the closing rest of `tokenise` completes
   that bar anyway).  Hence chunks whose front end wrote no cap (a track ends on a NOTE_OFF at the group's end) can be
   treated as chunks that end with one. *)
From Coq Require Import ZArith List Bool Lia Permutation.
From Model Require Import Base Util Seq Pairing Tok.
From Proofs Require Import C01_rest C01_proofs C03_proofs.
Import ListNotations.
Open Scope Z_scope.

Definition capped (aT : list event * Z) : list event := fst aT ++ [ev_cap (snd aT)].

(* where the reference clock stands after the real events: already at the chunk's end T, or inside a bar that ends at
   T and was entered (position > 0) or holds a note *)
Definition vcap_cond (k : rclk) (T : Z) : Prop :=
  r_time k = T \/ (r_time k - r_tbar k + r_total k = T /\ (0 < r_tbar k \/ r_has k = true)).

Lemma tok_event_cap c sh s T :
  tok_event c sh s (ev_cap T) =
  (if l_time s =? T + sh then Ok s else apply_rest (rest_fuel (T + sh - l_time s)) c s (T + sh - l_time s)).
Proof.
  unfold tok_event, ev_cap. cbn [snd p_first fst mk_internal m_time m_type].
  destruct (if l_time s =? T + sh then Ok s else _) as [s1|e]; reflexivity.
Qed.

Lemma core_vcap g c st k d a T :
  valid_cfg g c = true -> tgood g c st -> tk_match c st k -> tsim c st d ->
  valid_from g c k (map (shift_ev (t_time st)) a) = true ->
  vcap_cond (fst (ref_run c k (map (shift_ev (t_time st)) a))) (T + t_time st) ->
  core c st (a ++ [ev_cap T]) = core c st a.
Proof.
  intros Hc Hgood Hlk Hsim Hv Hcond. destruct (valid_cfg_parts g c Hc) as (Hgrid & Hg & _).
  set (evs' := map (shift_ev (t_time st)) a) in *.
  destruct (run_sound g c Hc evs' (ls_of c st) k d Hgood Hlk Hsim Hv)
    as (sa & new1 & d1 & Hr1 & _ & _ & Hg1 & Hk1 & _ & _ & Hs1 & _).
  assert (E : foldM (tok_event c (t_time st)) a (ls_of c st) = Ok sa).
  { rewrite <- Hr1. unfold evs'. rewrite foldM_shift. reflexivity. }
  rewrite !core_unfold, foldM_app, E. cbn [rbind foldM]. rewrite tok_event_cap.
  destruct Hk1 as (K1 & K2 & K3 & K4). destruct Hg1 as [Hinv Hdt]. pose proof Hinv as (I1 & I2 & I3 & I4 & I5).
  destruct Hcond as [Ht|(Hend & Htouch)].
  - assert (El : (l_time sa =? T + t_time st) = true) by (apply Z.eqb_eq; lia). rewrite El. reflexivity.
  - assert (Erem : T + t_time st - l_time sa = l_rem sa) by lia.
    assert (El : (l_time sa =? T + t_time st) = false) by (apply Z.eqb_neq; lia). rewrite El, Erem. cbn [rbind].
    assert (Ecl : close c sa = apply_rest (rest_fuel (l_rem sa)) c sa (l_rem sa)).
    { unfold close. replace ((0 <? l_tbar sa) || l_has sa) with true; [|].
      - replace (0 <? l_rem sa) with true by (symmetry; apply Z.ltb_lt; lia). reflexivity.
      - symmetry. destruct Htouch as [Hp|Hh]; [replace (0 <? l_tbar sa) with true by (symmetry; apply Z.ltb_lt; lia); reflexivity|].
        rewrite K4, Hh. apply orb_true_r. }
    rewrite Ecl. destruct Hs1 as (Hclk & _).
    destruct (apply_rest_sound_fuel g c sa (l_rem sa) d1 Hgrid Hinv ltac:(lia) I4 Hclk)
      as (s1 & new & d2 & Hr & _ & _ & _ & Htbar & _ & _ & Hhas & _).
    rewrite Hr. cbn [rbind].
    assert (Hcl1 : close c s1 = Ok s1).
    { unfold close. rewrite Htbar, Hhas, I2, Z_mod_same_full, Z_div_same_full by lia. reflexivity. }
    now rewrite Hcl1.
Qed.

(* the per-chunk conditions, threaded like chunks_ok *)
Fixpoint vcaps_ok (c : cfg) (k : rclk) (chs : list (list event * Z)) : Prop :=
  match chs with
  | [] => True
  | aT :: r =>
      vcap_cond (fst (ref_run c k (map (shift_ev (r_time k)) (fst aT)))) (snd aT + r_time k) /\
      vcaps_ok c (fst (ref_run c k (map (shift_ev (r_time k)) (capped aT)))) r
  end.

Lemma chunked_vcap g c (Hc : valid_cfg g c = true) : forall chs st k d,
  tgood g c st -> tk_match c st k -> tsim c st d -> r_tbar k = 0 ->
  chunks_ok g c k (map capped chs) = true -> vcaps_ok c k chs ->
  chunked c st (map fst chs) = chunked c st (map capped chs).
Proof.
  induction chs as [|[a T] r IH]; intros st k d Hgood Hlk Hsim Hk0 Hok Hvc; [reflexivity|].
  cbn [map chunks_ok vcaps_ok fst snd] in *.
  assert (HT : r_time k = t_time st) by (destruct Hlk as (K1 & _); symmetry; exact K1).
  rewrite HT in Hok, Hvc. destruct Hvc as [Hcond Hvc].
  apply andb_prop in Hok; destruct Hok as [Hok Hrest]. apply andb_prop in Hok; destruct Hok as [Hok Hh].
  apply andb_prop in Hok; destruct Hok as [Hv Htb]. apply Z.eqb_eq in Htb. apply negb_true_iff in Hh.
  assert (Hva : valid_from g c k (map (shift_ev (t_time st)) a) = true).
  { unfold capped in Hv. cbn [fst snd] in Hv. rewrite map_app, valid_from_app in Hv. now apply andb_prop in Hv. }
  cbn [chunked]. rewrite <- (core_vcap g c st k d a T Hc Hgood Hlk Hsim Hva Hcond).
  change (a ++ [ev_cap T]) with (capped (a, T)).
  destruct (chunk_step g c st k d (capped (a, T)) Hc Hgood Hlk Hsim Hv Htb Hh)
    as (s1 & d1 & Hr & Hcl & Hcap & Hhas & Hg1 & Hk1 & Hs1).
  rewrite core_unfold, Hr. cbn [rbind]. rewrite Hcl. cbn [rbind fst snd].
  rewrite (IH (ts_of s1) _ d1 Hg1 Hk1 Hs1 Htb Hrest Hvc). reflexivity.
Qed.
