(* C13 -- Loading rescales file ticks exactly and routes every event to the right sequence.
   A MIDI track is a list of events `mev` (kind, channel, two integer fields, key string, delta time); mido's file
   codec is not modelled.  `rnd a b` is the rounding of the rational a/b to a tick used by the loader; all theorems
   hold for every `rnd` (the position theorem under |rnd a b - a/b| <= 1/2, which round_half_even satisfies).
   Auxiliary definitions (Proofs/C13_proofs.v):
     cell ss g p          : nth_error of sequence p of group g in the loader state (option)
     considered gs ms i   : track i is in some group (locate i gs 0 <> None) or memZ i ms
     keys_ok evs          : every MKs event of the track has a key string known to KeyKeyMapping
     keys_all_ok tracks groups metas : keys_ok for every considered track
     is_nil l             : l = []
     ins_all ms l         : fold_left (fun a m => insort m a) ms l   (a permutation of l ++ ms, lemma ins_all_perm)
     own_msgs / meta_msgs : concatenation, in track order, of the messages each track sends to sequence (g, p) /
                            to the meta list (TOwn messages of the tracks located at (g, p); TMeta messages of the
                            grouped tracks and all messages of the ungrouped meta tracks) *)
From Coq Require Import ZArith List Bool String Permutation Sorted.
From Model Require Import Base Seq Pairing Util Bars Store Midi.
From Proofs Require Import C13_proofs.
Open Scope Z_scope.

(* the executable rounding (Python round(), half to even) is within half a tick of the exact quotient a/b *)
Theorem C13_round_half_even : forall a b, 0 < b -> 2 * Z.abs (round_half_even a b * b - a) <= b.
Proof. exact C13_proofs.C13_round_half_even. Qed.
Print Assumptions C13_round_half_even.

(* clause "every event is placed at the tick nearest to its exact rational position, never accumulating":
   for ANY rounding function within half a tick, the messages produced for one track come, in order, from distinct
   events (indices ks strictly increasing), and the message of the k-th event has time
   rnd (cum * PPQN) tpb where cum = cum0 + the first k+1 delta times, i.e. a function of the cumulative FILE tick
   only; hence |time - cum * PPQN / tpb| <= 1/2 *)
Theorem C13_position :
  forall (rnd : Z -> Z -> Z), (forall a b, 0 < b -> 2 * Z.abs (rnd a b * b - a) <= b) ->
  forall (tpb : Z) (evs : list mev) (cum0 : Z) (grouped : bool) (ms : list (target * msg)),
    0 < tpb ->
    conv_track rnd tpb evs cum0 grouped = Ok ms ->
    exists ks : list nat,
      StronglySorted lt ks /\
      Forall2 (fun k tm => (k < length evs)%nat /\
                 let cum := cum0 + sumZ (map e_dt (firstn (S k) evs)) in
                 m_time (snd tm) = rnd (cum * PPQN) tpb /\
                 2 * Z.abs (m_time (snd tm) * tpb - cum * PPQN) <= tpb) ks ms.
Proof. exact C13_proofs.C13_position. Qed.
Print Assumptions C13_position.

(* what the k-th event of a track yields (completeness).  Notes only when the track is in a group; a note-on with
   velocity 0 (or less) yields a NOTE_OFF; signatures and control changes are addressed to the meta sequence *)
Theorem C13_event_message : forall rnd tpb evs cum0 g ms k e,
  conv_track rnd tpb evs cum0 g = Ok ms -> nth_error evs k = Some e ->
  let t := rnd ((cum0 + sumZ (map e_dt (firstn (S k) evs))) * PPQN) tpb in
  let ch := if Z.eqb (e_chan e) (-1) then 0 else e_chan e in
  match e_kind e with
  | MOn => g = true -> In (TOwn, if 0 <? e_b e then mk_on ch (e_a e) (e_b e) t false else mk_off ch (e_a e) t false) ms
  | MOff => g = true -> In (TOwn, mk_off ch (e_a e) t false) ms
  | MTs => In (TMeta, mk_ts ch (e_a e) (e_b e) t false) ms
  | MKs => exists key, dict_get String.eqb (e_key e) KeyKeyMapping = Some key /\
                       In (TMeta, mk_ks ch (Some key) t false) ms
  | MCc => In (TMeta, mk_cc ch (e_a e) (e_b e) t false) ms
  | MPc => In (TOwn, mk_pc ch (e_a e) t false) ms
  | MOther => True
  end.
Proof. exact C13_proofs.C13_event_message. Qed.
Print Assumptions C13_event_message.

(* where a produced message comes from (soundness): notes only from MOn / MOff events of a grouped track, a
   NOTE_OFF from an MOff or from an MOn with velocity <= 0, signatures only from MTs / MKs events *)
Theorem C13_message_source : forall rnd tpb evs cum0 g ms tg m,
  conv_track rnd tpb evs cum0 g = Ok ms -> In (tg, m) ms ->
  exists k e, nth_error evs k = Some e /\
    let t := rnd ((cum0 + sumZ (map e_dt (firstn (S k) evs))) * PPQN) tpb in
    let ch := if Z.eqb (e_chan e) (-1) then 0 else e_chan e in
    match m_type m with
    | NOTE_ON => g = true /\ tg = TOwn /\ e_kind e = MOn /\ 0 < e_b e /\ m = mk_on ch (e_a e) (e_b e) t false
    | NOTE_OFF => g = true /\ tg = TOwn /\ (e_kind e = MOff \/ (e_kind e = MOn /\ e_b e <= 0)) /\
                  m = mk_off ch (e_a e) t false
    | TIME_SIGNATURE => tg = TMeta /\ e_kind e = MTs /\ m = mk_ts ch (e_a e) (e_b e) t false
    | KEY_SIGNATURE => tg = TMeta /\ e_kind e = MKs /\
                       exists key, dict_get String.eqb (e_key e) KeyKeyMapping = Some key /\ m = mk_ks ch (Some key) t false
    | CONTROL_CHANGE => tg = TMeta /\ e_kind e = MCc /\ m = mk_cc ch (e_a e) (e_b e) t false
    | PROGRAM_CHANGE => tg = TOwn /\ e_kind e = MPc /\ m = mk_pc ch (e_a e) t false
    | _ => False
    end.
Proof. exact C13_proofs.C13_message_source. Qed.
Print Assumptions C13_message_source.

(* routing, exact form: after all tracks the loader state has the shape of `groups`; sequence p of group g is the
   insertion (binary insort, one message after the other, in track order) of exactly the messages addressed to it,
   the meta list likewise *)
Theorem C13_routing_state : forall rnd tpb groups metas tracks st,
  conv_all rnd tpb tracks groups metas = Ok st ->
  let its := mapi (fun i t => (i, t)) tracks in
  cs_meta st = ins_all (meta_msgs rnd tpb groups metas its) [] /\
  map (@length _) (cs_seqs st) = map (@length _) groups /\
  forall g p grp, nth_error groups g = Some grp -> (p < length grp)%nat ->
                  cell (cs_seqs st) g p = Some (ins_all (own_msgs rnd tpb groups its g p) []).
Proof. exact C13_proofs.C13_routing_state. Qed.
Print Assumptions C13_routing_state.

(* ... hence equal as multisets *)
Theorem C13_routing_multiset : forall rnd tpb tracks groups metas st,
  conv_all rnd tpb tracks groups metas = Ok st ->
  let its := mapi (fun i t => (i, t)) tracks in
  Permutation (cs_meta st) (meta_msgs rnd tpb groups metas its) /\
  forall g p grp, nth_error groups g = Some grp -> (p < length grp)%nat ->
    exists l, cell (cs_seqs st) g p = Some l /\ Permutation l (own_msgs rnd tpb groups its g p).
Proof. exact C13_proofs.C13_routing_multiset. Qed.
Print Assumptions C13_routing_multiset.

(* routing, membership form: sequence p of group g contains exactly the TOwn messages (notes, program changes) of
   the tracks whose location `locate i groups` is (g, p) -- nothing from any other track *)
Theorem C13_routing_seq : forall rnd tpb tracks groups metas st g p grp,
  conv_all rnd tpb tracks groups metas = Ok st ->
  nth_error groups g = Some grp -> (p < length grp)%nat ->
  exists l, cell (cs_seqs st) g p = Some l /\
    forall m, In m l <->
      exists n evs ms, nth_error tracks n = Some evs /\ locate (Z.of_nat n) groups O = Some (g, p) /\
                       conv_track rnd tpb evs 0 true = Ok ms /\ In (TOwn, m) ms.
Proof. exact C13_proofs.C13_routing_seq. Qed.
Print Assumptions C13_routing_seq.

(* the meta list contains exactly the TMeta messages (signatures, control changes) of the grouped tracks and all
   messages of the ungrouped meta tracks -- nothing from a track that is in no group and not in `metas` *)
Theorem C13_routing_meta : forall rnd tpb tracks groups metas st,
  conv_all rnd tpb tracks groups metas = Ok st ->
  forall m, In m (cs_meta st) <->
    exists n evs ms, nth_error tracks n = Some evs /\
      ((exists loc, locate (Z.of_nat n) groups O = Some loc /\
                    conv_track rnd tpb evs 0 true = Ok ms /\ In (TMeta, m) ms) \/
       (locate (Z.of_nat n) groups O = None /\ memZ (Z.of_nat n) metas = true /\
        conv_track rnd tpb evs 0 false = Ok ms /\ exists tg, In (tg, m) ms)).
Proof. exact C13_proofs.C13_routing_meta. Qed.
Print Assumptions C13_routing_meta.

(* tracks outside every group contribute no notes: no NOTE_ON / NOTE_OFF ever reaches the meta list (and by
   C13_routing_seq the sequences only receive messages of tracks located there) *)
Theorem C13_routing_meta_no_notes : forall rnd tpb tracks groups metas st,
  conv_all rnd tpb tracks groups metas = Ok st -> forall m, In m (cs_meta st) -> is_note m = false.
Proof. exact C13_proofs.C13_routing_meta_no_notes. Qed.
Print Assumptions C13_routing_meta_no_notes.

(* every time / key signature event of a considered track is on the meta list, at its rounded tick *)
Theorem C13_routing_signatures : forall rnd tpb tracks groups metas st n evs k e,
  conv_all rnd tpb tracks groups metas = Ok st ->
  nth_error tracks n = Some evs -> considered groups metas (Z.of_nat n) = true ->
  nth_error evs k = Some e ->
  let t := rnd (sumZ (map e_dt (firstn (S k) evs)) * PPQN) tpb in
  let ch := if Z.eqb (e_chan e) (-1) then 0 else e_chan e in
  (e_kind e = MTs -> In (mk_ts ch (e_a e) (e_b e) t false) (cs_meta st)) /\
  (e_kind e = MKs -> exists key, dict_get String.eqb (e_key e) KeyKeyMapping = Some key /\
                                 In (mk_ks ch (Some key) t false) (cs_meta st)).
Proof. exact C13_proofs.C13_routing_signatures. Qed.
Print Assumptions C13_routing_signatures.

(* every note event of a grouped track is in the sequence the track is located at; note-on with velocity 0 is a
   note-off *)
Theorem C13_routing_notes : forall rnd tpb tracks groups metas st n evs g p k e,
  conv_all rnd tpb tracks groups metas = Ok st ->
  nth_error tracks n = Some evs -> locate (Z.of_nat n) groups O = Some (g, p) ->
  nth_error evs k = Some e ->
  let t := rnd (sumZ (map e_dt (firstn (S k) evs)) * PPQN) tpb in
  let ch := if Z.eqb (e_chan e) (-1) then 0 else e_chan e in
  exists l, cell (cs_seqs st) g p = Some l /\
    (e_kind e = MOn -> 0 < e_b e -> In (mk_on ch (e_a e) (e_b e) t false) l) /\
    (e_kind e = MOn -> e_b e <= 0 -> In (mk_off ch (e_a e) t false) l) /\
    (e_kind e = MOff -> In (mk_off ch (e_a e) t false) l).
Proof. exact C13_proofs.C13_routing_notes. Qed.
Print Assumptions C13_routing_notes.

(* every note message of a loaded sequence comes from a note event of a track located exactly there *)
Theorem C13_routing_note_source : forall rnd tpb tracks groups metas st g p l m,
  conv_all rnd tpb tracks groups metas = Ok st ->
  cell (cs_seqs st) g p = Some l -> In m l -> is_note m = true ->
  exists n evs k e, nth_error tracks n = Some evs /\ locate (Z.of_nat n) groups O = Some (g, p) /\
    nth_error evs k = Some e /\ (e_kind e = MOn \/ e_kind e = MOff) /\
    m_note m = e_a e /\ m_time m = rnd (sumZ (map e_dt (firstn (S k) evs)) * PPQN) tpb /\
    (is_on m = true <-> e_kind e = MOn /\ 0 < e_b e).
Proof. exact C13_proofs.C13_routing_note_source. Qed.
Print Assumptions C13_routing_note_source.

(* one sequence per requested group *)
Theorem C13_convert_shape : forall rnd tpb tracks groups metas mi seqs,
  convert rnd tpb tracks groups metas mi = Ok seqs -> length seqs = length groups.
Proof. exact C13_proofs.C13_convert_shape. Qed.
Print Assumptions C13_convert_shape.

(* complete case analysis of the outcome: KeyError when a considered track has an unknown key string, else
   IndexError when a group is empty, else ValueError when the meta index is out of range, else success with one
   sequence per group whose meta target has a TIME_SIGNATURE at tick 0 in its (fresh) absolute view *)
Theorem C13_convert_cases : forall rnd tpb tracks groups metas mi,
  let keys := forallb (fun it : Z * list mev => negb (considered groups metas (fst it)) || keys_ok (snd it))
                      (mapi (fun i t => (i, t)) tracks) in
  let r := convert rnd tpb tracks groups metas mi in
  (keys = false /\ r = Err KeyErr) \/
  (keys = true /\ existsb is_nil groups = true /\ r = Err IndexErr) \/
  (keys = true /\ existsb is_nil groups = false /\ (mi < 0 \/ lenZ groups <= mi) /\ r = Err ValueErr) \/
  (keys = true /\ existsb is_nil groups = false /\ 0 <= mi < lenZ groups /\
   exists seqs s, r = Ok seqs /\ length seqs = length groups /\
                  nth_error seqs (Z.to_nat mi) = Some s /\ get_abs s = Ok (s, s_abs s) /\
                  existsb (fun m => is_ts m && Z.eqb (m_time m) 0) (s_abs s) = true).
Proof. exact C13_proofs.C13_convert_cases. Qed.
Print Assumptions C13_convert_cases.

Theorem C13_convert_keyerr : forall rnd tpb tracks groups metas mi,
  convert rnd tpb tracks groups metas mi = Err KeyErr <-> keys_all_ok tracks groups metas = false.
Proof. exact C13_proofs.C13_convert_keyerr. Qed.
Print Assumptions C13_convert_keyerr.

Theorem C13_convert_indexerr : forall rnd tpb tracks groups metas mi,
  keys_all_ok tracks groups metas = true ->
  (convert rnd tpb tracks groups metas mi = Err IndexErr <-> existsb is_nil groups = true).
Proof. exact C13_proofs.C13_convert_indexerr. Qed.
Print Assumptions C13_convert_indexerr.

(* given that the earlier stages succeed: ValueError iff the meta index is out of range *)
Theorem C13_convert_valueerr : forall rnd tpb tracks groups metas mi,
  keys_all_ok tracks groups metas = true -> existsb is_nil groups = false ->
  (convert rnd tpb tracks groups metas mi = Err ValueErr <-> mi < 0 \/ lenZ groups <= mi).
Proof. exact C13_proofs.C13_convert_valueerr. Qed.
Print Assumptions C13_convert_valueerr.

Theorem C13_convert_ok : forall rnd tpb tracks groups metas mi,
  keys_all_ok tracks groups metas = true -> existsb is_nil groups = false -> 0 <= mi < lenZ groups ->
  exists seqs, convert rnd tpb tracks groups metas mi = Ok seqs.
Proof. exact C13_proofs.C13_convert_ok. Qed.
Print Assumptions C13_convert_ok.

(* the meta target's absolute view contains a TIME_SIGNATURE at tick 0 (4/4 is added when the file has none) *)
Theorem C13_meta_has_ts0 : forall rnd tpb tracks groups metas mi seqs,
  convert rnd tpb tracks groups metas mi = Ok seqs ->
  exists s, nth_error seqs (Z.to_nat mi) = Some s /\ get_abs s = Ok (s, s_abs s) /\
            existsb (fun m => is_ts m && Z.eqb (m_time m) 0) (s_abs s) = true.
Proof. exact C13_proofs.C13_meta_has_ts0. Qed.
Print Assumptions C13_meta_has_ts0.

(* clause "returns one sequence per requested group whose sounding set is exactly the union of that group's
   tracks", PARTIAL: every returned sequence other than the meta target is `merge_group` of the row of lists
   characterised exactly by C13_routing_state / C13_routing_seq (one list per track of the group, holding exactly
   that track's notes), and the meta target is merge_group of its row merged with the meta list of
   C13_routing_meta, plus a 4/4 at tick 0 when there is no time signature there.
   MISSING: that merge_group (normalise each list, merge_abs = stable sort of the concatenation, normalise again)
   keeps the sounding set -- needs a characterisation of `normalise` / `to_rel` / `to_abs` / `sort_abs` on the
   loaded lists, which is not proved here (normalise fuses overlapping notes of one pitch and channel and drops
   unclosed notes, so only the sounding set, not the list of notes, can be preserved). *)
Theorem C13_group_union_partial : forall rnd tpb tracks groups metas mi seqs,
  convert rnd tpb tracks groups metas mi = Ok seqs ->
  exists st merged,
    conv_all rnd tpb tracks groups metas = Ok st /\
    mapM merge_group (cs_seqs st) = Ok merged /\ length merged = length seqs /\
    (forall g, g <> Z.to_nat mi -> nth_error seqs g = nth_error merged g) /\
    exists mt mt1 os mt2 a,
      nth_error merged (Z.to_nat mi) = Some mt /\
      seq_merge mt [seq_of_abs (cs_meta st)] = Ok (mt1, os) /\ get_abs mt1 = Ok (mt2, a) /\
      ((existsb (fun m => is_ts m && Z.eqb (m_time m) 0) a = true /\ nth_error seqs (Z.to_nat mi) = Some mt2) \/
       (existsb (fun m => is_ts m && Z.eqb (m_time m) 0) a = false /\
        exists mt3, seq_add_abs mt2 (mk_ts (default_channel tracks groups metas) 4 4 0 false) = Ok mt3 /\
                    nth_error seqs (Z.to_nat mi) = Some mt3)).
Proof. exact C13_proofs.C13_group_union_partial. Qed.
Print Assumptions C13_group_union_partial.

(* C13_position for the executable loader (round half to even): its hypothesis on rnd is satisfied *)
Theorem C13_position_exec : forall tpb evs cum0 grouped ms,
  0 < tpb -> conv_track round_half_even tpb evs cum0 grouped = Ok ms ->
  exists ks : list nat,
    StronglySorted lt ks /\
    Forall2 (fun k tm => (k < length evs)%nat /\
               let cum := cum0 + sumZ (map e_dt (firstn (S k) evs)) in
               m_time (snd tm) = round_half_even (cum * PPQN) tpb /\
               2 * Z.abs (m_time (snd tm) * tpb - cum * PPQN) <= tpb) ks ms.
Proof. exact C13_proofs.C13_position_exec. Qed.
Print Assumptions C13_position_exec.

(* ---------------------------------------------------------------- sounding set of a loaded group *)
From Proofs Require Import C04_sort C07_proofs C15_proofs Sound_glue C15_sound C13_union.
(* Definitions: C15_proofs.sounding k t l := more note-ons than note-offs of key k = (channel, pitch) with time <= t in
   the absolute list l;  nnt / sbal / swf / tsorted as in Props/C15.v (Proofs/Sound_glue.v): non-negative ticks;
   no zero-length note, no orphan note-off, no unclosed note;  strictly alternating per key;  time-sorted. *)

(* the per-group merge (normalise every track list, merge, normalise): the returned sequence sounds exactly where one
   of the RAW track lists sounds; notes of one track may overlap each other, tracks may overlap each other *)
Theorem C13_merge_group_sound : forall (a : list msg) (g : list (list msg)),
  forallb tsorted (a :: g) = true -> forallb nnt (a :: g) = true -> forallb sbal (a :: g) = true ->
  exists s s' v, merge_group (a :: g) = Ok s /\ get_abs s = Ok (s', v) /\
    (forall k t, C15_proofs.sounding k t v = existsb (C15_proofs.sounding k t) (a :: g)) /\
    tsorted v = true /\ nnt v = true /\ swf v = true /\ sbal v = true.
Proof. exact C13_union.C13_merge_group_sound. Qed.
Print Assumptions C13_merge_group_sound.

(* clause "returns one sequence per requested track group whose sounding set is exactly the union of that group's
   tracks" -- FULL (meta target included: the extra merge with the note-free meta list and the 4/4 insertion do not
   touch the notes), under the hypotheses that after rounding the group's track lists and the meta list have
   non-negative ticks and every track list is sbal.  own_msgs g p = the note / program-change messages of the track
   located at position p of group g (C13_routing_state).  See C13_group_union_zero_length_refuted for sbal. *)
Theorem C13_group_union : forall rnd tpb tracks groups metas mi seqs,
  convert rnd tpb tracks groups metas mi = Ok seqs ->
  let its := mapi (fun i t => (i, t)) tracks in
  forall g grp, nth_error groups g = Some grp ->
    forallb (fun p => nnt (own_msgs rnd tpb groups its g p) && sbal (own_msgs rnd tpb groups its g p))
            (List.seq 0%nat (length grp)) = true ->
    nnt (meta_msgs rnd tpb groups metas its) = true ->
    exists s s' v, nth_error seqs g = Some s /\ get_abs s = Ok (s', v) /\
      forall k t, C15_proofs.sounding k t v =
                  existsb (fun p => C15_proofs.sounding k t (own_msgs rnd tpb groups its g p)) (List.seq 0%nat (length grp)).
Proof. exact C13_union.C13_group_union. Qed.
Print Assumptions C13_group_union.

(* the same on the rows of the loader state (C13_routing_state / C13_group_union_partial) *)
Theorem C13_group_union_rows : forall rnd tpb tracks groups metas mi seqs,
  convert rnd tpb tracks groups metas mi = Ok seqs ->
  exists st, conv_all rnd tpb tracks groups metas = Ok st /\
    forall g row, nth_error (cs_seqs st) g = Some row ->
      forallb nnt row = true -> forallb sbal row = true -> nnt (cs_meta st) = true ->
      exists s s' v, nth_error seqs g = Some s /\ get_abs s = Ok (s', v) /\
        (forall k t, C15_proofs.sounding k t v = existsb (C15_proofs.sounding k t) row) /\ nnt v = true.
Proof. exact C13_union.C13_group_union_rows. Qed.
Print Assumptions C13_group_union_rows.

(* REFUTED without sbal (finding): at 480 ticks per beat the file ticks 470 and 489 both round to library tick 24, so
   track 0 holds a zero-length note of (0,60); track 1 of the same group holds a real note of (0,60) from tick 24 to 48;
   the returned sequence contains no note at all *)
Theorem C13_group_union_zero_length_refuted : exists tracks groups seqs s s' v,
  convert round_half_even 480 tracks groups [] 0 = Ok seqs /\
  nth_error seqs 0 = Some s /\ get_abs s = Ok (s', v) /\
  C15_proofs.sounding (0, 60) 30 (own_msgs round_half_even 480 groups (mapi (fun i t => (i, t)) tracks) 0 1) = true /\
  C15_proofs.sounding (0, 60) 30 v = false.
Proof.
  destruct C13_union.C13_group_union_zero_length_refuted as (_ & _ & H3 & seqs & s & s' & v & H4 & H5 & H6 & _ & H8).
  exists C13_union.z_tracks, [[0; 1]], seqs, s, s', v. auto.
Qed.
Print Assumptions C13_group_union_zero_length_refuted.
