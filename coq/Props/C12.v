(* C12 -- Saving to MIDI and loading back returns the same music.
   A MIDI track is a list of events `mev` (kind, channel, two integer fields, key string, delta time); mido's file
   codec is not modelled: saving then loading is the identity on these lists (Model/Midi.v).
   Auxiliary definitions (Proofs/C12_proofs.v):
     stamped r c   : the non-wait messages of the relative list r, each paired with c + the sum of the waits before it
                     (the same stamping as the model's to_abs_aux, lemma stamped_to_abs_aux)
     abs_ticks e c : the events of a track, each paired with c + the sum of the delta times up to and including its own
     written m     : m is a NOTE_ON / NOTE_OFF / TIME_SIGNATURE / KEY_SIGNATURE / CONTROL_CHANGE (the types that are saved)
     rel_wf r      : only WAIT messages carry a time (non-wait messages have time 0 = Python None)
     rt_ok r       : rel_wf, every NOTE_ON has velocity > 0, every KEY_SIGNATURE has a key (rt_ok_rel_wf)
     nonneg_waits r: every WAIT has a non-negative time
     sl_groups n   : [[0]; [1]; ...; [n-1]], the default track groups of sequences_load
     loaded_notes r: the NOTE_ON / NOTE_OFF messages of r as loaded: mk_on 0 pitch velocity tick / mk_off 0 pitch tick
                     for every note message of `stamped r 0`, in order
     loaded_meta r : likewise the TIME_SIGNATURE / KEY_SIGNATURE / CONTROL_CHANGE messages of r, channel 0, at their ticks
     loaded_seq l  : merge_group [l] computed: with nr = normalise (to_rel l) and a = sort_abs (to_abs nr ++ []),
                     the sequence object mkseq a (normalise (to_rel a)) true false
     ins_all ms l  : fold_left (fun a m => insort m a) ms l (C13_proofs) *)
From Coq Require Import ZArith List Bool String Permutation Sorted.
From Model Require Import Base Seq Pairing Util Bars Store Midi.
From Proofs Require Import C13_proofs C12_proofs.
Open Scope Z_scope.

(* loading a file written at the library resolution does not move any tick *)
Theorem C12_rnd_id : forall t, round_half_even (t * PPQN) PPQN = t.
Proof. exact C12_proofs.C12_rnd_id. Qed.
Print Assumptions C12_rnd_id.

(* every key name that is written is read back as the same key (all fifteen keys) *)
Theorem C12_key_roundtrip : forall k : Key, dict_get String.eqb (key_value k) KeyKeyMapping = Some k.
Proof. exact C12_proofs.C12_key_roundtrip. Qed.
Print Assumptions C12_key_roundtrip.

(* saving one sequence: the events of the track are, in order, exactly the saved-type messages of r; the cumulative
   delta time of each event is the accumulated wait time of its message (also across unsaved PROGRAM_CHANGE /
   INTERNAL messages, whose preceding waits stay in the buffer); kinds and fields are kept: NOTE_ON velocity kept
   (127 when None), NOTE_OFF velocity 0, channel 0 for channel messages *)
Theorem C12_events_telescope : forall r : list msg,
  rel_wf r = true ->
  Forall2 (fun (et : mev * Z) (mt : msg * Z) =>
             snd et = snd mt /\
             let e := fst et in let m := fst mt in
             match m_type m with
             | NOTE_ON => e_kind e = MOn /\ e_chan e = 0 /\ e_a e = m_note m /\
                          e_b e = (if Z.eqb (m_vel m) (-1) then 127 else m_vel m)
             | NOTE_OFF => e_kind e = MOff /\ e_chan e = 0 /\ e_a e = m_note m /\ e_b e = 0
             | TIME_SIGNATURE => e_kind e = MTs /\ e_chan e = -1 /\ e_a e = m_num m /\ e_b e = m_den m
             | KEY_SIGNATURE => e_kind e = MKs /\ e_chan e = -1 /\
                                e_key e = match m_key m with Some k => key_value k | None => EmptyString end
             | CONTROL_CHANGE => e_kind e = MCc /\ e_chan e = 0 /\ e_a e = m_ctrl m /\ e_b e = m_vel m
             | _ => False
             end)
          (abs_ticks (to_events r) 0)
          (filter (fun mt => written (fst mt)) (stamped r 0)).
Proof. exact C12_proofs.C12_events_telescope. Qed.
Print Assumptions C12_events_telescope.

(* save then load of one track: the loader produces, in order, for every saved-type message of r one message of the
   same type at the same absolute tick, channel 0, same pitch / velocity / signature / key; notes are routed to the
   track's own sequence (TOwn), signatures and control changes to the meta sequence (TMeta) *)
Theorem C12_track_roundtrip : forall r : list msg,
  rt_ok r = true ->
  exists ms, conv_track round_half_even PPQN (to_events r) 0 true = Ok ms /\
             Forall2 (fun (tm : target * msg) (mt : msg * Z) =>
                        let m := fst mt in let t := snd mt in
                        match m_type m with
                        | NOTE_ON => tm = (TOwn, mk_on 0 (m_note m) (m_vel m) t false)
                        | NOTE_OFF => tm = (TOwn, mk_off 0 (m_note m) t false)
                        | TIME_SIGNATURE => tm = (TMeta, mk_ts 0 (m_num m) (m_den m) t false)
                        | KEY_SIGNATURE => tm = (TMeta, mk_ks 0 (m_key m) t false)
                        | CONTROL_CHANGE => tm = (TMeta, mk_cc 0 (m_ctrl m) (m_vel m) t false)
                        | _ => False
                        end) ms
                     (filter (fun mt => written (fst mt)) (stamped r 0)).
Proof. exact C12_proofs.C12_track_roundtrip. Qed.
Print Assumptions C12_track_roundtrip.

(* one sequence per saved sequence (same order: see C12_notes_partial) *)
Theorem C12_count : forall rels seqs, save_load rels = Ok seqs -> length seqs = length rels.
Proof. exact C12_proofs.C12_count. Qed.
Print Assumptions C12_count.

(* saving and loading succeeds for every non-empty list of sequences satisfying rt_ok *)
Theorem C12_save_load_ok : forall rels : list (list msg),
  rels <> [] -> forallb rt_ok rels = true -> exists seqs, save_load rels = Ok seqs /\ length seqs = length rels.
Proof. exact C12_proofs.C12_save_load_ok. Qed.
Print Assumptions C12_save_load_ok.

(* clause "identical notes (pitch, onset, duration, velocity) / signatures in force", PARTIAL.
   Proved: after loading what was saved, and BEFORE the loader's normalisation, the list of track i is exactly the
   list of note messages of rels[i], in order, each at its accumulated tick, with its pitch and velocity, channel 0
   (non-negative waits make the ticks non-decreasing, so the binary insort appends); the meta list is a permutation
   of all saved signature / control-change messages at their ticks; and every returned sequence other than the meta
   target 0 is `loaded_seq` of that list, i.e. normalise / sort / normalise applied to it.
   MISSING: (1) that `loaded_seq` keeps the notes of a well-formed list (normalise (to_rel l), to_abs, sort_abs and
   normalise again are the identity up to the order of simultaneous messages) -- needs characterisations of
   normalise / to_rel / to_abs on well-formed input; (2) the same for sequence 0, which is additionally merged with the
   meta list; (3) the "signature in force at every tick" reading of the meta sequence (normalise drops repeated
   signatures, which keeps the signature in force but not the list). *)
Theorem C12_notes_partial : forall rels : list (list msg),
  forallb rt_ok rels = true -> forallb nonneg_waits rels = true ->
  exists st,
    conv_all round_half_even PPQN (map to_events rels) (sl_groups (length rels)) (rangeZ_aux (length rels) 0) = Ok st /\
    cs_seqs st = map (fun r => [loaded_notes r]) rels /\
    Permutation (cs_meta st) (flat_map loaded_meta rels) /\
    forall seqs, save_load rels = Ok seqs ->
      forall i r, (0 < i)%nat -> nth_error rels i = Some r -> nth_error seqs i = Some (loaded_seq (loaded_notes r)).
Proof. exact C12_proofs.C12_notes_partial. Qed.
Print Assumptions C12_notes_partial.

(* without the hypothesis on waits: the lists are the one-by-one insort of the same messages *)
Theorem C12_loaded_lists : forall rels : list (list msg),
  forallb rt_ok rels = true ->
  exists st,
    conv_all round_half_even PPQN (map to_events rels) (sl_groups (length rels)) (rangeZ_aux (length rels) 0) = Ok st /\
    cs_seqs st = map (fun r => [ins_all (loaded_notes r) []]) rels /\
    cs_meta st = ins_all (flat_map loaded_meta rels) [].
Proof. exact C12_proofs.C12_loaded_lists. Qed.
Print Assumptions C12_loaded_lists.

(* `stamped` is the model's own relative-to-absolute stamping: same messages (up to the stripped time) and the same
   ticks as the first component of to_abs_aux, for every start tick, tag and cap flag *)
Theorem C12_stamped_to_abs : forall r cur f cap,
  map snd (stamped r cur) = map m_time (fst (fst (fst (to_abs_aux r cur f cap)))) /\
  map (fun mt => strip_time (fst mt)) (stamped r cur) = map strip_time (fst (fst (fst (to_abs_aux r cur f cap)))).
Proof. exact C12_proofs.stamped_to_abs_aux. Qed.
Print Assumptions C12_stamped_to_abs.

(* ---------------------------------------------------------------- identical notes *)
From Proofs Require Import C04_proofs C07_proofs Sound_glue C12_notes.
(* Definitions: ev_rel r (C04_proofs) := the (tick, message without its time field) events of a relative list;
   nev := its NOTE_ON / NOTE_OFF events;  saved_notes r := the note messages of the saved list r at the sum of the waits
   before them, as written to the file (channel 0, pitch and velocity kept);
   rswf r := per pitch the note messages of r alternate on / off in list order and every NOTE_OFF comes at a strictly
   later tick than its NOTE_ON (no zero-length notes, no two notes of one pitch at the same time -- also not on
   different channels, because the channel is not saved). *)

(* clause "one sequence per saved sequence, in the same order, with identical notes (pitch, onset, duration, velocity)"
   -- FULL under rswf, for EVERY index including the meta target 0: the note events of the loaded sequence's relative
   view are exactly the saved ones (as a multiset; both sides alternate per key, so equal events means equal notes) *)
Theorem C12_notes : forall rels : list (list msg),
  forallb rt_ok rels = true -> forallb C12_proofs.nonneg_waits rels = true ->
  forall seqs, save_load rels = Ok seqs ->
  forall i r, nth_error rels i = Some r -> rswf r = true ->
  exists s s' v, nth_error seqs i = Some s /\ get_rel s = Ok (s', v) /\
    Permutation (nev (ev_rel v)) (saved_notes r).
Proof. exact C12_notes.C12_notes. Qed.
Print Assumptions C12_notes.

(* the same per key (channel 0, pitch), as LISTS: kev k E := the events of E whose message has key k.  For every key the
   loaded sequence has the saved note events in the saved order -- the same NOTE_ON messages (pitch, velocity) at
   the same onsets, each followed by its NOTE_OFF at the same tick: identical (pitch, onset, duration, velocity) *)
Theorem C12_notes_order : forall rels : list (list msg),
  forallb rt_ok rels = true -> forallb C12_proofs.nonneg_waits rels = true ->
  forall seqs, save_load rels = Ok seqs ->
  forall i r, nth_error rels i = Some r -> rswf r = true ->
  exists s s' v, nth_error seqs i = Some s /\ get_rel s = Ok (s', v) /\
    forall k, kev k (nev (ev_rel v)) = kev k (saved_notes r).
Proof. exact C12_notes.C12_notes_order. Qed.
Print Assumptions C12_notes_order.

(* sequences other than the meta target: the relative view is fresh, alternates per key and has non-negative waits *)
Theorem C12_notes_own : forall rels : list (list msg),
  forallb rt_ok rels = true -> forallb C12_proofs.nonneg_waits rels = true ->
  forall seqs, save_load rels = Ok seqs ->
  forall i r, (0 < i)%nat -> nth_error rels i = Some r -> rswf r = true ->
  exists s, nth_error seqs i = Some s /\ get_rel s = Ok (s, s_rel s) /\
    Permutation (nev (ev_rel (s_rel s))) (saved_notes r) /\
    (forall k, alt k false (s_rel s) = true) /\ C07_proofs.nonneg_waits (s_rel s) = true.
Proof. exact C12_notes.C12_notes_own. Qed.
Print Assumptions C12_notes_own.

(* outside rswf (findings): a zero-length note is lost together with the following real note of the same pitch, and two
   channels playing one pitch at the same time come back as one fused note on channel 0 *)
Theorem C12_notes_zero_length_refuted : exists r seqs s s' v,
  rt_ok r = true /\ C12_proofs.nonneg_waits r = true /\
  save_load [[mk_wait 0 1 false]; r] = Ok seqs /\ nth_error seqs 1 = Some s /\ get_rel s = Ok (s', v) /\
  saved_notes r <> [] /\ nev (ev_rel v) = [].
Proof.
  destruct C12_notes.C12_notes_zero_length_lost as (H1 & H2 & _ & seqs & s & s' & v & H4 & H5 & H6 & H7).
  eexists. exists seqs, s, s', v. repeat split; try eassumption. vm_compute. discriminate.
Qed.
Print Assumptions C12_notes_zero_length_refuted.

(* ---------------------------------------------------------------- signature clause *)
From Proofs Require Import Sig_glue C12_sigs.
(* Definitions (Proofs/Sig_glue.v, Proofs/C12_sigs.v), all independent of the model functions:
     rts_events r / rks_events r := (tick, signature) of every TIME_SIGNATURE / KEY_SIGNATURE message of the saved
                        RELATIVE list r, tick = sum of the WAITs before it;   tsig := Z * Z, ts_none := (-1,-1) = "none"
     saved_ts rels := flat_map rts_events rels,  saved_ks rels := flat_map rks_events rels   (all saved sequences)
     sort_ev l     := l stably sorted by tick (each entry inserted after the last one with tick <= its own)
     dedup_ts prev l := l without every event whose signature equals that of the previously KEPT event (prev before the
                        list);  dedup_ks likewise
     with_default_ts K := K if some entry of K has tick 0, otherwise K with (0, (4,4)) inserted in front of the later ticks
     ts_events v / ks_events v := the signature events of the loaded ABSOLUTE list v, in list order
     ts_in_force d l t := signature of the entry of l with the greatest tick <= t (of several at that tick the last one),
                        d if there is none;  ks_in_force likewise
     ts_proper l   := no entry is the "none" signature;  ts_clash_free / ks_clash_free := no two different signatures
                        share a tick *)

Theorem C12_sig_with_default_unfold : forall K,
  with_default_ts K = if existsb (fun e => fst e =? 0) K then K else ins_ev (0, (4, 4)) K.
Proof. reflexivity. Qed.
Print Assumptions C12_sig_with_default_unfold.

(* clause "the designated meta sequence carries the signatures of all saved sequences" -- the events, FULL (default
   arguments: meta target = sequence 0): the absolute view of the loaded sequence 0 carries, as time-signature events,
   exactly the stably time-sorted union of ALL saved sequences' time-signature events without those that repeat the
   signature in force, plus a 4/4 at tick 0 when none of them sits at tick 0; as key-signature events the same for the
   saved key signatures (nothing added) *)
Theorem C12_signatures : forall rels : list (list msg),
  forallb rt_ok rels = true -> forallb C12_proofs.nonneg_waits rels = true ->
  forall seqs, save_load rels = Ok seqs ->
  exists s v, nth_error seqs 0 = Some s /\ get_abs s = Ok (s, v) /\
    ts_events v = with_default_ts (dedup_ts ts_none (sort_ev (saved_ts rels))) /\
    ks_events v = dedup_ks None (sort_ev (saved_ks rels)).
Proof. exact C12_sigs.C12_signatures. Qed.
Print Assumptions C12_signatures.

(* clause "... such that the time signature and the key signature in force at every tick are the ones that were saved
   (4/4 being in force from tick 0 when the file specifies nothing there)": at every tick t >= 0 the time signature in
   force in the loaded sequence 0 is that of the last saved event at or before t in the time-sorted union of all saved
   sequences, 4/4 before the first one; at every tick the key in force is the saved one (none before the first).
   ts_proper excludes a saved TIME_SIGNATURE without numerator and denominator (see C12_signatures_improper_refuted) *)
Theorem C12_signatures_in_force : forall rels : list (list msg),
  forallb rt_ok rels = true -> forallb C12_proofs.nonneg_waits rels = true ->
  forall seqs, save_load rels = Ok seqs ->
  exists s v, nth_error seqs 0 = Some s /\ get_abs s = Ok (s, v) /\
    (ts_proper (saved_ts rels) = true ->
     forall t, 0 <= t -> ts_in_force ts_none (ts_events v) t = ts_in_force (4, 4) (sort_ev (saved_ts rels)) t) /\
    (forall t, ks_in_force None (ks_events v) t = ks_in_force None (sort_ev (saved_ks rels)) t).
Proof. exact C12_sigs.C12_signatures_in_force. Qed.
Print Assumptions C12_signatures_in_force.

(* the same against the UNSORTED union of the saved events, PROVIDED no two different signatures of one type were saved
   at one tick (then "in force" does not depend on any order of the saved sequences) *)
Theorem C12_signatures_in_force_union : forall rels : list (list msg),
  forallb rt_ok rels = true -> forallb C12_proofs.nonneg_waits rels = true ->
  forall seqs, save_load rels = Ok seqs ->
  exists s v, nth_error seqs 0 = Some s /\ get_abs s = Ok (s, v) /\
    (ts_proper (saved_ts rels) = true -> ts_clash_free (saved_ts rels) = true ->
     forall t, 0 <= t -> ts_in_force ts_none (ts_events v) t = ts_in_force (4, 4) (saved_ts rels) t) /\
    (ks_clash_free (saved_ks rels) = true ->
     forall t, ks_in_force None (ks_events v) t = ks_in_force None (saved_ks rels) t).
Proof. exact C12_sigs.C12_signatures_in_force_union. Qed.
Print Assumptions C12_signatures_in_force_union.

(* outside ts_proper (finding, degenerate input): a saved TIME_SIGNATURE whose numerator and denominator are None is
   dropped by normalise (it "repeats" the initial state), the loader then sees no signature at tick 0 and inserts 4/4 *)
Theorem C12_signatures_improper_refuted : exists r seqs s v,
  rt_ok r = true /\ C12_proofs.nonneg_waits r = true /\ ts_proper (saved_ts [r]) = false /\
  save_load [r] = Ok seqs /\ nth_error seqs 0 = Some s /\ get_abs s = Ok (s, v) /\
  ts_in_force ts_none (ts_events v) 2 = (4, 4) /\ ts_in_force (4, 4) (sort_ev (saved_ts [r])) 2 = (-1, -1).
Proof.
  destruct C12_sigs.C12_signatures_needs_proper as (H1 & H2 & H3 & seqs & s & v & H4 & H5 & H6 & H7 & H8).
  eexists. exists seqs, s, v. repeat split; eassumption.
Qed.
Print Assumptions C12_signatures_improper_refuted.
