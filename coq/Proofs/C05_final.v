(* C05_final -- the output of quantise on a well-formed list is well-formed. *)
From Coq Require Import ZArith List Bool Lia Permutation.
From Model Require Import Base Seq Pairing.
From Proofs Require Import C05_closest C05_proofs C05_wf C05_sweep C05_sort.
Import ListNotations.
Open Scope Z_scope.

Lemma sortedK_sorted_time l : sortedK l -> sorted_time l = true.
Proof.
  induction l as [|x l IH]; [reflexivity|]. cbn [sortedK]. intros [Hx Hl].
  apply sorted_time_cons. split; [|auto]. apply Forall_forall. intros z Hz. now apply key_le_time, Hx.
Qed.

(* a strictly alternating list of one key is already in sort order *)
Definition lowbound (st : kst) (z : msg) : Prop :=
  match st with
  | KNone => True
  | KOpen a => a < m_time z
  | KClosed _ b => b < m_time z \/ (b = m_time z /\ is_on z = true)
  end.

Lemma krun_sorted k : forall L st st',
  Forall (fun m => is_note m = true /\ qkey m = k) L -> krun true st L = Some st' ->
  sortedK L /\ forall z, In z L -> lowbound st z.
Proof.
  induction L as [|m L IH]; intros st st' HF Hr.
  - split; [exact I|intros z []].
  - inversion HF as [|? ? [Hn Hkey] HF']; subst. cbn [krun] in Hr.
    destruct (kstep true st m) as [st1|] eqn:KS; [|discriminate].
    destruct (IH st1 st' HF' Hr) as [Hs Hlow].
    destruct (is_on m) eqn:Hon.
    + destruct (kstep_on_inv _ _ _ _ Hon KS) as [-> Hst]. cbn [lowbound] in Hlow. split.
      * cbn [sortedK]. split; [|exact Hs]. intros z Hz. specialize (Hlow z Hz). apply (proj2 (key_le_iff m z)). now left.
      * intros z [<-|Hz].
        -- destruct Hst as [->|(a & b & -> & Hb)]; cbn [lowbound]; [exact I|].
           destruct (Z.eq_dec b (m_time m)); [right; split; assumption|left; lia].
        -- specialize (Hlow z Hz). destruct Hst as [->|(a & b & -> & Hb)]; cbn [lowbound]; [exact I|]. lia.
    + destruct (kstep_off_inv _ _ _ _ Hon KS) as (a & -> & -> & Hlt). cbn [lowbound] in Hlow. split.
      * cbn [sortedK]. split; [|exact Hs]. intros z Hz. destruct (Hlow z Hz) as [H|[H1 H2]].
        -- apply (proj2 (key_le_iff m z)). now left.
        -- apply (proj2 (key_le_iff m z)). right. split; [exact H1|]. right.
           rewrite Forall_forall in HF'. destruct (HF' z Hz) as [_ Hkz].
           split; [unfold qkey in *; congruence|]. left.
           apply is_on_type in H2. rewrite H2.
           assert (Tm : m_type m = NOTE_OFF).
           { apply is_note_type in Hn. destruct Hn as [T|T]; [|exact T].
             apply is_on_type in T. congruence. }
           rewrite Tm. cbn [mtype_rank]. lia.
      * intros z [<-|Hz]; cbn [lowbound]; [exact Hlt|]. destruct (Hlow z Hz); lia.
Qed.

Lemma kproj_forall k l : Forall (fun m => is_note m = true /\ qkey m = k) (kproj k l).
Proof.
  apply Forall_forall. intros m Hm. unfold kproj in Hm. apply filter_In in Hm. destruct Hm as [_ H].
  apply andb_true_iff in H. destruct H as [H1 H2]. apply k2_eqb_eq in H2. auto.
Qed.

Lemma kproj_sort_abs k R st : krun true KNone (kproj k R) = Some st -> kproj k (sort_abs R) = kproj k R.
Proof.
  intros Hr. unfold kproj at 1. rewrite filter_sort_abs. fold (kproj k R).
  apply sort_abs_id. exact (proj1 (krun_sorted k _ _ _ (kproj_forall k R) Hr)).
Qed.

Lemma wf_key_sort_abs k R : wf_key k R = true -> wf_key k (sort_abs R) = true.
Proof.
  intros H. unfold wf_key in *. destruct (krun true KNone (kproj k R)) as [st|] eqn:Hr; [|discriminate].
  now rewrite (kproj_sort_abs k R st Hr), Hr.
Qed.

(* sorting a list whose keys are all well-formed gives a well-formed list *)
Lemma wf_abs_sort_abs R : (forall k, wf_key k R = true) -> wf_abs (sort_abs R) = true.
Proof.
  intros H. apply wf_abs_spec. split.
  - apply sortedK_sorted_time, sort_abs_sorted.
  - intros k. now apply wf_key_sort_abs.
Qed.

Lemma C05_wf : forall l steps out, steps <> [] -> wf_abs l = true ->
  quantise l steps = Ok out -> wf_abs out = true.
Proof.
  intros l steps out Hne Hwf H. rewrite quantise_eq in H by exact Hne. injection H as <-.
  apply wf_abs_sort_abs. apply (sweep_wf_key (q_out (quantise_core l steps))).
  apply C05_wf_core. now apply wf_abs_spec in Hwf.
Qed.

(* the loop result before the sweep: per key a non-strict alternation that ends closed *)
Lemma C05_wf_loop : forall l steps k, wf_abs l = true ->
  exists st, krun false KNone (kproj k (q_out (quantise_core l steps))) = Some st /\ kst_closed st.
Proof. intros l steps k Hwf. apply C05_wf_core. now apply wf_abs_spec in Hwf. Qed.

(* zero-length sweep in action: the second note is quantised to length 0 and removed *)
Definition ex_l2 : list msg :=
  [ mk_on 0 60 90 1 false; mk_off 0 60 5 false; mk_on 0 60 90 6 false; mk_off 0 60 8 false; mk_on 3 60 90 8 false;
    mk_off 3 60 31 false ].
Example ex_l2_out : wf_abs ex_l2 = true /\
  exists out, quantise ex_l2 [10] = Ok out /\ wf_abs out = true /\
              map (fun m => (m_chan m, m_time m)) out = [(0, 0); (0, 10); (3, 10); (3, 30)].
Proof. split; [vm_compute; reflexivity|]. eexists. split; [vm_compute; reflexivity|]. vm_compute. split; reflexivity. Qed.

Example ex_l_sorted : sorted_time ex_l = true /\ pos_steps [4; 6] = true /\ [4; 6] <> [].
Proof. vm_compute. repeat split. discriminate. Qed.
