"""Concrete witnesses of the defects of the pinned tree (DESIGN.md section 5), replayed on the live implementation.

Each witness is a function returning (ok, detail): ok=True means the property holds on that input.
Run:  PYTHONPATH=$SCODA_REPO /venv/bin/python harness/witnesses.py [ids...]
Used (a) once, before the fix: commits, to demonstrate each defect against the real code, and (b) on every check run
as the regression corpus that runs first: a fixed defect that returns makes the witness fail again.
"""
import os, sys, json, tempfile

REPO = os.environ.get("SCODA_REPO", "/repo")
sys.path.insert(0, REPO)
import logging
logging.disable(logging.CRITICAL)

from scoda.elements.message import Message
from scoda.enumerations.message_type import MessageType as MT
from scoda.sequences.sequence import Sequence
from scoda.sequences.relative_sequence import RelativeSequence
from scoda.sequences.absolute_sequence import AbsoluteSequence
from scoda.elements.bar import Bar
from scoda.exceptions.bar_exception import BarException
from scoda.misc.music_theory import Key
from scoda.tokenisation.notelike_tokenisation import MultiTrackLargeVocabularyNotelikeTokeniser as Tok


def on(t, n, v=100, c=0): return Message(message_type=MT.NOTE_ON, time=t, note=n, velocity=v, channel=c)
def off(t, n, c=0): return Message(message_type=MT.NOTE_OFF, time=t, note=n, channel=c)
def ron(n, v=100, c=0): return Message(message_type=MT.NOTE_ON, note=n, velocity=v, channel=c)
def roff(n, c=0): return Message(message_type=MT.NOTE_OFF, note=n, channel=c)
def w(t, c=0): return Message(message_type=MT.WAIT, time=t, channel=c)
def tsg(t, a, b): return Message(message_type=MT.TIME_SIGNATURE, time=t, numerator=a, denominator=b)
def ksg(t, k): return Message(message_type=MT.KEY_SIGNATURE, time=t, key=k)


def seq_abs(msgs):
    s = Sequence()
    for m in msgs:
        s.add_absolute_message(m)
    return s


def seq_rel(msgs):
    return Sequence(relative_sequence=RelativeSequence(messages=list(msgs)))


def rel_view(s):
    return [(m.message_type.value, m.channel, m.time if m.message_type == MT.WAIT else None, m.note, m.velocity)
            for m in s.rel._messages]


def abs_view(s):
    return [(m.message_type.value, m.channel, m.time, m.note, m.velocity) for m in s.abs._messages]


def notes_of(s):
    out = []
    for ch, ps in s.abs.get_message_pairings().items():
        for p in ps:
            out.append((ch, p[0].note, p[0].time, p[1].time - p[0].time, p[0].velocity))
    return sorted(out)


W = {}


def witness(name, props):
    def deco(f):
        W[name] = (props, f)
        return f
    return deco


@witness("D1", ["C02", "C01"])
def d1():
    t = Tok(num_tracks=1, flag_fuse_velocity=False)
    s = seq_abs([on(0, 60, 100), off(24, 60)])
    toks = t.tokenise([s])
    try:
        t.encode(toks)
    except KeyError as e:
        return False, f"encode KeyError {e}; tokens={toks}"
    return True, ""


@witness("D2", ["C02", "C01"])
def d2():
    t = Tok(num_tracks=1, velocity_bins=4)
    s = seq_abs([on(0, 60, 20), off(24, 60)])
    toks = t.tokenise([s])
    try:
        out = t.detokenise(t.decode(t.encode(toks)))
    except (ValueError, KeyError) as e:
        return False, f"{type(e).__name__} {e}; tokens={toks}"
    return (notes_of(out[0])[0][1:4] == (60, 0, 24)), str(toks)


@witness("D3", ["C07"])
def d3():
    s = seq_rel([ron(62), w(5), ron(60), w(5), roff(60)])
    s.normalise()
    v = rel_view(s)
    bad = [m for m in v if m[0] == "note_on" and m[3] == 62]
    return (not bad), f"unclosed note-on survives: {v}"


@witness("D17", ["C07"])
def d17():
    s = seq_rel([w(5), roff(60), w(1), ron(61), w(6), roff(61)])
    s.normalise()
    v = rel_view(s)
    bad = [m for m in v if m[0] == "note_off" and m[3] == 60]
    return (not bad), f"orphan note-off survives: {v}"


@witness("D4", ["C08", "C09"])
def d4():
    s = seq_rel([ron(60, 100, 0), ron(60, 90, 1), w(30), roff(60, 0), roff(60, 1)])
    before = rel_view(s)
    ps = s.split([24])
    v = [rel_view(p) for p in ps]
    offs0 = [m for m in v[0] if m[0] == "note_off"]
    ons1 = [m for m in v[1] if m[0] == "note_on"]
    ok = len(offs0) == 2 and len(ons1) == 2
    return ok, f"pieces={v}"


@witness("D5", ["C08"])
def d5():
    s = seq_rel([ron(60), w(24), roff(60), Message(message_type=MT.KEY_SIGNATURE, key=Key.G)])
    ps = s.split([24])
    v = [[(m.message_type.value) for m in p.rel._messages] for p in ps]
    ok = any("key_signature" in p for p in v)
    return ok, f"pieces={v}"


@witness("D6", ["C05"])
def d6():
    s = seq_abs([on(0, 60, 100, 0), on(2, 60, 90, 1), off(13, 60, 0), off(25, 60, 1)])
    s.quantise([12])
    ns = {}
    for m in s.abs._messages:
        k = (m.channel, m.note)
        ns.setdefault(k, []).append(m.message_type.value)
    ok = all(v == ["note_on", "note_off"] * (len(v) // 2) and len(v) % 2 == 0 for v in ns.values()) and len(ns) == 2
    return ok, f"{abs_view(s)}"


@witness("D7", ["C04"])
def d7():
    s = seq_abs([on(0, 60), off(12, 60)])
    s.normalise()          # rel fresh, abs stale
    s.overwrite_absolute_messages([on(0, 61), off(12, 61)])
    try:
        a = abs_view(s)
        r = rel_view(s)
    except Exception as e:
        return False, f"{type(e).__name__}: {e}"
    return True, ""


@witness("D8", ["C04"])
def d8():
    s = seq_abs([on(0, 60), off(12, 60), on(12, 62), off(24, 62)])
    for m in s.messages_abs():
        if m.message_type == MT.NOTE_ON and m.note == 60:
            m.time = 30
    r = Sequence(relative_sequence=s.rel.copy())
    a = abs_view(s)
    ra = abs_view(r)
    ok = sorted(a) == sorted(ra)
    return ok, f"abs={a} rel->abs={ra}"


@witness("D9", ["C16"])
def d9():
    s = seq_rel([ron(60), w(12), roff(60), w(24), ron(62), w(12), roff(62)])
    s.refresh()
    ps = s.split([24])
    ps[0].transpose(1)
    a, r = abs_view(s), abs_view(Sequence(relative_sequence=s.rel.copy()))
    ok = sorted(a) == sorted(r) and any(m[3] == 60 for m in a)
    return ok, f"src abs={a} src rel->abs={r}"


@witness("D9b", ["C16"])
def d9b():
    s = seq_rel([ron(60), w(12), roff(60), w(120), ron(62), w(12), roff(62)])
    s.refresh()
    bars = Sequence.sequences_split_bars([s], quantise_note_lengths=False)
    bars[0][0].sequence.transpose(1)
    a, r = abs_view(s), abs_view(Sequence(relative_sequence=s.rel.copy()))
    ok = sorted(a) == sorted(r) and any(m[3] == 60 for m in a)
    return ok, f"src abs={a} src rel->abs={r}"


@witness("D9p", ["C04"])
def d9p():
    a = seq_rel([ron(60), w(12), roff(60)])
    b = seq_rel([ron(62), w(12), roff(62)])
    a.concatenate([b])
    _ = a.abs
    b.transpose(1)
    av, rv = abs_view(a), abs_view(Sequence(relative_sequence=a.rel.copy()))
    return sorted(av) == sorted(rv), f"a.abs={av} a.rel->abs={rv}"


@witness("D10", ["C17"])
def d10():
    a = seq_abs([on(0, 60), off(12, 60)])
    b = seq_abs([on(12, 60), off(24, 60)])
    return (not a.equals(b)), "note at tick 0 equals note at tick 12"


@witness("D10b", ["C17"])
def d10b():
    a = seq_abs([tsg(0, 3, 4), on(0, 60), off(12, 60), on(96, 60), off(108, 60)])
    b = seq_abs([on(0, 60), off(12, 60), tsg(48, 3, 4), on(96, 60), off(108, 60)])
    return (not a.equals(b)), "time signature at tick 0 equals time signature at tick 48"


@witness("D11", ["C10"])
def d11():
    s = seq_rel([ron(60), w(200), roff(60)])
    try:
        b = Bar(s, 4, 4)
    except BarException:
        return True, ""
    d = sum(m.time for m in b.sequence.rel._messages if m.message_type == MT.WAIT)
    return False, f"200-tick sequence accepted as 4/4 bar, duration {d}"


@witness("D12", ["C11", "C01"])
def d12():
    s = seq_rel([ron(60), w(12), roff(60)])
    b = Bar(s, 4, 4)
    ts = [m.time for m in b.sequence.rel._messages if m.message_type == MT.WAIT]
    ok = all(type(t) is int for t in ts)
    return ok, f"wait times {ts!r}"


@witness("D13", ["C14", "C20"])
def d13():
    bad = [(k, i) for k in Key for i in (-24, -12, 0, 12, 24) if Key.transpose_key(k, i) is None]
    return (not bad), f"transpose_key returns None for {bad[:3]}..."


@witness("D14", ["C01"])
def d14():
    t = Tok(num_tracks=1)
    s = seq_abs([on(96, 60), off(108, 60)])
    toks = t.tokenise([s])
    out = t.detokenise(toks)
    d = out[0].get_sequence_duration()
    return d == 192, f"duration {d}, expected 192 (end of the last bar); tokens={toks}"


@witness("D15", ["C02"])
def d15():
    t = Tok(num_tracks=1, velocity_bins=128, pitch_range=(60, 61), note_values=[12])
    ids = sorted(t.dictionary.values())
    ok = ids == list(range(len(ids))) and t.dictionary_size == len(t.dictionary)
    return ok, f"size={t.dictionary_size} entries={len(t.dictionary)}"


@witness("D16", ["C13"])
def d16():
    import mido
    from scoda.midi.midi_file import MidiFile
    f = mido.MidiFile(ticks_per_beat=24)
    tr = mido.MidiTrack()
    tr.append(mido.Message("note_on", note=60, velocity=90, time=0))
    tr.append(mido.Message("note_off", note=60, velocity=0, time=12))
    f.tracks.append(tr)
    with tempfile.TemporaryDirectory() as d:
        p = os.path.join(d, "x.mid")
        f.save(p)
        seqs = Sequence.sequences_load(p, track_indices=[[0], [0]], meta_track_indices=[0])
    n = [len(notes_of(s)) for s in seqs]
    return n == [1, 1], f"notes per group {n}"


@witness("D18", ["C01"])
def d18():
    t = Tok(num_tracks=1, velocity_bins=100, pitch_range=(60, 61), note_values=[12, 24])
    s = seq_abs([on(0, 60, 120), off(24, 60)])
    try:
        t.tokenise([s])
    except IndexError as e:
        return False, f"IndexError {e}: velocity 120 has no bin when velocity_bins=100"
    return True, ""


@witness("D20", ["C05"])
def d20():
    s = Sequence()
    s.overwrite_absolute_messages([on(10, 60), on(10, 61), off(11, 60), ksg(11, Key.G), off(11, 61)])
    s.quantise([12])
    v = [(m.message_type.value, m.time, m.note) for m in s.abs._messages]
    ok = any(m[0] == "key_signature" for m in v) and not any(m[0] == "note_on" for m in v)
    return ok, f"two interleaved notes collapse to zero length: result {v} (key signature lost, orphan note-on kept)"


@witness("D19", ["C01"])
def d19():
    t = Tok(num_tracks=1)
    s = seq_abs([on(84, 60), off(108, 60)])
    out = t.detokenise(t.tokenise([s]))
    d = out[0].get_sequence_duration()
    return d == 192, f"note 84..108 crosses the bar line: duration {d}, end of the last bar is 192"


@witness("D10c", ["C17"])
def d10c():
    a = seq_abs([tsg(0, 3, 4), on(12, 60), off(24, 60)])
    b = seq_abs([tsg(6, 3, 4), on(12, 60), off(24, 60)])
    return (not a.equals(b)), "time signature at tick 0 equals time signature at tick 6"


@witness("D21", ["C13"])
def d21():
    import mido
    f = mido.MidiFile(ticks_per_beat=384)
    tr = mido.MidiTrack()
    for typ, dt in (("note_on", 878), ("note_off", 1), ("note_on", 288), ("note_off", 64)):
        tr.append(mido.Message(typ, note=60, velocity=64 if typ == "note_on" else 0, time=dt))
    f.tracks.append(tr)
    with tempfile.TemporaryDirectory() as d:
        p = os.path.join(d, "x.mid")
        f.save(p)
        seqs = Sequence.sequences_load(p)
    n = notes_of(seqs[0])
    return any(x[2] == 73 and x[3] == 4 for x in n), f"loaded notes {n}; the note 73..77 is missing"


@witness("D22", ["C09"])
def d22():
    s = seq_rel([ron(60), w(48), roff(60), w(48)])
    bars = Sequence.sequences_split_bars([s], quantise_note_lengths=True)
    n = notes_of(bars[0][0].sequence)
    return n == [(0, 60, 0, 48, 100)], f"a half note (48 ticks) lying inside one 4/4 bar comes out as {n}: the default note values end at 36"


@witness("D23", ["C07"])
def d23():
    # a section that starts with the end of a note and ends with the start of one, repeated with plain concatenate:
    # the piece holds the same NOTE_ON object twice; the first occurrence is closed, the second is not
    m = seq_rel([roff(60), w(12), ron(60), w(12)])
    m.concatenate([m])
    m.normalise()
    v = [(x.message_type.value, x.time, x.note) for x in m.rel._messages]
    notes = [x[0] for x in v if x[0] in ("note_on", "note_off")]
    return notes == ["note_on", "note_off"], f"normalise of the repeated section gives {v}: orphan note-off / unclosed note-on (the closed occurrence of the shared NOTE_ON was removed instead of the unclosed one)"


def run(ids=None):
    res = {}
    for k, (props, f) in W.items():
        if ids and k not in ids:
            continue
        try:
            ok, detail = f()
        except Exception as e:  # a crash is a failure of the witness' property as well
            ok, detail = False, f"raised {type(e).__name__}: {e}"
        res[k] = {"props": props, "ok": bool(ok), "detail": detail if not ok else ""}
    return res


if __name__ == "__main__":
    r = run(sys.argv[1:] or None)
    for k, v in r.items():
        print(k, "OK" if v["ok"] else "FAIL", v["props"], v["detail"][:300])
