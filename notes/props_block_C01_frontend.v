
(* ================================================================ FRONT END (piece level).
   Vocabulary (Proofs/C01_frontend_sig.v, _pipe.v, _pair.v, C01_frontend.v, C01_frontend_total.v):
   * `valid_track i r` (boolean, = `track_ok i r`): r as track number i has non-negative waits; only WAIT / NOTE_ON /
     NOTE_OFF messages, plus TIME_SIGNATURE messages when i = 0; for every pitch that occurs its NOTE_ON / NOTE_OFF
     messages strictly alternate starting with an on, every on is closed, and its off comes after a positive wait sum
     (`sig_ok` of the pitch signature `psig`: single channel, no overlap, positive durations); at most one time
     signature per tick and none that repeats the signature in force (`ts_ok`).
     `tracks_ok 0 tracks` is the conjunction of `valid_track j (track j)` (C01_tracks_ok_spec).
   * `notes_of r`: the notes (pitch, onset, offset, velocity) of a relative track, by an independent accumulator
     (clock over the waits, table of open pitches).
   * `piece_tsl tracks`: the (tick, numerator, denominator) of the time signatures of track 0.
   * `ts_run g c t0 B l`: the time signatures l against the bar grid (bars of length B from t0): each on the tick grid;
     one inside a bar is unconstrained (the tokeniser ignores it); one on a bar line has a positive denominator, a
     whole number of eighths within the signature range and a bar length that is a positive multiple of g.
   * `valid_piece g c tracks` (boolean): one track per configured track, track j valid as track j, every note with
     onset on the grid g, pitch in range, duration among the note values, velocity <= 127, the duration of the
     longest track (`piece_dur`, where the INTERNAL cap can land) on the grid, and `ts_run` of the time signatures.
   * `track_notes i evs`: the (pitch, onset, offset, velocity) of the NOTE_ON events of channel i, in event order.
   * `note_msgs c x`: the two messages the decoder writes for note x (velocity replaced by its bin value).
   PARTIAL (what valid_piece excludes although the library accepts it): a time signature equal to the one in force
   (normalise drops it; see ex_repeated_ts_rejected) and two time signatures on one tick. *)
From Proofs Require Import C01_frontend_pipe C01_frontend C01_frontend_total.

(* Clause "tokenisation succeeds", front-end part, for EVERY input: `tok_frontend` never fails.  Its only error
   would be the IndexError of get_interleaved_message_pairings (a channel without any pairing), which needs a
   NOTE_OFF without NOTE_ON, TIME_SIGNATURE or INTERNAL message; normalise never leaves one. *)
Theorem C01_frontend_total : forall tracks : list (list msg), exists evs, tok_frontend tracks = Ok evs.
Proof. exact C01_frontend_total.C01_frontend_total. Qed.
Print Assumptions C01_frontend_total.

(* `tracks_ok 0` is "track j is valid as track j". *)
Theorem C01_tracks_ok_spec : forall tracks : list (list msg),
  tracks_ok 0 tracks = true <-> forall n r, nth_error tracks n = Some r -> valid_track (0 + Z.of_nat n) r = true.
Proof. exact (fun tracks => C01_frontend.tracks_ok_valid_track tracks 0). Qed.
Print Assumptions C01_tracks_ok_spec.

(* The events of a valid piece: ordered by time; every event sits in the channel of its first message; the NOTE_ON
   events of channel i are exactly the notes of track i (as a multiset -- simultaneous notes of a track are re-ordered
   by pitch by AbsoluteSequence.sort -- and, pitch by pitch, in the same order); the TIME_SIGNATURE events are, in
   order, the time signatures of track 0. *)
Theorem C01_frontend_notes_partial : forall (g : Z) (c : cfg) (tracks : list (list msg)) (evs : list C01_rest.event),
  valid_piece g c tracks = true -> tok_frontend tracks = Ok evs ->
  Sorted.StronglySorted (fun a b => ev_time a <= ev_time b) evs /\
  (forall e, In e evs -> fst e = m_chan (ev_msg e)) /\
  (forall i, (i < length tracks)%nat ->
     Permutation (track_notes (Z.of_nat i) evs) (notes_of (nth i tracks [])) /\
     forall n, filter (pitch_is n) (track_notes (Z.of_nat i) evs) = filter (pitch_is n) (notes_of (nth i tracks []))) /\
  map ev_tsv (filter is_tsev evs) = piece_tsl tracks.
Proof. exact C01_frontend.C01_frontend_notes_partial. Qed.
Print Assumptions C01_frontend_notes_partial.

(* ... hence they satisfy the hypothesis of the core theorems above. *)
Theorem C01_frontend_valid_partial : forall (g : Z) (c : cfg) (tracks : list (list msg)) (evs : list C01_rest.event),
  valid_cfg g c = true -> valid_piece g c tracks = true -> tok_frontend tracks = Ok evs -> valid_events g c evs = true.
Proof. exact C01_frontend.C01_frontend_valid_partial. Qed.
Print Assumptions C01_frontend_valid_partial.

(* The property at piece level, for every valid configuration (all flag combinations, any bins / pitch range / note
   values / track count) and every valid piece (notes on all tracks, rests crossing bar lines, time-signature changes
   on track 0, simultaneous notes across tracks): tokenise succeeds with tokens of the vocabulary, they encode,
   decode gives them back, detokenise succeeds with one sequence per track, and the note messages of sequence i are
   exactly (up to the order of the messages; the sequences are time-ordered by C01_detok_sorted) the notes of track i
   -- same pitch, onset tick and offset tick -- with each velocity replaced by the value of its velocity bin.  Bar
   grid and total duration: the NOTE / INTERNAL content of sequence i is `exp_track c evs i` (an INTERNAL cap at every
   bar end passed by the reference clock over the front end's events evs, the last bar completed), and the final
   clock sits on that last bar line.  PARTIAL: see the note on valid_piece above. *)
Theorem C01_piece_roundtrip_partial : forall (g : Z) (c : cfg) (tracks : list (list msg)),
  valid_cfg g c = true -> valid_piece g c tracks = true ->
  exists evs toks st ids seqs,
    tok_frontend tracks = Ok evs /\ valid_events g c evs = true /\
    tokenise c (tstate0 c) tracks = Ok (toks, st) /\ Forall (fun t => In t (vocab c)) toks /\
    encode c toks = Ok ids /\ decode c ids = Ok toks /\
    t_time st = r_time (run_end c (rclk0 c) evs) /\ t_tbar st = 0 /\
    detokenise c toks = Ok seqs /\ length seqs = length tracks /\
    forall i, (i < length tracks)%nat ->
      Permutation (filter rel (nth i seqs [])) (exp_track c evs i) /\
      Permutation (filter is_note (nth i seqs [])) (flat_map (note_msgs c) (notes_of (nth i tracks []))).
Proof. exact C01_frontend.C01_piece_roundtrip_partial. Qed.
Print Assumptions C01_piece_roundtrip_partial.
