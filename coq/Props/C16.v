(* C16 -- Copies and derived sequences are independent values.
   The model store (Model/Store.v) is a functional `list seq`; objects are addressed by their index and new objects
   are appended.  Definitions (Proofs/C16_proofs.v):
     names o        every object index named by the operation o
     may_change o   the indices whose stored object may differ after o: the receiver of a mutator, and the objects a
                    read-only access regenerates (stale view rebuilt, absolute view sorted in place): the arguments
                    of merge, both sides of equals, the source of split, the inputs of bar splitting, the object of
                    a getter.  The source of OCopy / OBarCopy and the arguments of OConcat are NOT in it.
     writes o       the receiver of a mutator (the object whose events o is meant to change)
     memn j l       boolean membership;  leaves j ops := no operation of ops has j in may_change;
                    no_write j ops := no operation of ops has j in writes
     regen s s'     s' is reached from s by finitely many read-only accesses (get_abs, get_rel, seq_sort_abs)
     same_events s s'  a fresh relative view is literally kept, a fresh absolute view is kept up to the order of
                    its messages, a stale view is still stale and untouched or was regenerated from the other view;
                    an object with both views stale is unchanged. *)
From Coq Require Import ZArith List Bool Permutation.
From Model Require Import Base Seq Pairing Util Bars Store.
From Proofs Require Import C16_proofs.
Import ListNotations.
Open Scope Z_scope.

(* a copy equals its original: every fresh view of s is fresh and identical in the copy, the stale flags agree
   (unless both views of s are stale, where the copy is the empty sequence), and reading either view of the copy
   returns the same message list as reading it from the original *)
Theorem C16_copy_equal : forall s,
  (s_abs_stale s = false -> s_abs_stale (seq_copy s) = false /\ s_abs (seq_copy s) = s_abs s) /\
  (s_rel_stale s = false -> s_rel_stale (seq_copy s) = false /\ s_rel (seq_copy s) = s_rel s) /\
  (s_abs_stale s && s_rel_stale s = false ->
     s_abs_stale (seq_copy s) = s_abs_stale s /\ s_rel_stale (seq_copy s) = s_rel_stale s) /\
  (forall s1 a, get_abs s = Ok (s1, a) -> exists c1, get_abs (seq_copy s) = Ok (c1, a)) /\
  (forall s1 r, get_rel s = Ok (s1, r) -> exists c1, get_rel (seq_copy s) = Ok (c1, r)).
Proof. exact C16_proofs.C16_copy_equal. Qed.
Print Assumptions C16_copy_equal.

(* frame: one operation (any constructor of `op`) keeps every existing object at its index; the object is literally
   unchanged unless the operation may change it, and is at most regenerated unless the operation writes it *)
Theorem C16_frame : forall st o j s, nth_error st j = Some s ->
  exists s', nth_error (fst (step st o)) j = Some s' /\
             (memn j (may_change o) = false -> s' = s) /\
             (memn j (writes o) = false -> regen s s').
Proof. exact C16_proofs.C16_frame. Qed.
Print Assumptions C16_frame.

(* weaker corollary: an object the operation does not even name is literally unchanged *)
Theorem C16_frame_names : forall st o j s, nth_error st j = Some s -> memn j (names o) = false ->
  nth_error (fst (step st o)) j = Some s.
Proof. exact C16_proofs.C16_frame_names. Qed.
Print Assumptions C16_frame_names.

(* objects are only ever appended *)
Theorem C16_length : forall st o, (length st <= length (fst (step st o)))%nat.
Proof. exact C16_proofs.C16_length. Qed.
Print Assumptions C16_length.

(* meaning of `regen`: read-only accesses keep the events of both views *)
Theorem C16_regen_content : forall s s', regen s s' -> same_events s s'.
Proof. exact C16_proofs.C16_regen_content. Qed.
Print Assumptions C16_regen_content.

(* histories: an object no operation of the history may change is literally unchanged afterwards ... *)
Theorem C16_run_frame : forall ops st j s, nth_error st j = Some s -> leaves j ops = true ->
  nth_error (fst (run st ops)) j = Some s.
Proof. exact C16_proofs.C16_run_frame. Qed.
Print Assumptions C16_run_frame.

(* ... and an object that is only read (as an argument of merge / equals / split / bar splitting, or through its
   getters) is at most regenerated *)
Theorem C16_run_reads : forall ops st j s, nth_error st j = Some s -> no_write j ops = true ->
  exists s', nth_error (fst (run st ops)) j = Some s' /\ regen s s'.
Proof. exact C16_proofs.C16_run_reads. Qed.
Print Assumptions C16_run_reads.

(* copy: the original stays at i (literally untouched by copying), the copy is the new last object; any later
   history that does not operate on the original (in particular any history on the copy) leaves the original literally
   unchanged -- both views and both flags -- and vice versa *)
Theorem C16_copy_independent : forall st i s ops, nth_error st i = Some s ->
  let st1 := fst (step st (OCopy i)) in
  let c := length st in
  nth_error st1 i = Some s /\ nth_error st1 c = Some (seq_copy s) /\ i <> c /\
  (leaves i ops = true -> nth_error (fst (run st1 ops)) i = Some s) /\
  (leaves c ops = true -> nth_error (fst (run st1 ops)) c = Some (seq_copy s)).
Proof. exact C16_proofs.C16_copy_independent. Qed.
Print Assumptions C16_copy_independent.

(* split: the source only has its relative view regenerated, the pieces are new objects behind the old store;
   histories that do not operate on a piece leave it unchanged, histories that do not operate on the source leave the
   source unchanged *)
Theorem C16_split_independent : forall st i caps s s1 r ops, nth_error st i = Some s -> get_rel s = Ok (s1, r) ->
  let st1 := fst (step st (OSplit i caps)) in
  nth_error st1 i = Some s1 /\ regen s s1 /\
  length st1 = (length st + length (seq_split r caps))%nat /\
  (forall k piece, nth_error (seq_split r caps) k = Some piece ->
     nth_error st1 (length st + k) = Some (seq_of_rel piece) /\
     (leaves (length st + k) ops = true -> nth_error (fst (run st1 ops)) (length st + k) = Some (seq_of_rel piece))) /\
  (leaves i ops = true -> nth_error (fst (run st1 ops)) i = Some s1).
Proof. exact C16_proofs.C16_split_independent. Qed.
Print Assumptions C16_split_independent.

(* every derivation route (OCopy, OBarCopy, OSplit, OSplitBars with qnl = true / false, ...): each object of the
   store after the derivation, old or new, is literally unchanged by every later history that does not operate on it
   and keeps its events under every later history that does not write it *)
Theorem C16_derived_independent : forall st o ops j x,
  let st1 := fst (step st o) in
  nth_error st1 j = Some x ->
  (length st <= length st1)%nat /\
  (leaves j ops = true -> nth_error (fst (run st1 ops)) j = Some x) /\
  (no_write j ops = true -> exists x', nth_error (fst (run st1 ops)) j = Some x' /\ same_events x x').
Proof. exact C16_proofs.C16_derived_independent. Qed.
Print Assumptions C16_derived_independent.

(* bar splitting keeps the events of all its inputs (they are only regenerated) and does not touch other objects *)
Theorem C16_split_bars_inputs : forall st is_ meta qnl j s, nth_error st j = Some s ->
  exists s', nth_error (fst (step st (OSplitBars is_ meta qnl))) j = Some s' /\ same_events s s' /\
             (memn j (meta :: is_) = false -> s' = s).
Proof. exact C16_proofs.C16_split_bars_inputs. Qed.
Print Assumptions C16_split_bars_inputs.

(* ================================================================ bars, tracks, compositions (Model/Comp.v,
   Proofs/Comp_proofs.v).  A composition is a list of tracks, a track a list of bars plus a program, a bar owns a
   Sequence object; all are values of the functional model.  Vocabulary (Proofs/Comp_proofs.v):
     bar_built b    b is a value returned by the Bar constructor:  exists s, cbar_new s (cb_num b) (cb_den b) (cb_key b) = Ok b
     track_built t  all bars of t are bar_built and t is what the Track constructor returns on them
     comp_built c   all tracks of c are track_built
     ticks l 0      (Proofs/C18_proofs.v) the non-wait messages of the relative list l with their accumulated ticks *)
From Model Require Import Comp.
From Proofs Require Import C18_proofs Comp_proofs.

(* frame: applying any bar operation f (transpose, copy, any history on the bar's sequence, ...) to bar bi of track
   ti yields a composition of the same shape in which every other track is literally the old one, and in track ti the
   program and every other bar are literally the old ones: the other bars are independent by construction *)
Theorem C16_comp_frame : forall (c c' : comp) (ti bi : nat) (f : cbar -> result cbar),
  comp_on_bar c ti bi f = Ok c' ->
  length c' = length c /\
  (forall tj, tj <> ti -> nth_error c' tj = nth_error c tj) /\
  exists t b b' t', nth_error c ti = Some t /\ nth_error (ct_bars t) bi = Some b /\ f b = Ok b' /\
    nth_error c' ti = Some t' /\ ct_program t' = ct_program t /\ length (ct_bars t') = length (ct_bars t) /\
    nth_error (ct_bars t') bi = Some b' /\
    (forall bj, bj <> bi -> nth_error (ct_bars t') bj = nth_error (ct_bars t) bj).
Proof. exact Comp_proofs.C16_comp_frame. Qed.
Print Assumptions C16_comp_frame.

(* the call fails only for an index out of range or because the bar operation itself fails *)
Theorem C16_comp_frame_err : forall (c : comp) (ti bi : nat) (f : cbar -> result cbar) (e : err),
  comp_on_bar c ti bi f = Err e ->
  (e = IndexErr /\ (nth_error c ti = None \/ exists t, nth_error c ti = Some t /\ nth_error (ct_bars t) bi = None)) \/
  exists t b, nth_error c ti = Some t /\ nth_error (ct_bars t) bi = Some b /\ f b = Err e.
Proof. exact Comp_proofs.C16_comp_frame_err. Qed.
Print Assumptions C16_comp_frame_err.

(* what Composition.from_sequences returns is made by the constructors *)
Theorem C16_comp_from_sequences_built : forall (rels : list (list msg)) (meta : nat) (c : comp),
  comp_from_sequences rels meta = Ok c -> comp_built c.
Proof. exact Comp_proofs.comp_from_sequences_built. Qed.
Print Assumptions C16_comp_from_sequences_built.

(* clause "a copy of a ... composition equals its original": Composition.copy of a composition built by
   from_sequences never raises; the copy has the same number of tracks, track by track the same program and number
   of bars, and bar by bar the same signature, key, timed events of the (fresh) relative view and duration.  The
   copy is again made by the constructors. *)
Theorem C16_comp_copy : forall (rels : list (list msg)) (meta : nat) (c : comp),
  comp_from_sequences rels meta = Ok c ->
  exists c', comp_copy c = Ok c' /\
    (length c' = length c /\
     forall ti t, nth_error c ti = Some t ->
       exists t', nth_error c' ti = Some t' /\ ct_program t' = ct_program t /\
         length (ct_bars t') = length (ct_bars t) /\
         forall bi b, nth_error (ct_bars t) bi = Some b ->
           exists b', nth_error (ct_bars t') bi = Some b' /\
             cb_num b' = cb_num b /\ cb_den b' = cb_den b /\ cb_key b' = cb_key b /\
             s_rel_stale (cb_seq b) = false /\ s_rel_stale (cb_seq b') = false /\
             ticks (s_rel (cb_seq b')) 0 = ticks (s_rel (cb_seq b)) 0 /\
             dur_rel (s_rel (cb_seq b')) = dur_rel (s_rel (cb_seq b))) /\
    comp_built c'.
Proof. exact Comp_proofs.C16_comp_copy. Qed.
Print Assumptions C16_comp_copy.

(* the same for every composition made by the constructors (so also for copies of copies); comp_equal c c' is the
   shape / program / bar-by-bar statement spelled out in C16_comp_copy.  The hypothesis is needed: a hand-assembled
   track whose bars carry different programs makes Track (hence copy) raise, Comp_proofs.C16_comp_copy_needs_built *)
Theorem C16_comp_copy_built : forall c : comp, comp_built c ->
  exists c', comp_copy c = Ok c' /\ comp_equal c c' /\ comp_built c'.
Proof. exact Comp_proofs.C16_comp_copy_built. Qed.
Print Assumptions C16_comp_copy_built.

(* "a copy of a ... track equals its original" *)
Theorem C16_track_copy : forall t : ctrack, track_built t ->
  exists t', ctrack_copy t = Ok t' /\ ct_program t' = ct_program t /\ length (ct_bars t') = length (ct_bars t) /\
    (forall bi b, nth_error (ct_bars t) bi = Some b -> exists b', nth_error (ct_bars t') bi = Some b' /\ bar_equal b b') /\
    track_built t'.
Proof. exact Comp_proofs.C16_track_copy. Qed.
Print Assumptions C16_track_copy.

(* laid end to end again (Composition.to_sequences), original and copy give track by track sequences with the same
   timed events and the same duration *)
Theorem C16_comp_copy_sequences : forall c c' : comp, comp_built c -> comp_copy c = Ok c' ->
  exists ss ss', comp_to_sequences c = Ok ss /\ comp_to_sequences c' = Ok ss' /\ length ss' = length ss /\
    forall ti s, nth_error ss ti = Some s ->
      exists s', nth_error ss' ti = Some s' /\ ticks (s_rel s') 0 = ticks (s_rel s) 0 /\
                 dur_rel (s_rel s') = dur_rel (s_rel s).
Proof. exact Comp_proofs.C16_comp_copy_sequences. Qed.
Print Assumptions C16_comp_copy_sequences.

(* ================================================================ compound operations (Model/ScaleDown.v,
   Proofs/C16_hops.v).  Vocabulary:
     optl meta        [j] for meta = Some j, [] for None
     names_h h        every object index named by the compound operation h (HOp o / HFail o e: names o; HSeq os: the
                      names of all of os; HScaleDown i k meta then_: i, the meta object and the names of then_)
     may_change_h h   likewise with may_change (for HScaleDown: i and the meta object, whose views are refreshed)
     writes_h h       likewise with writes (for HScaleDown: i only -- the meta object is only read)
     leaves_h j hs := no compound operation of hs has j in may_change_h;  no_write_h j hs := none has j in writes_h *)
From Model Require Import ScaleDown.
From Proofs Require Import C16_hops.

(* frame for one compound operation (any constructor of `hop`, including one that stops at its first error): every
   existing object stays at its index; it is literally unchanged unless the compound may change it, and at most
   regenerated unless the compound writes it.  In particular the meta object j <> i of scale(1/k, meta) is at most
   regenerated *)
Theorem C16_hframe : forall st h j s, nth_error st j = Some s ->
  exists s', nth_error (fst (hstep st h)) j = Some s' /\
             (memn j (may_change_h h) = false -> s' = s) /\
             (memn j (writes_h h) = false -> regen s s').
Proof. exact C16_hops.C16_hframe. Qed.
Print Assumptions C16_hframe.

(* an object the compound operation does not even name is literally unchanged *)
Theorem C16_hframe_names : forall st h j s, nth_error st j = Some s -> memn j (names_h h) = false ->
  nth_error (fst (hstep st h)) j = Some s.
Proof. exact C16_hops.C16_hframe_names. Qed.
Print Assumptions C16_hframe_names.

(* the store only grows *)
Theorem C16_hlength : forall st h, (length st <= length (fst (hstep st h)))%nat.
Proof. exact C16_hops.C16_hlength. Qed.
Print Assumptions C16_hlength.

(* scale(1/k, meta) on object i by itself: objects other than i and the meta object are literally unchanged; every
   object other than i -- in particular the meta object -- is at most regenerated and keeps its events; when the call
   fails (returns an error) this holds for object i too: only views were refreshed *)
Theorem C16_scale_down_frame : forall st i k meta j s, nth_error st j = Some s ->
  exists s', nth_error (fst (store_scale_down st i k meta)) j = Some s' /\
             (j <> i -> meta <> Some j -> s' = s) /\
             (j <> i -> regen s s' /\ same_events s s') /\
             (forall e, snd (store_scale_down st i k meta) = OErr e -> regen s s' /\ same_events s s').
Proof. exact C16_hops.C16_scale_down_frame. Qed.
Print Assumptions C16_scale_down_frame.

(* ... and it creates no object *)
Theorem C16_scale_down_length : forall st i k meta, length (fst (store_scale_down st i k meta)) = length st.
Proof. exact C16_hops.C16_scale_down_length. Qed.
Print Assumptions C16_scale_down_length.

(* histories of compound operations: an object no compound may change is literally unchanged afterwards; an object
   that is only read (e.g. used as meta sequence of scale) is at most regenerated and keeps its events; objects are
   only ever appended *)
Theorem C16_run_h_frame : forall hs st j s, nth_error st j = Some s -> leaves_h j hs = true ->
  nth_error (fst (run_h st hs)) j = Some s.
Proof. exact C16_hops.C16_run_h_frame. Qed.
Print Assumptions C16_run_h_frame.

Theorem C16_run_h_reads : forall hs st j s, nth_error st j = Some s -> no_write_h j hs = true ->
  exists s', nth_error (fst (run_h st hs)) j = Some s' /\ regen s s' /\ same_events s s'.
Proof. exact C16_hops.C16_run_h_reads. Qed.
Print Assumptions C16_run_h_reads.

Theorem C16_run_h_length : forall hs st, (length st <= length (fst (run_h st hs)))%nat.
Proof. exact C16_hops.C16_run_h_length. Qed.
Print Assumptions C16_run_h_length.
