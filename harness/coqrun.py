"""Evaluate model expressions inside Coq (vm_compute) and compare with expected strings.

run_cases(cases) with cases = [(id, coq_expr_of_type_string, expected_string)] writes shards
coq/cases/<tag>_<k>.v, compiles them in parallel with coqc and returns {id: model_output} for the mismatching
cases (empty dict = model and implementation agree everywhere).  eval_exprs returns the model's outputs themselves.
"""
import os, re, subprocess, hashlib, concurrent.futures as cf

VERIF = os.path.dirname(os.path.dirname(os.path.abspath(__file__)))
COQ = os.path.join(VERIF, "coq")
CASES = os.path.join(COQ, "cases")
COQFLAGS = ["-Q", os.path.join(COQ, "Gen"), "Gen", "-Q", os.path.join(COQ, "Model"), "Model"]
HEADER = ("From Model Require Import Base Seq Pairing Bars Store ScaleDown Tok Midi Comp Getters Show ShowX.\n"
          "Open Scope string_scope.\nOpen Scope Z_scope.\n")


class CoqError(Exception):
    pass


def _unescape(s):
    return s.replace('""', '"')


_PAIR = re.compile(r'\(\s*"((?:[^"]|"")*)"\s*,\s*"((?:[^"]|"")*)"\s*\)', re.S)
_COUNT = re.compile(r'=\s*(\d+)(?:%nat)?\s*:\s*nat\s*$')
_STR = re.compile(r'"((?:[^"]|"")*)"', re.S)


def _coqc(path, timeout):
    try:
        cmd = "ulimit -s unlimited 2>/dev/null || ulimit -s 1000000 2>/dev/null; exec coqc " + " ".join(COQFLAGS + [path])
        p = subprocess.run(["bash", "-c", cmd], capture_output=True, text=True, timeout=timeout)
    except subprocess.TimeoutExpired:
        raise CoqError(f"coqc timeout on {path}")
    if p.returncode != 0:
        raise CoqError(f"coqc failed on {path}:\n{p.stdout[-2000:]}\n{p.stderr[-3000:]}")
    return p.stdout


def _clean(path):
    base = path[:-2]
    for ext in (".v", ".vo", ".vok", ".vos", ".glob", ".aux"):
        for cand in (base + ext, os.path.join(os.path.dirname(base), "." + os.path.basename(base) + ext)):
            if os.path.exists(cand):
                os.remove(cand)


def _shard(tag, k):
    os.makedirs(CASES, exist_ok=True)
    return os.path.join(CASES, f"{tag}_{os.getpid()}_{k}.v")


def _one_mismatch(args):
    path, chunk, timeout, keep = args
    body = [HEADER, "Definition cases : list (string * string * string) := ["]
    body.append(";\n".join(f'  ("{i}", {e}, "{x}")' for i, e, x in chunk))
    body.append("].\nEval vm_compute in (mismatches cases).\nEval vm_compute in (List.length (mismatches cases)).\n")
    with open(path, "w") as f:
        f.write("\n".join(body))
    try:
        out = _coqc(path, timeout)
    finally:
        if not keep:
            _clean(path)
    out = out.replace("\n", " ")
    res = {_unescape(a): _unescape(b) for a, b in _PAIR.findall(out)}
    # fail closed: the number of mismatches Coq counted must be the number of pairs parsed from its pretty-printed list
    m = _COUNT.search(out.strip())
    if m is None or int(m.group(1)) != len(res):
        raise CoqError(f"{path}: Coq reports {m.group(1) if m else '?'} mismatching cases, {len(res)} were parsed from its output")
    return res


def run_cases(cases, tag="c", shard=64, jobs=None, timeout=900, keep=False):
    if not cases:
        return {}
    for i, e, x in cases:
        assert '"' not in x and '"' not in i, (i, x)
    jobs = jobs or min(16, os.cpu_count() or 4)
    chunks = [cases[k:k + shard] for k in range(0, len(cases), shard)]
    args = [(_shard(tag, k), ch, timeout, keep) for k, ch in enumerate(chunks)]
    res = {}
    with cf.ThreadPoolExecutor(max_workers=jobs) as ex:
        for r in ex.map(_one_mismatch, args):
            res.update(r)
    return res


def _one_eval(args):
    path, chunk, timeout = args
    with open(path, "w") as f:
        f.write(HEADER)
        f.write("Definition outs : list string := [\n" + ";\n".join(f"  {e}" for e in chunk) + "].\n")
        f.write("Eval vm_compute in outs.\n")
    try:
        out = _coqc(path, timeout)
    finally:
        _clean(path)
    out = out.replace("\n", " ")
    got = [_unescape(s) for s in _STR.findall(out)]
    if len(got) != len(chunk):
        raise CoqError(f"expected {len(chunk)} outputs, parsed {len(got)}")
    return got


def eval_exprs(exprs, tag="e", shard=250, jobs=None, timeout=900):
    """returns the list of strings the model computes for each Coq expression (of type string)"""
    if not exprs:
        return []
    jobs = jobs or min(16, os.cpu_count() or 4)
    chunks = [exprs[k:k + shard] for k in range(0, len(exprs), shard)]
    args = [(_shard(tag, k), ch, timeout) for k, ch in enumerate(chunks)]
    res = []
    with cf.ThreadPoolExecutor(max_workers=jobs) as ex:
        for r in ex.map(_one_eval, args):
            res.extend(r)
    return res
