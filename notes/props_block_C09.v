
(* ["Laid end to end, a track's bars reproduce its sounding (channel, pitch, tick) set exactly when note-length
   re-quantisation is off"]  (Proofs/C09_sound.v)  `sound k t 0 None l = Some v` (Proofs/C08_proofs.v) says that key
   k = (channel, pitch) is sounding at tick t of the relative list l, with velocity v; `paired_pos` is C08's
   predicate (per key NOTE_ON / NOTE_OFF alternate, starting with an on and ending with an off, a positive wait
   between an on and its off).  For every track i, every key and every tick, the bars of track i laid end to end
   sound exactly like track i (same velocity, too).  Hypotheses: non-negative waits, positive bar lengths, paired
   tracks.  Time / key signature messages inside the tracks are allowed (a track whose piece conflicts with the bar's
   signature makes split_bars fail, which `= Ok bars` excludes).  Re-quantisation ON: C09_sound_subset below. *)
From Proofs Require Import C08_proofs C09_sound.

Theorem C09_sound_conserved : forall (rels : list (list msg)) (meta : list msg) (bars : list (list bar)),
  split_bars rels meta false = Ok bars ->
  all_nonneg rels = true -> all_pos (filter is_ts meta) = true -> forallb paired_pos rels = true ->
  forall (i : nat) (bs : list bar) (r : list msg), nth_error bars i = Some bs -> nth_error rels i = Some r ->
  forall (k : k2) (t : Z), sound k t 0 None (concat (map b_rel bs)) = sound k t 0 None r.
Proof. exact C09_sound.C09_sound_conserved. Qed.
Print Assumptions C09_sound_conserved.

Theorem C09_sound_conserved_nth : forall (rels : list (list msg)) (meta : list msg) (bars : list (list bar)),
  split_bars rels meta false = Ok bars ->
  all_nonneg rels = true -> all_pos (filter is_ts meta) = true -> forallb paired_pos rels = true ->
  forall i : nat, (i < length rels)%nat ->
  forall (k : k2) (t : Z), sound k t 0 None (concat (map b_rel (nth i bars []))) = sound k t 0 None (nth i rels []).
Proof. exact C09_sound.C09_sound_conserved_nth. Qed.
Print Assumptions C09_sound_conserved_nth.

(* ["... and a subset of it when it is on"]  (Proofs/C09_sound_qnl.v; isS o = true iff o = Some _)  with note-length
   re-quantisation on, the bars of track i laid end to end sound only where track i sounds -- same hypotheses.
   Uses Proofs/Sound_glue.v (to_abs / to_rel keep the sounding set) and C06_main (the re-quantiser is the per-key
   reference qnl_key, which only shortens or drops notes). *)
From Proofs Require Import C09_sound_qnl.

Theorem C09_sound_subset : forall (rels : list (list msg)) (meta : list msg) (bars : list (list bar)),
  split_bars rels meta true = Ok bars ->
  all_nonneg rels = true -> all_pos (filter is_ts meta) = true -> forallb paired_pos rels = true ->
  forall (i : nat) (bs : list bar) (r : list msg), nth_error bars i = Some bs -> nth_error rels i = Some r ->
  forall (k : k2) (t : Z),
    isS (sound k t 0 None (concat (map b_rel bs))) = true -> isS (sound k t 0 None r) = true.
Proof. exact C09_sound_qnl.C09_sound_subset. Qed.
Print Assumptions C09_sound_subset.

(* the parenthesis "(only boundary-cut fragments may shrink)" is FALSE: the default note values are
   [24; 12; 6; 16; 8; 4; 36; 18; 9], so every note longer than 36 ticks is shortened to 36 -- here a half note
   [0, 48) lying entirely inside the single 4/4 bar sounds only on [0, 36) afterwards *)
Theorem C09_sound_only_cut_fragments_shrink_refuted :
  exists (rels : list (list msg)) (b : bar),
    all_nonneg rels = true /\ forallb paired_pos rels = true /\ split_bars rels [] true = Ok [[b]] /\
    dur_rel (nth 0 rels []) = 96 /\
    isS (sound (0, 60) 40 0 None (nth 0 rels [])) = true /\ isS (sound (0, 60) 40 0 None (b_rel b)) = false.
Proof.
  exists C09_qnl_examples.qx_half. eexists. split; [vm_compute; reflexivity|]. split; [vm_compute; reflexivity|].
  split; [vm_compute; reflexivity|]. vm_compute. repeat split; reflexivity.
Qed.
Print Assumptions C09_sound_only_cut_fragments_shrink_refuted.
