(* C05_closest -- lemmas shared by C05 and C06: find_minimal_distance / closest, dict helpers, sort_abs is a
   permutation, index_from / remove_indices. *)
From Coq Require Import ZArith List Bool Lia Permutation.
From Model Require Import Base Seq Pairing.
Import ListNotations.
Open Scope Z_scope.

(* ------------------------------------------------------------------ find_minimal_distance *)
Definition dist (e x : Z) : Z := Z.abs (x - e).

Lemma dist_nonneg e x : 0 <= dist e x.
Proof. unfold dist; lia. Qed.

Definition fmd_found (e : Z) (l : list Z) (n : nat) : Prop :=
  (n < length l)%nat /\
  (forall x, In x l -> dist e (nth n l 0) <= dist e x) /\
  (forall k, (k < n)%nat -> dist e (nth n l 0) < dist e (nth k l 0)).

Lemma fmd_found_here e c l :
  (forall x, In x l -> dist e c <= dist e x) -> fmd_found e (c :: l) 0.
Proof.
  intros H. repeat split; cbn [length nth]; try lia.
  intros x [<-|Hx]; [lia|auto].
Qed.

Lemma fmd_found_later e c l n :
  fmd_found e l n -> dist e (nth n l 0) < dist e c -> fmd_found e (c :: l) (S n).
Proof.
  intros (Hn & Hmin & Hfirst) Hlt. repeat split; cbn [length nth]; try lia.
  - intros x [<-|Hx]; [lia|auto].
  - intros [|k] Hk; cbn [nth]; [lia|apply Hfirst; lia].
Qed.

Lemma fmd_aux_spec : forall l e i best,
  match best with
  | None => l <> [] -> exists n, fmd_aux e l i None = i + Z.of_nat n /\ fmd_found e l n
  | Some (bd, bi) =>
      (fmd_aux e l i best = bi /\ forall x, In x l -> bd <= dist e x) \/
      (exists n, fmd_aux e l i best = i + Z.of_nat n /\ dist e (nth n l 0) < bd /\ fmd_found e l n)
  end.
Proof.
  induction l as [|c l IH]; intros e i best.
  - destruct best as [[bd bi]|]; [left; split; [reflexivity|intros x []]|intros H; congruence].
  - destruct best as [[bd bi]|].
    + cbn [fmd_aux]. fold (dist e c).
      destruct (dist e c <? bd) eqn:Elt; [apply Z.ltb_lt in Elt|apply Z.ltb_ge in Elt].
      * destruct (dist e c =? 0) eqn:Ez; [apply Z.eqb_eq in Ez|].
        -- right. exists O. split; [cbn; lia|]. split; [cbn [nth]; lia|].
           apply fmd_found_here. intros x _. pose proof (dist_nonneg e x). lia.
        -- specialize (IH e (i + 1) (Some (dist e c, i))). cbn beta iota in IH.
           destruct IH as [[Hr Hall]|(n & Hr & Hlt & Hf)].
           ++ right. exists O. split; [rewrite Hr; cbn; lia|]. split; [cbn [nth]; lia|].
              now apply fmd_found_here.
           ++ right. exists (S n). split; [rewrite Hr; lia|]. split; [cbn [nth]; lia|].
              now apply fmd_found_later.
      * specialize (IH e (i + 1) (Some (bd, bi))). cbn beta iota in IH.
        destruct IH as [[Hr Hall]|(n & Hr & Hlt & Hf)].
        -- left. split; [exact Hr|]. intros x [<-|Hx]; [exact Elt|auto].
        -- right. exists (S n). split; [rewrite Hr; lia|]. split; [cbn [nth]; lia|].
           apply fmd_found_later; [exact Hf|lia].
    + intros _. cbn [fmd_aux]. fold (dist e c).
      destruct (dist e c =? 0) eqn:Ez; [apply Z.eqb_eq in Ez|].
      * exists O. split; [lia|]. apply fmd_found_here.
        intros x _. pose proof (dist_nonneg e x). lia.
      * specialize (IH e (i + 1) (Some (dist e c, i))). cbn beta iota in IH.
        destruct IH as [[Hr Hall]|(n & Hr & Hlt & Hf)].
        -- exists O. split; [rewrite Hr; lia|]. now apply fmd_found_here.
        -- exists (S n). split; [rewrite Hr; lia|]. now apply fmd_found_later.
Qed.

Lemma fmd_spec e l : l <> [] ->
  exists n, find_minimal_distance e l = Z.of_nat n /\ fmd_found e l n.
Proof.
  intros H. destruct (fmd_aux_spec l e 0 None H) as (n & Hr & Hf).
  exists n. split; [unfold find_minimal_distance; rewrite Hr; lia|exact Hf].
Qed.

Lemma closest_spec e l : l <> [] ->
  exists n, find_minimal_distance e l = Z.of_nat n /\ closest e l = nth n l 0 /\ fmd_found e l n.
Proof.
  intros H. destruct (fmd_spec e l H) as (n & Hr & Hf). exists n. split; [exact Hr|]. split; [|exact Hf].
  unfold closest, nthZ. rewrite Hr, Nat2Z.id. reflexivity.
Qed.

Lemma closest_in e l : l <> [] -> In (closest e l) l.
Proof.
  intros H. destruct (closest_spec e l H) as (n & _ & -> & (Hn & _)). now apply nth_In.
Qed.

Lemma closest_min e l x : In x l -> Z.abs (closest e l - e) <= Z.abs (x - e).
Proof.
  intros Hx. assert (H : l <> []) by (intros ->; destruct Hx).
  destruct (closest_spec e l H) as (n & _ & -> & (_ & Hmin & _)). now apply Hmin.
Qed.

(* ------------------------------------------------------------------ dictionaries: values *)
Section DictVals.
  Context {K V : Type} (eqb : K -> K -> bool).

  Lemma dget_in k (d : list (K * V)) v : dget eqb k d = Some v -> exists k', In (k', v) d.
  Proof.
    induction d as [|[k' v'] d IH]; cbn [dget]; [discriminate|].
    destruct (eqb k k'); [intros [= ->]; exists k'; now left|].
    intros H. destruct (IH H) as (k'' & Hin). exists k''. now right.
  Qed.

  Lemma dset_in k v (d : list (K * V)) kv : In kv (dset eqb k v d) -> snd kv = v \/ In kv d.
  Proof.
    induction d as [|[k' v'] d IH]; cbn [dset].
    - intros [<-|[]]. now left.
    - destruct (eqb k k').
      + intros [<-|H]; [now left|right; now right].
      + intros [<-|H]; [right; now left|]. destruct (IH H); [now left|right; now right].
  Qed.

  Lemma ddel_in k (d : list (K * V)) kv : In kv (ddel eqb k d) -> In kv d.
  Proof.
    induction d as [|[k' v'] d IH]; cbn [ddel]; [auto|].
    destruct (eqb k k'); [intros H; now right|].
    intros [<-|H]; [now left|right; auto].
  Qed.

  Lemma dget_vals (P : V -> Prop) k (d : list (K * V)) v :
    Forall (fun kv => P (snd kv)) d -> dget eqb k d = Some v -> P v.
  Proof.
    intros HF H. destruct (dget_in _ _ _ H) as (k' & Hin).
    rewrite Forall_forall in HF. exact (HF _ Hin).
  Qed.

  Lemma dset_vals (P : V -> Prop) k v (d : list (K * V)) :
    Forall (fun kv => P (snd kv)) d -> P v -> Forall (fun kv => P (snd kv)) (dset eqb k v d).
  Proof.
    rewrite !Forall_forall. intros HF Hv kv Hin.
    destruct (dset_in _ _ _ _ Hin) as [->|H]; auto.
  Qed.

  Lemma ddel_vals (P : V -> Prop) k (d : list (K * V)) :
    Forall (fun kv => P (snd kv)) d -> Forall (fun kv => P (snd kv)) (ddel eqb k d).
  Proof.
    rewrite !Forall_forall. intros HF kv Hin. apply HF. eapply ddel_in; eauto.
  Qed.
End DictVals.

(* ------------------------------------------------------------------ sort_abs is a permutation *)
Lemma ins_sorted_perm x l : Permutation (ins_sorted x l) (x :: l).
Proof.
  induction l as [|y l IH]; cbn [ins_sorted]; [reflexivity|].
  destruct (key_le x y); [reflexivity|].
  rewrite IH. apply perm_swap.
Qed.

Lemma sort_abs_perm l : Permutation (sort_abs l) l.
Proof.
  induction l as [|x l IH]; cbn [sort_abs]; [reflexivity|].
  rewrite ins_sorted_perm. now constructor.
Qed.

Lemma sort_abs_in x l : In x (sort_abs l) <-> In x l.
Proof.
  split; apply Permutation_in; [apply sort_abs_perm|symmetry; apply sort_abs_perm].
Qed.

Lemma sort_abs_Forall (P : msg -> Prop) l : Forall P l -> Forall P (sort_abs l).
Proof.
  intros H. eapply Permutation_Forall; [symmetry; apply sort_abs_perm|exact H].
Qed.

Lemma filter_perm {A} (p : A -> bool) l l' : Permutation l l' -> Permutation (filter p l) (filter p l').
Proof.
  induction 1; cbn [filter].
  - reflexivity.
  - destruct (p x); [now constructor|assumption].
  - destruct (p x), (p y); try reflexivity; try apply perm_swap.
  - etransitivity; eauto.
Qed.

(* ------------------------------------------------------------------ index_from / remove_indices *)
Lemma index_from_in {A} (l : list A) : forall k i x,
  In (i, x) (index_from k l) <-> (k <= i)%nat /\ nth_error l (i - k) = Some x.
Proof.
  induction l as [|y l IH]; intros k i x; cbn [index_from].
  - split; [intros []|intros [_ H]; destruct (i - k)%nat; discriminate].
  - split.
    + intros [[= <- <-]|H].
      * split; [lia|]. now rewrite Nat.sub_diag.
      * apply IH in H. destruct H as [Hk Hn]. split; [lia|].
        replace (i - k)%nat with (S (i - S k)) by lia. exact Hn.
    + intros [Hk Hn]. destruct (Nat.eq_dec i k) as [->|Hne].
      * rewrite Nat.sub_diag in Hn. cbn in Hn. injection Hn as <-. now left.
      * right. apply IH. split; [lia|].
        replace (i - k)%nat with (S (i - S k)) in Hn by lia. exact Hn.
Qed.

Lemma index_from_fun {A} (l : list A) k i x y :
  In (i, x) (index_from k l) -> In (i, y) (index_from k l) -> x = y.
Proof.
  rewrite !index_from_in. intros [_ H1] [_ H2]. congruence.
Qed.

Lemma index_from_snd {A} (l : list A) : forall k, map snd (index_from k l) = l.
Proof. induction l as [|x l IH]; intros k; cbn; [reflexivity|now rewrite IH]. Qed.

Lemma index_from_app {A} (l1 l2 : list A) : forall k,
  index_from k (l1 ++ l2) = index_from k l1 ++ index_from (k + length l1) l2.
Proof.
  induction l1 as [|x l1 IH]; intros k; cbn [index_from app length].
  - now rewrite Nat.add_0_r.
  - rewrite IH. replace (S k + length l1)%nat with (k + S (length l1))%nat by lia. reflexivity.
Qed.

Lemma remove_indices_in {A} (l : list A) idx x : In x (remove_indices l idx) -> In x l.
Proof.
  unfold remove_indices. intros H. apply in_map_iff in H. destruct H as ([i y] & <- & H).
  apply filter_In in H. destruct H as [H _]. cbn.
  rewrite <- (index_from_snd l 0). apply in_map_iff. exists (i, y). now split.
Qed.

Lemma remove_indices_Forall {A} (P : A -> Prop) (l : list A) idx :
  Forall P l -> Forall P (remove_indices l idx).
Proof.
  rewrite !Forall_forall. intros H x Hx. apply H. eapply remove_indices_in; eauto.
Qed.

(* removing only indices of elements that fail p does not change the p-elements *)
Lemma filter_remove_aux {A} (p : A -> bool) idx : forall (l : list A) k,
  (forall i x, In (i, x) (index_from k l) -> In i idx -> p x = false) ->
  filter p (map snd (filter (fun ia => negb (existsb (Nat.eqb (fst ia)) idx)) (index_from k l))) = filter p l.
Proof.
  induction l as [|y l IH]; intros k H; cbn [index_from filter map]; [reflexivity|].
  cbn [fst]. destruct (existsb (Nat.eqb k) idx) eqn:E; cbn [negb].
  - assert (Hy : p y = false).
    { apply (H k y); [now left|]. apply existsb_exists in E. destruct E as (j & Hj & Ej).
      apply Nat.eqb_eq in Ej. now subst. }
    rewrite Hy. apply IH. intros i x Hin. apply H. now right.
  - cbn [map snd filter]. rewrite IH; [reflexivity|]. intros i x Hin. apply H. now right.
Qed.

Lemma filter_remove_indices {A} (p : A -> bool) (l : list A) idx :
  (forall i x, In (i, x) (index_from 0 l) -> In i idx -> p x = false) ->
  filter p (remove_indices l idx) = filter p l.
Proof. apply filter_remove_aux. Qed.

(* ------------------------------------------------------------------ dictionaries: lookup after update *)
Section DictLookup.
  Context {K V : Type} (eqb : K -> K -> bool).
  Hypothesis eqb_eq : forall a b, eqb a b = true <-> a = b.

  Definition uniq (d : list (K * V)) : Prop := NoDup (map fst d).

  Lemma eqb_refl' a : eqb a a = true.
  Proof. now apply eqb_eq. Qed.

  Lemma dget_dset k k' v (d : list (K * V)) :
    dget eqb k (dset eqb k' v d) = if eqb k k' then Some v else dget eqb k d.
  Proof.
    induction d as [|[k0 v0] d IH]; cbn [dset dget].
    - reflexivity.
    - destruct (eqb k' k0) eqn:E0; cbn [dget].
      + apply eqb_eq in E0. subst k0. destruct (eqb k k'); reflexivity.
      + destruct (eqb k k0) eqn:E1.
        * apply eqb_eq in E1. subst k0. destruct (eqb k k') eqn:E2; [|reflexivity].
          apply eqb_eq in E2. subst k'. rewrite eqb_refl' in E0. discriminate.
        * exact IH.
  Qed.

  Lemma dget_notin k (d : list (K * V)) : ~ In k (map fst d) -> dget eqb k d = None.
  Proof.
    induction d as [|[k0 v0] d IH]; cbn [dget map fst In]; [reflexivity|].
    intros H. destruct (eqb k k0) eqn:E; [apply eqb_eq in E; subst; tauto|]. apply IH. tauto.
  Qed.

  Lemma ddel_keys k (d : list (K * V)) x : In x (map fst (ddel eqb k d)) -> In x (map fst d).
  Proof.
    intros H. apply in_map_iff in H. destruct H as (kv & <- & H). apply in_map. eapply ddel_in; eauto.
  Qed.

  Lemma dget_ddel k k' (d : list (K * V)) : uniq d ->
    dget eqb k (ddel eqb k' d) = if eqb k k' then None else dget eqb k d.
  Proof.
    unfold uniq. induction d as [|[k0 v0] d IH]; cbn [ddel dget map fst]; intros Hu.
    - now destruct (eqb k k').
    - inversion Hu as [|? ? Hn Hu']; subst.
      destruct (eqb k' k0) eqn:E0.
      + apply eqb_eq in E0. subst k0. destruct (eqb k k') eqn:E1; [|reflexivity].
        apply eqb_eq in E1. subst k'. now apply dget_notin.
      + cbn [dget]. destruct (eqb k k0) eqn:E1.
        * apply eqb_eq in E1. subst k0. destruct (eqb k k') eqn:E2; [|reflexivity].
          apply eqb_eq in E2. subst k'. rewrite eqb_refl' in E0. discriminate.
        * now apply IH.
  Qed.

  Lemma dset_keys k v (d : list (K * V)) x : In x (map fst (dset eqb k v d)) -> x = k \/ In x (map fst d).
  Proof.
    induction d as [|[k0 v0] d IH]; cbn [dset map fst In].
    - intros [<-|[]]. now left.
    - destruct (eqb k k0) eqn:E; cbn [map fst In].
      + tauto.
      + intros [<-|H]; [tauto|]. destruct (IH H); tauto.
  Qed.

  Lemma uniq_dset k v (d : list (K * V)) : uniq d -> uniq (dset eqb k v d).
  Proof.
    unfold uniq. induction d as [|[k0 v0] d IH]; cbn [dset map fst]; intros Hu.
    - constructor; [intros []|constructor].
    - inversion Hu as [|? ? Hn Hu']; subst. destruct (eqb k k0) eqn:E; cbn [map fst].
      + now constructor.
      + constructor; [|now apply IH]. intros H. apply dset_keys in H. destruct H as [->|H]; [|tauto].
        rewrite eqb_refl' in E. discriminate.
  Qed.

  Lemma uniq_ddel k (d : list (K * V)) : uniq d -> uniq (ddel eqb k d).
  Proof.
    unfold uniq. induction d as [|[k0 v0] d IH]; cbn [ddel map fst]; intros Hu; [constructor|].
    inversion Hu as [|? ? Hn Hu']; subst. destruct (eqb k k0); [exact Hu'|]. cbn [map fst].
    constructor; [|now apply IH]. intros H. apply Hn. eapply ddel_keys; eauto.
  Qed.
End DictLookup.

Lemma k2_eqb_eq (a b : k2) : k2_eqb a b = true <-> a = b.
Proof.
  destruct a as [a1 a2], b as [b1 b2]. unfold k2_eqb. cbn [fst snd].
  rewrite andb_true_iff, !Z.eqb_eq. split; [intros [-> ->]; reflexivity|intros [= -> ->]; split; reflexivity].
Qed.

Lemma k2_eqb_refl a : k2_eqb a a = true.
Proof. now apply k2_eqb_eq. Qed.

Lemma k2_eqb_sym a b : k2_eqb a b = k2_eqb b a.
Proof.
  destruct (k2_eqb a b) eqn:E1, (k2_eqb b a) eqn:E2; try reflexivity.
  - apply k2_eqb_eq in E1. subst. rewrite k2_eqb_refl in E2. discriminate.
  - apply k2_eqb_eq in E2. subst. rewrite k2_eqb_refl in E1. discriminate.
Qed.

(* ------------------------------------------------------------------ filter *)
Lemma filter_filter {A} (p q : A -> bool) l : filter p (filter q l) = filter (fun x => q x && p x) l.
Proof.
  induction l as [|x l IH]; cbn [filter]; [reflexivity|].
  destruct (q x); cbn [filter andb]; [destruct (p x)|]; now rewrite IH.
Qed.

Lemma filter_all_true {A} (p : A -> bool) l : (forall x, p x = true) -> filter p l = l.
Proof. intros H. induction l as [|a l IH]; cbn [filter]; [reflexivity|]. now rewrite H, IH. Qed.

Lemma filter_true_in {A} (p : A -> bool) l : (forall x, In x l -> p x = true) -> filter p l = l.
Proof.
  induction l as [|a l IH]; intros H; cbn [filter]; [reflexivity|].
  rewrite (H a) by now left. rewrite IH; [reflexivity|]. intros x Hx. apply H. now right.
Qed.

Lemma filter_comm {A} (p q : A -> bool) l : filter p (filter q l) = filter q (filter p l).
Proof. rewrite !filter_filter. apply filter_ext. intros x. apply andb_comm. Qed.

Lemma filter_map_snd {A B} (p : B -> bool) (l : list (A * B)) :
  filter p (map snd l) = map snd (filter (fun ab => p (snd ab)) l).
Proof.
  induction l as [|x l IH]; cbn [map filter]; [reflexivity|].
  destruct (p (snd x)); cbn [map]; now rewrite IH.
Qed.
