#!/usr/bin/env python3
"""Regenerate /verif/MANIFEST.json from the per-property table below and from which coq/Props/Cxx.v files exist."""
import json, os, re

VERIF = os.path.dirname(os.path.dirname(os.path.abspath(__file__)))

TEXT = {
    "C01": ("Coq theorems about the tokeniser core (rest decomposition soundness, encoder/decoder clock simulation) for all "
            "configurations and all valid event lists; the hand-written model of tokenise/encode/decode/detokenise is tied to "
            "the live code by differential correspondence on generated pieces x configurations, plus an independent "
            "piano-roll oracle on the implementation", "6 C01"),
    "C02": ("Coq theorems: NoDup of the vocabulary, encode/decode inverse on it, closure of tokenise output, acceptance by "
            "detokenise, for every valid configuration; vocabularies of sampled configurations compared entry by entry with "
            "the implementation's dictionary", "6 C02"),
    "C03": ("Coq theorem on threaded calls of the tokeniser core (state invariant at chunk ends) for every partition; "
            "correspondence on bar-split pieces x random partitions with the state dictionary compared after each call",
            "6 C03"),
    "C04": ("Coq theorems: conversions preserve events and duration; invariant (views agree, never both stale, absolute view "
            "sorted) preserved by every operation of the store model, by induction over arbitrary histories; histories of "
            "public operations replayed on real objects and compared with the model after every step", "6 C04"),
    "C05": ("Coq theorems about the model of quantise for all inputs and step lists (grid membership, bounded displacement, "
            "non-note events kept, well-formedness invariant); correspondence message-for-message on generated sequences",
            "6 C05"),
    "C06": ("Coq theorems about the model of quantise_note_lengths (allowed durations only, onsets fixed, closest fitting "
            "value, removal iff nothing fits); correspondence on generated sequences x value pools x both modes", "6 C06"),
    "C07": ("Coq theorems about the model of normalise for ALL event lists including ill-formed ones (alternation per "
            "channel and pitch, no repeated signature, duration preserved, sounding set, idempotence up to representation); "
            "correspondence on a malformed-input stream", "6 C07"),
    "C08": ("Coq theorems about the model of split for all lists and capacity lists (piece count, exact capacities, "
            "durations add up, events conserved); known finding D5 stated as a refuted clause; correspondence on generated "
            "sequences x capacities", "6 C08"),
    "C09": ("Coq theorems about the model of sequences_split_bars (same bar count per track, bar length and signature per "
            "bar, termination, coverage); correspondence on multi-track pieces with signature changes, both settings",
            "6 C09"),
    "C10": ("Coq theorems about the model of the Bar constructor (duration = capacity, single leading signature, rejection of "
            "over-long or conflicting input, copy); correspondence incl. the state left behind by a raising constructor",
            "6 C10"),
    "C11": ("Coq theorems on the ride-along float tag of every stored time: preserved false by every modelled operation and by "
            "induction over histories; the correspondence check compares the Python type of every time value in every case",
            "6 C11"),
    "C12": ("Coq theorems: delta times written by save telescope to the absolute ticks, loading at the library resolution "
            "moves nothing, per-track round trip of notes and signatures; correspondence through real MIDI files", "6 C12"),
    "C13": ("Coq theorems for any rounding function within half a tick: positions depend on the cumulative tick only, routing "
            "by group / meta indices; correspondence on files written with mido (exact on dyadic resolutions) and a "
            "tolerant rational oracle on all resolutions", "6 C13"),
    "C14": ("Coq theorems: octave wrapping terminates in range and preserves the pitch class shift, flag characterisation, "
            "plain shift and inverse when nothing wraps, key signatures never undefined (via the generated transpose_key); "
            "correspondence over intervals -130..130", "6 C14"),
    "C15": ("Coq theorems: merged list is a sorted permutation of the inputs, its key sequence does not depend on the merge "
            "order, duration is the maximum; correspondence on Sequence.merge incl. the normalisation that follows", "6 C15"),
    "C16": ("Coq theorems over the functional store model: copies equal their originals, an operation changes only the objects "
            "it is applied to (frame), derived objects stay independent along any later history; whether the implementation "
            "refines this value semantics (no shared Message objects) is decided by the history correspondence", "6 C16"),
    "C17": ("Coq theorems: equals is reflexive and symmetric and is exactly equality of the projected interleaved pairings "
            "(onset, pitch, duration, channel, velocity, signature values and ticks; each flag drops only its attribute); "
            "correspondence on perturbed pairs x flag sets", "6 C17"),
    "C18": ("Coq theorems for pad, integer scaling, set_channel and cut-off on all inputs and arguments; correspondence with "
            "arguments below/at/above each threshold", "6 C18"),
    "C19": ("Coq theorems: get_info and detokenise keep the same clock on ANY token stream (lock-step invariant), one "
            "annotation per token, positions 0,1,2,..; correspondence on random vocabulary streams incl. imputation", "6 C19"),
    "C20": ("Coq theorems about functions and tables GENERATED from music_theory.py on every run: congruence modulo 12 "
            "lemmas for all integers + complete sweep of the finite quotient by vm_compute, lifted by forallb_forall; the "
            "translator is cross-checked by correspondence and the implementation is enumerated completely", "6 C20"),
}

NOTE = ("Trusted: Coq 8.16.1 kernel incl. vm_compute; my formal statements in coq/Props; the Python->Coq translator for "
        "tables; the differential correspondence check that ties the hand-written executable model to the live code "
        "(sampling, not proof); Python semantics as modelled in DESIGN.md section 2; mido and numpy.digitize unmodelled. "
        "Theorems named *_partial prove only the stated part of a clause; clauses without a theorem rest on the oracle "
        "over explored inputs only. See evidence file for the theorem inventory and Print Assumptions output.")


def main():
    props = [json.loads(l)["id"] for l in open(os.path.join(VERIF, "properties.jsonl"))]
    proj = open(os.path.join(VERIF, "coq", "_CoqProject")).read()
    checks, na = [], []
    for p in props:
        have = os.path.exists(os.path.join(VERIF, "coq", "Props", f"{p}.v")) and f"Props/{p}.v" in proj
        if not have:
            na.append({"property_id": p, "reason": "theorem file not integrated yet in this commit (model and correspondence "
                       "exist; the check is registered as soon as coq/Props/%s.v builds)" % p})
            continue
        checks.append({
            "property_id": p,
            "quick_cmd": f"./check {p} --tier quick",
            "thorough_cmd": f"./check {p} --tier thorough",
            "evidence_file": f"/verif/evidence/{p}.json",
            "replay_cmd_template": f"./check {p} --replay {{path}}",
            "engine": "coq-model+correspondence",
            "level_claimed": {"category": "proof", "text": TEXT[p][0], "design_ref": "DESIGN.md section " + TEXT[p][1]},
            "level_note": NOTE,
            "technique": "machine-checked Coq proof about an executable Gallina model, tied to the source by regenerated "
                         "tables (translator) and a differential correspondence check",
        })
    m = {
        "version": 1,
        "setup_cmd": "make -C /verif setup",
        "hooks": {"guard": "SCODA_VERIF", "enable": "no hooks: all observation goes through the public API and the "
                  "_abs/_rel/_abs_stale/_rel_stale attributes read by the harness", "baseline_off_cmd":
                  "cd /repo && /venv/bin/python -m pytest -ra -q -p no:cacheprovider --timeout=900",
                  "source_commits": [], "add_only": True},
        "engines": [{"name": "coq-model+correspondence", "path": "/verif/coq, /verif/harness",
                     "serves_properties": [c["property_id"] for c in checks],
                     "kind_free_text": "Coq 8.16.1 development (Gen = regenerated from source, Model = executable model, "
                     "Proofs/Props = theorems) + Python harness evaluating the model by vm_compute against the live code"}],
        "checks": checks,
        "notes": "Fix commits in /repo (see known_findings.json 'fixed' entries) repair genuine defects; known findings "
                 "are printed as KNOWN-FINDING lines. Checks rebuild coq/Gen from $SCODA_REPO (default /repo) on every run.",
        "not_applicable": na,
    }
    json.dump(m, open(os.path.join(VERIF, "MANIFEST.json"), "w"), indent=1)
    print("claimed:", [c["property_id"] for c in checks])


if __name__ == "__main__":
    main()
