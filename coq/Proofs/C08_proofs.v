(* C08 -- splitting a relative sequence by capacities (Model/Seq.v: seq_split, split_outer, split_inner).
   Part 1: a non-accumulating description `pieces` of seq_split, duration bookkeeping of split_inner, and the
           theorems about the number of pieces, the exact capacities and the total duration.
   Part 2: `inner_ind` (induction along the branches of split_inner); conservation of the non-note events with
           their ticks, under `ev_safe` (excludes the known defect: the queue is dropped at the end of the input).
   Part 3: notes.  For one key (channel, pitch) the automaton `krun` and the sounding function `sound`; the
           simulation relation `R` between the automaton state of the input and the state of split_inner
           (current piece, open-note dictionary, queue, remaining capacity); pairing of every piece and equality
           of the sounding sets; the public boolean notions `paired` / `paired_pos`; witnesses and non-vacuity. *)
From Coq Require Import ZArith List Bool Lia.
From Model Require Import Base Seq.
Import ListNotations.
Open Scope Z_scope.

(* ---------------------------------------------------------------- small facts about message types *)
Lemma is_wait_type (m : msg) : is_wait m = true <-> m_type m = WAIT.
Proof. unfold is_wait, mtype_eqb. destruct (m_type m); cbn; split; congruence. Qed.
Lemma is_on_type (m : msg) : is_on m = true <-> m_type m = NOTE_ON.
Proof. unfold is_on, mtype_eqb. destruct (m_type m); cbn; split; congruence. Qed.
Lemma is_off_type (m : msg) : is_off m = true <-> m_type m = NOTE_OFF.
Proof. unfold is_off, mtype_eqb. destruct (m_type m); cbn; split; congruence. Qed.

Lemma is_wait_false (m : msg) : m_type m <> WAIT -> is_wait m = false.
Proof. intro H. destruct (is_wait m) eqn:E; [apply is_wait_type in E; contradiction | reflexivity]. Qed.
Lemma is_wait_true (m : msg) : m_type m = WAIT -> is_wait m = true.
Proof. apply is_wait_type. Qed.

(* ---------------------------------------------------------------- durations *)
Lemma sumZ_app (a b : list Z) : sumZ (a ++ b) = sumZ a + sumZ b.
Proof. induction a as [|x a IH]; cbn [sumZ app]; lia. Qed.

Lemma dur_app (a b : list msg) : dur_rel (a ++ b) = dur_rel a + dur_rel b.
Proof. unfold dur_rel. now rewrite filter_app, map_app, sumZ_app. Qed.

Lemma dur_nil : dur_rel [] = 0.
Proof. reflexivity. Qed.

Lemma dur_cons (m : msg) (l : list msg) :
  dur_rel (m :: l) = (if is_wait m then m_time m else 0) + dur_rel l.
Proof. unfold dur_rel. cbn [filter]. destruct (is_wait m); cbn [map sumZ]; lia. Qed.

Lemma dur_one (m : msg) : dur_rel [m] = if is_wait m then m_time m else 0.
Proof. rewrite dur_cons, dur_nil. lia. Qed.

Lemma dur_mk_wait c t f : dur_rel [mk_wait c t f] = t.
Proof. reflexivity || (rewrite dur_one; reflexivity). Qed.

Definition offs_of (opn : list (k2 * msg)) : list msg :=
  map (fun kv => mk_off (m_chan (snd kv)) (m_note (snd kv)) 0 false) opn.
Definition ons_of (opn : list (k2 * msg)) : list msg :=
  map (fun kv => mk_on (m_chan (snd kv)) (m_note (snd kv)) (m_vel (snd kv)) 0 false) opn.

Lemma dur_offs opn : dur_rel (offs_of opn) = 0.
Proof. induction opn as [|kv o IH]; [reflexivity|]. unfold offs_of in *. cbn [map]. rewrite dur_cons, IH. reflexivity. Qed.
Lemma dur_ons opn : dur_rel (ons_of opn) = 0.
Proof. induction opn as [|kv o IH]; [reflexivity|]. unfold ons_of in *. cbn [map]. rewrite dur_cons, IH. reflexivity. Qed.

(* ---------------------------------------------------------------- one step of split_inner, by message type *)
Definition is_plain (m : msg) : Prop := m_type m <> NOTE_ON /\ m_type m <> NOTE_OFF /\ m_type m <> WAIT.

Lemma inner_nil cur opn q rem : split_inner [] cur opn q rem = SEnd cur opn.
Proof. reflexivity. Qed.

Lemma inner_on m wm cur opn q rem : m_type m = NOTE_ON ->
  split_inner (m :: wm) cur opn q rem =
  if 0 <? rem then split_inner wm (cur ++ [m]) (dset k2_eqb (m_chan m, m_note m) m opn) q rem
  else split_inner wm cur opn (q ++ [m]) rem.
Proof. intro E. cbn [split_inner]. now rewrite E. Qed.

Lemma inner_off m wm cur opn q rem : m_type m = NOTE_OFF ->
  split_inner (m :: wm) cur opn q rem =
  split_inner wm (cur ++ [m]) (ddel k2_eqb (m_chan m, m_note m) opn) q rem.
Proof. intro E. cbn [split_inner]. now rewrite E. Qed.

Lemma inner_wait m wm cur opn q rem : m_type m = WAIT ->
  split_inner (m :: wm) cur opn q rem =
  if m_time m <=? rem then split_inner wm (cur ++ [m]) opn q (rem - m_time m)
  else SCut ((if 0 <? rem then cur ++ [mk_wait (m_chan m) rem false] else cur) ++ offs_of opn) opn
            (q ++ ons_of opn ++ [mk_wait (m_chan m) (m_time m - rem) (m_tf m)] ++ wm).
Proof. intro E. cbn [split_inner]. now rewrite E. Qed.

Lemma inner_plain m wm cur opn q rem : is_plain m ->
  split_inner (m :: wm) cur opn q rem =
  if 0 <? rem then split_inner wm (cur ++ [m]) opn q rem else split_inner wm cur opn (q ++ [m]) rem.
Proof. intros (H1 & H2 & H3). cbn [split_inner]. destruct (m_type m); try reflexivity; congruence. Qed.

Lemma type_cases (m : msg) : m_type m = NOTE_ON \/ m_type m = NOTE_OFF \/ m_type m = WAIT \/ is_plain m.
Proof. unfold is_plain. destruct (m_type m); auto; right; right; right; repeat split; congruence. Qed.

Lemma plain_not_wait m : is_plain m -> is_wait m = false.
Proof. intros (_ & _ & H). now apply is_wait_false. Qed.
Lemma on_not_wait m : m_type m = NOTE_ON -> is_wait m = false.
Proof. intro H. apply is_wait_false. congruence. Qed.
Lemma off_not_wait m : m_type m = NOTE_OFF -> is_wait m = false.
Proof. intro H. apply is_wait_false. congruence. Qed.

(* ---------------------------------------------------------------- durations through split_inner *)
Lemma inner_dur : forall wm cur opn q rem, 0 <= rem ->
  match split_inner wm cur opn q rem with
  | SEnd cur' _ => dur_rel cur' = dur_rel cur + dur_rel wm
  | SCut cur' _ wm' => dur_rel cur' = dur_rel cur + rem /\ dur_rel wm' = dur_rel q + dur_rel wm - rem
  end.
Proof.
  induction wm as [|m wm IH]; intros cur opn q rem Hrem.
  - rewrite inner_nil, dur_nil. lia.
  - rewrite (dur_cons m wm).
    destruct (type_cases m) as [E|[E|[E|E]]].
    + rewrite inner_on by exact E. rewrite (on_not_wait _ E).
      destruct (0 <? rem).
      * specialize (IH (cur ++ [m]) (dset k2_eqb (m_chan m, m_note m) m opn) q rem Hrem).
        destruct (split_inner wm _ _ q rem); rewrite dur_app, dur_one, (on_not_wait _ E) in IH; lia.
      * specialize (IH cur opn (q ++ [m]) rem Hrem).
        destruct (split_inner wm cur opn _ rem); rewrite ?dur_app, ?dur_one, ?(on_not_wait _ E) in IH; lia.
    + rewrite inner_off by exact E. rewrite (off_not_wait _ E).
      specialize (IH (cur ++ [m]) (ddel k2_eqb (m_chan m, m_note m) opn) q rem Hrem).
      destruct (split_inner wm _ _ q rem); rewrite dur_app, dur_one, (off_not_wait _ E) in IH; lia.
    + rewrite inner_wait by exact E. rewrite (is_wait_true _ E).
      destruct (m_time m <=? rem) eqn:Ele; [apply Z.leb_le in Ele | apply Z.leb_gt in Ele].
      * specialize (IH (cur ++ [m]) opn q (rem - m_time m) ltac:(lia)).
        destruct (split_inner wm _ opn q _); rewrite dur_app, dur_one, (is_wait_true _ E) in IH; lia.
      * rewrite !dur_app, dur_offs, dur_ons, dur_mk_wait.
        destruct (0 <? rem) eqn:Epos; [apply Z.ltb_lt in Epos | apply Z.ltb_ge in Epos].
        -- rewrite dur_app, dur_mk_wait. lia.
        -- lia.
    + rewrite inner_plain by exact E. rewrite (plain_not_wait _ E).
      destruct (0 <? rem).
      * specialize (IH (cur ++ [m]) opn q rem Hrem).
        destruct (split_inner wm _ opn q rem); rewrite dur_app, dur_one, (plain_not_wait _ E) in IH; lia.
      * specialize (IH cur opn (q ++ [m]) rem Hrem).
        destruct (split_inner wm cur opn _ rem); rewrite ?dur_app, ?dur_one, ?(plain_not_wait _ E) in IH; lia.
Qed.

(* ---------------------------------------------------------------- seq_split without the accumulator *)
Definition ne (p : list msg) : list (list msg) := match p with [] => [] | _ => [p] end.

Fixpoint pieces (caps : list Z) (wm : list msg) (opn : list (k2 * msg)) : list (list msg) :=
  match caps with
  | [] => ne wm
  | c :: caps' =>
      match split_inner wm [] opn [] c with
      | SEnd cur' opn' => ne cur' ++ pieces caps' [] opn'
      | SCut cur' opn' wm' => ne cur' ++ pieces caps' wm' opn'
      end
  end.

Lemma acc_ne (acc : list (list msg)) (p : list msg) :
  match p with [] => acc | _ => acc ++ [p] end = acc ++ ne p.
Proof. destruct p; cbn [ne]; [now rewrite app_nil_r | reflexivity]. Qed.

Lemma outer_pieces : forall caps wm opn acc,
  (let '(a, w, c) := split_outer caps wm [] opn acc in match c ++ w with [] => a | _ => a ++ [c ++ w] end)
  = acc ++ pieces caps wm opn.
Proof.
  induction caps as [|c caps IH]; intros wm opn acc.
  - cbn [split_outer pieces app]. apply acc_ne.
  - cbn [split_outer pieces].
    destruct (split_inner wm [] opn [] c) as [cur' opn'|cur' opn' wm'];
      rewrite acc_ne, IH, app_assoc; reflexivity.
Qed.

Lemma seq_split_pieces l caps : seq_split l caps = pieces caps l [].
Proof.
  unfold seq_split. pose proof (outer_pieces caps l [] []) as H. cbn [app] in H.
  destruct (split_outer caps l [] [] []) as [[a w] c]. exact H.
Qed.

Lemma pieces_nil : forall caps opn, pieces caps [] opn = [].
Proof. induction caps as [|c caps IH]; intro opn; cbn [pieces split_inner ne app]; [reflexivity | apply IH]. Qed.

Lemma ne_length p : (length (ne p) <= 1)%nat.
Proof. destruct p; cbn; lia. Qed.

Lemma sum_dur_ne p : sumZ (map dur_rel (ne p)) = dur_rel p.
Proof. destruct p; cbn [ne map sumZ]; [reflexivity | lia]. Qed.

(* ---------------------------------------------------------------- clause 1: number of pieces *)
Lemma pieces_count : forall caps wm opn, (length (pieces caps wm opn) <= length caps + 1)%nat.
Proof.
  induction caps as [|c caps IH]; intros wm opn; cbn [pieces length].
  - pose proof (ne_length wm). lia.
  - destruct (split_inner wm [] opn [] c) as [cur' opn'|cur' opn' wm']; rewrite app_length.
    + pose proof (ne_length cur'). specialize (IH [] opn'). lia.
    + pose proof (ne_length cur'). specialize (IH wm' opn'). lia.
Qed.

Theorem C08_count : forall l caps, (length (seq_split l caps) <= length caps + 1)%nat.
Proof. intros. rewrite seq_split_pieces. apply pieces_count. Qed.

(* ---------------------------------------------------------------- clause 3: total duration *)
Definition caps_nonneg (caps : list Z) : bool := forallb (fun c => 0 <=? c) caps.
Definition caps_pos (caps : list Z) : bool := forallb (fun c => 0 <? c) caps.

Lemma caps_pos_nonneg caps : caps_pos caps = true -> caps_nonneg caps = true.
Proof.
  unfold caps_pos, caps_nonneg. rewrite !forallb_forall. intros H c Hc. specialize (H c Hc).
  apply Z.ltb_lt in H. apply Z.leb_le. lia.
Qed.

Lemma pieces_total : forall caps wm opn, caps_nonneg caps = true ->
  sumZ (map dur_rel (pieces caps wm opn)) = dur_rel wm.
Proof.
  induction caps as [|c caps IH]; intros wm opn Hc; cbn [pieces].
  - apply sum_dur_ne.
  - cbn [caps_nonneg forallb] in Hc. apply andb_prop in Hc. destruct Hc as [Hc0 Hc]. apply Z.leb_le in Hc0.
    pose proof (inner_dur wm [] opn [] c Hc0) as Hd.
    destruct (split_inner wm [] opn [] c) as [cur' opn'|cur' opn' wm'];
      rewrite map_app, sumZ_app, sum_dur_ne, (IH _ _ Hc); rewrite ?dur_nil in *; lia.
Qed.

Theorem C08_total : forall l caps, caps_nonneg caps = true ->
  sumZ (map dur_rel (seq_split l caps)) = dur_rel l.
Proof. intros. rewrite seq_split_pieces. now apply pieces_total. Qed.

(* ---------------------------------------------------------------- clause 2: exact capacities *)
Lemma pieces_exact : forall caps wm opn, caps_pos caps = true ->
  forall i, (S i < length (pieces caps wm opn))%nat ->
  dur_rel (nth i (pieces caps wm opn) []) = nth i caps 0.
Proof.
  induction caps as [|c caps IH]; intros wm opn Hc i Hi; cbn [pieces] in *.
  - pose proof (ne_length wm). lia.
  - cbn [caps_pos forallb] in Hc. apply andb_prop in Hc. destruct Hc as [Hc0 Hc]. apply Z.ltb_lt in Hc0.
    pose proof (inner_dur wm [] opn [] c ltac:(lia)) as Hd.
    destruct (split_inner wm [] opn [] c) as [cur' opn'|cur' opn' wm'].
    + rewrite pieces_nil, app_nil_r in Hi. pose proof (ne_length cur'). lia.
    + destruct Hd as [Hd _]. rewrite dur_nil in Hd.
      destruct cur' as [|x cur']; [rewrite dur_nil in Hd; lia|].
      cbn [ne app] in *. destruct i as [|i]; cbn [nth].
      * lia.
      * apply IH; [exact Hc | cbn [length] in Hi; lia].
Qed.

Theorem C08_exact : forall l caps, caps_pos caps = true ->
  forall i, (S i < length (seq_split l caps))%nat ->
  dur_rel (nth i (seq_split l caps) []) = nth i caps 0.
Proof. intros l caps Hc i. rewrite seq_split_pieces. now apply pieces_exact. Qed.

(* ================================================================ Part 2: non-note events *)
Definition mkey (m : msg) : k2 := (m_chan m, m_note m).

(* an induction principle following the branches of split_inner; `r` is the final result of the run *)
Lemma inner_ind (P : list msg -> list msg -> list (k2 * msg) -> list msg -> Z -> split_res -> Prop) :
  (forall cur opn q rem, P [] cur opn q rem (SEnd cur opn)) ->
  (forall m wm cur opn q rem r, m_type m = NOTE_ON -> 0 < rem ->
     P wm (cur ++ [m]) (dset k2_eqb (mkey m) m opn) q rem r -> P (m :: wm) cur opn q rem r) ->
  (forall m wm cur opn q rem r, m_type m = NOTE_ON -> rem <= 0 ->
     P wm cur opn (q ++ [m]) rem r -> P (m :: wm) cur opn q rem r) ->
  (forall m wm cur opn q rem r, m_type m = NOTE_OFF ->
     P wm (cur ++ [m]) (ddel k2_eqb (mkey m) opn) q rem r -> P (m :: wm) cur opn q rem r) ->
  (forall m wm cur opn q rem r, m_type m = WAIT -> m_time m <= rem ->
     P wm (cur ++ [m]) opn q (rem - m_time m) r -> P (m :: wm) cur opn q rem r) ->
  (forall m wm cur opn q rem, m_type m = WAIT -> rem < m_time m ->
     P (m :: wm) cur opn q rem
       (SCut ((if 0 <? rem then cur ++ [mk_wait (m_chan m) rem false] else cur) ++ offs_of opn) opn
             (q ++ ons_of opn ++ [mk_wait (m_chan m) (m_time m - rem) (m_tf m)] ++ wm))) ->
  (forall m wm cur opn q rem r, is_plain m -> 0 < rem ->
     P wm (cur ++ [m]) opn q rem r -> P (m :: wm) cur opn q rem r) ->
  (forall m wm cur opn q rem r, is_plain m -> rem <= 0 ->
     P wm cur opn (q ++ [m]) rem r -> P (m :: wm) cur opn q rem r) ->
  forall wm cur opn q rem, P wm cur opn q rem (split_inner wm cur opn q rem).
Proof.
  intros Hnil Hon1 Hon0 Hoff Hfit Hcut Hpl1 Hpl0.
  induction wm as [|m wm IH]; intros cur opn q rem.
  - apply Hnil.
  - destruct (type_cases m) as [E|[E|[E|E]]].
    + rewrite inner_on by exact E.
      destruct (0 <? rem) eqn:Ep; [apply Z.ltb_lt in Ep | apply Z.ltb_ge in Ep].
      * apply Hon1; [exact E | exact Ep | apply IH].
      * apply Hon0; [exact E | exact Ep | apply IH].
    + rewrite inner_off by exact E. apply Hoff; [exact E | apply IH].
    + rewrite inner_wait by exact E.
      destruct (m_time m <=? rem) eqn:Ele; [apply Z.leb_le in Ele | apply Z.leb_gt in Ele].
      * apply Hfit; [exact E | exact Ele | apply IH].
      * apply Hcut; [exact E | exact Ele].
    + rewrite inner_plain by exact E.
      destruct (0 <? rem) eqn:Ep; [apply Z.ltb_lt in Ep | apply Z.ltb_ge in Ep].
      * apply Hpl1; [exact E | exact Ep | apply IH].
      * apply Hpl0; [exact E | exact Ep | apply IH].
Qed.

Definition waits_nonneg (l : list msg) : bool := forallb (fun m => negb (is_wait m) || (0 <=? m_time m)) l.

Lemma wn_cons_wait m l : m_type m = WAIT -> waits_nonneg (m :: l) = true -> 0 <= m_time m /\ waits_nonneg l = true.
Proof.
  intros E H. unfold waits_nonneg in *. cbn [forallb] in H. rewrite (is_wait_true _ E) in H. cbn [negb orb] in H.
  apply andb_prop in H. destruct H as [H1 H2]. apply Z.leb_le in H1. auto.
Qed.
Lemma wn_cons m l : waits_nonneg (m :: l) = true -> waits_nonneg l = true.
Proof. unfold waits_nonneg. cbn [forallb]. intro H. apply andb_prop in H. tauto. Qed.
Lemma wn_app a b : waits_nonneg (a ++ b) = waits_nonneg a && waits_nonneg b.
Proof. unfold waits_nonneg. apply forallb_app. Qed.
Lemma wn_one_nw m : m_type m <> WAIT -> waits_nonneg [m] = true.
Proof. intro H. unfold waits_nonneg. cbn [forallb]. now rewrite (is_wait_false _ H). Qed.
Lemma wn_offs o : waits_nonneg (offs_of o) = true.
Proof. induction o as [|kv o IH]; [reflexivity|]. unfold waits_nonneg, offs_of in *. cbn [map forallb]. now rewrite IH. Qed.
Lemma wn_ons o : waits_nonneg (ons_of o) = true.
Proof. induction o as [|kv o IH]; [reflexivity|]. unfold waits_nonneg, ons_of in *. cbn [map forallb]. now rewrite IH. Qed.

Lemma dur_cons_wait m l : m_type m = WAIT -> dur_rel (m :: l) = m_time m + dur_rel l.
Proof. intro E. now rewrite dur_cons, (is_wait_true _ E). Qed.
Lemma dur_cons_nw m l : m_type m <> WAIT -> dur_rel (m :: l) = dur_rel l.
Proof. intro E. rewrite dur_cons, (is_wait_false _ E). lia. Qed.
Lemma dur_snoc_wait m l : m_type m = WAIT -> dur_rel (l ++ [m]) = dur_rel l + m_time m.
Proof. intro E. now rewrite dur_app, dur_one, (is_wait_true _ E). Qed.
Lemma dur_snoc_nw m l : m_type m <> WAIT -> dur_rel (l ++ [m]) = dur_rel l.
Proof. intro E. rewrite dur_app, dur_one, (is_wait_false _ E). lia. Qed.
Lemma plain_nw m : is_plain m -> m_type m <> WAIT.
Proof. intros (_ & _ & H). exact H. Qed.
Lemma on_nw m : m_type m = NOTE_ON -> m_type m <> WAIT.
Proof. congruence. Qed.
Lemma off_nw m : m_type m = NOTE_OFF -> m_type m <> WAIT.
Proof. congruence. Qed.

(* the non-note, non-wait messages of a relative list with their ticks; the clock starts at t *)
Fixpoint evs (t : Z) (l : list msg) : list (Z * msg) :=
  match l with
  | [] => []
  | m :: l' => match m_type m with
               | WAIT => evs (t + m_time m) l'
               | NOTE_ON | NOTE_OFF => evs t l'
               | _ => (t, m) :: evs t l'
               end
  end.

Lemma evs_wait t m l : m_type m = WAIT -> evs t (m :: l) = evs (t + m_time m) l.
Proof. intro E. cbn [evs]. now rewrite E. Qed.
Lemma evs_on t m l : m_type m = NOTE_ON -> evs t (m :: l) = evs t l.
Proof. intro E. cbn [evs]. now rewrite E. Qed.
Lemma evs_off t m l : m_type m = NOTE_OFF -> evs t (m :: l) = evs t l.
Proof. intro E. cbn [evs]. now rewrite E. Qed.
Lemma evs_plain t m l : is_plain m -> evs t (m :: l) = (t, m) :: evs t l.
Proof. intros (H1 & H2 & H3). cbn [evs]. destruct (m_type m); try reflexivity; congruence. Qed.

Lemma evs_app : forall a b t, evs t (a ++ b) = evs t a ++ evs (t + dur_rel a) b.
Proof.
  induction a as [|m a IH]; intros b t; cbn [app].
  - rewrite dur_nil, Z.add_0_r. reflexivity.
  - destruct (type_cases m) as [E|[E|[E|E]]].
    + rewrite !evs_on, IH, dur_cons_nw by (try exact E; congruence). reflexivity.
    + rewrite !evs_off, IH, dur_cons_nw by (try exact E; congruence). reflexivity.
    + rewrite !evs_wait, IH, dur_cons_wait by exact E. now rewrite Z.add_assoc.
    + rewrite !evs_plain, IH, dur_cons_nw by (try exact E; now apply plain_nw). reflexivity.
Qed.

Lemma evs_offs t o : evs t (offs_of o) = [].
Proof. induction o as [|kv o IH]; [reflexivity|]. unfold offs_of in *. cbn [map]. now rewrite evs_off by reflexivity. Qed.
Lemma evs_ons t o : evs t (ons_of o) = [].
Proof. induction o as [|kv o IH]; [reflexivity|]. unfold ons_of in *. cbn [map]. now rewrite evs_on by reflexivity. Qed.
Lemma evs_mk_wait t c x f l : evs t (mk_wait c x f :: l) = evs (t + x) l.
Proof. reflexivity. Qed.

(* quiet messages: waits and notes *)
Definition quiet (m : msg) : bool := match m_type m with WAIT | NOTE_ON | NOTE_OFF => true | _ => false end.
Definition noev (q : list msg) : bool := forallb quiet q.

Lemma noev_evs : forall q t, noev q = true -> evs t q = [].
Proof.
  induction q as [|m q IH]; intros t H; [reflexivity|].
  unfold noev in H. cbn [forallb] in H. apply andb_prop in H. destruct H as [H1 H2]. unfold quiet in H1.
  cbn [evs]. destruct (m_type m); try discriminate; now apply IH.
Qed.
Lemma noev_snoc q m : noev (q ++ [m]) = noev q && quiet m.
Proof. unfold noev. rewrite forallb_app. cbn [forallb]. now rewrite andb_true_r. Qed.
Lemma quiet_on m : m_type m = NOTE_ON -> quiet m = true.
Proof. intro E. unfold quiet. now rewrite E. Qed.
Lemma quiet_plain m : is_plain m -> quiet m = false.
Proof. intros (H1 & H2 & H3). unfold quiet. destruct (m_type m); try reflexivity; congruence. Qed.

(* "no non-note event after the last WAIT of positive time"; b = none seen since the last positive wait *)
Fixpoint tail_ok_aux (b : bool) (l : list msg) : bool :=
  match l with
  | [] => b
  | m :: l' => match m_type m with
               | WAIT => tail_ok_aux (b || (0 <? m_time m)) l'
               | NOTE_ON | NOTE_OFF => tail_ok_aux b l'
               | _ => tail_ok_aux false l'
               end
  end.
Definition tail_ok (l : list msg) : bool := tail_ok_aux true l.

Lemma tok_wait b m l : m_type m = WAIT -> tail_ok_aux b (m :: l) = tail_ok_aux (b || (0 <? m_time m)) l.
Proof. intro E. cbn [tail_ok_aux]. now rewrite E. Qed.
Lemma tok_on b m l : m_type m = NOTE_ON -> tail_ok_aux b (m :: l) = tail_ok_aux b l.
Proof. intro E. cbn [tail_ok_aux]. now rewrite E. Qed.
Lemma tok_off b m l : m_type m = NOTE_OFF -> tail_ok_aux b (m :: l) = tail_ok_aux b l.
Proof. intro E. cbn [tail_ok_aux]. now rewrite E. Qed.
Lemma tok_plain b m l : is_plain m -> tail_ok_aux b (m :: l) = tail_ok_aux false l.
Proof. intros (H1 & H2 & H3). cbn [tail_ok_aux]. destruct (m_type m); try reflexivity; congruence. Qed.

Lemma tok_mono : forall l, tail_ok_aux false l = true -> tail_ok_aux true l = true.
Proof.
  induction l as [|m l IH]; intro H; [discriminate|].
  destruct (type_cases m) as [E|[E|[E|E]]].
  - rewrite tok_on in * by exact E. auto.
  - rewrite tok_off in * by exact E. auto.
  - rewrite tok_wait in * by exact E. cbn [orb] in *. destruct (0 <? m_time m); auto.
  - rewrite tok_plain in * by exact E. exact H.
Qed.

(* a positive wait resets the flag *)
Lemma tok_reset : forall a b w r, m_type w = WAIT -> 0 < m_time w ->
  tail_ok_aux b (a ++ w :: r) = tail_ok_aux true r.
Proof.
  induction a as [|m a IH]; intros b w r Ew Hw; cbn [app].
  - rewrite tok_wait by exact Ew. apply Z.ltb_lt in Hw. rewrite Hw. now rewrite orb_true_r.
  - destruct (type_cases m) as [E|[E|[E|E]]].
    + rewrite tok_on by exact E. now apply IH.
    + rewrite tok_off by exact E. now apply IH.
    + rewrite tok_wait by exact E. now apply IH.
    + rewrite tok_plain by exact E. now apply IH.
Qed.

Definition is_end (r : split_res) : bool := match r with SEnd _ _ => true | SCut _ _ _ => false end.
Definition ev_lhs (t0 : Z) (r : split_res) : list (Z * msg) :=
  match r with
  | SEnd cur' _ => evs t0 cur'
  | SCut cur' _ wm' => evs t0 cur' ++ evs (t0 + dur_rel cur') wm'
  end.

Lemma inner_evs : forall wm cur opn q rem t0,
  waits_nonneg wm = true -> 0 <= rem -> dur_rel q = 0 -> (q = [] \/ rem = 0) ->
  (is_end (split_inner wm cur opn q rem) = true -> dur_rel wm <> rem \/ tail_ok_aux (noev q) wm = true) ->
  ev_lhs t0 (split_inner wm cur opn q rem)
  = evs t0 cur ++ evs (t0 + dur_rel cur) q ++ evs (t0 + dur_rel cur) wm.
Proof.
  intros wm cur opn q rem.
  apply (inner_ind (fun wm cur opn q rem r => forall t0,
    waits_nonneg wm = true -> 0 <= rem -> dur_rel q = 0 -> (q = [] \/ rem = 0) ->
    (is_end r = true -> dur_rel wm <> rem \/ tail_ok_aux (noev q) wm = true) ->
    ev_lhs t0 r = evs t0 cur ++ evs (t0 + dur_rel cur) q ++ evs (t0 + dur_rel cur) wm)); clear.
  - (* end of input *)
    intros cur opn q rem t0 _ Hrem Hdq Hq Hpre. cbn [ev_lhs evs]. rewrite app_nil_r.
    destruct (Hpre eq_refl) as [Hp|Hp].
    + rewrite dur_nil in Hp. destruct Hq as [-> |Hq]; [now rewrite app_nil_r | lia].
    + cbn [tail_ok_aux] in Hp. rewrite (noev_evs _ _ Hp). now rewrite app_nil_r.
  - (* note on, appended *)
    intros m wm cur opn q rem r E Hpos IH t0 Hwn Hrem Hdq Hq Hpre.
    rewrite (IH t0 (wn_cons _ _ Hwn) Hrem Hdq Hq).
    + rewrite evs_app, (evs_on _ m []), (evs_on _ m wm), dur_snoc_nw by (try exact E; congruence).
      cbn [evs]. now rewrite app_nil_r.
    + intro He. specialize (Hpre He). rewrite dur_cons_nw, tok_on in Hpre by (try exact E; congruence). exact Hpre.
  - (* note on, queued *)
    intros m wm cur opn q rem r E Hpos IH t0 Hwn Hrem Hdq Hq Hpre.
    rewrite (IH t0 (wn_cons _ _ Hwn) Hrem).
    + rewrite evs_app, (evs_on _ m []), (evs_on _ m wm) by exact E. cbn [evs]. now rewrite app_nil_r.
    + rewrite dur_snoc_nw by congruence. exact Hdq.
    + right. lia.
    + intro He. specialize (Hpre He). rewrite dur_cons_nw, tok_on in Hpre by (try exact E; congruence).
      rewrite noev_snoc, (quiet_on _ E), andb_true_r. exact Hpre.
  - (* note off *)
    intros m wm cur opn q rem r E IH t0 Hwn Hrem Hdq Hq Hpre.
    rewrite (IH t0 (wn_cons _ _ Hwn) Hrem Hdq Hq).
    + rewrite evs_app, (evs_off _ m []), (evs_off _ m wm), dur_snoc_nw by (try exact E; congruence).
      cbn [evs]. now rewrite app_nil_r.
    + intro He. specialize (Hpre He). rewrite dur_cons_nw, tok_off in Hpre by (try exact E; congruence). exact Hpre.
  - (* wait that fits *)
    intros m wm cur opn q rem r E Hfit IH t0 Hwn Hrem Hdq Hq Hpre.
    destruct (wn_cons_wait _ _ E Hwn) as [Ht Hwn'].
    assert (Hq' : q = [] \/ (rem = 0 /\ m_time m = 0)) by (destruct Hq; [auto | right; lia]).
    rewrite (IH t0 Hwn' ltac:(lia) Hdq).
    + rewrite evs_app, (evs_wait _ m []), (evs_wait _ m wm), dur_snoc_wait by exact E. cbn [evs].
      rewrite app_nil_r. destruct Hq' as [-> |[_ H0]].
      * now rewrite Z.add_assoc.
      * rewrite H0, !Z.add_0_r. reflexivity.
    + destruct Hq' as [-> |[H1 H0]]; [auto | right; lia].
    + intro He. specialize (Hpre He). rewrite dur_cons_wait, tok_wait in Hpre by exact E.
      destruct Hpre as [Hp|Hp]; [left; lia | right].
      destruct Hq' as [-> |[_ H0]].
      * cbn [noev forallb orb] in *. exact Hp.
      * rewrite H0 in Hp. cbn in Hp. now rewrite orb_false_r in Hp.
  - (* wait that does not fit: cut *)
    intros m wm cur opn q rem E Hcut t0 Hwn Hrem Hdq Hq _.
    cbn [ev_lhs]. rewrite (evs_wait _ m wm) by exact E.
    assert (Hd : dur_rel ((if 0 <? rem then cur ++ [mk_wait (m_chan m) rem false] else cur) ++ offs_of opn)
                 = dur_rel cur + rem).
    { rewrite dur_app, dur_offs. destruct (0 <? rem) eqn:Ep; [apply Z.ltb_lt in Ep | apply Z.ltb_ge in Ep].
      - rewrite dur_app, dur_mk_wait. lia.
      - lia. }
    rewrite Hd. rewrite (evs_app _ (offs_of opn)), evs_offs, app_nil_r.
    assert (Hc : evs t0 (if 0 <? rem then cur ++ [mk_wait (m_chan m) rem false] else cur) = evs t0 cur).
    { destruct (0 <? rem); [|reflexivity]. rewrite evs_app, evs_mk_wait. cbn [evs]. now rewrite app_nil_r. }
    rewrite Hc. rewrite (evs_app q), Hdq, (evs_app (ons_of opn)), evs_ons, dur_ons. cbn [app].
    rewrite evs_mk_wait.
    replace (t0 + (dur_rel cur + rem) + 0 + 0 + (m_time m - rem)) with (t0 + dur_rel cur + m_time m) by lia.
    destruct Hq as [-> | ->]; [reflexivity|]. now rewrite Z.add_0_r.
  - (* other event, appended *)
    intros m wm cur opn q rem r E Hpos IH t0 Hwn Hrem Hdq Hq Hpre.
    assert (q = []) as -> by (destruct Hq; [assumption | lia]).
    rewrite (IH t0 (wn_cons _ _ Hwn) Hrem Hdq (or_introl eq_refl)).
    + rewrite evs_app, (evs_plain _ m []), (evs_plain _ m wm), dur_snoc_nw by (try exact E; now apply plain_nw).
      cbn [evs app]. now rewrite <- app_assoc.
    + intro He. specialize (Hpre He). rewrite dur_cons_nw, tok_plain in Hpre by (try exact E; now apply plain_nw).
      destruct Hpre as [Hp|Hp]; [now left | right]. cbn [noev forallb]. now apply tok_mono.
  - (* other event, queued *)
    intros m wm cur opn q rem r E Hpos IH t0 Hwn Hrem Hdq Hq Hpre.
    rewrite (IH t0 (wn_cons _ _ Hwn) Hrem).
    + rewrite evs_app, (evs_plain _ m []), (evs_plain _ m wm), Hdq, Z.add_0_r by exact E.
      cbn [evs]. now rewrite <- app_assoc.
    + rewrite dur_snoc_nw by now apply plain_nw. exact Hdq.
    + right. lia.
    + intro He. specialize (Hpre He). rewrite dur_cons_nw, tok_plain in Hpre by (try exact E; now apply plain_nw).
      rewrite noev_snoc, (quiet_plain _ E), andb_false_r. exact Hpre.
Qed.

(* what is handed to the next capacity after a cut *)
Lemma inner_cut_wm : forall wm cur opn q rem, waits_nonneg wm = true -> waits_nonneg q = true -> 0 <= rem ->
  match split_inner wm cur opn q rem with
  | SEnd _ _ => True
  | SCut _ _ wm' => waits_nonneg wm' = true /\ forall b b', tail_ok_aux b wm = tail_ok_aux b' wm'
  end.
Proof.
  intros wm cur opn q rem.
  apply (inner_ind (fun wm cur opn q rem r => waits_nonneg wm = true -> waits_nonneg q = true -> 0 <= rem ->
    match r with
    | SEnd _ _ => True
    | SCut _ _ wm' => waits_nonneg wm' = true /\ forall b b', tail_ok_aux b wm = tail_ok_aux b' wm'
    end)); clear.
  - intros; exact I.
  - intros m wm cur opn q rem r E _ IH Hwn Hq Hrem. specialize (IH (wn_cons _ _ Hwn) Hq Hrem).
    destruct r; [exact I|]. destruct IH as [H1 H2]. split; [exact H1|]. intros b b'. rewrite tok_on by exact E. apply H2.
  - intros m wm cur opn q rem r E _ IH Hwn Hq Hrem.
    assert (Hq' : waits_nonneg (q ++ [m]) = true) by (rewrite wn_app, Hq, wn_one_nw by congruence; reflexivity).
    specialize (IH (wn_cons _ _ Hwn) Hq' Hrem).
    destruct r; [exact I|]. destruct IH as [H1 H2]. split; [exact H1|]. intros b b'. rewrite tok_on by exact E. apply H2.
  - intros m wm cur opn q rem r E IH Hwn Hq Hrem. specialize (IH (wn_cons _ _ Hwn) Hq Hrem).
    destruct r; [exact I|]. destruct IH as [H1 H2]. split; [exact H1|]. intros b b'. rewrite tok_off by exact E. apply H2.
  - intros m wm cur opn q rem r E Hfit IH Hwn Hq Hrem. destruct (wn_cons_wait _ _ E Hwn) as [Ht Hwn'].
    specialize (IH Hwn' Hq ltac:(lia)).
    destruct r; [exact I|]. destruct IH as [H1 H2]. split; [exact H1|]. intros b b'. rewrite tok_wait by exact E. apply H2.
  - intros m wm cur opn q rem E Hcut Hwn Hq Hrem. split.
    + rewrite !wn_app, Hq, wn_ons, (wn_cons _ _ Hwn). cbn [andb]. rewrite andb_true_r.
      unfold waits_nonneg. cbn. rewrite andb_true_r. apply Z.leb_le. lia.
    + intros b b'. pose proof (tok_reset [] b m wm E ltac:(lia)) as H0. cbn [app] in H0. rewrite H0.
      rewrite app_assoc. cbn [app]. rewrite tok_reset; [reflexivity | reflexivity | cbn; lia].
  - intros m wm cur opn q rem r E _ IH Hwn Hq Hrem. specialize (IH (wn_cons _ _ Hwn) Hq Hrem).
    destruct r; [exact I|]. destruct IH as [H1 H2]. split; [exact H1|]. intros b b'. rewrite tok_plain by exact E. apply H2.
  - intros m wm cur opn q rem r E _ IH Hwn Hq Hrem.
    assert (Hq' : waits_nonneg (q ++ [m]) = true) by (rewrite wn_app, Hq, wn_one_nw by (now apply plain_nw); reflexivity).
    specialize (IH (wn_cons _ _ Hwn) Hq' Hrem).
    destruct r; [exact I|]. destruct IH as [H1 H2]. split; [exact H1|]. intros b b'. rewrite tok_plain by exact E. apply H2.
Qed.

(* d is c1 + ... + ci for some i >= 1: a boundary at which a capacity ends *)
Fixpoint on_boundary (d : Z) (caps : list Z) : bool :=
  match caps with [] => false | c :: caps' => (d =? c) || on_boundary (d - c) caps' end.

Lemma concat_ne p rest : concat (ne p ++ rest) = p ++ concat rest.
Proof. destruct p; reflexivity. Qed.

Lemma pieces_evs : forall caps wm opn t, caps_nonneg caps = true -> waits_nonneg wm = true ->
  (tail_ok wm = true \/ on_boundary (dur_rel wm) caps = false) ->
  evs t (concat (pieces caps wm opn)) = evs t wm.
Proof.
  induction caps as [|c caps IH]; intros wm opn t Hc Hwn Hsafe; cbn [pieces].
  - destruct wm; cbn [ne concat app]; [reflexivity | now rewrite app_nil_r].
  - cbn [caps_nonneg forallb] in Hc. apply andb_prop in Hc. destruct Hc as [Hc0 Hc]. apply Z.leb_le in Hc0.
    pose proof (inner_evs wm [] opn [] c t Hwn Hc0 eq_refl (or_introl eq_refl)) as He.
    pose proof (inner_cut_wm wm [] opn [] c Hwn eq_refl Hc0) as Ht.
    pose proof (inner_dur wm [] opn [] c Hc0) as Hd.
    destruct (split_inner wm [] opn [] c) as [cur' opn'|cur' opn' wm'].
    + rewrite pieces_nil, app_nil_r. replace (concat (ne cur')) with cur' by (destruct cur'; cbn; now rewrite ?app_nil_r).
      cbn [ev_lhs is_end] in He. rewrite He; [cbn [evs app]; now rewrite dur_nil, Z.add_0_r|].
      intros _. cbn [on_boundary] in Hsafe. destruct Hsafe as [Hs|Hs]; [right; exact Hs | left].
      apply orb_false_elim in Hs. destruct Hs as [Hs _]. now apply Z.eqb_neq in Hs.
    + rewrite concat_ne, evs_app. destruct Ht as [Hwn' Htok]. destruct Hd as [Hd1 Hd2].
      rewrite dur_nil in Hd1, Hd2. rewrite IH.
      * cbn [ev_lhs is_end] in He. rewrite He by discriminate. cbn [evs app]. now rewrite dur_nil, Z.add_0_r.
      * exact Hc.
      * exact Hwn'.
      * destruct Hsafe as [Hs|Hs]; [left | right].
        -- unfold tail_ok in *. now rewrite <- (Htok true true).
        -- cbn [on_boundary] in Hs. apply orb_false_elim in Hs. destruct Hs as [_ Hs].
           now replace (dur_rel wm') with (dur_rel wm - c) by lia.
Qed.

Definition ev_safe (l : list msg) (caps : list Z) : bool := tail_ok l || negb (on_boundary (dur_rel l) caps).

Theorem C08_events : forall l caps,
  waits_nonneg l = true -> caps_nonneg caps = true -> ev_safe l caps = true ->
  evs 0 (concat (seq_split l caps)) = evs 0 l.
Proof.
  intros l caps Hwn Hc Hs. rewrite seq_split_pieces. apply pieces_evs; try assumption.
  unfold ev_safe in Hs. apply orb_prop in Hs. destruct Hs as [Hs|Hs]; [now left | right].
  now apply negb_true_iff in Hs.
Qed.

(* ================================================================ Part 3: notes *)
(* ---------------------------------------------------------------- keys and the open-note dictionary *)
Lemma k2_eqb_refl k : k2_eqb k k = true.
Proof. unfold k2_eqb. now rewrite !Z.eqb_refl. Qed.
Lemma k2_eqb_eq a b : k2_eqb a b = true -> a = b.
Proof.
  unfold k2_eqb. intro H. apply andb_prop in H. destruct H as [H1 H2]. apply Z.eqb_eq in H1, H2.
  destruct a, b; cbn in *; congruence.
Qed.
Lemma k2_eqb_sym a b : k2_eqb a b = k2_eqb b a.
Proof. unfold k2_eqb. now rewrite (Z.eqb_sym (fst a)), (Z.eqb_sym (snd a)). Qed.

Notation dg := (dget k2_eqb).
Notation dst := (dset k2_eqb).
Notation ddl := (ddel k2_eqb).

Fixpoint dwf (d : list (k2 * msg)) : Prop :=
  match d with [] => True | (k, m) :: d' => k = mkey m /\ dg k d' = None /\ dwf d' end.

Lemma dget_dset_same : forall (d : list (k2 * msg)) k v, dg k (dst k v d) = Some v.
Proof.
  induction d as [|[k' v'] d IH]; intros k v; cbn [dset dget].
  - now rewrite k2_eqb_refl.
  - destruct (k2_eqb k k') eqn:E; cbn [dget]; rewrite E; [reflexivity | apply IH].
Qed.
Lemma dget_dset_other : forall (d : list (k2 * msg)) k k' v, k2_eqb k k' = false -> dg k (dst k' v d) = dg k d.
Proof.
  induction d as [|[k'' v''] d IH]; intros k k' v Hn; cbn [dset dget].
  - now rewrite Hn.
  - destruct (k2_eqb k' k'') eqn:E; cbn [dget].
    + apply k2_eqb_eq in E. subst k''. now rewrite Hn.
    + destruct (k2_eqb k k''); [reflexivity | now apply IH].
Qed.
Lemma dget_ddel_other : forall (d : list (k2 * msg)) k k', k2_eqb k k' = false -> dg k (ddl k' d) = dg k d.
Proof.
  induction d as [|[k'' v''] d IH]; intros k k' Hn; cbn [ddel dget]; [reflexivity|].
  destruct (k2_eqb k' k'') eqn:E; cbn [dget].
  - apply k2_eqb_eq in E. subst k''. now rewrite Hn.
  - destruct (k2_eqb k k''); [reflexivity | now apply IH].
Qed.
Lemma dget_ddel_none : forall (d : list (k2 * msg)) a k, dg a d = None -> dg a (ddl k d) = None.
Proof.
  induction d as [|[k'' v''] d IH]; intros a k H; cbn [ddel dget] in *; [reflexivity|].
  destruct (k2_eqb a k'') eqn:Ea; [discriminate|].
  destruct (k2_eqb k k''); [exact H|]. cbn [dget]. rewrite Ea. now apply IH.
Qed.
Lemma dget_ddel_same : forall d k, dwf d -> dg k (ddl k d) = None.
Proof.
  induction d as [|[k'' v''] d IH]; intros k H; cbn [ddel dget]; [reflexivity|].
  cbn [dwf] in H. destruct H as (H1 & H2 & H3).
  destruct (k2_eqb k k'') eqn:E.
  - apply k2_eqb_eq in E. rewrite E. exact H2.
  - cbn [dget]. rewrite E. now apply IH.
Qed.
Lemma dwf_dset : forall d m, dwf d -> dwf (dst (mkey m) m d).
Proof.
  induction d as [|[k'' v''] d IH]; intros m H; cbn [dset].
  - cbn [dwf dget]. auto.
  - cbn [dwf] in H. destruct H as (H1 & H2 & H3).
    destruct (k2_eqb (mkey m) k'') eqn:E; cbn [dwf].
    + apply k2_eqb_eq in E. subst k''. auto.
    + repeat split; [exact H1 | | now apply IH].
      rewrite dget_dset_other; [exact H2 | now rewrite k2_eqb_sym].
Qed.
Lemma dwf_ddel : forall d k, dwf d -> dwf (ddl k d).
Proof.
  induction d as [|[k'' v''] d IH]; intros k H; cbn [ddel]; [exact I|].
  cbn [dwf] in H. destruct H as (H1 & H2 & H3).
  destruct (k2_eqb k k''); [exact H3|]. cbn [dwf]. repeat split; [exact H1 | now apply dget_ddel_none | now apply IH].
Qed.

(* ---------------------------------------------------------------- the automaton of one key *)
(* KC closed; KF v just struck with velocity v, no time elapsed yet; KO v sounding; KS is only used as a START
   state for what split hands to the next capacity: the dictionary still has an entry for the key and the
   re-striking NOTE_ON has to come before any WAIT. *)
Inductive kst : Set := KC | KS | KF (v : Z) | KO (v : Z).

Definition kstep (k : k2) (s : kst) (m : msg) : option kst :=
  match m_type m with
  | WAIT => match s with KS => None | KF v => Some (if 0 <? m_time m then KO v else KF v) | _ => Some s end
  | NOTE_ON => if k2_eqb k (mkey m) then match s with KC | KS => Some (KF (m_vel m)) | _ => None end else Some s
  | NOTE_OFF => if k2_eqb k (mkey m) then match s with KO _ => Some KC | _ => None end else Some s
  | _ => Some s
  end.
Fixpoint krun (k : k2) (s : kst) (l : list msg) : option kst :=
  match l with [] => Some s | m :: l' => match kstep k s m with Some s' => krun k s' l' | None => None end end.

Lemma krun_app : forall a b k s,
  krun k s (a ++ b) = match krun k s a with Some s' => krun k s' b | None => None end.
Proof.
  induction a as [|m a IH]; intros b k s; cbn [app krun]; [reflexivity|].
  destruct (kstep k s m); [apply IH | reflexivity].
Qed.
Lemma krun_snoc k s cur sc m : krun k s cur = Some sc -> krun k s (cur ++ [m]) = kstep k sc m.
Proof. intro H. rewrite krun_app, H. cbn [krun]. now destruct (kstep k sc m). Qed.
Lemma krun_cons k s m l s2 : krun k s (m :: l) = Some s2 -> exists s1, kstep k s m = Some s1 /\ krun k s1 l = Some s2.
Proof. cbn [krun]. destruct (kstep k s m) as [s1|]; [eauto | discriminate]. Qed.

Lemma kstep_plain k s m : is_plain m -> kstep k s m = Some s.
Proof. intros (H1 & H2 & H3). unfold kstep. destruct (m_type m); try reflexivity; congruence. Qed.
Lemma kstep_on_k k s m : m_type m = NOTE_ON -> k2_eqb k (mkey m) = true ->
  kstep k s m = match s with KC | KS => Some (KF (m_vel m)) | _ => None end.
Proof. intros E Hk. unfold kstep. now rewrite E, Hk. Qed.
Lemma kstep_on_o k s m : m_type m = NOTE_ON -> k2_eqb k (mkey m) = false -> kstep k s m = Some s.
Proof. intros E Hk. unfold kstep. now rewrite E, Hk. Qed.
Lemma kstep_off_k k s m : m_type m = NOTE_OFF -> k2_eqb k (mkey m) = true ->
  kstep k s m = match s with KO _ => Some KC | _ => None end.
Proof. intros E Hk. unfold kstep. now rewrite E, Hk. Qed.
Lemma kstep_off_o k s m : m_type m = NOTE_OFF -> k2_eqb k (mkey m) = false -> kstep k s m = Some s.
Proof. intros E Hk. unfold kstep. now rewrite E, Hk. Qed.
Lemma kstep_wait k s m : m_type m = WAIT ->
  kstep k s m = match s with KS => None | KF v => Some (if 0 <? m_time m then KO v else KF v) | _ => Some s end.
Proof. intros E. unfold kstep. now rewrite E. Qed.

(* a stale start behaves like a closed one whenever it does not fail *)
Definition unstale (s : kst) : kst := match s with KS => KC | _ => s end.
Lemma krun_unstale : forall l k s s', krun k s l = Some s' -> krun k (unstale s) l = Some (unstale s').
Proof.
  induction l as [|m l IH]; intros k s s' H; cbn [krun] in *.
  - now inversion H.
  - destruct (kstep k s m) as [s1|] eqn:E1; [|discriminate].
    assert (kstep k (unstale s) m = Some (unstale s1)) as ->; [|now apply IH].
    unfold kstep in *. destruct (m_type m); destruct s; cbn [unstale] in *;
      repeat match goal with |- context [if ?c then _ else _] => destruct c end; 
      try discriminate; inversion E1; subst; reflexivity.
Qed.

(* ---------------------------------------------------------------- sounding *)
Definition orelse (a b : option Z) : option Z := match a with Some _ => a | None => b end.
(* the velocity heard at tick t if m is a WAIT that covers t while the key is open with velocity o *)
Definition hit (t now : Z) (o : option Z) (m : msg) : option Z :=
  match m_type m with WAIT => if (now <=? t) && (t <? now + m_time m) then o else None | _ => None end.
Definition dt (m : msg) : Z := match m_type m with WAIT => m_time m | _ => 0 end.
Definition ostep (k : k2) (o : option Z) (m : msg) : option Z :=
  match m_type m with
  | NOTE_ON => if k2_eqb k (mkey m) then Some (m_vel m) else o
  | NOTE_OFF => if k2_eqb k (mkey m) then None else o
  | _ => o
  end.
(* sound k t now o l = Some v  iff  key k is sounding at tick t with velocity v, when the relative list l is played
   from tick `now` with the key's state o (None closed, Some v open) *)
Fixpoint sound (k : k2) (t now : Z) (o : option Z) (l : list msg) : option Z :=
  match l with [] => None | m :: l' => orelse (hit t now o m) (sound k t (now + dt m) (ostep k o m) l') end.
Definition orun (k : k2) (o : option Z) (l : list msg) : option Z := fold_left (ostep k) l o.

Lemma orelse_assoc a b c : orelse (orelse a b) c = orelse a (orelse b c).
Proof. now destruct a. Qed.
Lemma orelse_none_r a : orelse a None = a.
Proof. now destruct a. Qed.

Lemma dur_cons_dt m l : dur_rel (m :: l) = dt m + dur_rel l.
Proof.
  rewrite dur_cons. unfold dt. destruct (is_wait m) eqn:E.
  - apply is_wait_type in E. now rewrite E.
  - destruct (m_type m) eqn:E'; try reflexivity. apply is_wait_true in E'. congruence.
Qed.

Lemma sound_app : forall a b k t now o,
  sound k t now o (a ++ b) = orelse (sound k t now o a) (sound k t (now + dur_rel a) (orun k o a) b).
Proof.
  induction a as [|m a IH]; intros b k t now o; cbn [app sound].
  - now rewrite dur_nil, Z.add_0_r.
  - rewrite IH, orelse_assoc, dur_cons_dt, Z.add_assoc. reflexivity.
Qed.

Definition nowait (l : list msg) : bool := forallb (fun m => negb (is_wait m)) l.
Lemma nowait_cons m l : nowait (m :: l) = true -> m_type m <> WAIT /\ nowait l = true.
Proof.
  unfold nowait. cbn [forallb]. intro H. apply andb_prop in H. destruct H as [H1 H2]. split; [|exact H2].
  intro E. apply is_wait_true in E. now rewrite E in H1.
Qed.
Lemma hit_nw t now o m : m_type m <> WAIT -> hit t now o m = None.
Proof. intro H. unfold hit. destruct (m_type m); try reflexivity; congruence. Qed.
Lemma dt_nw m : m_type m <> WAIT -> dt m = 0.
Proof. intro H. unfold dt. destruct (m_type m); try reflexivity; congruence. Qed.
Lemma sound_nowait : forall l k t now o, nowait l = true -> sound k t now o l = None.
Proof.
  induction l as [|m l IH]; intros k t now o H; [reflexivity|].
  apply nowait_cons in H. destruct H as [H1 H2]. cbn [sound]. now rewrite hit_nw, IH.
Qed.
Lemma dur_nowait : forall l, nowait l = true -> dur_rel l = 0.
Proof.
  induction l as [|m l IH]; intro H; [reflexivity|].
  apply nowait_cons in H. destruct H as [H1 H2]. rewrite dur_cons_nw by exact H1. now apply IH.
Qed.
Lemma nowait_offs o : nowait (offs_of o) = true.
Proof. induction o as [|kv o IH]; [reflexivity|]. unfold nowait, offs_of in *. cbn [map forallb]. now rewrite IH. Qed.
Lemma nowait_ons o : nowait (ons_of o) = true.
Proof. induction o as [|kv o IH]; [reflexivity|]. unfold nowait, ons_of in *. cbn [map forallb]. now rewrite IH. Qed.

Definition vel_of (s : kst) : option Z := match s with KF v | KO v => Some v | _ => None end.
Lemma kstep_vel k s m s' : kstep k s m = Some s' -> vel_of s' = ostep k (vel_of s) m.
Proof.
  unfold kstep, ostep. destruct (m_type m); destruct s; cbn [vel_of];
    repeat match goal with |- context [if ?c then _ else _] => destruct c end;
    intro H; try discriminate; inversion H; subst; reflexivity.
Qed.
Lemma krun_vel : forall l k s s', krun k s l = Some s' -> orun k (vel_of s) l = vel_of s'.
Proof.
  induction l as [|m l IH]; intros k s s' H; cbn [krun] in H.
  - now inversion H.
  - destruct (kstep k s m) as [s1|] eqn:E; [|discriminate]. unfold orun. cbn [fold_left].
    rewrite <- (kstep_vel _ _ _ _ E). now apply IH.
Qed.

(* ---------------------------------------------------------------- the closing / re-striking messages of a cut *)
Lemma krun_offs_none : forall d k s, dwf d -> dg k d = None -> krun k s (offs_of d) = Some s.
Proof.
  induction d as [|[k' m'] d IH]; intros k s Hw Hd; [reflexivity|].
  cbn [dwf] in Hw. destruct Hw as (H1 & H2 & H3). cbn [dget] in Hd.
  destruct (k2_eqb k k') eqn:E; [discriminate|]. subst k'.
  unfold offs_of. cbn [map krun snd]. rewrite kstep_off_o by (try reflexivity; exact E). now apply IH.
Qed.
Lemma krun_ons_none : forall d k s, dwf d -> dg k d = None -> krun k s (ons_of d) = Some s.
Proof.
  induction d as [|[k' m'] d IH]; intros k s Hw Hd; [reflexivity|].
  cbn [dwf] in Hw. destruct Hw as (H1 & H2 & H3). cbn [dget] in Hd.
  destruct (k2_eqb k k') eqn:E; [discriminate|]. subst k'.
  unfold ons_of. cbn [map krun snd]. rewrite kstep_on_o by (try reflexivity; exact E). now apply IH.
Qed.
Lemma krun_offs_some : forall d k m v, dwf d -> dg k d = Some m -> krun k (KO v) (offs_of d) = Some KC.
Proof.
  induction d as [|[k' m'] d IH]; intros k m v Hw Hd; [discriminate|].
  cbn [dwf] in Hw. destruct Hw as (H1 & H2 & H3). cbn [dget] in Hd. subst k'.
  unfold offs_of. cbn [map krun snd]. destruct (k2_eqb k (mkey m')) eqn:E.
  - rewrite kstep_off_k by (try reflexivity; exact E). apply krun_offs_none; [exact H3|].
    apply k2_eqb_eq in E. now rewrite E.
  - rewrite kstep_off_o by (try reflexivity; exact E). now apply (IH k m v).
Qed.
Lemma krun_ons_some : forall d k m, dwf d -> dg k d = Some m -> krun k KS (ons_of d) = Some (KF (m_vel m)).
Proof.
  induction d as [|[k' m'] d IH]; intros k m Hw Hd; [discriminate|].
  cbn [dwf] in Hw. destruct Hw as (H1 & H2 & H3). cbn [dget] in Hd. subst k'.
  unfold ons_of. cbn [map krun snd]. destruct (k2_eqb k (mkey m')) eqn:E.
  - rewrite kstep_on_k by (try reflexivity; exact E). inversion Hd; subst m'.
    apply krun_ons_none; [exact H3|]. apply k2_eqb_eq in E. now rewrite E.
  - rewrite kstep_on_o by (try reflexivity; exact E). now apply IH.
Qed.

(* the queue holds no WAIT and no NOTE_OFF *)
Definition qok (q : list msg) : bool := forallb (fun m => negb (is_wait m) && negb (is_off m)) q.
Lemma qok_cons m q : qok (m :: q) = true -> m_type m <> WAIT /\ m_type m <> NOTE_OFF /\ qok q = true.
Proof.
  unfold qok. cbn [forallb]. intro H. apply andb_prop in H. destruct H as [H1 H2]. apply andb_prop in H1.
  destruct H1 as [Ha Hb]. repeat split; [| |exact H2]; intro E.
  - apply is_wait_true in E. now rewrite E in Ha.
  - apply is_off_type in E. now rewrite E in Hb.
Qed.
Lemma qok_snoc q m : qok q = true -> m_type m <> WAIT -> m_type m <> NOTE_OFF -> qok (q ++ [m]) = true.
Proof.
  intros Hq H1 H2. unfold qok in *. rewrite forallb_app, Hq. cbn [forallb andb]. rewrite is_wait_false by exact H1.
  destruct (is_off m) eqn:E; [apply is_off_type in E; contradiction | reflexivity].
Qed.
Lemma qok_nowait : forall q, qok q = true -> nowait q = true.
Proof.
  induction q as [|m q IH]; intro H; [reflexivity|]. apply qok_cons in H. destruct H as (H1 & _ & H3).
  unfold nowait in *. cbn [forallb]. now rewrite (is_wait_false _ H1), IH.
Qed.
Lemma qok_cases m : m_type m <> WAIT -> m_type m <> NOTE_OFF -> m_type m = NOTE_ON \/ is_plain m.
Proof. intros H1 H2. destruct (type_cases m) as [E|[E|[E|E]]]; auto; contradiction. Qed.

Lemma krun_qok_F : forall q k v s, qok q = true -> krun k (KF v) q = Some s -> s = KF v.
Proof.
  induction q as [|m q IH]; intros k v s Hq H; cbn [krun] in H; [now inversion H|].
  apply qok_cons in Hq. destruct Hq as (H1 & H2 & H3).
  destruct (qok_cases m H1 H2) as [E|E].
  - destruct (k2_eqb k (mkey m)) eqn:Hk.
    + rewrite kstep_on_k in H by assumption. discriminate.
    + rewrite kstep_on_o in H by assumption. now apply (IH k).
  - rewrite kstep_plain in H by assumption. now apply (IH k).
Qed.
Lemma krun_qok_S : forall q k, qok q = true -> krun k KC q = Some KC -> krun k KS q = Some KS.
Proof.
  induction q as [|m q IH]; intros k Hq H; cbn [krun] in *; [reflexivity|].
  apply qok_cons in Hq. destruct Hq as (H1 & H2 & H3).
  destruct (qok_cases m H1 H2) as [E|E].
  - destruct (k2_eqb k (mkey m)) eqn:Hk.
    + rewrite kstep_on_k in H by assumption. apply krun_qok_F in H; [discriminate | exact H3].
    + rewrite kstep_on_o in * by assumption. now apply IH.
  - rewrite kstep_plain in * by assumption. now apply IH.
Qed.

(* ---------------------------------------------------------------- the simulation relation for one key *)
Definition dvel (d : option msg) (v : Z) : Prop := exists m, d = Some m /\ m_vel m = v.

Definition R (k : k2) (s : kst) (cur : list msg) (opn : list (k2 * msg)) (q : list msg) (rem : Z) : Prop :=
  match s with
  | KC => krun k KC cur = Some KC /\ dg k opn = None /\ krun k KC q = Some KC
  | KS => krun k KC cur = Some KC /\ (exists m, dg k opn = Some m) /\ krun k KC q = Some KC /\ 0 < rem
  | KF v => (krun k KC cur = Some (KF v) /\ dvel (dg k opn) v /\ krun k KC q = Some KC /\ 0 < rem)
            \/ (krun k KC cur = Some KC /\ dg k opn = None /\ krun k KC q = Some (KF v) /\ rem = 0)
  | KO v => krun k KC cur = Some (KO v) /\ dvel (dg k opn) v /\ krun k KC q = Some KC
  end.

Lemma R_ext k s cur cur' opn opn' q q' rem :
  krun k KC cur' = krun k KC cur -> dg k opn' = dg k opn -> krun k KC q' = krun k KC q ->
  R k s cur opn q rem -> R k s cur' opn' q' rem.
Proof. unfold R. intros -> -> ->. auto. Qed.

Lemma R_sc k s cur opn q rem : R k s cur opn q rem -> exists sc, krun k KC cur = Some sc.
Proof. unfold R. destruct s; intro H; [| | destruct H as [H|H] |]; destruct H as (H & _); eauto. Qed.
Lemma R_sq k s cur opn q rem : R k s cur opn q rem -> exists sq, krun k KC q = Some sq.
Proof.
  unfold R. destruct s; intro H; [| | destruct H as [H|H] |].
  - destruct H as (_ & _ & H); eauto.
  - destruct H as (_ & _ & H & _); eauto.
  - destruct H as (_ & _ & H & _); eauto.
  - destruct H as (_ & _ & H & _); eauto.
  - destruct H as (_ & _ & H); eauto.
Qed.

Lemma R_neutral_cur k s m cur opn opn' q rem :
  (forall x, kstep k x m = Some x) -> dg k opn' = dg k opn -> R k s cur opn q rem -> R k s (cur ++ [m]) opn' q rem.
Proof.
  intros Hn Hd HR. destruct (R_sc _ _ _ _ _ _ HR) as [sc Hsc].
  apply (R_ext k s cur (cur ++ [m]) opn opn' q q rem); try assumption; try reflexivity.
  now rewrite (krun_snoc _ _ _ _ m Hsc), Hn.
Qed.
Lemma R_neutral_q k s m cur opn q rem :
  (forall x, kstep k x m = Some x) -> R k s cur opn q rem -> R k s cur opn (q ++ [m]) rem.
Proof.
  intros Hn HR. destruct (R_sq _ _ _ _ _ _ HR) as [sq Hsq].
  apply (R_ext k s cur cur opn opn q (q ++ [m]) rem); try assumption; try reflexivity.
  now rewrite (krun_snoc _ _ _ _ m Hsq), Hn.
Qed.

Lemma R_on1 k s s' m cur opn q rem : m_type m = NOTE_ON -> 0 < rem ->
  kstep k s m = Some s' -> R k s cur opn q rem -> R k s' (cur ++ [m]) (dst (mkey m) m opn) q rem.
Proof.
  intros E Hpos Hst HR. destruct (k2_eqb k (mkey m)) eqn:Hk.
  - rewrite kstep_on_k in Hst by assumption.
    assert (Hd : dvel (dg k (dst (mkey m) m opn)) (m_vel m)).
    { apply k2_eqb_eq in Hk. rewrite Hk, dget_dset_same. now exists m. }
    destruct s; try discriminate; inversion Hst; subst s'; cbn [R] in *; left.
    + destruct HR as (H1 & H2 & H3). rewrite (krun_snoc _ _ _ _ m H1), kstep_on_k by assumption. auto.
    + destruct HR as (H1 & H2 & H3 & H4). rewrite (krun_snoc _ _ _ _ m H1), kstep_on_k by assumption. auto.
  - rewrite kstep_on_o in Hst by assumption. inversion Hst; subst s'.
    apply (R_neutral_cur k s m cur opn); [intro x; now apply kstep_on_o | now apply dget_dset_other | exact HR].
Qed.

Lemma R_on0 k s s' m cur opn q rem : m_type m = NOTE_ON -> rem = 0 ->
  kstep k s m = Some s' -> R k s cur opn q rem -> R k s' cur opn (q ++ [m]) rem.
Proof.
  intros E H0 Hst HR. destruct (k2_eqb k (mkey m)) eqn:Hk.
  - rewrite kstep_on_k in Hst by assumption.
    destruct s; try discriminate; inversion Hst; subst s'; cbn [R] in *.
    + right. destruct HR as (H1 & H2 & H3). rewrite (krun_snoc _ _ _ _ m H3), kstep_on_k by assumption. auto.
    + destruct HR as (_ & _ & _ & H4). lia.
  - rewrite kstep_on_o in Hst by assumption. inversion Hst; subst s'.
    apply R_neutral_q; [intro x; now apply kstep_on_o | exact HR].
Qed.

Lemma R_off k s s' m cur opn q rem : m_type m = NOTE_OFF -> dwf opn ->
  kstep k s m = Some s' -> R k s cur opn q rem -> R k s' (cur ++ [m]) (ddl (mkey m) opn) q rem.
Proof.
  intros E Hw Hst HR. destruct (k2_eqb k (mkey m)) eqn:Hk.
  - rewrite kstep_off_k in Hst by assumption.
    destruct s; try discriminate; inversion Hst; subst s'; cbn [R] in *.
    destruct HR as (H1 & H2 & H3). rewrite (krun_snoc _ _ _ _ m H1), kstep_off_k by assumption.
    repeat split; [| exact H3]. apply k2_eqb_eq in Hk. rewrite Hk. now apply dget_ddel_same.
  - rewrite kstep_off_o in Hst by assumption. inversion Hst; subst s'.
    apply (R_neutral_cur k s m cur opn); [intro x; now apply kstep_off_o | now apply dget_ddel_other | exact HR].
Qed.

Lemma R_fit k s s' m cur opn q rem : m_type m = WAIT -> 0 <= m_time m -> m_time m <= rem ->
  kstep k s m = Some s' -> R k s cur opn q rem -> R k s' (cur ++ [m]) opn q (rem - m_time m).
Proof.
  intros E H0 Hfit Hst HR. rewrite kstep_wait in Hst by assumption.
  destruct s; try discriminate; inversion Hst; subst s'; cbn [R] in *.
  - destruct HR as (H1 & H2 & H3). rewrite (krun_snoc _ _ _ _ m H1), kstep_wait by assumption. auto.
  - destruct HR as [(H1 & H2 & H3 & H4)|(H1 & H2 & H3 & H4)].
    + destruct (0 <? m_time m) eqn:Ep; [apply Z.ltb_lt in Ep | apply Z.ltb_ge in Ep]; cbn [R].
      * rewrite (krun_snoc _ _ _ _ m H1), kstep_wait by assumption. apply Z.ltb_lt in Ep. rewrite Ep. auto.
      * left. rewrite (krun_snoc _ _ _ _ m H1), kstep_wait by assumption.
        assert (m_time m = 0) as -> by lia. cbn. repeat split; auto. lia.
    + assert (Ht : m_time m = 0) by lia. rewrite Ht. cbn. right.
      rewrite (krun_snoc _ _ _ _ m H1), kstep_wait by assumption. repeat split; auto. lia.
  - destruct HR as (H1 & H2 & H3). rewrite (krun_snoc _ _ _ _ m H1), kstep_wait by assumption. auto.
Qed.

Lemma R_vel k s cur opn q rem : R k s cur opn q rem ->
  orun k None cur = vel_of s \/ (rem = 0 /\ orun k None cur = None).
Proof.
  unfold R. destruct s; intro H; [| | destruct H as [H|H] |].
  - destruct H as (H & _). left. apply (krun_vel _ _ KC _ H).
  - destruct H as (H & _). left. apply (krun_vel _ _ KC _ H).
  - destruct H as (H & _). left. apply (krun_vel _ _ KC _ H).
  - destruct H as (H & _ & _ & H0). right. split; [exact H0 | apply (krun_vel _ _ KC _ H)].
  - destruct H as (H & _). left. apply (krun_vel _ _ KC _ H).
Qed.

(* ---------------------------------------------------------------- sounding through the moves of split_inner *)
Definition Phi (k : k2) (t t0 : Z) (cur : list msg) (o : option Z) (wm : list msg) : option Z :=
  orelse (sound k t t0 None cur) (sound k t (t0 + dur_rel cur) o wm).

Lemma Phi_append k t t0 cur o o' m wm :
  (orun k None cur = o \/
   (hit t (t0 + dur_rel cur) o m = None /\ hit t (t0 + dur_rel cur) (orun k None cur) m = None)) ->
  o' = ostep k o m ->
  Phi k t t0 cur o (m :: wm) = Phi k t t0 (cur ++ [m]) o' wm.
Proof.
  intros H ->. unfold Phi. rewrite sound_app. cbn [sound]. rewrite dur_app, dur_cons_dt, dur_nil.
  rewrite !orelse_none_r, Z.add_0_r, Z.add_assoc, !orelse_assoc.
  destruct H as [->|[H1 H2]]; [reflexivity | now rewrite H1, H2].
Qed.
Lemma Phi_queue k t t0 cur o o' m wm : m_type m <> WAIT -> o' = ostep k o m ->
  Phi k t t0 cur o (m :: wm) = Phi k t t0 cur o' wm.
Proof. intros H ->. unfold Phi. cbn [sound]. now rewrite hit_nw, dt_nw, Z.add_0_r by exact H. Qed.

Lemma hit_zero t now o m : m_type m = WAIT -> m_time m = 0 -> hit t now o m = None.
Proof.
  intros E H0. unfold hit. rewrite E, H0, Z.add_0_r.
  destruct (now <=? t) eqn:A; destruct (t <? now) eqn:B; try reflexivity.
  apply Z.leb_le in A. apply Z.ltb_lt in B. lia.
Qed.

Lemma hit_split t now o m c f r : m_type m = WAIT -> 0 <= r -> r < m_time m ->
  hit t now o m = orelse (hit t now o (mk_wait c r f)) (hit t (now + r) o (mk_wait c (m_time m - r) f)).
Proof.
  intros E H0 H1. unfold hit. rewrite E. cbn [m_type mk_wait m_time].
  destruct (now <=? t) eqn:A; destruct (t <? now + r) eqn:B; destruct (now + r <=? t) eqn:C;
    destruct (t <? now + m_time m) eqn:D; destruct (t <? now + r + (m_time m - r)) eqn:F; cbn [andb orelse];
    try (destruct o; reflexivity);
    try apply Z.leb_le in A; try apply Z.leb_gt in A; try apply Z.ltb_lt in B; try apply Z.ltb_ge in B;
    try apply Z.leb_le in C; try apply Z.leb_gt in C; try apply Z.ltb_lt in D; try apply Z.ltb_ge in D;
    try apply Z.ltb_lt in F; try apply Z.ltb_ge in F; lia.
Qed.

(* the state reached after the queue and the re-striking NOTE_ONs, at the head of the next working memory *)
Lemma cut_prefix k s cur opn q rem : R k s cur opn q rem -> s <> KS -> dwf opn -> qok q = true ->
  exists s2, krun k (if dg k opn then KS else KC) (q ++ ons_of opn) = Some s2 /\
             ((s2 = KC /\ s = KC) \/ exists v, s2 = KF v /\ (s = KF v \/ s = KO v)).
Proof.
  intros HR Hs Hw Hq. rewrite krun_app. destruct s; [| congruence | |]; cbn [R] in HR.
  - destruct HR as (_ & Hd & Hsq). rewrite Hd, Hsq, krun_ons_none by assumption.
    eexists; split; [reflexivity | left; auto].
  - destruct HR as [(_ & (m0 & Hd & Hv) & Hsq & _)|(_ & Hd & Hsq & _)].
    + rewrite Hd, (krun_qok_S _ _ Hq Hsq), (krun_ons_some _ _ _ Hw Hd), Hv.
      eexists; split; [reflexivity | right; exists v; auto].
    + rewrite Hd, Hsq, krun_ons_none by assumption.
      eexists; split; [reflexivity | right; exists v; auto].
  - destruct HR as (_ & (m0 & Hd & Hv) & Hsq).
    rewrite Hd, (krun_qok_S _ _ Hq Hsq), (krun_ons_some _ _ _ Hw Hd), Hv.
    eexists; split; [reflexivity | right; exists v; auto].
Qed.

(* the piece that is closed by a cut *)
Lemma cut_cur k s cur opn q rem c : R k s cur opn q rem -> s <> KS -> dwf opn -> 0 <= rem ->
  krun k KC ((if 0 <? rem then cur ++ [mk_wait c rem false] else cur) ++ offs_of opn) = Some KC.
Proof.
  intros HR Hs Hw Hrem. rewrite krun_app.
  assert (Hwt : forall x, kstep k x (mk_wait c rem false) =
                match x with KS => None | KF v => Some (if 0 <? rem then KO v else KF v) | _ => Some x end).
  { intro x. now rewrite kstep_wait by reflexivity. }
  destruct s; [| congruence | |]; cbn [R] in HR.
  - destruct HR as (Hsc & Hd & _).
    assert (krun k KC (if 0 <? rem then cur ++ [mk_wait c rem false] else cur) = Some KC) as ->.
    { destruct (0 <? rem); [|exact Hsc]. now rewrite (krun_snoc _ _ _ _ _ Hsc), Hwt. }
    now apply krun_offs_none.
  - destruct HR as [(Hsc & (m0 & Hd & Hv) & _ & Hpos)|(Hsc & Hd & _ & H0)].
    + apply Z.ltb_lt in Hpos. rewrite Hpos, (krun_snoc _ _ _ _ _ Hsc), Hwt, Hpos.
      now apply (krun_offs_some _ _ m0).
    + subst rem. cbn. rewrite Hsc. now apply krun_offs_none.
  - destruct HR as (Hsc & (m0 & Hd & Hv) & _).
    assert (krun k KC (if 0 <? rem then cur ++ [mk_wait c rem false] else cur) = Some (KO v)) as ->.
    { destruct (0 <? rem); [|exact Hsc]. now rewrite (krun_snoc _ _ _ _ _ Hsc), Hwt. }
    now apply (krun_offs_some _ _ m0).
Qed.

Lemma cut_notes k t t0 s m wm cur opn q rem :
  m_type m = WAIT -> rem < m_time m -> 0 <= rem -> dwf opn -> qok q = true ->
  krun k s (m :: wm) = Some KC -> R k s cur opn q rem ->
  let cur' := (if 0 <? rem then cur ++ [mk_wait (m_chan m) rem false] else cur) ++ offs_of opn in
  let wm' := q ++ ons_of opn ++ [mk_wait (m_chan m) (m_time m - rem) (m_tf m)] ++ wm in
  krun k KC cur' = Some KC /\
  krun k (if dg k opn then KS else KC) wm' = Some KC /\
  orelse (sound k t t0 None cur') (sound k t (t0 + dur_rel cur') None wm') = Phi k t t0 cur (vel_of s) (m :: wm).
Proof.
  intros E Hcut Hrem Hw Hq Hrun HR cur' wm'.
  destruct (krun_cons _ _ _ _ _ Hrun) as (s1 & Hst & Hrun1).
  assert (Hs : s <> KS). { intro; subst s. rewrite kstep_wait in Hst by exact E. discriminate. }
  assert (Hpos : (0 <? m_time m) = true) by (apply Z.ltb_lt; lia).
  assert (Hpos' : (0 <? m_time m - rem) = true) by (apply Z.ltb_lt; lia).
  split; [now apply (cut_cur k s cur opn q)|].
  destruct (cut_prefix _ _ _ _ _ _ HR Hs Hw Hq) as (s2 & Hpre & Hs2).
  (* the state after the shortened wait is the state after the original wait *)
  assert (Hw' : kstep k s2 (mk_wait (m_chan m) (m_time m - rem) (m_tf m)) = Some s1 /\ vel_of s2 = vel_of s).
  { rewrite kstep_wait in Hst by exact E. rewrite kstep_wait by reflexivity. cbn [m_time mk_wait].
    destruct Hs2 as [[-> ->]|(v & -> & [-> | ->])]; rewrite ?Hpos, ?Hpos' in *; cbn [vel_of]; auto. }
  destruct Hw' as [Hw' Hvel].
  split.
  - unfold wm'. rewrite app_assoc, krun_app, Hpre. cbn [app krun]. now rewrite Hw'.
  - (* sounding *)
    unfold Phi. cbn [sound].
    assert (Hd : dur_rel cur' = dur_rel cur + rem).
    { unfold cur'. rewrite dur_app, dur_offs. destruct (0 <? rem) eqn:Ep; [apply Z.ltb_lt in Ep | apply Z.ltb_ge in Ep].
      - rewrite dur_app, dur_mk_wait. lia.
      - lia. }
    rewrite Hd.
    assert (Hc : sound k t t0 None cur' =
                 orelse (sound k t t0 None cur) (hit t (t0 + dur_rel cur) (vel_of s) (mk_wait (m_chan m) rem false))).
    { unfold cur'. rewrite sound_app, (sound_nowait (offs_of opn)), orelse_none_r by apply nowait_offs.
      destruct (0 <? rem) eqn:Ep; [apply Z.ltb_lt in Ep | apply Z.ltb_ge in Ep].
      - rewrite sound_app. cbn [sound]. rewrite orelse_none_r.
        destruct (R_vel _ _ _ _ _ _ HR) as [->|[H0 _]]; [reflexivity | lia].
      - rewrite hit_zero by (reflexivity || (cbn; lia)). now rewrite orelse_none_r. }
    rewrite Hc.
    assert (Hm : sound k t (t0 + (dur_rel cur + rem)) None wm' =
                 orelse (hit t (t0 + dur_rel cur + rem) (vel_of s) (mk_wait (m_chan m) (m_time m - rem) false))
                        (sound k t (t0 + dur_rel cur + m_time m) (vel_of s) wm)).
    { unfold wm'. rewrite app_assoc, sound_app.
      assert (Hnw : nowait (q ++ ons_of opn) = true).
      { unfold nowait. rewrite forallb_app. fold (nowait q). fold (nowait (ons_of opn)).
        now rewrite (qok_nowait _ Hq), nowait_ons. }
      rewrite (sound_nowait _ _ _ _ _ Hnw), (dur_nowait _ Hnw). cbn [orelse app sound].
      assert (Ho : orun k None (q ++ ons_of opn) = vel_of s).
      { rewrite <- Hvel. destruct (dg k opn); apply (krun_vel _ _ _ _ Hpre). }
      rewrite Ho. unfold ostep, dt. cbn [m_type mk_wait m_time].
      replace (t0 + (dur_rel cur + rem) + 0 + (m_time m - rem)) with (t0 + dur_rel cur + m_time m) by lia.
      replace (t0 + (dur_rel cur + rem) + 0) with (t0 + dur_rel cur + rem) by lia.
      reflexivity. }
    rewrite Hm, orelse_assoc. f_equal.
    rewrite <- orelse_assoc. unfold ostep, dt. rewrite E. f_equal.
    symmetry. apply hit_split; [exact E | exact Hrem | exact Hcut].
Qed.

Definition note_concl (k : k2) (t t0 : Z) (r : split_res) (X : option Z) : Prop :=
  match r with
  | SEnd cur' _ => krun k KC cur' = Some KC /\ sound k t t0 None cur' = X
  | SCut cur' opn' wm' =>
      krun k KC cur' = Some KC /\ dwf opn' /\ krun k (if dg k opn' then KS else KC) wm' = Some KC /\
      orelse (sound k t t0 None cur') (sound k t (t0 + dur_rel cur') None wm') = X
  end.

Lemma inner_notes k t : forall wm cur opn q rem s t0,
  waits_nonneg wm = true -> 0 <= rem -> dwf opn -> qok q = true ->
  krun k s wm = Some KC -> R k s cur opn q rem ->
  note_concl k t t0 (split_inner wm cur opn q rem) (Phi k t t0 cur (vel_of s) wm).
Proof.
  intros wm cur opn q rem.
  apply (inner_ind (fun wm cur opn q rem r => forall s t0,
    waits_nonneg wm = true -> 0 <= rem -> dwf opn -> qok q = true ->
    krun k s wm = Some KC -> R k s cur opn q rem ->
    note_concl k t t0 r (Phi k t t0 cur (vel_of s) wm))); clear.
  - (* end of input *)
    intros cur opn q rem s t0 _ _ _ _ Hrun HR. cbn [krun] in Hrun. inversion Hrun; subst s.
    cbn [R] in HR. destruct HR as (Hsc & _). cbn [note_concl]. split; [exact Hsc|].
    unfold Phi. cbn [sound]. now rewrite orelse_none_r.
  - (* note on, appended *)
    intros m wm cur opn q rem r E Hpos IH s t0 Hwn Hrem Hw Hq Hrun HR.
    destruct (krun_cons _ _ _ _ _ Hrun) as (s1 & Hst & Hrun1).
    rewrite (Phi_append k t t0 cur (vel_of s) (vel_of s1) m wm).
    + apply IH; try assumption; [exact (wn_cons _ _ Hwn) | now apply dwf_dset | now apply (R_on1 k s)].
    + destruct (R_vel _ _ _ _ _ _ HR) as [H|[H _]]; [now left | lia].
    + now apply kstep_vel.
  - (* note on, queued *)
    intros m wm cur opn q rem r E Hpos IH s t0 Hwn Hrem Hw Hq Hrun HR.
    destruct (krun_cons _ _ _ _ _ Hrun) as (s1 & Hst & Hrun1).
    rewrite (Phi_queue k t t0 cur (vel_of s) (vel_of s1) m wm) by (congruence || now apply kstep_vel).
    apply IH; try assumption; [exact (wn_cons _ _ Hwn) | apply qok_snoc; congruence | apply (R_on0 k s); (assumption || lia)].
  - (* note off *)
    intros m wm cur opn q rem r E IH s t0 Hwn Hrem Hw Hq Hrun HR.
    destruct (krun_cons _ _ _ _ _ Hrun) as (s1 & Hst & Hrun1).
    rewrite (Phi_append k t t0 cur (vel_of s) (vel_of s1) m wm).
    + apply IH; try assumption; [exact (wn_cons _ _ Hwn) | now apply dwf_ddel | now apply (R_off k s)].
    + right. split; apply hit_nw; congruence.
    + now apply kstep_vel.
  - (* wait that fits *)
    intros m wm cur opn q rem r E Hfit IH s t0 Hwn Hrem Hw Hq Hrun HR.
    destruct (krun_cons _ _ _ _ _ Hrun) as (s1 & Hst & Hrun1).
    destruct (wn_cons_wait _ _ E Hwn) as [Ht Hwn'].
    rewrite (Phi_append k t t0 cur (vel_of s) (vel_of s1) m wm).
    + apply IH; try assumption; [lia | now apply (R_fit k s)].
    + destruct (R_vel _ _ _ _ _ _ HR) as [H|[H _]]; [now left | right].
      split; apply hit_zero; (exact E || lia).
    + now apply kstep_vel.
  - (* cut *)
    intros m wm cur opn q rem E Hcut s t0 Hwn Hrem Hw Hq Hrun HR.
    destruct (cut_notes k t t0 s m wm cur opn q rem E Hcut Hrem Hw Hq Hrun HR) as (H1 & H2 & H3).
    cbn [note_concl]. auto.
  - (* other event, appended *)
    intros m wm cur opn q rem r E Hpos IH s t0 Hwn Hrem Hw Hq Hrun HR.
    destruct (krun_cons _ _ _ _ _ Hrun) as (s1 & Hst & Hrun1).
    assert (s1 = s) by (rewrite kstep_plain in Hst by exact E; now inversion Hst). subst s1.
    rewrite (Phi_append k t t0 cur (vel_of s) (vel_of s) m wm).
    + apply IH; try assumption; [exact (wn_cons _ _ Hwn) |].
      apply (R_neutral_cur k s m cur opn); [intro x; now apply kstep_plain | reflexivity | exact HR].
    + right. split; apply hit_nw; now apply plain_nw.
    + now apply kstep_vel.
  - (* other event, queued *)
    intros m wm cur opn q rem r E Hpos IH s t0 Hwn Hrem Hw Hq Hrun HR.
    destruct (krun_cons _ _ _ _ _ Hrun) as (s1 & Hst & Hrun1).
    assert (s1 = s) by (rewrite kstep_plain in Hst by exact E; now inversion Hst). subst s1.
    rewrite (Phi_queue k t t0 cur (vel_of s) (vel_of s) m wm) by (now apply plain_nw || now apply kstep_vel).
    apply IH; try assumption; [exact (wn_cons _ _ Hwn) | |].
    + destruct E as (E1 & E2 & E3). now apply qok_snoc.
    + apply R_neutral_q; [intro x; now apply kstep_plain | exact HR].
Qed.

(* ---------------------------------------------------------------- all capacities *)
Lemma In_ne p x : In p (ne x) -> p = x.
Proof. destruct x; cbn [ne In]; intro H; [destruct H | destruct H as [H|[]]; now subst]. Qed.
Lemma concat_ne1 x : concat (ne x) = x.
Proof. destruct x; cbn [ne concat]; [reflexivity | now rewrite app_nil_r]. Qed.

Lemma pieces_notes k t : forall caps wm opn t0,
  caps_pos caps = true -> waits_nonneg wm = true -> dwf opn ->
  krun k (if dg k opn then KS else KC) wm = Some KC ->
  (forall p, In p (pieces caps wm opn) -> krun k KC p = Some KC) /\
  sound k t t0 None (concat (pieces caps wm opn)) = sound k t t0 None wm.
Proof.
  induction caps as [|c caps IH]; intros wm opn t0 Hc Hwn Hw Hrun; cbn [pieces].
  - split; [|now rewrite concat_ne1].
    intros p Hp. apply In_ne in Hp. subst p. apply krun_unstale in Hrun.
    now destruct (dg k opn).
  - cbn [caps_pos forallb] in Hc. apply andb_prop in Hc. destruct Hc as [Hc0 Hc]. apply Z.ltb_lt in Hc0.
    assert (HR : R k (if dg k opn then KS else KC) [] opn [] c).
    { destruct (dg k opn) eqn:Hd; cbn [R krun]; rewrite ?Hd; repeat split; eauto. }
    pose proof (inner_notes k t wm [] opn [] c _ t0 Hwn ltac:(lia) Hw eq_refl Hrun HR) as Hn.
    pose proof (inner_cut_wm wm [] opn [] c Hwn eq_refl ltac:(lia)) as Ht.
    assert (HX : Phi k t t0 [] (vel_of (if dg k opn then KS else KC)) wm = sound k t t0 None wm).
    { unfold Phi. cbn [sound orelse]. rewrite dur_nil, Z.add_0_r. now destruct (dg k opn). }
    rewrite HX in Hn. clear HX HR.
    destruct (split_inner wm [] opn [] c) as [cur' opn'|cur' opn' wm']; cbn [note_concl] in Hn.
    + destruct Hn as [H1 H2]. rewrite pieces_nil, app_nil_r, concat_ne1. split; [|exact H2].
      intros p Hp. apply In_ne in Hp. now subst p.
    + destruct Hn as (H1 & H2 & H3 & H4). destruct Ht as [Hwn' _].
      destruct (IH wm' opn' (t0 + dur_rel cur') Hc Hwn' H2 H3) as [HIn Hs]. split.
      * intros p Hp. apply in_app_or in Hp. destruct Hp as [Hp|Hp]; [apply In_ne in Hp; now subst p | now apply HIn].
      * pose proof (krun_vel _ _ KC _ H1) as Hv. cbn [vel_of] in Hv.
        now rewrite concat_ne, sound_app, Hv, Hs.
Qed.

(* ---------------------------------------------------------------- the public notion of pairing *)
(* per key: PC closed, PF struck with no time elapsed since, PO sounding.  strict = a note must last a positive
   time (its NOTE_OFF is only accepted in state PO). *)
Inductive pst : Set := PC | PF | PO.
Definition pstep (strict : bool) (k : k2) (s : pst) (m : msg) : option pst :=
  match m_type m with
  | WAIT => Some (match s with PF => if 0 <? m_time m then PO else PF | _ => s end)
  | NOTE_ON => if k2_eqb k (mkey m) then match s with PC => Some PF | _ => None end else Some s
  | NOTE_OFF => if k2_eqb k (mkey m) then
                  match s with PO => Some PC | PF => if strict then None else Some PC | PC => None end
                else Some s
  | _ => Some s
  end.
Fixpoint prun (strict : bool) (k : k2) (s : pst) (l : list msg) : option pst :=
  match l with
  | [] => Some s
  | m :: l' => match pstep strict k s m with Some s' => prun strict k s' l' | None => None end
  end.
(* the NOTE_ON / NOTE_OFF messages of key k alternate, starting with NOTE_ON and ending with NOTE_OFF *)
Definition paired_key (strict : bool) (k : k2) (l : list msg) : bool :=
  match prun strict k PC l with Some PC => true | _ => false end.
Definition paired_gen (strict : bool) (l : list msg) : bool :=
  forallb (fun m => negb (is_note m) || paired_key strict (mkey m) l) l.
Definition paired : list msg -> bool := paired_gen false.
Definition paired_pos : list msg -> bool := paired_gen true.

Definition erase (s : kst) : pst := match s with KC | KS => PC | KF _ => PF | KO _ => PO end.

Lemma pstep_kstep k s m p1 : s <> KS -> pstep true k (erase s) m = Some p1 ->
  exists s1, kstep k s m = Some s1 /\ erase s1 = p1 /\ s1 <> KS.
Proof.
  intro Hs. unfold pstep, kstep. destruct (m_type m); destruct s; cbn [erase]; try congruence;
    repeat match goal with |- context [if ?c then _ else _] => destruct c end;
    intro H; try discriminate; inversion H; subst; eexists; (split; [reflexivity | split; [reflexivity | congruence]]).
Qed.
Lemma kstep_pstep k s m s1 : s <> KS -> kstep k s m = Some s1 ->
  pstep true k (erase s) m = Some (erase s1) /\ s1 <> KS.
Proof.
  intro Hs. unfold pstep, kstep. destruct (m_type m); destruct s; cbn [erase]; try congruence;
    repeat match goal with |- context [if ?c then _ else _] => destruct c end;
    intro H; try discriminate; inversion H; subst; (split; [reflexivity | congruence]).
Qed.
Lemma prun_krun k : forall l s p', s <> KS -> prun true k (erase s) l = Some p' ->
  exists s', krun k s l = Some s' /\ erase s' = p' /\ s' <> KS.
Proof.
  induction l as [|m l IH]; intros s p' Hs H; cbn [prun krun] in *.
  - inversion H. eauto.
  - destruct (pstep true k (erase s) m) as [p1|] eqn:E; [|discriminate].
    destruct (pstep_kstep _ _ _ _ Hs E) as (s1 & H1 & H2 & H3). rewrite H1. subst p1. now apply IH.
Qed.
Lemma krun_prun k : forall l s s', s <> KS -> krun k s l = Some s' -> prun true k (erase s) l = Some (erase s').
Proof.
  induction l as [|m l IH]; intros s s' Hs H; cbn [prun krun] in *.
  - now inversion H.
  - destruct (kstep k s m) as [s1|] eqn:E; [|discriminate].
    destruct (kstep_pstep _ _ _ _ Hs E) as (H1 & H2). rewrite H1. now apply IH.
Qed.

Lemma paired_key_krun k l : paired_key true k l = true <-> krun k KC l = Some KC.
Proof.
  unfold paired_key. split; intro H.
  - destruct (prun true k PC l) as [p|] eqn:E; [|discriminate]. destruct p; try discriminate.
    destruct (prun_krun k l KC PC ltac:(congruence) E) as (s' & H1 & H2 & H3). rewrite H1.
    destruct s'; try discriminate; [reflexivity | congruence].
  - pose proof (krun_prun k l KC KC ltac:(congruence) H) as H'. cbn [erase] in H'. now rewrite H'.
Qed.

Lemma pstep_relax k s m s' : pstep true k s m = Some s' -> pstep false k s m = Some s'.
Proof.
  unfold pstep. destruct (m_type m); try (intro H; exact H).
  destruct (k2_eqb k (mkey m)); [|intro H; exact H]. destruct s; intro H; (exact H || discriminate).
Qed.
Lemma prun_relax k : forall l s s', prun true k s l = Some s' -> prun false k s l = Some s'.
Proof.
  induction l as [|m l IH]; intros s s' H; cbn [prun] in *; [exact H|].
  destruct (pstep true k s m) as [s1|] eqn:E; [|discriminate]. rewrite (pstep_relax _ _ _ _ E). now apply IH.
Qed.
Lemma paired_pos_paired l : paired_pos l = true -> paired l = true.
Proof.
  unfold paired_pos, paired, paired_gen. rewrite !forallb_forall. intros H m Hm. specialize (H m Hm).
  destruct (is_note m); [|reflexivity]. cbn [negb orb] in *. unfold paired_key in *.
  destruct (prun true (mkey m) PC l) as [p|] eqn:E; [|discriminate]. now rewrite (prun_relax _ _ _ _ E).
Qed.

(* a key that no note of the list touches stays closed *)
Lemma krun_untouched k : forall l, (forall m, In m l -> is_note m = true -> k2_eqb k (mkey m) = false) ->
  krun k KC l = Some KC.
Proof.
  induction l as [|m l IH]; intro H; cbn [krun]; [reflexivity|].
  assert (kstep k KC m = Some KC) as ->; [|apply IH; intros m' Hm'; apply H; now right].
  destruct (type_cases m) as [E|[E|[E|E]]].
  - apply kstep_on_o; [exact E|]. apply H; [now left|]. unfold is_note. now rewrite (proj2 (is_on_type m) E).
  - apply kstep_off_o; [exact E|]. apply H; [now left|]. unfold is_note.
    rewrite (proj2 (is_off_type m) E). apply orb_true_r.
  - now rewrite kstep_wait.
  - now apply kstep_plain.
Qed.

Lemma paired_pos_all l : paired_pos l = true <-> forall k, krun k KC l = Some KC.
Proof.
  split.
  - intros H k. unfold paired_pos, paired_gen in H. rewrite forallb_forall in H.
    destruct (existsb (fun m => is_note m && k2_eqb k (mkey m)) l) eqn:Ex.
    + apply existsb_exists in Ex. destruct Ex as (m & Hm & Hb). apply andb_prop in Hb. destruct Hb as [Hn Hk].
      specialize (H m Hm). rewrite Hn in H. cbn [negb orb] in H. apply k2_eqb_eq in Hk. subst k.
      now apply paired_key_krun.
    + apply krun_untouched. intros m Hm Hn. destruct (k2_eqb k (mkey m)) eqn:Hk; [|reflexivity].
      assert (existsb (fun m => is_note m && k2_eqb k (mkey m)) l = true); [|congruence].
      apply existsb_exists. exists m. now rewrite Hn, Hk.
  - intro H. unfold paired_pos, paired_gen. apply forallb_forall. intros m _.
    rewrite (proj2 (paired_key_krun (mkey m) l) (H (mkey m))). apply orb_true_r.
Qed.

(* ---------------------------------------------------------------- clause 4: no piece ends with a sounding note *)
Theorem C08_no_open_end : forall l caps,
  waits_nonneg l = true -> caps_pos caps = true -> paired_pos l = true ->
  forall p, In p (seq_split l caps) -> paired_pos p = true /\ paired p = true.
Proof.
  intros l caps Hwn Hc Hp p Hin. rewrite seq_split_pieces in Hin.
  assert (paired_pos p = true); [|split; [assumption | now apply paired_pos_paired]].
  apply paired_pos_all. intro k.
  destruct (pieces_notes k 0 caps l [] 0 Hc Hwn I) as [H _].
  - cbn [dget]. now apply paired_pos_all.
  - now apply H.
Qed.

(* ---------------------------------------------------------------- clause 6: the sounding set *)
Theorem C08_sound : forall l caps,
  waits_nonneg l = true -> caps_pos caps = true -> paired_pos l = true ->
  forall k t, sound k t 0 None (concat (seq_split l caps)) = sound k t 0 None l.
Proof.
  intros l caps Hwn Hc Hp k t. rewrite seq_split_pieces.
  destruct (pieces_notes k t caps l [] 0 Hc Hwn I) as [_ H].
  - cbn [dget]. now apply paired_pos_all.
  - exact H.
Qed.

(* ================================================================ witnesses and non-vacuity *)
From Model Require Import Show.

(* D5: a zero-time event sitting on the final boundary is dropped *)
Theorem C08_events_refuted : exists l caps,
  waits_nonneg l = true /\ caps_pos caps = true /\ paired_pos l = true /\
  evs 0 (concat (seq_split l caps)) = [] /\ evs 0 l = [(24, ks 0 K_G 0)].
Proof. exists [on 0 60 100 0; wt 0 24; of 0 60 0; ks 0 K_G 0], [24]. vm_compute. repeat split. Qed.

(* a zero-length note on a boundary: the NOTE_OFF stays in the old piece, the NOTE_ON moves to the next one *)
Theorem C08_no_open_end_refuted : exists l caps,
  waits_nonneg l = true /\ caps_pos caps = true /\ paired l = true /\
  seq_split l caps = [[wt 0 24; of 0 60 0]; [on 0 60 100 0; wt 0 24]] /\
  forallb paired (seq_split l caps) = false.
Proof. exists [wt 0 24; on 0 60 100 0; of 0 60 0; wt 0 24], [24]. vm_compute. repeat split. Qed.

Theorem C08_sound_refuted : exists l caps k t,
  waits_nonneg l = true /\ caps_pos caps = true /\ paired l = true /\
  sound k t 0 None l = None /\ sound k t 0 None (concat (seq_split l caps)) = Some 100.
Proof. exists [wt 0 24; on 0 60 100 0; of 0 60 0; wt 0 24], [24], (0, 60), 30. vm_compute. repeat split. Qed.

(* non-vacuity: two channels, a note over three boundaries, events on boundaries, leading and trailing rests *)
Definition ex_l : list msg :=
  [wt 0 10; ks 0 K_G 0; on 0 60 100 0; on 1 60 90 0; wt 0 14; ts 0 3 4 0; wt 0 50; of 0 60 0; on 0 62 80 0;
   wt 0 22; of 1 60 0; of 0 62 0; cc 1 64 127 0; wt 0 5].
Definition ex_caps : list Z := [24; 24; 48].
Example C08_hyps_ok :
  waits_nonneg ex_l = true /\ caps_pos ex_caps = true /\ caps_nonneg ex_caps = true /\
  paired_pos ex_l = true /\ ev_safe ex_l ex_caps = true /\
  length (seq_split ex_l ex_caps) = 4%nat /\ length (evs 0 ex_l) = 3%nat /\
  sound (1, 60) 50 0 None ex_l = Some 90.
Proof. vm_compute. repeat split. Qed.
