(* C02 -- vocabulary: no duplicates, encode/decode inverse bijections, closure under tokenise, acceptance by
   detokenise, rendering injective.  Lemmas and proofs. *)
From Coq Require Import ZArith List Bool Lia.
From Model Require Import Tok.
Open Scope Z_scope.

(* ------------------------------------------------------------------ strictly increasing integer lists *)
Fixpoint sincZ (l : list Z) : bool :=
  match l with
  | [] => true
  | x :: r => (match r with [] => true | y :: _ => x <? y end) && sincZ r
  end.

Lemma sincZ_lt : forall l x, sincZ (x :: l) = true -> forall y, In y l -> x < y.
Proof.
  induction l as [|y0 l IH]; intros x H y Hy; [destruct Hy|].
  cbn [sincZ] in H. apply andb_true_iff in H as [H1 H2]. apply Z.ltb_lt in H1.
  destruct Hy as [<-|Hy]; [exact H1|].
  assert (y0 < y) by (apply (IH y0); [exact H2|exact Hy]). lia.
Qed.

Lemma sincZ_tail : forall x l, sincZ (x :: l) = true -> sincZ l = true.
Proof. intros x l H; cbn [sincZ] in H. apply andb_true_iff in H as [_ H]; exact H. Qed.

Lemma sincZ_nodup : forall l, sincZ l = true -> NoDup l.
Proof.
  induction l as [|x l IH]; intros H; constructor.
  - intros Hin. pose proof (sincZ_lt l x H x Hin). lia.
  - apply IH. eapply sincZ_tail; exact H.
Qed.

(* ------------------------------------------------------------------ valid configurations *)
Definition valid_cfg (c : cfg) : bool :=
  sincZ (c_steps c) && forallb (fun x => 1 <=? x) (c_steps c) &&
  sincZ (c_values c) && forallb (fun x => 1 <=? x) (c_values c) &&
  sincZ (c_vbins c) && forallb (fun x => (1 <=? x) && (x <=? 127)) (c_vbins c) &&
  (0 <=? c_plo c) && (c_plo c <=? c_phi c) && (1 <=? c_ntracks c) &&
  (0 <=? c_tslo c) && (c_tslo c <=? c_tshi c).

Record valid_P (c : cfg) : Prop := mkvalid {
  v_steps_nd : NoDup (c_steps c); v_steps_pos : forall x, In x (c_steps c) -> 1 <= x;
  v_values_nd : NoDup (c_values c); v_values_pos : forall x, In x (c_values c) -> 1 <= x;
  v_vbins_nd : NoDup (c_vbins c); v_vbins_rng : forall x, In x (c_vbins c) -> 1 <= x <= 127;
  v_plo : 0 <= c_plo c; v_phi : c_plo c <= c_phi c; v_ntracks : 1 <= c_ntracks c;
  v_tslo : 0 <= c_tslo c; v_tshi : c_tslo c <= c_tshi c }.

Lemma valid_cfg_P : forall c, valid_cfg c = true -> valid_P c.
Proof.
  intros c H. unfold valid_cfg in H.
  repeat (apply andb_true_iff in H; let H' := fresh "V" in destruct H as [H H']).
  constructor; try (apply sincZ_nodup; assumption); try (apply Z.leb_le; assumption).
  - intros x Hx. rewrite forallb_forall in V8. apply Z.leb_le, V8, Hx.
  - intros x Hx. rewrite forallb_forall in V6. apply Z.leb_le, V6, Hx.
  - intros x Hx. rewrite forallb_forall in V4. specialize (V4 x Hx).
    apply andb_true_iff in V4 as [A B]. apply Z.leb_le in A, B. lia.
Qed.

(* ------------------------------------------------------------------ velocity bins of the constructor *)
(* velocity_bins n is NOT strictly increasing for every n in 1..127: the clamp min(127, ...) repeats the value 127
   for exactly the following 39 bin counts (finite sweep) *)
Definition bad_bins : list Z :=
  [19; 22; 23; 26; 27; 28; 33; 34; 35; 36; 43; 44; 45; 46; 47; 48; 49; 50; 64; 65; 66; 67; 68; 69; 70; 71; 72; 73;
   74; 75; 76; 77; 78; 79; 80; 81; 82; 83; 84].

Lemma forallb_rangeZ : forall (P : Z -> bool) lo hi,
  forallb P (rangeZ lo hi) = true -> forall n, lo <= n < hi -> P n = true.
Proof.
  intros P lo hi H n Hn. rewrite forallb_forall in H. apply H.
  unfold rangeZ. remember (Z.to_nat (hi - lo)) as k eqn:Ek.
  assert (Hk : n < lo + Z.of_nat k) by lia. clear Ek H. destruct Hn as [Hn _].
  revert lo Hn Hk; induction k as [|k IH]; intros lo Hn Hk; [lia|].
  cbn [rangeZ_aux]. destruct (Z.eq_dec lo n) as [->|Hne]; [left; reflexivity|right; apply IH; lia].
Qed.

Lemma velocity_bins_sinc : forall n, 1 <= n <= 127 ->
  sincZ (velocity_bins n) = negb (memZ n bad_bins) /\
  forallb (fun x => (1 <=? x) && (x <=? 127)) (velocity_bins n) = true.
Proof.
  intros n Hn.
  assert (H : forallb (fun n => Bool.eqb (sincZ (velocity_bins n)) (negb (memZ n bad_bins)) &&
                                forallb (fun x => (1 <=? x) && (x <=? 127)) (velocity_bins n)) (rangeZ 1 128) = true)
    by (vm_compute; reflexivity).
  pose proof (forallb_rangeZ _ 1 128 H n ltac:(lia)) as Hb. cbn beta in Hb.
  apply andb_true_iff in Hb as [A B]. apply eqb_prop in A. split; assumption.
Qed.

(* ------------------------------------------------------------------ ranges *)
Lemma in_rangeZ_aux : forall n lo x, In x (rangeZ_aux n lo) <-> lo <= x < lo + Z.of_nat n.
Proof.
  induction n as [|n IH]; intros lo x; cbn [rangeZ_aux In]; [lia|].
  rewrite IH. lia.
Qed.
Lemma in_rangeZ : forall lo hi x, In x (rangeZ lo hi) <-> lo <= x < hi.
Proof. intros; unfold rangeZ; rewrite in_rangeZ_aux; lia. Qed.
Lemma nodup_rangeZ_aux : forall n lo, NoDup (rangeZ_aux n lo).
Proof.
  induction n as [|n IH]; intros lo; cbn [rangeZ_aux]; constructor; [|apply IH].
  rewrite in_rangeZ_aux; lia.
Qed.
Lemma nodup_rangeZ : forall lo hi, NoDup (rangeZ lo hi).
Proof. intros; apply nodup_rangeZ_aux. Qed.

(* ------------------------------------------------------------------ NoDup toolbox *)
Lemma nodup_app_disj {A} (a b : list A) :
  NoDup a -> NoDup b -> (forall x, In x a -> In x b -> False) -> NoDup (a ++ b).
Proof.
  intros Ha Hb Hd; induction Ha as [|x a Hx Ha IH]; cbn [app]; [exact Hb|].
  constructor.
  - rewrite in_app_iff; intros [H|H]; [exact (Hx H)|exact (Hd x (or_introl eq_refl) H)].
  - apply IH. intros y Hy; apply Hd; right; exact Hy.
Qed.

Lemma nodup_map_inj {A B} (f : A -> B) (l : list A) :
  (forall x y, f x = f y -> x = y) -> NoDup l -> NoDup (map f l).
Proof.
  intros Hf Hl; induction Hl as [|x l Hx Hl IH]; cbn [map]; constructor; [|exact IH].
  rewrite in_map_iff; intros (y & E & Hy). apply Hf in E; subst y; exact (Hx Hy).
Qed.

Lemma nodup_flat_map {A B} (f : A -> list B) (g : B -> A) (l : list A) :
  NoDup l -> (forall x, In x l -> NoDup (f x)) -> (forall x y, In x l -> In y (f x) -> g y = x) ->
  NoDup (flat_map f l).
Proof.
  intros Hl; induction Hl as [|x l Hx Hl IH]; intros Hf Hg; cbn [flat_map]; [constructor|].
  apply nodup_app_disj.
  - apply Hf; left; reflexivity.
  - apply IH; [intros y Hy; apply Hf; right; exact Hy|intros y z Hy; apply Hg; right; exact Hy].
  - intros y Hy1 Hy2. apply in_flat_map in Hy2 as (x' & Hx' & Hy2).
    assert (g y = x) by (apply Hg; [left; reflexivity|exact Hy1]).
    assert (g y = x') by (apply Hg; [right; exact Hx'|exact Hy2]).
    apply Hx; congruence.
Qed.

(* ------------------------------------------------------------------ membership in the vocabulary *)
Definition oinP (b : bool) (l : list Z) (o : option Z) : Prop :=
  match o with Some x => b = true /\ In x l | None => b = false end.

Lemma in_optlist : forall (b : bool) (l : list Z) (o : option Z),
  In o (if b then map Some l else [None]) <-> oinP b l o.
Proof.
  intros [|] l [x|]; cbn [oinP In]; rewrite ?in_map_iff; split; intros H.
  - destruct H as (y & E & Hy); inversion E; subst; auto.
  - exists x; tauto.
  - destruct H as (y & E & _); discriminate.
  - discriminate.
  - destruct H as [H|[]]; discriminate.
  - destruct H; discriminate.
  - reflexivity.
  - left; reflexivity.
Qed.

Lemma in_note_tokens : forall c t p v w,
  In (TNote t p v w) (note_tokens c) <->
  oinP (c_ftrk c) (rangeZ 0 (c_ntracks c)) t /\ In p (rangeZ (c_plo c) (c_phi c + 1)) /\
  oinP (c_fval c) (c_values c) v /\ oinP (c_fvel c) (c_vbins c) w.
Proof.
  intros c t p v w. rewrite <- !in_optlist. unfold note_tokens. rewrite in_flat_map. split.
  - intros (t' & Ht & H). apply in_flat_map in H as (p' & Hp & H). apply in_flat_map in H as (v' & Hv & H).
    apply in_map_iff in H as (w' & E & Hw). inversion E; subst. auto.
  - intros (Ht & Hp & Hv & Hw). exists t; split; [exact Ht|]. apply in_flat_map. exists p; split; [exact Hp|].
    apply in_flat_map. exists v; split; [exact Hv|]. apply in_map_iff. exists w; auto.
Qed.

Lemma note_tokens_shape : forall c x, In x (note_tokens c) -> exists t p v w, x = TNote t p v w.
Proof.
  intros c x H. unfold note_tokens in H. apply in_flat_map in H as (t & _ & H).
  apply in_flat_map in H as (p & _ & H). apply in_flat_map in H as (v & _ & H).
  apply in_map_iff in H as (w & E & _). exists t, p, v, w; auto.
Qed.

(* what it means to be a vocabulary token *)
Definition in_vocab_spec (c : cfg) (t : tok) : Prop :=
  match t with
  | TPad | TSta | TSto | TBar => True
  | TRest v => In v (c_steps c)
  | TTrk v => c_ftrk c = false /\ In v (rangeZ 0 (c_ntracks c))
  | TVal v => c_fval c = false /\ In v (c_values c)
  | TVel v => c_fvel c = false /\ In v (c_vbins c)
  | TNote t p v w =>
      oinP (c_ftrk c) (rangeZ 0 (c_ntracks c)) t /\ In p (rangeZ (c_plo c) (c_phi c + 1)) /\
      oinP (c_fval c) (c_values c) v /\ oinP (c_fvel c) (c_vbins c) w
  | TTsg n d => d = DEFAULT_TS_DEN /\ In n (rangeZ (c_tslo c) (c_tshi c + 1))
  end.

Lemma in_ifnil : forall (b : bool) (l : list tok) x, In x (if b then [] else l) <-> b = false /\ In x l.
Proof. intros [|] l x; cbn; split; intros H; try tauto; destruct H; discriminate. Qed.

Lemma vocab_iff : forall c t, In t (vocab c) <-> in_vocab_spec c t.
Proof.
  intros c t. unfold vocab. rewrite !in_app_iff, !in_ifnil, !in_map_iff. split.
  - intros [H|[H|[H|[H|[H|[H|H]]]]]].
    + cbn in H; decompose [or] H; subst; cbn; auto; contradiction.
    + destruct H as (v & <- & Hv); exact Hv.
    + destruct H as (Hb & v & <- & Hv); cbn; auto.
    + destruct H as (Hb & v & <- & Hv); cbn; auto.
    + destruct H as (Hb & v & <- & Hv); cbn; auto.
    + destruct (note_tokens_shape c t H) as (a & p & v & w & ->). apply in_note_tokens in H. exact H.
    + destruct H as (n & <- & Hn); cbn; auto.
  - intros H. destruct t; cbn [in_vocab_spec] in H.
    + left; cbn; auto.
    + left; cbn; auto.
    + left; cbn; auto.
    + left; cbn; auto.
    + right; left. exists v; auto.
    + right; right; left. destruct H; split; [assumption|exists t; auto].
    + right; right; right; left. destruct H; split; [assumption|exists v; auto].
    + right; right; right; right; left. destruct H; split; [assumption|exists v; auto].
    + right; right; right; right; right; left. apply in_note_tokens; exact H.
    + right; right; right; right; right; right. destruct H as [-> H]. exists n; auto.
Qed.

(* ------------------------------------------------------------------ NoDup (vocab c) *)
Definition kind (t : tok) : Z :=
  match t with
  | TPad => 0 | TSta => 1 | TSto => 2 | TBar => 3 | TRest _ => 4 | TTrk _ => 5 | TVal _ => 6 | TVel _ => 7
  | TNote _ _ _ _ => 8 | TTsg _ _ => 9
  end.

Lemma nodup_app_kind (a b : list tok) (k : Z) :
  NoDup a -> NoDup b -> Forall (fun t => kind t < k) a -> Forall (fun t => k <= kind t) b -> NoDup (a ++ b).
Proof.
  intros Ha Hb Fa Fb. apply nodup_app_disj; [exact Ha|exact Hb|].
  intros x H1 H2. rewrite Forall_forall in Fa, Fb. specialize (Fa x H1). specialize (Fb x H2). lia.
Qed.

Definition tn_trk (t : tok) : option Z := match t with TNote a _ _ _ => a | _ => None end.
Definition tn_pit (t : tok) : Z := match t with TNote _ p _ _ => p | _ => 0 end.
Definition tn_val (t : tok) : option Z := match t with TNote _ _ v _ => v | _ => None end.

Lemma nodup_optlist : forall (b : bool) (l : list Z), NoDup l -> NoDup (if b then map Some l else [None]).
Proof.
  intros [|] l H.
  - apply nodup_map_inj; [intros x y E; inversion E; reflexivity|exact H].
  - constructor; [intros []|constructor].
Qed.

Lemma nodup_note_tokens : forall c,
  NoDup (c_values c) -> NoDup (c_vbins c) -> NoDup (note_tokens c).
Proof.
  intros c Hv Hw. unfold note_tokens.
  apply (nodup_flat_map _ tn_trk).
  - apply nodup_optlist, nodup_rangeZ.
  - intros t _. apply (nodup_flat_map _ tn_pit).
    + apply nodup_rangeZ.
    + intros p _. apply (nodup_flat_map _ tn_val).
      * apply nodup_optlist, Hv.
      * intros v _. apply nodup_map_inj; [intros x y E; inversion E; reflexivity|apply nodup_optlist, Hw].
      * intros v y _ Hy. apply in_map_iff in Hy as (w & <- & _). reflexivity.
    + intros p y _ Hy. apply in_flat_map in Hy as (v & _ & Hy). apply in_map_iff in Hy as (w & <- & _). reflexivity.
  - intros t y _ Hy. apply in_flat_map in Hy as (p & _ & Hy). apply in_flat_map in Hy as (v & _ & Hy).
    apply in_map_iff in Hy as (w & <- & _). reflexivity.
Qed.

Ltac seg_kind :=
  apply Forall_forall; let x := fresh "x" in let Hx := fresh "Hx" in intros x Hx;
  first [ apply in_map_iff in Hx; destruct Hx as (? & <- & _); cbn [kind]; lia
        | apply note_tokens_shape in Hx; destruct Hx as (? & ? & ? & ? & ->); cbn [kind]; lia
        | destruct Hx ].

Lemma nodup_ctor_map : forall (f : Z -> tok) l, (forall x y, f x = f y -> x = y) -> NoDup l -> NoDup (map f l).
Proof. intros; apply nodup_map_inj; assumption. Qed.

Lemma nodup_vocab_gen : forall c,
  NoDup (c_steps c) -> NoDup (c_values c) -> NoDup (c_vbins c) -> NoDup (vocab c).
Proof.
  intros c Hs Hv Hw. unfold vocab.
  apply (nodup_app_kind _ _ 4).
  { repeat constructor; cbn; intuition discriminate. }
  2:{ repeat constructor; cbn [kind]; lia. }
  2:{ rewrite !Forall_app. destruct (c_ftrk c), (c_fval c), (c_fvel c); repeat split; seg_kind. }
  apply (nodup_app_kind _ _ 5).
  { apply nodup_ctor_map; [intros x y E; inversion E; reflexivity|exact Hs]. }
  2:{ seg_kind. }
  2:{ rewrite !Forall_app. destruct (c_ftrk c), (c_fval c), (c_fvel c); repeat split; seg_kind. }
  apply (nodup_app_kind _ _ 6).
  { destruct (c_ftrk c); [constructor|].
    apply nodup_ctor_map; [intros x y E; inversion E; reflexivity|apply nodup_rangeZ]. }
  2:{ destruct (c_ftrk c); seg_kind. }
  2:{ rewrite !Forall_app. destruct (c_fval c), (c_fvel c); repeat split; seg_kind. }
  apply (nodup_app_kind _ _ 7).
  { destruct (c_fval c); [constructor|].
    apply nodup_ctor_map; [intros x y E; inversion E; reflexivity|exact Hv]. }
  2:{ destruct (c_fval c); seg_kind. }
  2:{ rewrite !Forall_app. destruct (c_fvel c); repeat split; seg_kind. }
  apply (nodup_app_kind _ _ 8).
  { destruct (c_fvel c); [constructor|].
    apply nodup_ctor_map; [intros x y E; inversion E; reflexivity|exact Hw]. }
  2:{ destruct (c_fvel c); seg_kind. }
  2:{ rewrite !Forall_app. repeat split; seg_kind. }
  apply (nodup_app_kind _ _ 9).
  { apply nodup_note_tokens; assumption. }
  2:{ seg_kind. }
  2:{ seg_kind. }
  apply nodup_ctor_map; [intros x y E; inversion E; reflexivity|apply nodup_rangeZ].
Qed.

Theorem C02_nodup : forall c, valid_cfg c = true -> NoDup (vocab c).
Proof.
  intros c H. destruct (valid_cfg_P c H). apply nodup_vocab_gen; assumption.
Qed.

(* ------------------------------------------------------------------ encode / decode *)
Lemma oZ_eqb_eq : forall a b, oZ_eqb a b = true <-> a = b.
Proof.
  intros [x|] [y|]; cbn [oZ_eqb]; rewrite ?Z.eqb_eq; split; intros H; try discriminate; try reflexivity; congruence.
Qed.

Lemma tok_eqb_eq : forall a b, tok_eqb a b = true <-> a = b.
Proof.
  intros a b; destruct a, b; cbn [tok_eqb]; rewrite ?andb_true_iff, ?Z.eqb_eq, ?oZ_eqb_eq;
    split; intros H; try discriminate; try reflexivity; try congruence.
  - destruct H as [[[-> ->] ->] ->]; reflexivity.
  - inversion H; auto.
  - destruct H as [-> ->]; reflexivity.
  - inversion H; auto.
Qed.

Lemma tok_eqb_refl : forall t, tok_eqb t t = true.
Proof. intros; apply tok_eqb_eq; reflexivity. Qed.
Lemma tok_eqb_neq : forall a b, a <> b -> tok_eqb a b = false.
Proof. intros a b H; destruct (tok_eqb a b) eqn:E; [apply tok_eqb_eq in E; contradiction|reflexivity]. Qed.

Lemma lia_notin : forall t l i f, ~ In t l -> last_index_aux t l i f = f.
Proof.
  intros t l; induction l as [|x l IH]; intros i f H; cbn [last_index_aux]; [reflexivity|].
  rewrite IH by (intros H'; apply H; right; exact H').
  rewrite tok_eqb_neq; [reflexivity|]. intros ->; apply H; left; reflexivity.
Qed.

Lemma lia_nth : forall l k t i f,
  NoDup l -> nth_error l k = Some t -> last_index_aux t l i f = Some (i + Z.of_nat k).
Proof.
  induction l as [|x l IH]; intros k t i f Hnd Hk; [destruct k; discriminate|].
  inversion Hnd as [|? ? Hx Hl]; subst. destruct k as [|k]; cbn [nth_error] in Hk; cbn [last_index_aux].
  - inversion Hk; subst x. rewrite tok_eqb_refl, lia_notin by exact Hx. f_equal; lia.
  - rewrite tok_eqb_neq.
    + rewrite (IH k t (i + 1) f Hl Hk). f_equal; lia.
    + intros ->. apply Hx. eapply nth_error_In; exact Hk.
Qed.

Lemma lia_some_in : forall t l i f j, last_index_aux t l i f = Some j -> f = Some j \/ In t l.
Proof.
  intros t l; induction l as [|x l IH]; intros i f j H; cbn [last_index_aux] in H; [left; exact H|].
  apply IH in H as [H|H]; [|right; right; exact H].
  destruct (tok_eqb t x) eqn:E; [apply tok_eqb_eq in E; subst; right; left; reflexivity|left; exact H].
Qed.

Lemma encode1_nth : forall c k t, NoDup (vocab c) -> nth_error (vocab c) k = Some t -> encode1 c t = Ok (Z.of_nat k).
Proof. intros c k t Hnd Hk. unfold encode1. rewrite (lia_nth _ k t 0 None Hnd Hk). f_equal. Qed.

Lemma decode1_nth : forall c k t, NoDup (vocab c) -> nth_error (vocab c) k = Some t -> decode1 c (Z.of_nat k) = Ok t.
Proof.
  intros c k t Hnd Hk. unfold decode1.
  destruct (Z.of_nat k <? 0) eqn:E; [apply Z.ltb_lt in E; lia|].
  rewrite Nat2Z.id, Hk, (encode1_nth c k t Hnd Hk), Z.eqb_refl. reflexivity.
Qed.

Lemma encode_decode_gen : forall c t, NoDup (vocab c) -> In t (vocab c) ->
  exists i, encode1 c t = Ok i /\ decode1 c i = Ok t /\ 0 <= i < dictionary_size c.
Proof.
  intros c t Hnd Hin. apply In_nth_error in Hin as (k & Hk). exists (Z.of_nat k).
  split; [apply encode1_nth; assumption|]. split; [apply decode1_nth; assumption|].
  assert (k < length (vocab c))%nat by (apply nth_error_Some; congruence).
  unfold dictionary_size, lenZ. lia.
Qed.

Lemma decode_encode_gen : forall c i, NoDup (vocab c) -> 0 <= i < dictionary_size c ->
  exists t, decode1 c i = Ok t /\ encode1 c t = Ok i /\ In t (vocab c).
Proof.
  intros c i Hnd Hi. unfold dictionary_size, lenZ in Hi.
  destruct (nth_error (vocab c) (Z.to_nat i)) as [t|] eqn:Hk; [|apply nth_error_None in Hk; lia].
  exists t. replace i with (Z.of_nat (Z.to_nat i)) by lia.
  split; [apply decode1_nth; assumption|]. split; [apply encode1_nth; assumption|]. eapply nth_error_In; exact Hk.
Qed.

Theorem C02_encode_decode : forall c t, valid_cfg c = true -> In t (vocab c) ->
  exists i, encode1 c t = Ok i /\ decode1 c i = Ok t /\ 0 <= i < dictionary_size c.
Proof. intros c t H; apply encode_decode_gen, C02_nodup, H. Qed.

Theorem C02_decode_encode : forall c i, valid_cfg c = true -> 0 <= i < dictionary_size c ->
  exists t, decode1 c i = Ok t /\ encode1 c t = Ok i /\ In t (vocab c).
Proof. intros c i H; apply decode_encode_gen, C02_nodup, H. Qed.

(* encode succeeds exactly on vocabulary tokens (any cfg), ids are in range, and encode is one-to-one (valid cfg) *)
Lemma encode1_ok_in : forall c t i, encode1 c t = Ok i -> In t (vocab c).
Proof.
  intros c t i H. unfold encode1 in H.
  destruct (last_index_aux t (vocab c) 0 None) as [j|] eqn:E; [|discriminate].
  apply lia_some_in in E as [E|E]; [discriminate|exact E].
Qed.

Theorem C02_encode_injective : forall c t1 t2 i, valid_cfg c = true ->
  encode1 c t1 = Ok i -> encode1 c t2 = Ok i -> t1 = t2.
Proof.
  intros c t1 t2 i H H1 H2.
  destruct (C02_encode_decode c t1 H (encode1_ok_in _ _ _ H1)) as (i1 & E1 & D1 & _).
  destruct (C02_encode_decode c t2 H (encode1_ok_in _ _ _ H2)) as (i2 & E2 & D2 & _).
  congruence.
Qed.

(* the reported size is the number of entries, and (valid cfg) the number of DISTINCT entries *)
Theorem C02_size : forall c, valid_cfg c = true ->
  dictionary_size c = Z.of_nat (length (vocab c)) /\ NoDup (vocab c) /\
  (forall t, In t (vocab c) <-> exists i, 0 <= i < dictionary_size c /\ encode1 c t = Ok i).
Proof.
  intros c H. split; [reflexivity|]. split; [apply C02_nodup, H|]. intros t; split.
  - intros Hin. destruct (C02_encode_decode c t H Hin) as (i & E & _ & R). exists i; auto.
  - intros (i & _ & E). eapply encode1_ok_in; exact E.
Qed.

(* list level *)
Theorem C02_encode_decode_list : forall c ts, valid_cfg c = true -> Forall (fun t => In t (vocab c)) ts ->
  exists ids, encode c ts = Ok ids /\ decode c ids = Ok ts /\ Forall (fun i => 0 <= i < dictionary_size c) ids.
Proof.
  intros c ts H F; induction F as [|t ts Ht F IH].
  - exists []; cbn; auto.
  - destruct IH as (ids & E & D & R). destruct (C02_encode_decode c t H Ht) as (i & E1 & D1 & R1).
    exists (i :: ids). unfold encode, decode in *. cbn [mapM]. rewrite E1, D1; cbn [rbind]. rewrite E, D; cbn [rbind].
    auto.
Qed.

Theorem C02_decode_encode_list : forall c ids, valid_cfg c = true -> Forall (fun i => 0 <= i < dictionary_size c) ids ->
  exists ts, decode c ids = Ok ts /\ encode c ts = Ok ids /\ Forall (fun t => In t (vocab c)) ts.
Proof.
  intros c ids H F; induction F as [|i ids Hi F IH].
  - exists []; cbn; auto.
  - destruct IH as (ts & D & E & R). destruct (C02_decode_encode c i H Hi) as (t & D1 & E1 & R1).
    exists (t :: ts). unfold encode, decode in *. cbn [mapM]. rewrite E1, D1; cbn [rbind]. rewrite E, D; cbn [rbind].
    auto.
Qed.

(* ------------------------------------------------------------------ refutation for the constructor's own bins *)
(* For 39 bin counts the constructor produces a repeated velocity bin 127, hence a repeated vocabulary token: the
   vocabulary is not duplicate-free, dictionary_size over-counts, and the id of the first copy does not decode. *)
Definition bad_cfg : cfg := make_cfg 1 60 60 None None 19 true true true true true.
Lemma bad_cfg_witness :
  valid_cfg bad_cfg = false /\ ~ NoDup (vocab bad_cfg) /\
  nth_error (vocab bad_cfg) 29 = Some (TNote (Some 0) 60 (Some 4) (Some 127)) /\
  nth_error (vocab bad_cfg) 30 = Some (TNote (Some 0) 60 (Some 4) (Some 127)) /\
  0 <= 29 < dictionary_size bad_cfg /\ decode1 bad_cfg 29 = Err KeyErr /\
  encode1 bad_cfg (TNote (Some 0) 60 (Some 4) (Some 127)) = Ok 30.
Proof.
  split; [vm_compute; reflexivity|]. split.
  - intros Hnd. rewrite NoDup_nth_error in Hnd.
    assert (H : (29 = 30)%nat); [|discriminate]. apply Hnd; vm_compute; [lia|reflexivity].
  - vm_compute. repeat split; try reflexivity; discriminate.
Qed.

(* full-strength version of the property clause is therefore refuted for the configurations the constructor builds *)
Theorem C02_bijection_refuted : exists (c : cfg) (i : Z),
  c = make_cfg 1 60 60 None None 19 true true true true true /\ ~ NoDup (vocab c) /\ 0 <= i < dictionary_size c /\ decode1 c i = Err KeyErr.
Proof.
  exists bad_cfg, 29. destruct bad_cfg_witness as (_ & H1 & _ & _ & H2 & H3 & _). auto.
Qed.

(* for all other bin counts in 1..127 (finite sweep, bound in the statement) the constructor's configuration is valid
   as soon as the remaining arguments are *)
Lemma sortZ_default_steps_valid :
  sincZ (sortZ (get_default_step_sizes 0 1)) = true /\ forallb (fun x => 1 <=? x) (sortZ (get_default_step_sizes 0 1)) = true /\ sincZ (sortZ get_default_note_values) = true /\ forallb (fun x => 1 <=? x) (sortZ get_default_note_values) = true.
Proof. vm_compute. auto. Qed.

Theorem C02_make_cfg_valid : forall ntracks plo phi nbins running ftrk fval fvel simplify,
  1 <= nbins <= 127 -> memZ nbins bad_bins = false -> 1 <= ntracks -> 0 <= plo <= phi ->
  valid_cfg (make_cfg ntracks plo phi None None nbins running ftrk fval fvel simplify) = true.
Proof.
  intros ntracks plo phi nbins running ftrk fval fvel simplify Hn Hbad Ht Hp.
  destruct (velocity_bins_sinc nbins Hn) as [Hs Hr]. rewrite Hbad in Hs.
  destruct sortZ_default_steps_valid as (A1 & A2 & A3 & A4).
  unfold valid_cfg, make_cfg. cbn [c_steps c_values c_vbins c_plo c_phi c_ntracks c_tslo c_tshi].
  rewrite A1, A2, A3, A4, Hs, Hr. cbn [andb negb].
  repeat (apply andb_true_iff; split); try (apply Z.leb_le; lia); reflexivity.
Qed.

Example ex_valid : valid_cfg (make_cfg 2 60 62 None None 4 true true false true true) = true.
Proof. vm_compute; reflexivity. Qed.
Example ex_valid_default : valid_cfg (make_cfg 4 21 108 None None 8 true true true true true) = true.
Proof. vm_compute; reflexivity. Qed.

(* ------------------------------------------------------------------ every vocabulary token is accepted by detokenise *)
Lemma foldM_inv {A B} (f : B -> A -> result B) (P : A -> Prop) (I : B -> Prop) :
  (forall b a, P a -> I b -> exists b', f b a = Ok b' /\ I b') ->
  forall l b, Forall P l -> I b -> exists b', foldM f l b = Ok b' /\ I b'.
Proof.
  intros Hstep l; induction l as [|a l IH]; intros b F Hb; cbn [foldM].
  - exists b; auto.
  - inversion F as [|? ? Pa Fl]; subst. destruct (Hstep b a Pa Hb) as (b1 & E & I1). rewrite E; cbn [rbind].
    apply IH; assumption.
Qed.

Definition detok_inv (c : cfg) (s : dstate) : Prop :=
  lenZ (d_seqs s) = c_ntracks c /\ 0 <= d_ptrk s < c_ntracks c.

Lemma length_set_nth : forall {A} i f (l : list A), length (set_nth i f l) = length l.
Proof.
  intros A i f l; revert i; induction l as [|x l IH]; intros [|i]; cbn [set_nth length]; try reflexivity.
  rewrite IH; reflexivity.
Qed.

Lemma py_index_some : forall n i, 0 <= i < n -> py_index n i = Some (Z.to_nat i).
Proof.
  intros n i H; unfold py_index.
  destruct (0 <=? i) eqn:E1; [|apply Z.leb_gt in E1; lia].
  destruct (i <? n) eqn:E2; [|apply Z.ltb_ge in E2; lia]. reflexivity.
Qed.

Lemma length_rangeZ_aux : forall n lo, length (rangeZ_aux n lo) = n.
Proof. induction n as [|n IH]; intros lo; cbn [rangeZ_aux length]; [reflexivity|rewrite IH; reflexivity]. Qed.

Lemma detok_inv_init : forall c, 0 < c_ntracks c -> detok_inv c (dstate0 c).
Proof.
  intros c H; unfold detok_inv, dstate0, lenZ; cbn [d_seqs d_ptrk].
  rewrite map_length. unfold rangeZ. rewrite length_rangeZ_aux. lia.
Qed.

Lemma detok_step_vocab : forall c s t,
  in_vocab_spec c t -> detok_inv c s -> exists s', detok_step c s t = Ok s' /\ detok_inv c s'.
Proof.
  intros c s t Hv [Hl Hp]. unfold detok_inv. destruct t; cbn [in_vocab_spec] in Hv; cbn [detok_step].
  - exists s; auto.
  - exists s; auto.
  - exists s; auto.
  - eexists; split; [reflexivity|]. unfold set_clock, lenZ; cbn [d_seqs d_ptrk]. rewrite map_length. auto.
  - eexists; split; [reflexivity|]. unfold set_clock; cbn [d_seqs d_ptrk]. auto.
  - destruct Hv as [_ Hv]. apply in_rangeZ in Hv. eexists; split; [reflexivity|]. cbn [d_seqs d_ptrk]. auto.
  - eexists; split; [reflexivity|]. cbn [d_seqs d_ptrk]. auto.
  - eexists; split; [reflexivity|]. cbn [d_seqs d_ptrk]. auto.
  - destruct Hv as (Ht & _).
    assert (Hr : 0 <= match trk with Some x => x | None => d_ptrk s end < c_ntracks c).
    { destruct trk as [x|]; cbn [oinP] in Ht; [destruct Ht as [_ Ht]; apply in_rangeZ in Ht; lia|exact Hp]. }
    rewrite Hl, (py_index_some _ _ Hr). eexists; split; [reflexivity|]. cbn [d_seqs d_ptrk].
    unfold lenZ in *. rewrite length_set_nth. auto.
  - destruct Hv as [-> _]. destruct (0 <? d_tbar s); [exists s; auto|].
    change (DEFAULT_TS_DEN =? 0) with false. cbv iota.
    destruct (c_simplify c && (n mod 2 =? 0) && (DEFAULT_TS_DEN mod 2 =? 0)); (eexists; split; [reflexivity|]);
      unfold set_clock, lenZ in *; cbn [d_seqs d_ptrk]; (split; [|exact Hp]);
      (destruct (negb ((d_num s =? n) && (d_den s =? DEFAULT_TS_DEN)) || negb (c_running c)); [|exact Hl]);
      (destruct (d_seqs s); [exact Hl|cbn [length] in *; exact Hl]).
Qed.

Lemma accepted_gen : forall c ts, 1 <= c_ntracks c -> Forall (fun t => In t (vocab c)) ts ->
  exists r, detokenise c ts = Ok r /\ lenZ r = c_ntracks c.
Proof.
  intros c ts Hn F. unfold detokenise.
  destruct (foldM_inv (detok_step c) (fun t => In t (vocab c)) (detok_inv c)) with (l := ts) (b := dstate0 c)
    as (s & E & [I1 I2]).
  - intros b a Pa Ib. apply detok_step_vocab; [apply vocab_iff; exact Pa|exact Ib].
  - exact F.
  - apply detok_inv_init; lia.
  - rewrite E; cbn [rbind]. exists (d_seqs s); auto.
Qed.

Theorem C02_accepted : forall c ts, Forall (fun t => In t (vocab c)) ts -> valid_cfg c = true ->
  exists r, detokenise c ts = Ok r /\ lenZ r = c_ntracks c.
Proof. intros c ts F H. destruct (valid_cfg_P c H). apply accepted_gen; assumption. Qed.

(* without 1 <= num_tracks the clause fails: a running-track note token has no track to go to *)
Example accepted_needs_track :
  let c := mkcfg 24 0 60 62 [24] [24] [127] 2 16 true false true true true in
  In (TNote None 60 (Some 24) (Some 127)) (vocab c) /\ detokenise c [TNote None 60 (Some 24) (Some 127)] = Err IndexErr.
Proof. vm_compute. split; [|reflexivity]. tauto. Qed.

(* ------------------------------------------------------------------ closure of the vocabulary under tokenise *)
Definition inV (c : cfg) (t : tok) : Prop := In t (vocab c).

Lemma apply_rest_eq : forall fuel c s buf,
  apply_rest fuel c s buf =
  if buf <=? 0 then Ok s else
  match fuel with
  | O => Err OutOfFuel
  | S f =>
      let nxt := Z.min buf (l_rem s) in
      let v := if last_step c <? nxt then Some (last_step c) else largest_le (c_steps c) nxt in
      match v with
      | None => Err TokErr
      | Some v =>
          let rem := l_rem s - v in
          let atend := Z.eqb rem 0 in
          let s' := mkls (l_toks s ++ [TRest v] ++ (if atend then [TBar] else []))
                         (l_time s + v) (if atend then 0 else l_tbar s + v) (l_num s) (l_den s) (l_total s)
                         (if atend then l_total s else rem) (l_ptrk s) (l_pval s) (l_pvel s)
                         (if atend then false else l_has s) in
          apply_rest f c s' (buf - v)
      end
  end.
Proof. intros [|f] c s buf; reflexivity. Qed.

(* with no step sizes at all a positive rest can never be emitted (the Python code raises IndexError on
   step_sizes[-1]; the model runs out of fuel or finds no step) *)
Lemma apply_rest_nosteps : forall c, c_steps c = [] ->
  forall fuel s buf, 0 < buf -> exists e, apply_rest fuel c s buf = Err e.
Proof.
  intros c Hs fuel; induction fuel as [|f IH]; intros s buf Hb; rewrite apply_rest_eq;
    (destruct (buf <=? 0) eqn:E; [apply Z.leb_le in E; lia|]).
  - eexists; reflexivity.
  - unfold last_step, largest_le. rewrite Hs. cbn [last filter last_opt]. cbv zeta.
    destruct (0 <? Z.min buf (l_rem s)).
    + apply IH. lia.
    + eexists; reflexivity.
Qed.

Lemma last_in : forall (l : list Z) d, l <> [] -> In (last l d) l.
Proof.
  induction l as [|x l IH]; intros d H; [congruence|].
  destruct l as [|y l]; [left; reflexivity|]. right. apply (IH d). discriminate.
Qed.

Lemma last_opt_in : forall {A} (l : list A) x, last_opt l = Some x -> In x l.
Proof.
  intros A l; induction l as [|y l IH]; intros x H; [discriminate|].
  destruct l as [|z l]; [inversion H; left; reflexivity|]. right. apply IH. exact H.
Qed.

Lemma inV_rest : forall c v, In v (c_steps c) -> inV c (TRest v).
Proof. intros; apply vocab_iff; assumption. Qed.
Lemma inV_bar : forall c, inV c TBar.
Proof. intros; apply vocab_iff; exact I. Qed.

Lemma apply_rest_closed : forall c fuel s buf s',
  apply_rest fuel c s buf = Ok s' -> Forall (inV c) (l_toks s) -> Forall (inV c) (l_toks s').
Proof.
  intros c. destruct (c_steps c) as [|st0 sts] eqn:Hs.
  { intros fuel s buf s' H F. destruct (Z_le_gt_dec buf 0) as [Hb|Hb].
    - rewrite apply_rest_eq in H. destruct (buf <=? 0) eqn:E; [inversion H; subst; exact F|apply Z.leb_gt in E; lia].
    - destruct (apply_rest_nosteps c Hs fuel s buf ltac:(lia)) as (e & He). congruence. }
  assert (Hne : c_steps c <> []) by (rewrite Hs; discriminate). clear Hs.
  induction fuel as [|f IH]; intros s buf s' H F; rewrite apply_rest_eq in H;
    (destruct (buf <=? 0); [inversion H; subst; exact F|]); [discriminate|].
  cbv zeta in H.
  destruct (if last_step c <? Z.min buf (l_rem s) then Some (last_step c) else largest_le (c_steps c) (Z.min buf (l_rem s)))
    as [v|] eqn:Ev; [|discriminate].
  assert (Hv : In v (c_steps c)).
  { destruct (last_step c <? Z.min buf (l_rem s)).
    - inversion Ev; subst. apply last_in, Hne.
    - unfold largest_le in Ev. apply last_opt_in in Ev. apply filter_In in Ev as [Ev _]. exact Ev. }
  apply IH in H; [exact H|]. cbn [l_toks]. rewrite !Forall_app. split; [exact F|]. split.
  - constructor; [apply inV_rest, Hv|constructor].
  - destruct (l_rem s - v =? 0); constructor; [apply inV_bar|constructor].
Qed.

Lemma Forall_if1 : forall {A} (P : A -> Prop) (b : bool) x, (b = true -> P x) -> Forall P (if b then [x] else []).
Proof. intros A P [|] x H; constructor; [apply H; reflexivity|constructor]. Qed.

Lemma memZ_in : forall x l, memZ x l = true -> In x l.
Proof. intros x l H. unfold memZ in H. apply existsb_exists in H as (y & Hy & E). apply Z.eqb_eq in E; subst; exact Hy. Qed.

Lemma note_tok_closed : forall c s ch pit val vel,
  0 <= ch < c_ntracks c -> c_plo c <= pit <= c_phi c -> In val (c_values c) -> In vel (c_vbins c) ->
  Forall (inV c) (note_tok c s ch pit val vel).
Proof.
  intros c s ch pit val vel Hc Hp Hv Hw. unfold note_tok.
  assert (Rc : In ch (rangeZ 0 (c_ntracks c))) by (apply in_rangeZ; lia).
  assert (Rp : In pit (rangeZ (c_plo c) (c_phi c + 1))) by (apply in_rangeZ; lia).
  rewrite !Forall_app. repeat split.
  - apply Forall_if1. intros E. apply andb_true_iff in E as [E _]. apply negb_true_iff in E.
    apply vocab_iff; cbn; auto.
  - apply Forall_if1. intros E. apply andb_true_iff in E as [E _]. apply negb_true_iff in E.
    apply vocab_iff; cbn; auto.
  - apply Forall_if1. intros E. apply andb_true_iff in E as [E _]. apply negb_true_iff in E.
    apply vocab_iff; cbn; auto.
  - constructor; [|constructor]. apply vocab_iff. cbn [in_vocab_spec].
    destruct (c_ftrk c), (c_fval c), (c_fvel c); cbn [oinP]; auto.
Qed.

(* channel hypothesis on one front-end event: note-ons sit on a channel that is a track index *)
Definition ev_chan_ok (c : cfg) (e : Z * pairing) : Prop :=
  m_type (p_first (snd e)) = NOTE_ON -> 0 <= m_chan (p_first (snd e)) < c_ntracks c.

Lemma tok_event_closed : forall c shift s e s',
  DEFAULT_TS_NUM = DEFAULT_TS_DEN -> ev_chan_ok c e ->
  tok_event c shift s e = Ok s' -> Forall (inV c) (l_toks s) -> Forall (inV c) (l_toks s').
Proof.
  intros c shift s e s' Hts Hch H F. unfold tok_event in H.
  set (m := p_first (snd e)) in *.
  destruct (if l_time s =? m_time m + shift then Ok s
            else apply_rest (rest_fuel (m_time m + shift - l_time s)) c s (m_time m + shift - l_time s))
    as [s1|] eqn:E1; cbn [rbind] in H; [|discriminate].
  assert (F1 : Forall (inV c) (l_toks s1)).
  { destruct (l_time s =? m_time m + shift); [inversion E1; subst; exact F|].
    eapply apply_rest_closed; [exact E1|exact F]. }
  clear E1 F. destruct (m_type m) eqn:Em; try (inversion H; subst; exact F1).
  - (* TIME_SIGNATURE *)
    destruct (0 <? l_tbar s1); [inversion H; subst; exact F1|].
    destruct (negb (m_num m * DEFAULT_TS_DEN mod m_den m =? 0)); [discriminate|].
    destruct ((c_tslo c <=? m_num m * DEFAULT_TS_DEN / m_den m) && (m_num m * DEFAULT_TS_DEN / m_den m <=? c_tshi c)) eqn:Er;
      cbn [negb] in H; [|discriminate].
    inversion H; subst; cbn [l_toks]. rewrite Forall_app; split; [exact F1|]. constructor; [|constructor].
    apply vocab_iff. cbn [in_vocab_spec]. split; [exact Hts|].
    apply andb_true_iff in Er as [A B]. apply Z.leb_le in A, B. apply in_rangeZ; lia.
  - (* NOTE_ON *)
    destruct (nth_error (c_vbins c) (Z.to_nat (bin_velocity (m_vel m) (c_vbins c)))) as [vel|] eqn:Ev; [|discriminate].
    destruct ((c_plo c <=? m_note m) && (m_note m <=? c_phi c)) eqn:Ep; cbn [negb] in H; [|discriminate].
    destruct (memZ (p_off_time (snd e) - m_time m) (c_values c)) eqn:Eval; cbn [negb] in H; [|discriminate].
    inversion H; subst; cbn [l_toks]. rewrite Forall_app; split; [exact F1|].
    apply andb_true_iff in Ep as [A B]. apply Z.leb_le in A, B.
    apply note_tok_closed; [apply Hch; exact Em|lia|apply memZ_in; exact Eval|eapply nth_error_In; exact Ev].
Qed.

Lemma foldM_tok_event_closed : forall c shift evs s s',
  DEFAULT_TS_NUM = DEFAULT_TS_DEN -> Forall (ev_chan_ok c) evs ->
  foldM (tok_event c shift) evs s = Ok s' -> Forall (inV c) (l_toks s) -> Forall (inV c) (l_toks s').
Proof.
  intros c shift evs; induction evs as [|e evs IH]; intros s s' Hts Hch H F; cbn [foldM] in H.
  - inversion H; subst; exact F.
  - inversion Hch as [|? ? He Hes]; subst.
    destruct (tok_event c shift s e) as [s1|] eqn:E; cbn [rbind] in H; [|discriminate].
    eapply IH; [exact Hts|exact Hes|exact H|]. eapply tok_event_closed; eauto.
Qed.

(* ------------------------------------------------------------------ the front-end keeps channels inside 0..n-1 *)
Definition chP (n : Z) (m : msg) : Prop := 0 <= m_chan m < n.

Lemma Forall_ins_sorted : forall (P : msg -> Prop) x l, P x -> Forall P l -> Forall P (ins_sorted x l).
Proof.
  intros P x l Hx F; induction F as [|y l Hy F IH]; cbn [ins_sorted]; [repeat constructor; exact Hx|].
  destruct (key_le x y); repeat constructor; assumption.
Qed.
Lemma Forall_sort_abs : forall (P : msg -> Prop) l, Forall P l -> Forall P (sort_abs l).
Proof. intros P l F; induction F; cbn [sort_abs]; [constructor|apply Forall_ins_sorted; assumption]. Qed.
Lemma Forall_insort : forall (P : msg -> Prop) x l, P x -> Forall P l -> Forall P (insort x l).
Proof.
  intros P x l Hx F; induction F as [|y l Hy F IH]; cbn [insort]; [repeat constructor; exact Hx|].
  destruct (m_time x <? m_time y); repeat constructor; assumption.
Qed.
Lemma Forall_concat_ : forall {A} (P : A -> Prop) ls, Forall (Forall P) ls -> Forall P (concat ls).
Proof. intros A P ls F; induction F; cbn [concat]; [constructor|apply Forall_app; split; assumption]. Qed.

Lemma to_abs_aux_chP : forall n l cur curf cap,
  Forall (chP n) l -> Forall (chP n) (fst (fst (fst (to_abs_aux l cur curf cap)))).
Proof.
  intros n l; induction l as [|m l IH]; intros cur curf cap F; cbn [to_abs_aux]; [constructor|].
  inversion F as [|? ? Hm Fl]; subst.
  destruct (is_wait m); [apply IH; exact Fl|].
  specialize (IH cur curf true Fl). destruct (to_abs_aux l cur curf true) as [[[r c0] f0] k0].
  cbn [fst] in *. constructor; [exact Hm|exact IH].
Qed.

Lemma to_abs_chP : forall n l, 1 <= n -> Forall (chP n) l -> Forall (chP n) (to_abs l).
Proof.
  intros n l Hn F. unfold to_abs. pose proof (to_abs_aux_chP n l 0 false true F) as H.
  destruct (to_abs_aux l 0 false true) as [[[r c0] f0] cap]. cbn [fst] in H.
  destruct cap; [apply Forall_sort_abs; exact H|].
  apply Forall_insort; [|apply Forall_sort_abs; exact H].
  unfold chP, mk_internal; cbn [m_chan]. destruct F as [|m l Hm F]; cbn [first_chan]; [lia|exact Hm].
Qed.

Lemma to_rel_aux_chP : forall n l cur curf, Forall (chP n) l -> Forall (chP n) (to_rel_aux l cur curf).
Proof.
  intros n l; induction l as [|m l IH]; intros cur curf F; cbn [to_rel_aux]; [constructor|].
  inversion F as [|? ? Hm Fl]; subst. rewrite !Forall_app. repeat split.
  - destruct (cur <? m_time m); constructor; [exact Hm|constructor].
  - destruct (mtype_eqb (m_type m) INTERNAL); constructor; [exact Hm|constructor].
  - apply IH; exact Fl.
Qed.

Lemma flush_chP : forall n s ch m, Forall (chP n) (n_out s) -> chP n m -> 0 <= ch < n ->
  Forall (chP n) (n_out (flush s ch m)).
Proof.
  intros n s ch m F Hm Hc. unfold flush; cbn [n_out]. rewrite Forall_app; split; [|constructor; [exact Hm|constructor]].
  destruct (0 <? n_wait s); [|exact F]. rewrite Forall_app; split; [exact F|]. constructor; [exact Hc|constructor].
Qed.

Lemma nstep_chP : forall n s m, Forall (chP n) (n_out s) -> chP n m -> Forall (chP n) (n_out (nstep s m)).
Proof.
  intros n s m F Hm. unfold nstep.
  destruct (m_type m); try (apply flush_chP; [exact F|exact Hm|exact Hm]).
  - destruct (okey_eqb (m_key m) (n_key s)); [exact F|apply flush_chP; [exact F|exact Hm|exact Hm]].
  - destruct ((m_num m =? fst (n_ts s)) && (m_den m =? snd (n_ts s))); [exact F|apply flush_chP; [exact F|exact Hm|exact Hm]].
  - destruct (depth (m_chan m, m_note m) (n_open s)) as [|[|d]]; [exact F| |exact F].
    apply flush_chP; [exact F|exact Hm|exact Hm].
  - destruct (depth (m_chan m, m_note m) (n_open s)) as [|d]; [|exact F].
    apply flush_chP; [exact F|exact Hm|exact Hm].
  - exact F.
Qed.

Lemma fold_nstep_chP : forall n l s, Forall (chP n) l -> Forall (chP n) (n_out s) ->
  Forall (chP n) (n_out (fold_left nstep l s)).
Proof.
  intros n l; induction l as [|m l IH]; intros s F Fs; cbn [fold_left]; [exact Fs|].
  inversion F; subst. apply IH; [assumption|apply nstep_chP; assumption].
Qed.

Lemma remove_last_on_chP : forall n k l, Forall (chP n) l -> Forall (chP n) (fst (remove_last_on k l)).
Proof.
  intros n k l F; induction F as [|m l Hm F IH]; cbn [remove_last_on]; [constructor|].
  destruct (remove_last_on k l) as [r found]. cbn [fst] in *.
  destruct found; [constructor; assumption|].
  destruct (is_on m && k2_eqb k (m_chan m, m_note m)); cbn [fst]; [exact IH|constructor; assumption].
Qed.

Lemma cleanup_chP : forall n o out, Forall (chP n) out -> Forall (chP n) (cleanup o out).
Proof.
  intros n o; unfold cleanup; induction o as [|kd o IH]; intros out F; cbn [fold_left]; [exact F|].
  apply IH. destruct (snd kd); [exact F|apply remove_last_on_chP; exact F].
Qed.

Lemma normalise_chP : forall n l, 1 <= n -> Forall (chP n) l -> Forall (chP n) (normalise l).
Proof.
  intros n l Hn F. unfold normalise.
  pose proof (fold_nstep_chP n l (mkn [] [] 0 false (NONE, NONE) None) F (Forall_nil _)) as H.
  apply cleanup_chP. destruct (0 <? n_wait _); [|exact H].
  rewrite Forall_app; split; [exact H|]. constructor; [|constructor]; unfold chP, mk_wait; cbn [m_chan];
    destruct F as [|m l Hm F]; cbn [first_chan]; solve [lia | apply Hm].
Qed.

Lemma mapi_set_channel_chP : forall (l : list (list msg)) i, 0 <= i ->
  Forall (Forall (chP (i + lenZ l))) (mapi_aux (fun i r => set_channel r i) i l).
Proof.
  induction l as [|r l IH]; intros i Hi; cbn [mapi_aux]; [constructor|].
  constructor.
  - unfold set_channel. apply Forall_forall. intros m Hm. apply in_map_iff in Hm as (m0 & <- & _).
    unfold chP, set_chan, lenZ; cbn [m_chan length]. lia.
  - specialize (IH (i + 1) ltac:(lia)).
    replace (i + lenZ (r :: l)) with (i + 1 + lenZ l) by (unfold lenZ; cbn [length]; lia). exact IH.
Qed.

(* pairings: the first message of every pairing is a message of the input *)
Definition pP (n : Z) (p : pairing) : Prop := chP n (p_first p).

Lemma Forall_set_nth : forall {A} (Q : A -> Prop) f i (l : list A),
  (forall x, Q x -> Q (f x)) -> Forall Q l -> Forall Q (set_nth i f l).
Proof.
  intros A Q f i l Hf F; revert i; induction F as [|x l Hx F IH]; intros [|i]; cbn [set_nth]; constructor; auto.
Qed.

Lemma dget_Forall : forall {V} (Q : V -> Prop) k (d : list (Z * V)) v,
  Forall (fun kv => Q (snd kv)) d -> dget Z.eqb k d = Some v -> Q v.
Proof.
  intros V Q k d v F; induction F as [|[k' v'] d H F IH]; cbn [dget]; [discriminate|].
  destruct (k =? k'); [intros E; inversion E; subst; exact H|exact IH].
Qed.

Lemma dset_Forall : forall {V} (Q : V -> Prop) k v (d : list (Z * V)),
  Forall (fun kv => Q (snd kv)) d -> Q v -> Forall (fun kv => Q (snd kv)) (dset Z.eqb k v d).
Proof.
  intros V Q k v d F Hv; induction F as [|[k' v'] d H F IH]; cbn [dset]; [repeat constructor; exact Hv|].
  destruct (k =? k'); constructor; auto.
Qed.

Definition chstP (n : Z) (cs : chst) : Prop := Forall (pP n) (c_pairs cs).

Lemma pair_step_chP : forall n types imp st im,
  Forall (fun kv => chstP n (snd kv)) st -> chP n (snd im) ->
  Forall (fun kv => chstP n (snd kv)) (pair_step types imp st im).
Proof.
  intros n types imp st [i m] F Hm. cbn [snd] in Hm. unfold pair_step.
  destruct (negb (tmem (m_type m) types)); [exact F|].
  assert (Hcs : chstP n (match dget Z.eqb (m_chan m) st with Some c => c | None => mkch [] [] end)).
  { destruct (dget Z.eqb (m_chan m) st) as [cs|] eqn:E; [eapply (dget_Forall (chstP n)); eassumption|constructor]. }
  set (cs := match dget Z.eqb (m_chan m) st with Some c => c | None => mkch [] [] end) in *.
  assert (Hclose : forall x q, pP n q -> pP n (close_with x q)) by (intros x q Hq; exact Hq).
  assert (Hnew : pP n ((i, m), None)) by exact Hm.
  apply dset_Forall; [exact F|]. unfold chstP in *.
  destruct (m_type m); try (cbn [c_pairs]; rewrite Forall_app; split; [exact Hcs|constructor; [exact Hnew|constructor]]).
  - destruct (dget Z.eqb (m_note m) (c_open cs)); [|exact Hcs]. cbn [c_pairs]. apply Forall_set_nth; [apply Hclose|exact Hcs].
  - cbn [c_pairs]. rewrite Forall_app; split; [|constructor; [exact Hnew|constructor]].
    destruct (dget Z.eqb (m_note m) (c_open cs)); [|exact Hcs]. destruct imp; [|exact Hcs].
    cbn [c_pairs]. apply Forall_set_nth; [apply Hclose|exact Hcs].
Qed.

Lemma index_from_chP : forall n l i, Forall (chP n) l -> Forall (fun im => chP n (snd im)) (index_from i l).
Proof. intros n l i F; revert i; induction F; intros i; cbn [index_from]; constructor; auto. Qed.

Lemma fold_pair_step_chP : forall n types imp l st,
  Forall (fun im => chP n (snd im)) l -> Forall (fun kv => chstP n (snd kv)) st ->
  Forall (fun kv => chstP n (snd kv)) (fold_left (pair_step types imp) l st).
Proof.
  intros n types imp l; induction l as [|im l IH]; intros st F Fs; cbn [fold_left]; [exact Fs|].
  inversion F; subst. apply IH; [assumption|apply pair_step_chP; assumption].
Qed.

Lemma pairings_sorted_chP : forall n types std imp sorted, Forall (chP n) sorted ->
  Forall (fun kv => Forall (pP n) (snd kv)) (pairings_sorted types std imp sorted).
Proof.
  intros n types std imp sorted F. unfold pairings_sorted.
  pose proof (fold_pair_step_chP n types imp (index_from 0 sorted) [] (index_from_chP n sorted 0%nat F) (Forall_nil _)) as H.
  induction H as [|kv st Hkv H IH]; cbn [map]; constructor; [|exact IH]. cbn [snd].
  unfold chstP in Hkv. induction Hkv as [|p ps Hp Hps IH2]; cbn [map]; constructor; [|exact IH2].
  unfold pP, impute_close in *. destruct (snd p); [exact Hp|]. destruct (imp && is_on (p_first p)); exact Hp.
Qed.

Lemma interleave_fuel_chP : forall n fuel l, Forall (fun kv => Forall (pP n) (snd kv)) l ->
  Forall (fun e => pP n (snd e)) (interleave_fuel fuel l).
Proof.
  intros n fuel; induction fuel as [|f IH]; intros l F; cbn [interleave_fuel]; [constructor|].
  destruct (min_head l 0 None) as [[i t]|]; [|constructor].
  destruct (nth_error l i) as [[ch [|p ps]]|] eqn:E; try constructor.
  - apply nth_error_In in E. rewrite Forall_forall in F. specialize (F _ E). cbn [snd] in F. inversion F; assumption.
  - apply IH. assert (Hps : Forall (pP n) ps).
    { apply nth_error_In in E. rewrite Forall_forall in F. specialize (F _ E). cbn [snd] in F. inversion F; assumption. }
    clear E. revert i; induction F as [|x l Hx F IH2]; intros [|i]; cbn [set_nth]; constructor; auto.
Qed.

Lemma tok_frontend_chP : forall tracks evs, tok_frontend tracks = Ok evs ->
  Forall (fun e => 0 <= m_chan (p_first (snd e)) < lenZ tracks) evs.
Proof.
  intros tracks evs H. destruct tracks as [|tr0 trs].
  { vm_compute in H. inversion H; constructor. }
  set (tracks := tr0 :: trs) in *. set (n := lenZ tracks).
  assert (Hn : 1 <= n) by (unfold n, tracks, lenZ; cbn [length]; lia).
  unfold tok_frontend, interleaved in H.
  set (sorted := sort_abs _) in H.
  assert (Fs : Forall (chP n) sorted).
  { unfold sorted. apply Forall_sort_abs, to_abs_chP; [exact Hn|]. apply normalise_chP; [exact Hn|].
    unfold to_rel. apply to_rel_aux_chP. unfold merge_abs. apply Forall_sort_abs. cbn [app]. apply Forall_concat_.
    pose proof (mapi_set_channel_chP tracks 0 ltac:(lia)) as Hm. cbn [Z.add] in Hm. fold n in Hm. unfold mapi.
    induction Hm as [|x l Hx Hm IH]; cbn [map]; constructor; [apply to_abs_chP; assumption|exact IH]. }
  pose proof (pairings_sorted_chP n TOK_TYPES PPQN true sorted Fs) as Hp.
  assert (He : Forall (fun e => pP n (snd e)) (interleave (pairings_sorted TOK_TYPES PPQN true sorted)))
    by (apply interleave_fuel_chP; exact Hp).
  destruct (pairings_sorted TOK_TYPES PPQN true sorted) as [|kv ps];
    [|destruct (concat (map snd (kv :: ps))); [discriminate|]]; inversion H; subst; exact He.
Qed.

(* ------------------------------------------------------------------ whole pipeline *)
Lemma closed_gen : forall c st tracks toks st',
  DEFAULT_TS_NUM = DEFAULT_TS_DEN -> tokenise c st tracks = Ok (toks, st') -> Forall (inV c) toks.
Proof.
  intros c st tracks toks st' Hts H. unfold tokenise in H.
  destruct (lenZ tracks =? c_ntracks c) eqn:El; cbn [negb] in H; [apply Z.eqb_eq in El|discriminate].
  destruct (tok_frontend tracks) as [evs|] eqn:Ef; cbn [rbind] in H; [|discriminate].
  match type of H with (do s1 <- foldM ?f evs ?s0; _) = _ => destruct (foldM f evs s0) as [s1|] eqn:E1 end;
    cbn [rbind] in H; [|discriminate].
  assert (F1 : Forall (inV c) (l_toks s1)).
  { eapply foldM_tok_event_closed; [exact Hts| |exact E1|constructor].
    apply tok_frontend_chP in Ef. rewrite El in Ef. eapply Forall_impl; [|exact Ef].
    intros e He _. exact He. }
  destruct (if (((0 <? l_tbar s1) || l_has s1) && (0 <? l_rem s1))%bool
            then apply_rest (rest_fuel (l_rem s1)) c s1 (l_rem s1) else Ok s1) as [s2|] eqn:E2;
    cbn [rbind] in H; [|discriminate].
  inversion H; subst.
  destruct (((0 <? l_tbar s1) || l_has s1) && (0 <? l_rem s1))%bool; [|inversion E2; subst; exact F1].
  eapply apply_rest_closed; [exact E2|exact F1].
Qed.

Theorem C02_closed : forall c st tracks toks st',
  tokenise c st tracks = Ok (toks, st') -> valid_cfg c = true -> DEFAULT_TS_NUM = DEFAULT_TS_DEN ->
  Forall (fun t => In t (vocab c)) toks.
Proof. intros c st tracks toks st' H _ Hts. exact (closed_gen c st tracks toks st' Hts H). Qed.

(* ------------------------------------------------------------------ non-vacuity *)
Definition ex_cfg2 : cfg := make_cfg 2 60 62 None None 4 true true false true true.
Definition ex_tracks2 : list (list msg) :=
  [[mk_ts 0 3 4 0 false; mk_on 0 60 100 0 false; mk_wait 0 12 false; mk_off 0 60 0 false; mk_wait 0 12 false;
    mk_on 0 62 40 0 false; mk_wait 0 24 false; mk_off 0 62 0 false];
   [mk_wait 0 12 false; mk_on 0 61 90 0 false; mk_wait 0 24 false; mk_off 0 61 0 false]].
Example ex_closed_hyps : exists toks st',
  tokenise ex_cfg2 (tstate0 ex_cfg2) ex_tracks2 = Ok (toks, st') /\ In (TTsg 6 8) toks /\ (4 < length toks)%nat /\
  valid_cfg ex_cfg2 = true /\ DEFAULT_TS_NUM = DEFAULT_TS_DEN.
Proof. vm_compute. eexists; eexists. repeat split; try reflexivity; [auto|lia]. Qed.
Example ex_accepted_hyps :
  Forall (fun t => In t (vocab ex_cfg2)) [TSta; TVal 12; TNote (Some 1) 61 None (Some 80); TRest 24; TBar; TTsg 6 8; TSto].
Proof. repeat (apply Forall_cons; [apply vocab_iff; vm_compute; auto 10|]). apply Forall_nil. Qed.
Example ex_encode : encode ex_cfg2 [TSta; TVal 12; TNote (Some 1) 61 None (Some 80); TRest 24; TBar; TTsg 6 8; TSto]
  = Ok [1; 16; 38; 11; 3; 49; 2].
Proof. vm_compute. reflexivity. Qed.

(* ------------------------------------------------------------------ corollaries for tokenise output *)
Theorem C02_encode_tokenise : forall c st tracks toks st',
  tokenise c st tracks = Ok (toks, st') -> valid_cfg c = true -> DEFAULT_TS_NUM = DEFAULT_TS_DEN ->
  exists ids, encode c toks = Ok ids /\ decode c ids = Ok toks /\ Forall (fun i => 0 <= i < dictionary_size c) ids.
Proof.
  intros c st tracks toks st' H Hv Hts. apply C02_encode_decode_list; [exact Hv|].
  exact (C02_closed c st tracks toks st' H Hv Hts).
Qed.

Theorem C02_detokenise_tokenise : forall c st tracks toks st',
  tokenise c st tracks = Ok (toks, st') -> valid_cfg c = true -> DEFAULT_TS_NUM = DEFAULT_TS_DEN ->
  exists r, detokenise c toks = Ok r /\ lenZ r = c_ntracks c.
Proof.
  intros c st tracks toks st' H Hv Hts. apply C02_accepted; [|exact Hv].
  exact (C02_closed c st tracks toks st' H Hv Hts).
Qed.
