(* C04_main.v -- histories, readability, agreement of the two views, and the boolean form of the invariant.
   The theorems named C04_* are the ones exported by Props/C04.v. *)
From Coq Require Import ZArith List Bool Lia Permutation.
From Model Require Import Base Seq Pairing Util Bars Store.
From Proofs Require Import C04_sort C04_proofs C04_ops C04_ops2 C04_inv.
Import ListNotations.
Open Scope Z_scope.

(* ================================================================ histories *)
Lemma run_inv (ops : list op) (st : store) :
  SInv st -> forallb op_wf ops = true -> SInv (fst (run st ops)).
Proof.
  revert st. induction ops as [|o ops IH]; intros st HS Hwf; [exact HS|].
  cbn [forallb] in Hwf. apply andb_prop in Hwf. destruct Hwf as [Ho Hops].
  cbn [run]. pose proof (step_inv st o HS Ho) as H1.
  destruct (step st o) as [st1 x]. cbn [fst] in H1. specialize (IH st1 H1 Hops).
  destruct (run st1 ops) as [st2 xs]. exact IH.
Qed.

Lemma reachable_inv (ops : list op) : forallb op_wf ops = true -> SInv (fst (run [] ops)).
Proof. apply run_inv. constructor. Qed.

(* ================================================================ readability and agreement *)
Lemma readable (s : seq) : Inv s ->
  (exists s1 a, get_abs s = Ok (s1, a)) /\ (exists s2 r, get_rel s = Ok (s2, r)).
Proof.
  intro H. destruct (get_abs_spec s H) as [s1 [E1 _]]. destruct (get_rel_spec s H) as [s2 [E2 _]].
  split; eauto.
Qed.

(* whatever the freshness state, the two lists obtained by reading the two properties agree *)
Lemma views_agree (s s1 s2 : seq) (a r : list msg) :
  Inv s -> get_abs s = Ok (s1, a) -> get_rel s = Ok (s2, r) ->
  Permutation (ev_abs a) (ev_rel r) /\ dur_abs a = dur_rel r.
Proof.
  destruct s as [a0 r0 sa sr]. intros [H1 [H2 [H3 H4]]] Ea Er.
  cbn [s_abs s_rel s_abs_stale s_rel_stale] in *.
  unfold get_abs in Ea. unfold get_rel in Er. cbn [s_abs s_rel s_abs_stale s_rel_stale] in *.
  destruct sa, sr; try discriminate.
  - injection Ea as _ <-. injection Er as _ <-. specialize (H3 eq_refl).
    split; [apply to_abs_events|now apply to_abs_dur].
  - injection Ea as _ <-. injection Er as _ <-. destruct (H2 eq_refl) as [Hs Hw].
    split; [now rewrite to_rel_events|now rewrite to_rel_dur].
  - injection Ea as _ <-. injection Er as _ <-. now apply H4.
Qed.

(* reading in sequence (the second read sees the object left by the first one), in either order *)
Lemma views_agree_seq (s s1 s2 : seq) (a r : list msg) :
  Inv s ->
  (get_abs s = Ok (s1, a) -> get_rel s1 = Ok (s2, r) -> Permutation (ev_abs a) (ev_rel r) /\ dur_abs a = dur_rel r) /\
  (get_rel s = Ok (s1, r) -> get_abs s1 = Ok (s2, a) -> Permutation (ev_abs a) (ev_rel r) /\ dur_abs a = dur_rel r).
Proof.
  intro H. split; intros E1 E2.
  - destruct (get_abs_inv _ _ _ H E1) as [K1 [K2 [K3 _]]].
    assert (Ea : get_abs s1 = Ok (s1, a)). { unfold get_abs. rewrite K3. now rewrite K2. }
    eapply views_agree; eassumption.
  - destruct (get_rel_inv _ _ _ H E1) as [K1 [K2 [K3 _]]].
    assert (Er : get_rel s1 = Ok (s1, r)). { unfold get_rel. rewrite K3. now rewrite K2. }
    eapply views_agree; eassumption.
Qed.

(* the effect of a mutator is visible through both views: right after an operation that wrote f(a) into the absolute
   view, the absolute property returns f(a) and the relative property returns a list with exactly the events of f(a),
   in the same order, and its duration; symmetrically for the relative view (up to the order of simultaneous events) *)
Lemma effect_visible_abs (s s' : seq) (f : list msg -> list msg) :
  Inv s -> Inv s' -> upd_abs s f = Ok s' ->
  exists s1 a, get_abs s = Ok (s1, a) /\ get_abs s' = Ok (s', f a) /\
  exists s2, get_rel s' = Ok (s2, to_rel (f a)) /\
             ev_rel (to_rel (f a)) = ev_abs (f a) /\ dur_rel (to_rel (f a)) = dur_abs (f a).
Proof.
  intros H H' E. unfold upd_abs in E. inv_bind E as [s1 a] Eg. injection E as <-.
  exists s1, a. split; [reflexivity|]. split; [reflexivity|].
  destruct H' as [_ [K2 _]]. destruct (K2 eq_refl) as [Hs Hw]. cbn [s_abs] in *.
  eexists. split; [reflexivity|]. cbn [s_abs]. split; [now apply to_rel_events|now apply to_rel_dur].
Qed.

Lemma effect_visible_rel (s s' : seq) (f : list msg -> list msg) :
  Inv s -> Inv s' -> upd_rel s f = Ok s' ->
  exists s1 r, get_rel s = Ok (s1, r) /\ get_rel s' = Ok (s', f r) /\
  exists s2, get_abs s' = Ok (s2, to_abs (f r)) /\
             Permutation (ev_abs (to_abs (f r))) (ev_rel (f r)) /\ dur_abs (to_abs (f r)) = dur_rel (f r).
Proof.
  intros H H' E. unfold upd_rel in E. inv_bind E as [s1 r] Eg. injection E as <-.
  exists s1, r. split; [reflexivity|]. split; [reflexivity|].
  destruct H' as [_ [_ [K3 _]]]. specialize (K3 eq_refl). cbn [s_rel] in *.
  eexists. split; [reflexivity|]. cbn [s_rel]. split; [apply to_abs_events|now apply to_abs_dur].
Qed.

(* ================================================================ boolean form of the invariant *)
Lemma mtype_eqb_eq (a b : mtype) : mtype_eqb a b = true -> a = b.
Proof. destruct a, b; cbn; intro H; try reflexivity; discriminate. Qed.
Lemma key_eqb_eq (a b : Key) : key_eqb a b = true -> a = b.
Proof. destruct a, b; cbn; intro H; try reflexivity; discriminate. Qed.
Lemma okey_eqb_eq (a b : option Key) : okey_eqb a b = true -> a = b.
Proof. destruct a, b; cbn; intro H; try reflexivity; try discriminate. f_equal. now apply key_eqb_eq. Qed.

Lemma msg_eqb_eq (a b : msg) : msg_eqb a b = true -> a = b.
Proof.
  destruct a, b. unfold msg_eqb. cbn [Base.m_type Base.m_chan Base.m_time Base.m_tf Base.m_note Base.m_vel
    Base.m_ctrl Base.m_prog Base.m_num Base.m_den Base.m_key].
  rewrite !andb_true_iff, !Z.eqb_eq. intros [[[[[[[[[[H1 H2] H3] H4] H5] H6] H7] H8] H9] H10] H11].
  apply mtype_eqb_eq in H1. apply okey_eqb_eq in H11. apply eqb_prop in H4. congruence.
Qed.

Lemma msg_eqb_refl (a : msg) : msg_eqb a a = true.
Proof.
  unfold msg_eqb. rewrite !Z.eqb_refl, eqb_reflx. unfold mtype_eqb. rewrite Z.eqb_refl. cbn [andb].
  destruct (m_key a) as [k|]; [|reflexivity]. cbn. unfold key_eqb. apply Z.eqb_refl.
Qed.

Definition ev_eqb (x y : event) : bool := Z.eqb (fst x) (fst y) && msg_eqb (snd x) (snd y).

Lemma ev_eqb_eq (x y : event) : ev_eqb x y = true <-> x = y.
Proof.
  destruct x as [t m], y as [t' m']. unfold ev_eqb. cbn [fst snd]. rewrite andb_true_iff, Z.eqb_eq. split.
  - intros [-> H]. apply msg_eqb_eq in H. now subst.
  - intro H. injection H as -> ->. split; [reflexivity|apply msg_eqb_refl].
Qed.

(* remove the first occurrence *)
Fixpoint ev_remove (x : event) (l : list event) : option (list event) :=
  match l with
  | [] => None
  | y :: l' => if ev_eqb x y then Some l'
               else match ev_remove x l' with Some r => Some (y :: r) | None => None end
  end.
Fixpoint perm_b (l1 l2 : list event) : bool :=
  match l1 with
  | [] => match l2 with [] => true | _ => false end
  | x :: l1' => match ev_remove x l2 with Some l2' => perm_b l1' l2' | None => false end
  end.

Lemma ev_remove_perm (x : event) (l r : list event) : ev_remove x l = Some r -> Permutation l (x :: r).
Proof.
  revert r. induction l as [|y l IH]; intros r E; [discriminate|]. cbn [ev_remove] in E.
  destruct (ev_eqb x y) eqn:Exy.
  - apply ev_eqb_eq in Exy. subst. injection E as <-. reflexivity.
  - destruct (ev_remove x l) as [r'|]; [|discriminate]. injection E as <-.
    etransitivity; [apply perm_skip, IH; reflexivity|]. apply perm_swap.
Qed.

Lemma ev_remove_In (x : event) (l : list event) : In x l -> exists r, ev_remove x l = Some r.
Proof.
  induction l as [|y l IH]; intro H; [destruct H|]. cbn [ev_remove].
  destruct (ev_eqb x y) eqn:Exy; [eauto|].
  destruct H as [H|H]; [subst; rewrite (proj2 (ev_eqb_eq x x) eq_refl) in Exy; discriminate|].
  destruct (IH H) as [r ->]. eauto.
Qed.

Lemma perm_b_spec (l1 l2 : list event) : perm_b l1 l2 = true <-> Permutation l1 l2.
Proof.
  revert l2. induction l1 as [|x l1 IH]; intro l2; cbn [perm_b].
  - destruct l2; split; intro H; try reflexivity; try discriminate.
    apply Permutation_nil in H. discriminate.
  - split.
    + destruct (ev_remove x l2) as [r|] eqn:E; [|discriminate]. intro H. apply IH in H.
      apply ev_remove_perm in E. symmetry. etransitivity; [exact E|]. apply perm_skip. now symmetry.
    + intro H. assert (Hin : In x l2) by (eapply Permutation_in; [exact H|now left]).
      destruct (ev_remove_In x l2 Hin) as [r E]. rewrite E. apply IH.
      apply ev_remove_perm in E. eapply Permutation_cons_inv. etransitivity; [exact H|exact E].
Qed.

Definition inv_b (s : seq) : bool :=
  negb (s_abs_stale s && s_rel_stale s) &&
  (s_abs_stale s || (tsorted (s_abs s) && wfa (s_abs s))) &&
  (s_rel_stale s || wfr (s_rel s)) &&
  (s_abs_stale s || s_rel_stale s ||
   (perm_b (ev_abs (s_abs s)) (ev_rel (s_rel s)) && (dur_abs (s_abs s) =? dur_rel (s_rel s)))).

Lemma inv_b_spec (s : seq) : inv_b s = true <-> Inv s.
Proof.
  destruct s as [a r sa sr]. unfold inv_b, Inv, abs_ok. cbn [s_abs s_rel s_abs_stale s_rel_stale].
  rewrite !andb_true_iff, !orb_true_iff, !andb_true_iff, negb_true_iff, perm_b_spec, Z.eqb_eq.
  split.
  - intros [[[H1 H2] H3] H4]. split; [exact H1|]. split; [|split].
    + intros ->. destruct H2 as [H2|H2]; [discriminate|exact H2].
    + intros ->. destruct H3 as [H3|H3]; [discriminate|exact H3].
    + intros -> ->. destruct H4 as [[H4|H4]|H4]; try discriminate. exact H4.
  - intros [H1 [H2 [H3 H4]]]. repeat split; try exact H1.
    + destruct sa; [now left|right; now apply H2].
    + destruct sr; [now left|right; now apply H3].
    + destruct sa; [now left; left|]. destruct sr; [now left; right|]. right. now apply H4.
Qed.

Lemma sinv_b_spec (st : store) : forallb inv_b st = true <-> SInv st.
Proof.
  unfold SInv. rewrite forallb_forall, Forall_forall. split; intros H s Hs; apply inv_b_spec, H, Hs.
Qed.

(* ================================================================ exported theorems *)
Theorem C04_step_inv : forall (st : store) (o : op),
  forallb inv_b st = true -> op_wf o = true -> forallb inv_b (fst (step st o)) = true.
Proof. intros st o H Ho. apply sinv_b_spec. apply step_inv; [now apply sinv_b_spec|exact Ho]. Qed.

Theorem C04_run_inv : forall (st : store) (ops : list op),
  forallb inv_b st = true -> forallb op_wf ops = true -> forallb inv_b (fst (run st ops)) = true.
Proof. intros st ops H Ho. apply sinv_b_spec. apply run_inv; [now apply sinv_b_spec|exact Ho]. Qed.

Theorem C04_reachable : forall ops : list op,
  forallb op_wf ops = true -> forallb inv_b (fst (run [] ops)) = true.
Proof. intros ops Ho. now apply C04_run_inv. Qed.

Theorem C04_inv_meaning : forall s : seq, inv_b s = true <-> Inv s.
Proof. exact inv_b_spec. Qed.

Theorem C04_readable : forall s : seq, inv_b s = true ->
  (exists s1 a, get_abs s = Ok (s1, a)) /\ (exists s2 r, get_rel s = Ok (s2, r)).
Proof. intros s H. apply readable. now apply inv_b_spec. Qed.

Theorem C04_views_agree : forall (s s1 s2 : seq) (a r : list msg),
  inv_b s = true -> get_abs s = Ok (s1, a) -> get_rel s = Ok (s2, r) ->
  Permutation (ev_abs a) (ev_rel r) /\ dur_abs a = dur_rel r.
Proof. intros s s1 s2 a r H. apply views_agree. now apply inv_b_spec. Qed.

Theorem C04_views_agree_seq : forall (s s1 s2 : seq) (a r : list msg),
  inv_b s = true ->
  (get_abs s = Ok (s1, a) -> get_rel s1 = Ok (s2, r) -> Permutation (ev_abs a) (ev_rel r) /\ dur_abs a = dur_rel r) /\
  (get_rel s = Ok (s1, r) -> get_abs s1 = Ok (s2, a) -> Permutation (ev_abs a) (ev_rel r) /\ dur_abs a = dur_rel r).
Proof. intros s s1 s2 a r H. apply views_agree_seq. now apply inv_b_spec. Qed.

(* the headline: after any well-formed history, every object of the store is readable through both properties and the
   two lists read agree on the timed events and on the duration *)
Theorem C04_history : forall (ops : list op) (i : nat) (s : seq),
  forallb op_wf ops = true -> nth_error (fst (run [] ops)) i = Some s ->
  exists s1 a s2 r, get_abs s = Ok (s1, a) /\ get_rel s = Ok (s2, r) /\
                    Permutation (ev_abs a) (ev_rel r) /\ dur_abs a = dur_rel r /\
                    tsorted a = true /\ wfa a = true /\ wfr r = true.
Proof.
  intros ops i s Ho Hn. pose proof (reachable_inv ops Ho) as HS.
  unfold SInv in HS. rewrite Forall_forall in HS. specialize (HS s (nth_error_In _ _ Hn)).
  destruct (get_abs_spec s HS) as [s1 [E1 [_ [_ [[Hs Hw] _]]]]].
  destruct (get_rel_spec s HS) as [s2 [E2 [_ [_ [Hr _]]]]].
  exists s1, (s_abs s1), s2, (s_rel s2). split; [exact E1|]. split; [exact E2|].
  destruct (views_agree _ _ _ _ _ HS E1 E2) as [K1 K2]. repeat split; assumption.
Qed.

Theorem C04_effect_visible_abs : forall (s s' : seq) (f : list msg -> list msg),
  inv_b s = true -> inv_b s' = true -> upd_abs s f = Ok s' ->
  exists s1 a, get_abs s = Ok (s1, a) /\ get_abs s' = Ok (s', f a) /\
  exists s2, get_rel s' = Ok (s2, to_rel (f a)) /\
             ev_rel (to_rel (f a)) = ev_abs (f a) /\ dur_rel (to_rel (f a)) = dur_abs (f a).
Proof. intros s s' f H H'. apply effect_visible_abs; now apply inv_b_spec. Qed.

Theorem C04_effect_visible_rel : forall (s s' : seq) (f : list msg -> list msg),
  inv_b s = true -> inv_b s' = true -> upd_rel s f = Ok s' ->
  exists s1 r, get_rel s = Ok (s1, r) /\ get_rel s' = Ok (s', f r) /\
  exists s2, get_abs s' = Ok (s2, to_abs (f r)) /\
             Permutation (ev_abs (to_abs (f r))) (ev_rel (f r)) /\ dur_abs (to_abs (f r)) = dur_rel (f r).
Proof. intros s s' f H H'. apply effect_visible_rel; now apply inv_b_spec. Qed.

(* sorting helpers *)
Theorem C04_sort_abs : forall l : list msg,
  Permutation l (sort_abs l) /\ tsorted (sort_abs l) = true /\ sort_abs (sort_abs l) = sort_abs l /\
  forall k, filter (skey_eqb k) (sort_abs l) = filter (skey_eqb k) l.
Proof.
  intro l. split; [apply sort_abs_perm|]. split; [apply sort_abs_tsorted|]. split; [apply sort_abs_idem|].
  intro k. apply sort_abs_stable.
Qed.

Theorem C04_insort : forall (x : msg) (l : list msg),
  Permutation (x :: l) (insort x l) /\ (tsorted l = true -> tsorted (insort x l) = true).
Proof. intros x l. split; [apply insort_perm|apply insort_tsorted]. Qed.

(* ================================================================ non-vacuity and necessity of the hypotheses *)
Definition ex_ops : list op :=
  [ONewRel ex_rel; OReadAbs 0; OAddAbs 0 (mk_on 2 40 80 30 false); ONewAbs ex_abs; OCopy 1; OConcat 0 [1%nat; 2%nat];
   OCutoff 0 20 10; OQuantNorm 0 [12; 8] [24; 12; 6]; OTranspose 0 70; OSplit 0 [24; 24]; OMerge 1 [0%nat; 2%nat];
   OEditAbs 1 [(1%nat, FTime, 3)]; OEditRel 0 [(1%nat, FTime, 7)]; OScale 0 2; OBarInit 3 4 4; OSplitBars [1%nat] 2 true;
   ORefresh 0; OEquals 0 1 false false false false; ODuration 2; ORefresh 2; OReadRel 1].

Example ex_ops_wf : forallb op_wf ex_ops = true.
Proof. vm_compute. reflexivity. Qed.

(* the three freshness states all occur in the store reached by ex_ops, and no step of it fails *)
Example ex_ops_states :
  let st := fst (run [] ex_ops) in
  map (fun s => (s_abs_stale s, s_rel_stale s)) (firstn 4 st) =
    [(false, false); (false, false); (false, false); (true, false)] /\
  existsb (fun s => negb (s_abs_stale s) && s_rel_stale s) (fst (run [] (firstn 12 ex_ops))) = true /\
  forallb (fun x => match x with OErr _ => false | _ => true end) (snd (run [] ex_ops)) = true /\
  length st = 8%nat.
Proof. vm_compute. repeat split; reflexivity. Qed.

(* without the well-formedness of the literal arguments the views do diverge *)
Example wf_needed_neg_wait :
  let st := fst (run [] [ONewRel [mk_wait 0 5 false; mk_on 0 60 100 0 false; mk_wait 0 (-3) false]; OReadAbs 0]) in
  map (fun s => (s_abs_stale s, s_rel_stale s, dur_abs (s_abs s), dur_rel (s_rel s))) st = [(false, false, 5, 2)].
Proof. vm_compute. reflexivity. Qed.

Example wf_needed_neg_edit :
  let st := fst (run [] [ONewAbs [mk_on 0 60 100 4 false]; OEditAbs 0 [(0%nat, FTime, -5)]; OReadRel 0]) in
  map (fun s => (s_abs_stale s, s_rel_stale s, map fst (ev_abs (s_abs s)), map fst (ev_rel (s_rel s)))) st =
  [(false, false, [-5], [0])].
Proof. vm_compute. reflexivity. Qed.

Example wf_needed_cutoff :
  let st := fst (run [] [ONewAbs [mk_on 0 60 100 0 false; mk_off 0 60 100 false]; OCutoff 0 10 (-5); OReadRel 0]) in
  map (fun s => (map fst (ev_abs (s_abs s)), map fst (ev_rel (s_rel s)))) st = [([-5; 0], [0; 0])].
Proof. vm_compute. reflexivity. Qed.

Example wf_needed_scale :
  let st := fst (run [] [ONewRel [mk_on 0 60 100 0 false; mk_wait 0 5 false; mk_off 0 60 0 false]; OScale 0 (-1);
                         OReadAbs 0; OAddAbs 0 (mk_internal 0 0); OReadRel 0]) in
  map (fun s => (map fst (ev_abs (s_abs s)), map fst (ev_rel (s_rel s)))) st = [([-5; 0], [0; 0])].
Proof. vm_compute. reflexivity. Qed.

(* the store reached by ex_ops satisfies the boolean invariant (a direct computation, independent of the proof), so
   the hypotheses of C04_step_inv / C04_readable / C04_views_agree are satisfiable by non-trivial stores *)
Example ex_store_inv : forallb inv_b (fst (run [] ex_ops)) = true.
Proof. vm_compute. reflexivity. Qed.

Example ex_views :
  let s := seq_of_rel ex_rel in
  inv_b s = true /\
  exists s1 a s2 r, get_abs s = Ok (s1, a) /\ get_rel s1 = Ok (s2, r) /\ ev_abs a <> [] /\ ev_abs a <> ev_rel r.
Proof.
  split; [vm_compute; reflexivity|]. do 4 eexists. split; [reflexivity|]. split; [reflexivity|].
  split; vm_compute; discriminate.
Qed.

Example ex_effect :
  let s := seq_of_rel ex_rel in let f := insort (mk_on 2 40 80 30 false) in
  exists s', upd_abs s f = Ok s' /\ inv_b s = true /\ inv_b s' = true.
Proof. eexists. split; [reflexivity|]. split; vm_compute; reflexivity. Qed.
