#!/usr/bin/env python3
"""Print a markdown inventory of the property theorems (name, status, the comment that precedes each in coq/Props)."""
import re, os, glob
COQ = os.path.join(os.path.dirname(os.path.dirname(os.path.abspath(__file__))), "coq")
for path in sorted(glob.glob(os.path.join(COQ, "Props", "C??.v"))):
    src = open(path).read()
    pid = os.path.basename(path)[:-2]
    print(f"\n**{pid}** (`coq/Props/{pid}.v`)\n")
    for m in re.finditer(r"\(\*((?:(?!\*\)).)*)\*\)\s*Theorem\s+(\w+)", src, re.S):
        c = " ".join(m.group(1).split())
        name = m.group(2)
        st = "refuted (witness)" if name.endswith("_refuted") else "partial" if "_partial" in name else "full"
        print(f"* `{name}` — {st} — {c[:260]}{'…' if len(c) > 260 else ''}")
