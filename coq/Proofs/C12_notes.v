(* C12_notes.v -- the clause "loading what was saved returns identical notes (pitch, onset, duration, velocity)" of
   C12, through the loader's normalise / sort / normalise (builds on Sound_glue.v, C13_union.v and C12_proofs.v).
   Notes are compared as NOTE EVENTS: `nev (ev_rel r)` is the list of (tick, NOTE_ON / NOTE_OFF message without its
   time field) of a relative list r (ev_rel is C04's event view); a note is the pair of a NOTE_ON event and the next
   NOTE_OFF event of its key, so equal event multisets of per-key alternating lists mean equal notes.
   Hypotheses on a saved relative list r: rt_ok and nonneg_waits (C12_proofs), and
     rswf r : per PITCH (the channel is not written to the file: every note is loaded on channel 0) the note messages
              alternate on / off in list order and every NOTE_OFF comes at a STRICTLY later tick than its NOTE_ON. *)
From Coq Require Import ZArith List Bool Lia Permutation Sorted.
From Model Require Import Base Seq Pairing Util Bars Store Midi Show.
From Proofs Require Import C04_sort C04_proofs C07_proofs C17_proofs C15_proofs Sound_glue C15_sound C13_proofs C13_union
                           C12_proofs.
Import ListNotations.
Open Scope Z_scope.
Open Scope list_scope.

(* ---------------------------------------------------------------- the hypothesis on saved lists *)
Fixpoint rsalt (n : Z) (o : option Z) (cur : Z) (r : list msg) : bool :=
  match r with
  | [] => negb (osome o)
  | m :: r' =>
      if is_wait m then rsalt n o (cur + m_time m) r'
      else if is_on m && (m_note m =? n) then match o with None => rsalt n (Some cur) cur r' | Some _ => false end
      else if is_off m && (m_note m =? n) then match o with Some t0 => (t0 <? cur) && rsalt n None cur r' | None => false end
      else rsalt n o cur r'
  end.
Definition rswf (r : list msg) : bool := forallb (fun m => negb (is_note m) || rsalt (m_note m) None 0 r) r.

(* the loader's view of one saved message *)
Definition ldmsg (mt : msg * Z) : msg :=
  if is_on (fst mt) then mk_on 0 (m_note (fst mt)) (m_vel (fst mt)) (snd mt) false else mk_off 0 (m_note (fst mt)) (snd mt) false.
Definition LN (cur : Z) (r : list msg) : list msg := map ldmsg (filter (fun mt => is_note (fst mt)) (stamped r cur)).
Lemma loaded_notes_LN r : loaded_notes r = LN 0 r.
Proof. reflexivity. Qed.

Lemma LN_wait m r cur : is_wait m = true -> LN cur (m :: r) = LN (cur + m_time m) r.
Proof. intros E. unfold LN. cbn [stamped]. now rewrite E. Qed.
Lemma LN_note m r cur : is_note m = true -> LN cur (m :: r) = ldmsg (m, cur) :: LN cur r.
Proof. intros E. unfold LN. cbn [stamped]. rewrite (note_not_wait m E). cbn [filter fst]. now rewrite E. Qed.
Lemma LN_other m r cur : is_wait m = false -> is_note m = false -> LN cur (m :: r) = LN cur r.
Proof. intros E N. unfold LN. cbn [stamped]. rewrite E. cbn [filter fst]. now rewrite N. Qed.

Lemma ldmsg_flags m c : is_note m = true ->
  is_on (ldmsg (m, c)) = is_on m /\ is_off (ldmsg (m, c)) = is_off m /\
  m_time (ldmsg (m, c)) = c /\ m_chan (ldmsg (m, c)) = 0 /\ m_note (ldmsg (m, c)) = m_note m.
Proof.
  intros N. unfold ldmsg. cbn [fst snd]. unfold is_note in N. destruct (is_on m) eqn:On.
  - rewrite (on_off_excl m On). repeat split.
  - cbn in N. rewrite N. repeat split.
Qed.

Lemma LN_props r : forall cur, C07_proofs.nonneg_waits r = true -> 0 <= cur ->
  Forall (fun m => cur <= m_time m) (LN cur r) /\ tsorted (LN cur r) = true /\ wfa (LN cur r) = true.
Proof.
  induction r as [|m r IH]; intros cur NN C; [repeat split; constructor|].
  apply nonneg_cons in NN as (Wm & NN & _).
  destruct (is_wait m) eqn:Ew.
  - rewrite (LN_wait m r cur Ew). specialize (Wm eq_refl). destruct (IH (cur + m_time m) NN) as (F & T & W); [lia|].
    split; [|split; assumption]. eapply Forall_impl; [|exact F]. cbn beta. intros; lia.
  - destruct (is_note m) eqn:N.
    + rewrite (LN_note m r cur N). destruct (IH cur NN C) as (F & T & W).
      destruct (ldmsg_flags m cur N) as (_ & _ & Ht & _).
      split; [constructor; [lia|exact F]|]. split.
      * apply tsorted_cons_intro; [exact T|]. intros y Hy. rewrite Ht.
        destruct (LN cur r) as [|z l]; [discriminate|]. cbn in Hy. injection Hy as <-. now inversion F.
      * cbn [wfa forallb]. fold (wfa (LN cur r)). rewrite W, andb_true_r. unfold wfa_msg. rewrite Ht.
        apply andb_true_intro. split; [now apply Z.leb_le|]. unfold ldmsg. cbn [fst]. destruct (is_on m); reflexivity.
    + rewrite (LN_other m r cur Ew N). now apply IH.
Qed.

Lemma rsalt_salt n r : forall o cur, rsalt n o cur r = salt (0, n) o (LN cur r).
Proof.
  induction r as [|m r IH]; intros o cur; [destruct o; reflexivity|]. cbn [rsalt].
  destruct (is_wait m) eqn:Ew; [rewrite (LN_wait m r cur Ew); apply IH|].
  destruct (is_note m) eqn:N.
  - rewrite (LN_note m r cur N). cbn [salt]. destruct (ldmsg_flags m cur N) as (F1 & F2 & F3 & F4 & F5).
    unfold is_key. rewrite F1, F2, F3, F4, F5. unfold k2_eqb. cbn [fst snd]. rewrite Z.eqb_refl. cbn [andb].
    rewrite (Z.eqb_sym n (m_note m)), (andb_comm (m_note m =? n) (is_on m)), (andb_comm (m_note m =? n) (is_off m)).
    destruct (is_on m && (m_note m =? n)); [destruct o; [reflexivity|apply IH]|].
    destruct (is_off m && (m_note m =? n)); [destruct o; [now rewrite IH|reflexivity]|apply IH].
  - rewrite (LN_other m r cur Ew N). apply note_flags in N as [-> ->]. cbn [andb]. apply IH.
Qed.

Lemma stamped_in r : forall cur m t, In (m, t) (stamped r cur) -> In m r.
Proof.
  induction r as [|x r IH]; intros cur m t H; [contradiction|]. cbn [stamped] in H.
  destruct (is_wait x); [right; eapply IH; eauto|]. destruct H as [H|H]; [left; congruence|right; eapply IH; eauto].
Qed.

Lemma swf_loaded r : rswf r = true -> swf (loaded_notes r) = true.
Proof.
  intros W. apply swf_intro. intros k.
  destruct (existsb (fun m => is_note m && is_key k m) (loaded_notes r)) eqn:E; [|now rewrite salt_nokey].
  destruct (key_occurs k _ E) as (m' & Hin & N' & <-).
  unfold loaded_notes in Hin. apply in_map_iff in Hin as ([m t] & <- & Hmt). apply filter_In in Hmt as [Hmt N].
  cbn [fst] in N. apply stamped_in in Hmt.
  unfold rswf in W. rewrite forallb_forall in W. specialize (W m Hmt). rewrite N in W. cbn [negb orb] in W.
  rewrite rsalt_salt in W. fold (ldmsg (m, t)). destruct (ldmsg_flags m t N) as (_ & _ & _ & F4 & F5).
  unfold key_of. rewrite F4, F5. exact W.
Qed.

(* ---------------------------------------------------------------- the loader's normalise / sort / normalise *)
(* for a time-sorted, strictly alternating absolute list l without WAITs (one loaded track) the sequence built by the
   per-group merge has exactly the note events of l; a2 is the absolute list it was built from *)
Theorem loaded_seq_notes l : tsorted l = true -> wfa l = true -> swf l = true ->
  let a2 := sort_abs (to_abs (normalise (to_rel l)) ++ []) in
  loaded_seq l = mkseq a2 (normalise (to_rel a2)) true false /\
  tsorted a2 = true /\ wfa a2 = true /\ swf a2 = true /\
  (forall k x y, asum k x y a2 = asum k x y l) /\
  nev (ev_rel (normalise (to_rel a2))) = nev (ev_abs a2) /\
  Permutation (nev (ev_abs a2)) (nev (ev_abs l)).
Proof.
  intros TS W S a2. split; [reflexivity|].
  set (X := to_abs (normalise (to_rel l))) in *.
  assert (Pa : Permutation a2 X) by (unfold a2; rewrite app_nil_r; apply C15_proofs.sort_abs_perm).
  assert (Sa : sortedb a2 = true) by apply sort_abs_sorted.
  assert (Ta : tsorted a2 = true) by now apply sortedb_tsorted.
  assert (Wa : wfa a2 = true).
  { apply (wfa_perm X a2); [now apply Permutation_sym|]. apply to_abs_wfa, nonneg_normalise. }
  assert (Ca : forall k x y, asum k x y a2 = asum k x y l).
  { intros k x y. rewrite (asum_perm k x y a2 X Pa). now apply asum_round. }
  destruct (swf_sbal_nover l TS S) as [SB NO].
  assert (Swa : swf a2 = true).
  { apply sorted_swf; [exact Sa| |].
    - apply sbal_intro. intros k. destruct (sbal_spec l SB k) as [H1 H2]. split.
      + intros t. unfold sdepth. rewrite Ca. apply H1.
      + rewrite <- asum_c1, Ca, asum_c1. exact H2.
    - apply nover_intro. intros k t. unfold adepth. rewrite Ca. now apply nover_spec. }
  destruct (notes_round l TS W S) as [_ P1]. destruct (notes_round a2 Ta Wa Swa) as [E2 _].
  repeat split; try assumption.
  etransitivity; [apply nev_perm, ev_abs_perm; exact Pa|exact P1].
Qed.

(* the saved note events: every note message of r at the sum of the waits before it, on channel 0, as the loader
   writes it (pitch and velocity kept) *)
Definition saved_notes (r : list msg) : list event := map (fun m => (m_time m, strip_time m)) (loaded_notes r).

Lemma nev_ev_abs_loaded r : nev (ev_abs (loaded_notes r)) = saved_notes r.
Proof.
  unfold saved_notes, loaded_notes, nev, ev_abs.
  induction (filter (fun mt : msg * Z => is_note (fst mt)) (stamped r 0)) as [|[m t] l IH]; [reflexivity|].
  cbn [map filter]. fold (ldmsg (m, t)).
  assert (I : is_internal (ldmsg (m, t)) = false) by (unfold ldmsg; cbn [fst]; destruct (is_on m); reflexivity).
  assert (N : is_note (strip_time (ldmsg (m, t))) = true) by (unfold ldmsg; cbn [fst]; destruct (is_on m); reflexivity).
  rewrite I. cbn [negb map filter snd]. rewrite N. now rewrite IH.
Qed.

(* ---------------------------------------------------------------- C12_notes, sequences other than the meta target *)
Theorem C12_notes_own : forall rels : list (list msg),
  forallb rt_ok rels = true -> forallb C12_proofs.nonneg_waits rels = true ->
  forall seqs, save_load rels = Ok seqs ->
  forall i r, (0 < i)%nat -> nth_error rels i = Some r -> rswf r = true ->
  exists s, nth_error seqs i = Some s /\ get_rel s = Ok (s, s_rel s) /\
    Permutation (nev (ev_rel (s_rel s))) (saved_notes r) /\
    (forall k, alt k false (s_rel s) = true) /\ C07_proofs.nonneg_waits (s_rel s) = true.
Proof.
  intros rels Hok Hnn seqs Hsl i r Hi Hr Hw.
  destruct (C12_notes_partial rels Hok Hnn) as (st & _ & _ & _ & Hseq).
  specialize (Hseq seqs Hsl i r Hi Hr).
  assert (NNr : C07_proofs.nonneg_waits r = true).
  { rewrite forallb_forall in Hnn. apply Hnn. eapply nth_error_In; eauto. }
  destruct (LN_props r 0 NNr) as (_ & T & W); [lia|]. rewrite <- loaded_notes_LN in T, W.
  destruct (loaded_seq_notes (loaded_notes r) T W (swf_loaded r Hw)) as (E & Ta & Wa & Sa & _ & E2 & P).
  rewrite E in Hseq. eexists. split; [exact Hseq|]. split; [reflexivity|]. cbn [s_rel].
  split; [rewrite E2, <- nev_ev_abs_loaded; exact P|]. split; [intros k; apply C07_alternate|apply nonneg_normalise].
Qed.

(* ---------------------------------------------------------------- the meta target (sequence 0) *)
Lemma no_notes_nev (l : list msg) : (forall m, In m l -> is_note m = false) -> nev (ev_abs l) = [].
Proof.
  intros H. unfold nev, ev_abs. induction l as [|m l IH]; [reflexivity|]. cbn [filter].
  assert (IH' : filter (fun e : event => is_note (snd e))
                  (map (fun m => (m_time m, strip_time m)) (filter (fun m => negb (is_internal m)) l)) = [])
    by (apply IH; intros y Hy; apply H; now right).
  destruct (negb (is_internal m)); [|exact IH']. cbn [map filter snd].
  change (is_note (strip_time m)) with (is_note m). now rewrite (H m (or_introl eq_refl)).
Qed.
Lemma nev_app e e' : nev (e ++ e') = nev e ++ nev e'.
Proof. apply filter_app. Qed.

(* merging with a note-free list (the meta list) and normalising keeps the note events *)
Lemma merge_meta_notes (v meta : list msg) :
  wfa v = true -> sbal v = true -> nover v = true ->
  wfa meta = true -> (forall m, In m meta -> is_note m = false) ->
  let M := merge_abs v [meta] in
  nev (ev_rel (normalise (to_rel M))) = nev (ev_abs M) /\ Permutation (nev (ev_abs M)) (nev (ev_abs v)) /\
  wfa (to_abs (normalise (to_rel M))) = true /\ tsorted M = true /\ swf M = true /\
  swf (to_abs (normalise (to_rel M))) = true.
Proof.
  intros Wv Sv Nv Wm NM M.
  assert (P : Permutation M (v ++ meta)).
  { unfold M, merge_abs. cbn [concat]. rewrite app_nil_r. apply C15_proofs.sort_abs_perm. }
  assert (SM : sortedb M = true) by apply sort_abs_sorted.
  assert (TM : tsorted M = true) by now apply sortedb_tsorted.
  assert (WM : wfa M = true).
  { apply (wfa_perm (v ++ meta) M); [now apply Permutation_sym|]. now rewrite wfa_app, Wv, Wm. }
  assert (C : forall k x y, asum k x y M = asum k x y v).
  { intros k x y. rewrite (asum_perm k x y M _ P), asum_app, (asum_nokey k x y meta); [lia|].
    now apply no_notes_nokey. }
  assert (SBM : sbal M = true).
  { apply sbal_intro. intros k. destruct (sbal_spec v Sv k) as [H1 H2]. split.
    - intros t. unfold sdepth. rewrite C. apply H1.
    - rewrite <- asum_c1, C, asum_c1. exact H2. }
  assert (SW : swf M = true).
  { apply sorted_swf; [exact SM|exact SBM|].
    apply nover_intro. intros k t. unfold adepth. rewrite C. now apply nover_spec. }
  assert (AM : forall k, alt k false (to_rel M) = true) by (intros k; rewrite alt_to_rel; now apply swf_alt).
  destruct (notes_round M TM WM SW) as [E _].
  split; [exact E|]. split; [|split; [apply to_abs_wfa, nonneg_normalise|split; [exact TM|split; [exact SW|]]]].
  - etransitivity; [apply nev_perm, ev_abs_perm; exact P|]. rewrite ev_abs_app, nev_app, (no_notes_nev meta NM), app_nil_r.
    reflexivity.
  - apply to_abs_wf; [apply nonneg_normalise|intros k; apply C07_alternate|].
    intros k t. unfold rsdepth. rewrite normalise_rsum by (auto using nonneg_to_rel).
    rewrite rsum_to_rel by (auto using wfa_nnt). apply (sbal_spec M SBM k).
Qed.

Lemma stamped_ge r : forall cur m t, C07_proofs.nonneg_waits r = true -> In (m, t) (stamped r cur) -> cur <= t /\ is_wait m = false.
Proof.
  induction r as [|x r IH]; intros cur m t NN H; [contradiction|]. cbn [stamped] in H.
  apply nonneg_cons in NN as (Wx & NN & _). destruct (is_wait x) eqn:Ew.
  - specialize (Wx eq_refl). destruct (IH _ _ _ NN H). split; [lia|assumption].
  - destruct H as [H|H]; [injection H as <- <-; split; [lia|exact Ew]|now apply (IH cur)].
Qed.

Lemma wfa_loaded_meta r : C07_proofs.nonneg_waits r = true -> wfa (loaded_meta r) = true.
Proof.
  intros NN. unfold wfa. apply forallb_forall. intros x Hx. unfold loaded_meta in Hx.
  apply in_map_iff in Hx as ([m t] & <- & Hmt). apply filter_In in Hmt as [Hmt _].
  destruct (stamped_ge r 0 m t NN Hmt) as [Ht _]. cbn [fst snd]. unfold wfa_msg.
  destruct (m_type m); cbn; rewrite andb_true_r; now apply Z.leb_le.
Qed.

Lemma wfa_flat_map (f : list msg -> list msg) ls : (forall l, In l ls -> wfa (f l) = true) -> wfa (flat_map f ls) = true.
Proof.
  induction ls as [|l ls IH]; intros H; [reflexivity|]. cbn [flat_map]. rewrite wfa_app, (H l (or_introl eq_refl)).
  apply IH. intros y Hy. apply H. now right.
Qed.

Lemma Ok_inj {A} (x y : A) : @Ok A x = Ok y -> x = y.
Proof. intros H. now injection H. Qed.

Lemma mapM_inj_ok {A B} (f : A -> result B) l ys ys' : mapM f l = Ok ys -> mapM f l = Ok ys' -> ys = ys'.
Proof. intros H1 H2. rewrite H1 in H2. now injection H2. Qed.

(* every loaded sequence, the meta target 0 included (it is additionally merged with all signatures and control
   changes and may get a 4/4 inserted): the note events of its relative view are those of a time-sorted, strictly
   alternating absolute list y whose note events are a permutation of the saved ones *)
Theorem C12_notes_strong : forall rels : list (list msg),
  forallb rt_ok rels = true -> forallb C12_proofs.nonneg_waits rels = true ->
  forall seqs, save_load rels = Ok seqs ->
  forall i r, nth_error rels i = Some r -> rswf r = true ->
  exists s s' v y, nth_error seqs i = Some s /\ get_rel s = Ok (s', v) /\
    nev (ev_rel v) = nev (ev_abs y) /\ tsorted y = true /\ swf y = true /\
    Permutation (nev (ev_abs y)) (saved_notes r).
Proof.
  intros rels Hok Hnn seqs Hsl i r Hr Hw.
  assert (NNr : C07_proofs.nonneg_waits r = true).
  { rewrite forallb_forall in Hnn. apply Hnn. eapply nth_error_In; eauto. }
  destruct (LN_props r 0 NNr) as (_ & T & W); [lia|]. rewrite <- loaded_notes_LN in T, W.
  pose proof (swf_loaded r Hw) as SW.
  destruct (loaded_seq_notes (loaded_notes r) T W SW) as (E & Ta & Wa & Sa & Ca & E2 & P2).
  set (a2 := sort_abs (to_abs (normalise (to_rel (loaded_notes r))) ++ [])) in *.
  destruct i as [|i].
  2:{ destruct (C12_notes_partial rels Hok Hnn) as (st & _ & _ & _ & Hseq).
      specialize (Hseq seqs Hsl (S i) r (Nat.lt_0_succ i) Hr). rewrite E in Hseq.
      eexists. eexists. eexists. exists a2. split; [exact Hseq|]. split; [reflexivity|]. cbn [s_rel].
      split; [exact E2|]. split; [exact Ta|]. split; [exact Sa|]. rewrite <- nev_ev_abs_loaded. exact P2. }
  destruct (C12_notes_partial rels Hok Hnn) as (st & Hc & Hs & Hmeta & _).
  set (rf := normalise (to_rel a2)) in *.
  (* what convert did *)
  unfold save_load, convert_exec in Hsl.
  destruct (C13_group_union_partial _ _ _ _ _ _ _ Hsl)
    as (st' & merged & Hc' & Hm & _ & _ & mt & mt1 & os & mt2 & a & Hmt & Hsm & Hga & Hcase).
  change (map (fun i : Z => [i]) (rangeZ_aux (length rels) 0)) with (sl_groups (length rels)) in Hc'.
  rewrite Hc in Hc'. injection Hc' as <-.
  rewrite Hs in Hm.
  rewrite (mapM_map_ok merge_group (fun r => [loaded_notes r]) (fun r => loaded_seq (loaded_notes r))
             (fun r => merge_group_single (loaded_notes r))) in Hm. injection Hm as <-.
  change (Z.to_nat 0) with O in *. rewrite nth_error_map, Hr in Hmt. cbn [option_map] in Hmt. injection Hmt as <-.
  rewrite E in Hsm.
  (* the absolute view of the group's sequence *)
  set (V := to_abs rf) in *.
  assert (Altf : forall k, alt k false (to_rel a2) = true) by (intros k; rewrite alt_to_rel; now apply swf_alt).
  assert (CV : forall k x y, asum k x y V = asum k x y (loaded_notes r)).
  { intros k x y. unfold V, rf. rewrite asum_to_abs, normalise_rsum by (auto using nonneg_to_rel).
    rewrite rsum_to_rel by (auto using wfa_nnt). apply Ca. }
  destruct (swf_sbal_nover _ T SW) as [SBl NOl].
  assert (SV : sbal V = true).
  { apply sbal_intro. intros k. destruct (sbal_spec _ SBl k) as [H1 H2]. split.
    - intros t. unfold sdepth. rewrite CV. apply H1.
    - rewrite <- asum_c1, CV, asum_c1. exact H2. }
  assert (NV : nover V = true).
  { apply nover_intro. intros k t. unfold adepth. rewrite CV. now apply nover_spec. }
  assert (WV : wfa V = true) by (apply to_abs_wfa, nonneg_normalise).
  assert (PV : Permutation (nev (ev_abs V)) (saved_notes r)).
  { rewrite <- nev_ev_abs_loaded. etransitivity; [apply nev_perm, to_abs_events|]. fold rf in E2. rewrite E2. exact P2. }
  (* the meta list *)
  assert (NM : forall m, In m (cs_meta st) -> is_note m = false)
    by (apply (C13_routing_meta_no_notes _ _ _ _ _ st Hc)).
  assert (WM : wfa (cs_meta st) = true).
  { apply (wfa_perm _ _ (Permutation_sym Hmeta)). apply wfa_flat_map. intros l Hl. apply wfa_loaded_meta.
    rewrite forallb_forall in Hnn. now apply Hnn. }
  destruct (merge_meta_notes V (cs_meta st) WV SV NV WM NM) as (EM & PM & WA & TM & SM & SA).
  rewrite (seq_merge_spec (mkseq a2 rf true false) (mkseq V rf false false) [seq_of_abs (cs_meta st)]
             [seq_of_abs (cs_meta st)] V [cs_meta st] eq_refl eq_refl) in Hsm.
  injection Hsm as <- _. cbv [get_abs s_abs_stale s_rel_stale s_rel] in Hga. injection Hga as <- <-.
  set (M := merge_abs V [cs_meta st]) in *. set (rM := normalise (to_rel M)) in *.
  assert (PR : Permutation (nev (ev_abs M)) (saved_notes r)) by (etransitivity; [exact PM|exact PV]).
  destruct Hcase as [[_ Hn]|(_ & mt3 & Hadd & Hn)].
  - eexists. eexists. eexists. exists M. split; [exact Hn|]. split; [reflexivity|]. auto.
  - cbv [seq_add_abs upd_abs get_abs s_abs_stale s_rel_stale s_rel s_abs rbind] in Hadd. apply Ok_inj in Hadd. subst mt3.
    set (x := mk_ts (default_channel (map to_events rels) (map (fun i : Z => [i]) (rangeZ_aux (length rels) 0))
                       (rangeZ_aux (length rels) 0)) 4 4 0 false) in *.
    assert (Px : Permutation (insort x (to_abs rM)) (x :: to_abs rM)) by apply C13_proofs.insort_perm.
    assert (Tx : tsorted (insort x (to_abs rM)) = true) by apply insort_tsorted, to_abs_tsorted.
    assert (Wx : wfa (insort x (to_abs rM)) = true).
    { apply (wfa_perm _ _ (Permutation_sym Px)). cbn [wfa forallb]. fold (wfa (to_abs rM)). now rewrite WA. }
    eexists. eexists. eexists. exists (insort x (to_abs rM)). split; [exact Hn|]. split; [reflexivity|].
    cbn [s_abs]. split; [now rewrite to_rel_events|]. split; [exact Tx|]. split.
    + apply swf_intro. intros k. rewrite salt_insort by reflexivity. now apply swf_spec.
    + etransitivity; [apply nev_perm, ev_abs_perm; exact Px|].
      change (x :: to_abs rM) with ([x] ++ to_abs rM). rewrite ev_abs_app, nev_app.
      change (nev (ev_abs [x])) with (@nil event). cbn [app].
      etransitivity; [apply nev_perm, to_abs_events|]. fold rM. rewrite EM. exact PR.
Qed.

Theorem C12_notes : forall rels : list (list msg),
  forallb rt_ok rels = true -> forallb C12_proofs.nonneg_waits rels = true ->
  forall seqs, save_load rels = Ok seqs ->
  forall i r, nth_error rels i = Some r -> rswf r = true ->
  exists s s' v, nth_error seqs i = Some s /\ get_rel s = Ok (s', v) /\
    Permutation (nev (ev_rel v)) (saved_notes r).
Proof.
  intros rels Hok Hnn seqs Hsl i r Hr Hw.
  destruct (C12_notes_strong rels Hok Hnn seqs Hsl i r Hr Hw) as (s & s' & v & y & H1 & H2 & H3 & _ & _ & H6).
  exists s, s', v. rewrite H3. auto.
Qed.

(* ---------------------------------------------------------------- per key: the same events in the same order *)
(* the note events of one key (channel, pitch) *)
Definition kev (k : k2) (E : list event) : list event := filter (fun e => is_key k (snd e)) E.
Definition KE (k : k2) (a : list msg) : list event := kev k (nev (ev_abs a)).

(* strict order on events: earlier tick, or same tick and NOTE_OFF before NOTE_ON *)
Definition elt (e e' : event) : Prop :=
  fst e < fst e' \/ (fst e = fst e' /\ mtype_rank (m_type (snd e)) < mtype_rank (m_type (snd e'))).
Lemma elt_irrefl e : ~ elt e e.
Proof. unfold elt. lia. Qed.
Lemma elt_trans e1 e2 e3 : elt e1 e2 -> elt e2 e3 -> elt e1 e3.
Proof. unfold elt. lia. Qed.

Lemma ssorted_perm_eq : forall l1 l2 : list event,
  StronglySorted elt l1 -> StronglySorted elt l2 -> Permutation l1 l2 -> l1 = l2.
Proof.
  induction l1 as [|x l1 IH]; intros l2 S1 S2 P.
  - apply Permutation_nil in P. now subst.
  - destruct l2 as [|y l2]; [apply Permutation_sym, Permutation_nil in P; discriminate|].
    inversion S1 as [|? ? S1' F1]; subst. inversion S2 as [|? ? S2' F2]; subst.
    assert (E : x = y).
    { assert (Hy : In y (x :: l1)) by (eapply Permutation_in; [apply Permutation_sym; exact P|now left]).
      assert (Hx : In x (y :: l2)) by (eapply Permutation_in; [exact P|now left]).
      destruct Hy as [Hy|Hy]; [exact Hy|]. destruct Hx as [Hx|Hx]; [now symmetry|].
      rewrite Forall_forall in F1, F2. exfalso. apply (elt_irrefl x).
      eapply elt_trans; [apply F1; exact Hy|apply F2; exact Hx]. }
    subst y. f_equal. apply IH; auto. eapply Permutation_cons_inv; eauto.
Qed.

Lemma KE_cons k m a :
  KE k (m :: a) = if is_note m && is_key k m then (m_time m, strip_time m) :: KE k a else KE k a.
Proof.
  unfold KE, kev, nev, ev_abs. cbn [filter]. destruct (is_internal m) eqn:Ei; cbn [negb].
  - now rewrite (internal_not_note m Ei).
  - cbn [map filter snd]. change (is_note (strip_time m)) with (is_note m). destruct (is_note m); cbn [andb]; [|reflexivity].
    cbn [filter snd]. change (is_key k (strip_time m)) with (is_key k m). now destruct (is_key k m).
Qed.

Definition bnd (o : option Z) (c : Z) (e : event) : Prop :=
  match o with Some t0 => t0 < fst e | None => c < fst e \/ (fst e = c /\ is_on (snd e) = true) end.

Lemma KE_bound k : forall a o c, tsorted a = true -> Forall (fun m => c <= m_time m) a -> salt k o a = true ->
  Forall (bnd o c) (KE k a).
Proof.
  induction a as [|m a IH]; intros o c TS F S; [constructor|].
  pose proof (tsorted_head _ _ TS) as Fh. pose proof (tsorted_tail _ _ TS) as TS'.
  inversion F as [|? ? Fm Fa]; subst. rewrite KE_cons. cbn [salt] in S. unfold is_note.
  destruct (is_key k m) eqn:K; cbn [andb] in *.
  - destruct (is_on m) eqn:On; [|destruct (is_off m) eqn:Off]; cbn [orb andb].
    + destruct o; [discriminate|]. constructor.
      * cbn [bnd fst snd]. destruct (Z.eq_dec (m_time m) c) as [->|]; [right; split; [reflexivity|exact On]|left; lia].
      * pose proof (IH (Some (m_time m)) c TS' Fa S) as B. eapply Forall_impl; [|exact B]. cbn [bnd]. intros e He. lia.
    + destruct o as [t0|]; [|discriminate]. apply andb_true_iff in S as [T0 S]. apply Z.ltb_lt in T0. constructor.
      * cbn [bnd fst]. exact T0.
      * pose proof (IH None (m_time m) TS' Fh S) as B. eapply Forall_impl; [|exact B]. cbn [bnd]. intros e He. lia.
    + now apply IH.
  - rewrite andb_false_r. now apply IH.
Qed.

Lemma KE_sorted k : forall a o, tsorted a = true -> salt k o a = true -> StronglySorted elt (KE k a).
Proof.
  induction a as [|m a IH]; intros o TS S; [constructor|].
  pose proof (tsorted_head _ _ TS) as Fh. pose proof (tsorted_tail _ _ TS) as TS'.
  rewrite KE_cons. cbn [salt] in S. unfold is_note.
  destruct (is_key k m) eqn:K; cbn [andb] in *.
  - destruct (is_on m) eqn:On; [|destruct (is_off m) eqn:Off]; cbn [orb andb].
    + destruct o; [discriminate|]. constructor; [now apply (IH (Some (m_time m)))|].
      pose proof (KE_bound k a (Some (m_time m)) (m_time m) TS' Fh S) as B.
      eapply Forall_impl; [|exact B]. cbn [bnd]. intros e He. left. exact He.
    + destruct o as [t0|]; [|discriminate]. apply andb_true_iff in S as [_ S].
      constructor; [now apply (IH None)|].
      pose proof (KE_bound k a None (m_time m) TS' Fh S) as B.
      eapply Forall_impl; [|exact B]. cbn [bnd]. intros e [He|[He1 He2]]; [left; exact He|right].
      cbn [fst snd]. split; [now symmetry|]. change (m_type (strip_time m)) with (m_type m).
      rewrite (off_rank m Off), (on_rank _ He2). lia.
    + now apply (IH o).
  - rewrite andb_false_r. now apply (IH o).
Qed.

(* for every key the loaded sequence has the same note events as the saved one, in the same order: same onsets, same
   velocities (the NOTE_ON messages are equal), same ends, hence the same durations *)
Theorem C12_notes_order : forall rels : list (list msg),
  forallb rt_ok rels = true -> forallb C12_proofs.nonneg_waits rels = true ->
  forall seqs, save_load rels = Ok seqs ->
  forall i r, nth_error rels i = Some r -> rswf r = true ->
  exists s s' v, nth_error seqs i = Some s /\ get_rel s = Ok (s', v) /\
    forall k, kev k (nev (ev_rel v)) = kev k (saved_notes r).
Proof.
  intros rels Hok Hnn seqs Hsl i r Hr Hw.
  destruct (C12_notes_strong rels Hok Hnn seqs Hsl i r Hr Hw) as (s & s' & v & y & H1 & H2 & H3 & H4 & H5 & H6).
  exists s, s', v. split; [exact H1|]. split; [exact H2|]. intros k. rewrite H3, <- nev_ev_abs_loaded.
  assert (NNr : C07_proofs.nonneg_waits r = true).
  { rewrite forallb_forall in Hnn. apply Hnn. eapply nth_error_In; eauto. }
  destruct (LN_props r 0 NNr) as (_ & T & _); [lia|]. rewrite <- loaded_notes_LN in T.
  apply ssorted_perm_eq.
  - apply (KE_sorted k y None H4). now apply swf_spec.
  - apply (KE_sorted k (loaded_notes r) None T). apply swf_spec. now apply swf_loaded.
  - unfold kev. apply Permutation_filter. rewrite nev_ev_abs_loaded. exact H6.
Qed.

(* ---------------------------------------------------------------- non-vacuity, and what is excluded *)
Definition nx_r0 : list msg :=
  [wt 0 5; ts 0 3 4 0; on 0 60 64 0; on 1 62 70 0; wt 0 12; of 0 60 0; on 0 60 90 0; wt 0 7; of 1 62 0; ks 0 K_F_S 0;
   wt 0 2; of 0 60 0].
Definition nx_r1 : list msg := [on 0 50 10 0; wt 0 24; of 0 50 0; wt 0 3].

Example C12_notes_nonvacuous :
  forallb rt_ok [nx_r0; nx_r1] = true /\ forallb C12_proofs.nonneg_waits [nx_r0; nx_r1] = true /\
  rswf nx_r0 = true /\ rswf nx_r1 = true /\
  saved_notes nx_r0 = [(5, on 0 60 64 0); (5, on 0 62 70 0); (17, of 0 60 0); (17, on 0 60 90 0); (24, of 0 62 0); (26, of 0 60 0)] /\
  exists seqs s s' v, save_load [nx_r0; nx_r1] = Ok seqs /\ nth_error seqs 0 = Some s /\ get_rel s = Ok (s', v) /\
    nev (ev_rel v) = [(5, on 0 60 64 0); (5, on 0 62 70 0); (17, of 0 60 0); (17, on 0 60 90 0); (24, of 0 62 0); (26, of 0 60 0)].
Proof.
  split; [vm_compute; reflexivity|]. split; [vm_compute; reflexivity|]. split; [vm_compute; reflexivity|].
  split; [vm_compute; reflexivity|]. split; [vm_compute; reflexivity|].
  eexists. eexists. eexists. eexists. split; [vm_compute; reflexivity|]. split; [reflexivity|].
  split; [reflexivity|]. vm_compute. reflexivity.
Qed.

(* excluded by rswf: (1) a zero-length note is lost (and, as in C15_sound_zero_length_refuted, can take a real note
   of the same pitch with it); (2) two channels playing one pitch at the same time come back fused on channel 0 *)
Example C12_notes_zero_length_lost :
  let r := [on 0 60 64 0; of 0 60 0; on 0 60 70 0; wt 0 10; of 0 60 0] in
  rt_ok r = true /\ C12_proofs.nonneg_waits r = true /\ rswf r = false /\
  exists seqs s s' v, save_load [[wt 0 1]; r] = Ok seqs /\ nth_error seqs 1 = Some s /\ get_rel s = Ok (s', v) /\
    nev (ev_rel v) = [].
Proof.
  split; [vm_compute; reflexivity|]. split; [vm_compute; reflexivity|]. split; [vm_compute; reflexivity|].
  eexists. eexists. eexists. eexists. split; [vm_compute; reflexivity|]. split; [reflexivity|].
  split; [reflexivity|]. vm_compute. reflexivity.
Qed.
Example C12_notes_channels_fused :
  let r := [on 0 60 64 0; wt 0 5; on 1 60 70 0; wt 0 5; of 0 60 0; wt 0 5; of 1 60 0] in
  rt_ok r = true /\ C12_proofs.nonneg_waits r = true /\ rswf r = false /\
  exists seqs s s' v, save_load [[wt 0 1]; r] = Ok seqs /\ nth_error seqs 1 = Some s /\ get_rel s = Ok (s', v) /\
    nev (ev_rel v) = [(0, on 0 60 64 0); (15, of 0 60 0)].
Proof.
  split; [vm_compute; reflexivity|]. split; [vm_compute; reflexivity|]. split; [vm_compute; reflexivity|].
  eexists. eexists. eexists. eexists. split; [vm_compute; reflexivity|]. split; [reflexivity|].
  split; [reflexivity|]. vm_compute. reflexivity.
Qed.
