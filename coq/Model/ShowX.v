(* ShowX.v -- rendering of stores, outputs, bars, tokens for the correspondence check. *)
From Model Require Import Base Seq Pairing Bars Store ScaleDown Show.
Open Scope string_scope.

Definition show_seq (s : seq) : string :=
  "A" ++ (if s_abs_stale s then "~" else show_msgs (s_abs s)) ++ "/R" ++ (if s_rel_stale s then "~" else show_msgs (s_rel s)).
Definition show_store (st : store) : string := sjoin "#" (map show_seq st).
Definition show_sig (x : Z * Z * option Key) : string :=
  let '(n, d, k) := x in show_Z n ++ "/" ++ show_Z d ++ "/" ++ show_key k.
Definition show_out (o : out) : string :=
  match o with
  | ONone => "-" | OBool b => show_bool b | OZ z => show_Z z | OMsgs l => "[" ++ show_msgs l ++ "]"
  | OErr e => "!" ++ show_err e
  | OBars l => sjoin "|" (map (fun t => sjoin "," (map show_sig t)) l)
  end.

(* the state after every step of a history, and each step's output *)
Fixpoint run_trace (st : store) (ops : list op) : list string :=
  match ops with
  | [] => []
  | o :: ops' => let '(st1, x) := step st o in (show_out x ++ "@" ++ show_store st1) :: run_trace st1 ops'
  end.
Definition show_trace (ops : list op) : string := sjoin "$" (run_trace [] ops).

Definition show_bar (b : bar) : string :=
  show_sig (b_num b, b_den b, b_key b) ++ "=" ++ show_msgs (b_rel b).
Definition show_bars (r : result (list (list bar))) : string :=
  show_res (fun l => sjoin "|" (map (fun t => sjoin "&" (map show_bar t)) l)) r.

Definition show_pairing (p : pairing) : string :=
  show_msg (p_first p) ++ match p_second p with Some o => ">" ++ show_msg o | None => "" end.
Definition show_pairings (l : list (Z * list pairing)) : string :=
  sjoin "|" (map (fun kv => show_Z (fst kv) ++ "=" ++ sjoin ";" (map show_pairing (snd kv))) l).
Definition show_interleaved (l : list (Z * pairing)) : string :=
  sjoin ";" (map (fun kv => show_Z (fst kv) ++ "=" ++ show_pairing (snd kv)) l).

(* ---- tokeniser *)
From Model Require Import Tok.
Open Scope string_scope.
Definition show_toks (l : list tok) : string := sjoin " " (map render_tok l).
Definition show_tstate (s : tstate) : string :=
  show_Zs [t_time s; t_tbar s; t_num s; t_den s; t_rem s; t_ptrk s; t_pval s; t_pvel s].
Definition show_tokres (r : result (list tok * tstate)) : string :=
  show_res (fun x => show_toks (fst x) ++ "#" ++ show_tstate (snd x)) r.
Definition show_ann (a : option (Z * option Z)) : string :=
  match a with None => "n" | Some (p, c) => show_Z p ++ "/" ++ show_opt show_Z c end.
Definition show_info (i : info) : string :=
  show_Zs (f_pos i) ++ "#" ++ show_Zs (f_time i) ++ "#" ++ show_Zs (f_tbar i) ++ "#" ++ sjoin "," (map show_ann (f_pitch i)).
(* id -> token for every id below dictionary_size; "?" where the id was overwritten by a later duplicate *)
Definition show_vocab (c : cfg) : string :=
  show_Z (dictionary_size c) ++ "#" ++
  sjoin " " (map (fun i => match decode1 c i with Ok t => render_tok t | Err _ => "?" end) (rangeZ 0 (dictionary_size c))).
(* tokenise, encode, decode, detokenise *)
Definition roundtrip (c : cfg) (tracks : list (list msg)) : string :=
  match tokenise c (tstate0 c) tracks with
  | Err e => "!" ++ show_err e
  | Ok (ts, st) =>
      show_toks ts ++ "#" ++ show_tstate st ++ "#" ++
      match encode c ts with
      | Err e => "!" ++ show_err e
      | Ok ids => show_Zs ids ++ "#" ++
          match decode c ids with
          | Err e => "!" ++ show_err e
          | Ok ts' => show_res show_msgss (detokenise c ts')
          end
      end
  end.
(* the same from a state dictionary whose running values were left behind by earlier calls (possibly of another
   tokeniser): clock at 0, default signature *)
Definition roundtrip_from (c : cfg) (ptrk pval pvel : Z) (tracks : list (list msg)) : string :=
  let st0 := mkts 0 0 DEFAULT_TS_NUM DEFAULT_TS_DEN (bar_cap c DEFAULT_TS_NUM DEFAULT_TS_DEN) ptrk pval pvel in
  match tokenise c st0 tracks with
  | Err e => "!" ++ show_err e
  | Ok (ts, st) =>
      show_toks ts ++ "#" ++ show_tstate st ++ "#" ++
      match encode c ts with
      | Err e => "!" ++ show_err e
      | Ok ids => show_Zs ids ++ "#" ++
          match decode c ids with
          | Err e => "!" ++ show_err e
          | Ok ts' => show_res show_msgss (detokenise c ts')
          end
      end
  end.
(* threaded calls: one token list per call and the state after each *)
Fixpoint tokenise_calls (c : cfg) (st : tstate) (calls : list (list (list msg))) : string :=
  match calls with
  | [] => ""
  | tr :: rest =>
      match tokenise c st tr with
      | Err e => "!" ++ show_err e
      | Ok (ts, st') => show_toks ts ++ "#" ++ show_tstate st' ++ "$" ++ tokenise_calls c st' rest
      end
  end.
Definition detok_strings (c : cfg) (ss : list string) : string :=
  match parse_all ss with
  | Err e => "!" ++ show_err e
  | Ok ts => show_res show_msgss (detokenise c ts) ++ "#" ++ show_info (get_info c false ts) ++ "#" ++ show_info (get_info c true ts)
  end.

(* ---- MIDI *)
From Model Require Import Midi.
Open Scope string_scope.
Definition show_mkind (k : mkind) : string :=
  match k with MOn => "on" | MOff => "off" | MTs => "ts" | MKs => "ks" | MCc => "cc" | MPc => "pc" | MOther => "x" end.
Definition show_mev (e : mev) : string :=
  sjoin ":" [show_mkind (e_kind e); show_Z (e_chan e); show_Z (e_a e); show_Z (e_b e); e_key e; show_Z (e_dt e)].
Definition show_mevs (l : list mev) : string := sjoin ";" (map show_mev l).
Definition show_seqs (r : result (list seq)) : string := show_res (fun l => sjoin "#" (map show_seq l)) r.
Definition ev (k : mkind) (c a b : Z) (key : string) (dt : Z) : mev := mkev k c a b key dt.

(* a call without a state dictionary: tokens only *)
Definition tokenise_ns (c : cfg) (tracks : list (list msg)) : string :=
  show_res (fun x => show_toks (fst x)) (tokenise c (tstate0 c) tracks).

(* ---- Bar / Track / Composition *)
From Model Require Import Comp.
Open Scope string_scope.
Definition show_cbar (b : cbar) : string := show_sig (cb_num b, cb_den b, cb_key b) ++ "=" ++ show_seq (cb_seq b).
Definition show_ctrack (t : ctrack) : string := show_opt show_Z (ct_program t) ++ ">" ++ sjoin "&" (map show_cbar (ct_bars t)).
Definition show_comp (c : comp) : string := sjoin "|" (map show_ctrack c).
(* from_sequences; copy; transpose one bar of the COPY; then: original, copy, the copy's sequences *)
Definition comp_scenario (rels : list (list msg)) (meta ti bi : nat) (k : Z) : string :=
  match comp_from_sequences rels meta with
  | Err e => "!" ++ show_err e
  | Ok c =>
      match comp_copy c with
      | Err e => show_comp c ++ "#!" ++ show_err e
      | Ok cp =>
          match comp_on_bar cp ti bi (fun b => do '(b', _) <- cbar_transpose b k; Ok b') with
          | Err e => show_comp c ++ "#" ++ show_comp cp ++ "#!" ++ show_err e
          | Ok cp' => show_comp c ++ "#" ++ show_comp cp' ++ "#" ++ show_res (fun l => sjoin "|" (map show_seq l)) (comp_to_sequences cp')
          end
      end
  end.

(* Composition.from_midi_file(path, track_indices, meta_track_indices, meta_track_index): load, quantise_and_normalise()
   every sequence (defaults), from_sequences.  (Placed after the MIDI section below: see comp_from_file.) *)

(* ---- tokeniser options that are arguments rather than part of cfg *)
(* the constructor with an explicit ppqn (default step sizes and note values still come from the global PPQN) *)
Definition make_cfg_ppqn (ppqn ntracks plo phi : Z) (steps values : option (list Z)) (nbins : Z)
           (running ftrk fval fvel simplify : bool) : cfg :=
  let c := make_cfg ntracks plo phi steps values nbins running ftrk fval fvel simplify in
  mkcfg ppqn (c_ntracks c) (c_plo c) (c_phi c) (c_steps c) (c_values c) (c_vbins c) (c_tslo c) (c_tshi c)
        (c_running c) (c_ftrk c) (c_fval c) (c_fvel c) (c_simplify c).
(* insert_bar_token=False: the only effect is that bar tokens are not appended; the state is the same *)
Definition drop_bars (nb : bool) (ts : list tok) : list tok :=
  if nb then filter (fun t => negb (tok_eqb t TBar)) ts else ts.
Fixpoint tokenise_calls_nb (nb : bool) (c : cfg) (st : tstate) (calls : list (list (list msg))) : string :=
  match calls with
  | [] => ""
  | tr :: rest =>
      match tokenise c st tr with
      | Err e => "!" ++ show_err e
      | Ok (ts, st') => show_toks (drop_bars nb ts) ++ "#" ++ show_tstate st' ++ "$" ++ tokenise_calls_nb nb c st' rest
      end
  end.
Definition tokenise_ns_nb (nb : bool) (c : cfg) (tracks : list (list msg)) : string :=
  show_res (fun x => show_toks (drop_bars nb (fst x))) (tokenise c (tstate0 c) tracks).

Definition make_cfg_full (tslo tshi ppqn ntracks plo phi : Z) (steps values : option (list Z)) (nbins : Z)
           (running ftrk fval fvel simplify : bool) : cfg :=
  let c := make_cfg_ppqn ppqn ntracks plo phi steps values nbins running ftrk fval fvel simplify in
  mkcfg (c_ppqn c) (c_ntracks c) (c_plo c) (c_phi c) (c_steps c) (c_values c) (c_vbins c) tslo tshi
        (c_running c) (c_ftrk c) (c_fval c) (c_fvel c) (c_simplify c).

Fixpoint run_trace_h (st : store) (hs : list hop) : list string :=
  match hs with
  | [] => []
  | h :: hs' => let '(st1, x) := hstep st h in (show_out x ++ "@" ++ show_store st1) :: run_trace_h st1 hs'
  end.
Definition show_trace_h (hs : list hop) : string := sjoin "$" (run_trace_h [] hs).

(* ---- Composition.from_file: load, quantise_and_normalise() with the defaults on every sequence, from_sequences *)
Definition comp_from_file (tpb : Z) (tracks : list (list mev)) (groups : list (list Z)) (metas : list Z) (mi : Z)
  : result comp :=
  do seqs <- convert_exec tpb tracks groups metas mi;
  do seqs' <- mapM (fun s => seq_quantise_and_normalise s (get_default_step_sizes 0 0) get_default_note_values PPQN false) seqs;
  do rels <- mapM (fun s => do '(_, r) <- get_rel s; Ok r) seqs';
  comp_from_sequences rels (Z.to_nat mi).
Definition show_comp_file (tpb : Z) (tracks : list (list mev)) (groups : list (list Z)) (metas : list Z) (mi : Z) : string :=
  match comp_from_file tpb tracks groups metas mi with
  | Err e => "!" ++ show_err e
  | Ok c => show_comp c ++ "#" ++ show_res (fun l => sjoin "|" (map show_seq l)) (comp_to_sequences c)
            (* Composition.save(path) = sequences_save(to_sequences()); then loaded again with the defaults *)
            ++ "#" ++ show_seqs (do seqs <- comp_to_sequences c;
                                 do rels <- mapM (fun s => do '(_, r) <- get_rel s; Ok r) seqs;
                                 save_load rels)
  end.

(* outputs of every step, then object t and every object from index `from` on (the rest of the store is not shown:
   plain concatenate shares Message objects with its operands, known finding D9') *)
Fixpoint run_outs_h (st : store) (hs : list hop) : store * list string :=
  match hs with
  | [] => (st, [])
  | h :: hs' => let '(st1, x) := hstep st h in let '(st2, xs) := run_outs_h st1 hs' in (st2, show_out x :: xs)
  end.
Definition show_final_h (hs : list hop) (from t : nat) : string :=
  let '(st, xs) := run_outs_h [] hs in
  sjoin "$" xs ++ "@" ++ match nth_error st t with Some s => show_seq s | None => "?" end ++ "#" ++ show_store (skipn from st).

(* ---- getters *)
From Model Require Import Getters.
Open Scope string_scope.
Definition show_getters (a : list msg) : string :=
  let r := to_rel a in
  sjoin "/" [show_bool (rel_is_empty r); show_bool (abs_channel_consistent a); show_res show_Z (abs_sequence_channel a);
             show_Z (dur_rel r); show_opt key_value (key_signature_guess r);
             show_msgs (abs_times_of_type [TIME_SIGNATURE; KEY_SIGNATURE] a)].
