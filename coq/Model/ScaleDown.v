(* ScaleDown.v -- RelativeSequence.scale(factor, meta_sequence) for factor = 1/k < 1 (k = 2, 4, ...): the branch that
   splits the sequence into bars, squeezes k consecutive bars of equal time signature into one and rewrites the time
   signature of a bar that cannot be grouped.  Waits are multiplied by a float factor in Python: the result is a float
   (tag true); a wait that is not a multiple of k would become a non-integral float, which is outside the model. *)
From Model Require Import Base Seq Pairing Bars Store.

(* The division is carried out AFTER normalise_relative has consolidated neighbouring waits (1.5 + 2.5 = 4.0 is exact in
   binary floating point, and consolidation does not depend on the magnitude of positive waits), so that only a
   consolidated wait that is not a multiple of k is outside the model.  Until then a wait keeps its length and only
   receives the float tag. *)
Definition sd_wait (k : Z) (m : msg) : result msg :=
  if is_wait m then Ok (set_time m (m_time m) true) else Ok m.
Definition sd_div (k : Z) (m : msg) : result msg :=
  if is_wait m then (if m_time m mod k =? 0 then Ok (set_time m (m_time m / k) (m_tf m)) else Err OutOfModel) else Ok m.
(* if msg.numerator % (1 / factor) == 0: numerator *= factor  else: denominator *= 1 / factor *)
Definition sd_ts (k : Z) (m : msg) : result msg :=
  if is_wait m then sd_wait k m
  else if is_ts m then Ok (if m_num m mod k =? 0 then set_sig m (m_num m / k) (m_den m) else set_sig m (m_num m) (m_den m * k))
  else Ok m.

Fixpoint sd_loop (fuel : nat) (k : Z) (bars : list bar) : result (list msg) :=
  match fuel with
  | O => Err OutOfFuel
  | S f =>
      match bars with
      | [] => Ok []
      | cur :: _ =>
          let chunk := firstn (Z.to_nat k) bars in
          if forallb (fun b => Z.eqb (b_num b) (b_num cur) && Z.eqb (b_den b) (b_den cur)) chunk then
            do ms <- mapM (sd_wait k) (concat (map b_rel chunk));
            do rest <- sd_loop f k (skipn (List.length chunk) bars);
            Ok (ms ++ rest)
          else
            do ms <- mapM (sd_ts k) (b_rel cur);
            do rest <- sd_loop f k (tl bars);
            Ok (ms ++ rest)
      end
  end.

(* r: the sequence's relative list; mrel / mabs: relative list and stored absolute list of the meta sequence *)
Definition scale_down (r mrel mabs : list msg) (k : Z) : result (list msg) :=
  do bars <- split_bars [r; mrel] mabs false;
  match bars with
  | own :: _ => do ms <- sd_loop (S (List.length own)) k own; mapM (sd_div k) (normalise ms)
  | [] => Err OutOfModel
  end.

(* Sequence.scale(1/k, meta_sequence=<object j | None>, quantise_afterwards=False) on object i of the store.  The
   harness reads both views of the meta sequence first (as for OSplitBars), so that the views touched by a call that
   raises half-way do not depend on where it raised. *)
Definition store_scale_down (st : store) (i : nat) (k : Z) (meta : option nat) : store * out :=
  lift st (
    do st0 <- match meta with
              | Some j => do '(sa, _) <- read_abss st [j]; do '(sb, _) <- read_rels sa [j]; Ok sb
              | None => Ok st end;
    do s <- getn st0 i; do '(s1, r) <- get_rel s;
    let st1 := setn st0 i s1 in
    do '(mrel, mabs) <- match meta with
                        | None => Ok (r, to_abs r)
                        | Some j => do m <- getn st1 j; do '(_, mr) <- get_rel m; do '(_, ma) <- get_abs m; Ok (mr, ma)
                        end;
    match scale_down r mrel mabs k with
    | Err e => Ok (st1, OErr e)
    | Ok r' => Ok (setn st1 i (mkseq (s_abs s1) r' true false), ONone)
    end).

(* ---------------------------------------------------------------- compound operations
   harness-level compound operations: one public call that is a fixed sequence of modelled operations
   (e.g. Sequence.scale(k) with its default quantise_afterwards=True); stops at the first error like Python *)
Inductive hop : Set := HOp (o : op) | HSeq (os : list op)
| HScaleDown (i : nat) (k : Z) (meta : option nat) (then_ : list op)    (* scale(1/k, meta) and, if it succeeds, then_ *)
| HFail (o : op) (e : err)         (* a call that has the state effect of o and then raises e (argument validation) *)
| HRaise (e : err).                (* a call that raises before it changes anything *)
Fixpoint hseq (st : store) (os : list op) (last : out) : store * out :=
  match os with
  | [] => (st, last)
  | o :: os' => let '(st1, x) := step st o in
                match x with OErr _ => (st1, x) | _ => hseq st1 os' x end
  end.
Definition hstep (st : store) (h : hop) : store * out :=
  match h with
  | HOp o => step st o
  | HSeq os => hseq st os ONone
  | HScaleDown i k meta then_ =>
      let '(st1, x) := store_scale_down st i k meta in
      match x with OErr _ => (st1, x) | _ => hseq st1 then_ x end
  | HFail o e => let '(st1, x) := step st o in (st1, match x with OErr _ => x | _ => OErr e end)
  | HRaise e => (st, OErr e)
  end.

Fixpoint run_h (st : store) (hs : list hop) : store * list out :=
  match hs with
  | [] => (st, [])
  | h :: hs' => let '(st1, x) := hstep st h in let '(st2, xs) := run_h st1 hs' in (st2, x :: xs)
  end.
