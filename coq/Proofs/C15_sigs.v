(* C15_sigs.v -- the SIGNATURE clause of C15: "every signature event that does not repeat the one in force is kept at
   its tick", for the sequence Sequence.merge leaves behind: merge_abs, to_rel, normalise (and to_abs when the absolute
   view is read again).  Builds on Sig_glue.v.
     ts_events a / ks_events a : the (tick, signature) events of an absolute list, in list order
     rts_events r / rks_events r: the same for a relative list (tick = sum of the waits before the message)
     dedup_ts prev l            : l without the events that repeat the signature in force (prev before the list)
     ts_in_force d l t          : signature of the entry with the greatest tick <= t (d if none)
     ts_clash_free l            : no two different signatures share a tick
   Hypothesis on the inputs: nnt (non-negative times). *)
From Coq Require Import ZArith List Bool Lia Permutation.
From Model Require Import Base Seq Pairing Store.
From Proofs Require Import C04_sort C04_proofs C07_proofs C17_proofs C15_proofs Sound_glue C15_sound Sig_glue.
Import ListNotations.
Open Scope Z_scope.

Lemma merge_sorted_nnt (a : list msg) (others : list (list msg)) :
  forallb nnt (a :: others) = true ->
  sortedb (merge_abs a others) = true /\ tsorted (merge_abs a others) = true /\ nnt (merge_abs a others) = true.
Proof.
  intros N. destruct (C15_perm a others) as [P S]. split; [exact S|]. split; [now apply sortedb_tsorted|].
  apply (nnt_perm (concat (a :: others))); [now apply Permutation_sym|now apply nnt_concat].
Qed.

(* the signature events of the merged absolute list: the inputs' signature messages, sorted by sort_abs *)
Lemma merge_ts_events (a : list msg) (others : list (list msg)) :
  ts_events (merge_abs a others) = map (sg ts_of) (sort_abs (filter is_ts (a ++ concat others))) /\
  Permutation (ts_events (merge_abs a others)) (ts_events (a ++ concat others)) /\
  ev_sorted (ts_events (merge_abs a others)) = true.
Proof.
  split; [apply ts_events_sort_abs|]. split.
  - apply ts_events_perm, C15_proofs.sort_abs_perm.
  - apply ts_events_sorted, sort_abs_tsorted.
Qed.
Lemma merge_ks_events (a : list msg) (others : list (list msg)) :
  ks_events (merge_abs a others) = map (sg m_key) (sort_abs (filter is_ks (a ++ concat others))) /\
  Permutation (ks_events (merge_abs a others)) (ks_events (a ++ concat others)) /\
  ev_sorted (ks_events (merge_abs a others)) = true.
Proof.
  split; [apply ks_events_sort_abs|]. split.
  - apply ks_events_perm, C15_proofs.sort_abs_perm.
  - apply ks_events_sorted, sort_abs_tsorted.
Qed.

(* ---------------------------------------------------------------- kept events = dedup (sorted events) *)
(* both views of the merged, normalised sequence carry exactly the signature events of the sorted merged list that do
   not repeat the signature in force, in the same order, at the same ticks -- whatever the notes are *)
Theorem C15_signatures (a : list msg) (others : list (list msg)) :
  forallb nnt (a :: others) = true ->
  let M := merge_abs a others in
  let r := normalise (to_rel M) in
  rts_events r = dedup_ts ts_none (ts_events M) /\ rks_events r = dedup_ks None (ks_events M) /\
  ts_events (to_abs r) = dedup_ts ts_none (ts_events M) /\ ks_events (to_abs r) = dedup_ks None (ks_events M).
Proof.
  intros N M r. destruct (merge_sorted_nnt a others N) as (S & T & NN).
  split; [now apply round_rts|]. split; [now apply round_rks|]. split; [now apply round_ts|now apply round_ks].
Qed.

(* lifted to the Sequence wrapper *)
Theorem C15_signatures_seq (s s1 : seq) (others os : list seq) (a : list msg) (as_ : list (list msg)) :
  get_abs s = Ok (s1, a) -> refresh_abs_all others = Ok (os, as_) -> forallb nnt (a :: as_) = true ->
  exists m m' v, seq_merge s others = Ok (m, os) /\ get_abs m = Ok (m', v) /\
    rts_events (s_rel m) = dedup_ts ts_none (ts_events (merge_abs a as_)) /\
    rks_events (s_rel m) = dedup_ks None (ks_events (merge_abs a as_)) /\
    ts_events v = dedup_ts ts_none (ts_events (merge_abs a as_)) /\
    ks_events v = dedup_ks None (ks_events (merge_abs a as_)).
Proof.
  intros G R N. rewrite (seq_merge_spec s s1 others os a as_ G R).
  destruct (C15_signatures a as_ N) as (H1 & H2 & H3 & H4).
  eexists. eexists. eexists. split; [reflexivity|]. split; [reflexivity|]. cbn [s_rel]. auto.
Qed.

(* ---------------------------------------------------------------- the signature in force *)
(* at every tick the signature in force in the result is the one in force in the sorted merged list (no proviso) ... *)
Theorem C15_signatures_in_force_sorted (a : list msg) (others : list (list msg)) (t : Z) :
  forallb nnt (a :: others) = true ->
  let M := merge_abs a others in
  ts_in_force ts_none (ts_events (nabs M)) t = ts_in_force ts_none (ts_events M) t /\
  ks_in_force None (ks_events (nabs M)) t = ks_in_force None (ks_events M) t.
Proof.
  intros N M. destruct (merge_sorted_nnt a others N) as (S & T & NN).
  split; [now apply round_ts_in_force|now apply round_ks_in_force].
Qed.

(* ... and, when no two different signatures of one type share a tick across all inputs, the one in force in the
   multiset union of the inputs' signature events: it does not depend on the order of merging *)
Theorem C15_signatures_in_force_ts (a : list msg) (others : list (list msg)) (t : Z) :
  forallb nnt (a :: others) = true -> ts_clash_free (ts_events (a ++ concat others)) = true ->
  ts_in_force ts_none (ts_events (nabs (merge_abs a others))) t = ts_in_force ts_none (ts_events (a ++ concat others)) t.
Proof.
  intros N CF. destruct (C15_signatures_in_force_sorted a others t N) as [H _]. cbv zeta in H. rewrite H.
  destruct (merge_ts_events a others) as (_ & P & _).
  apply (in_force_perm ts_eqb ts_eqb_spec); [exact P|].
  apply (clash_free_perm ts_eqb _ _ (Permutation_sym P) CF).
Qed.
Theorem C15_signatures_in_force_ks (a : list msg) (others : list (list msg)) (t : Z) :
  forallb nnt (a :: others) = true -> ks_clash_free (ks_events (a ++ concat others)) = true ->
  ks_in_force None (ks_events (nabs (merge_abs a others))) t = ks_in_force None (ks_events (a ++ concat others)) t.
Proof.
  intros N CF. destruct (C15_signatures_in_force_sorted a others t N) as [_ H]. cbv zeta in H. rewrite H.
  destruct (merge_ks_events a others) as (_ & P & _).
  apply (in_force_perm okey_eqb okey_eqb_spec); [exact P|].
  apply (clash_free_perm okey_eqb _ _ (Permutation_sym P) CF).
Qed.

Lemma nnt_inputs_perm a b o1 o2 : Permutation (a ++ concat o1) (b ++ concat o2) ->
  forallb nnt (a :: o1) = true -> nnt (b ++ concat o2) = true.
Proof. intros P N. apply (nnt_perm _ _ P). now apply (nnt_concat (a :: o1)). Qed.

(* order-independence, stated directly: two merges of the same multiset of messages have the same signatures in force *)
Theorem C15_signatures_order (a b : list msg) (o1 o2 : list (list msg)) (t : Z) :
  Permutation (a ++ concat o1) (b ++ concat o2) ->
  forallb nnt (a :: o1) = true -> forallb nnt (b :: o2) = true ->
  (ts_clash_free (ts_events (a ++ concat o1)) = true ->
   ts_in_force ts_none (ts_events (nabs (merge_abs a o1))) t = ts_in_force ts_none (ts_events (nabs (merge_abs b o2))) t) /\
  (ks_clash_free (ks_events (a ++ concat o1)) = true ->
   ks_in_force None (ks_events (nabs (merge_abs a o1))) t = ks_in_force None (ks_events (nabs (merge_abs b o2))) t).
Proof.
  intros P N1 N2. split; intros CF.
  - pose proof (ts_events_perm _ _ P) as PE.
    rewrite (C15_signatures_in_force_ts a o1 t N1 CF).
    rewrite (C15_signatures_in_force_ts b o2 t N2 (clash_free_perm ts_eqb _ _ PE CF)).
    now apply (in_force_perm ts_eqb ts_eqb_spec).
  - pose proof (ks_events_perm _ _ P) as PE.
    rewrite (C15_signatures_in_force_ks a o1 t N1 CF).
    rewrite (C15_signatures_in_force_ks b o2 t N2 (clash_free_perm okey_eqb _ _ PE CF)).
    now apply (in_force_perm okey_eqb okey_eqb_spec).
Qed.

(* ---------------------------------------------------------------- non-vacuity, and the hypotheses *)
Module Ex.
  Definition ts c n d t := mk_ts c n d t false.
  Definition ks c k t := mk_ks c (Some k) t false.
  Definition on c n v t := mk_on c n v t false.
  Definition of c n t := mk_off c n t false.
  (* three inputs: the same 4/4 at tick 0 twice, a change to 3/4 at 12 announced by two inputs, back to 4/4 at 24;
     keys G at 0 (twice) and C at 12; overlapping notes *)
  Definition i1 : list msg := [ts 0 4 4 0; ks 0 K_G 0; on 0 60 64 0; of 0 60 12; ts 0 3 4 12; ts 0 4 4 24].
  Definition i2 : list msg := [on 0 60 70 6; ts 1 4 4 0; ks 1 K_G 0; ts 1 3 4 12; of 0 60 18; ks 1 K_C 12].
  Definition i3 : list msg := [].
  Definition ticks : list Z := [-1; 0; 5; 11; 12; 13; 23; 24; 30].
End Ex.

Example C15_signatures_nonvacuous :
  forallb nnt [Ex.i1; Ex.i2; Ex.i3] = true /\
  ts_clash_free (ts_events (Ex.i1 ++ concat [Ex.i2; Ex.i3])) = true /\
  ks_clash_free (ks_events (Ex.i1 ++ concat [Ex.i2; Ex.i3])) = true /\
  ts_events (merge_abs Ex.i1 [Ex.i2; Ex.i3]) = [(0, (4, 4)); (0, (4, 4)); (12, (3, 4)); (12, (3, 4)); (24, (4, 4))] /\
  ts_events (nabs (merge_abs Ex.i1 [Ex.i2; Ex.i3])) = [(0, (4, 4)); (12, (3, 4)); (24, (4, 4))] /\
  ks_events (nabs (merge_abs Ex.i1 [Ex.i2; Ex.i3])) = [(0, Some K_G); (12, Some K_C)] /\
  map (ts_in_force ts_none (ts_events (Ex.i1 ++ concat [Ex.i2; Ex.i3]))) Ex.ticks =
    [(-1, -1); (4, 4); (4, 4); (4, 4); (3, 4); (3, 4); (3, 4); (4, 4); (4, 4)].
Proof. vm_compute. repeat split; reflexivity. Qed.

(* without the proviso "in force" is not determined by the multiset: two inputs with different signatures at one tick
   (and channel) -- the result depends on the merge order (cf. C15_order_signature_refuted) *)
Example C15_signatures_in_force_needs_clash_free :
  let a := [Ex.ts 0 3 4 0] in let b := [Ex.ts 0 4 4 0] in
  forallb nnt [a; b] = true /\ ts_clash_free (ts_events (a ++ concat [b])) = false /\
  ts_in_force ts_none (ts_events (nabs (merge_abs a [b]))) 0 = (4, 4) /\
  ts_in_force ts_none (ts_events (nabs (merge_abs b [a]))) 0 = (3, 4).
Proof. vm_compute. repeat split; reflexivity. Qed.

(* a negative time is moved to tick 0 by to_rel: the ticks of the signature events need non-negative times *)
Example C15_signatures_needs_nnt :
  let a := [Ex.ts 0 3 4 (-5)] in
  nnt a = false /\ ts_events (merge_abs a []) = [(-5, (3, 4))] /\ ts_events (nabs (merge_abs a [])) = [(0, (3, 4))].
Proof. vm_compute. repeat split; reflexivity. Qed.
