(* C19 -- Token annotations agree with the detokenised timeline.
   get_info c imp ts = the four annotation lists (f_pos, f_time, f_tbar, f_pitch) of the token stream ts, with
   (imp = true) or without (imp = false) value imputation.  All statements are for ARBITRARY token lists (not only
   tokenise output), every configuration, both values of imp. *)
From Coq Require Import ZArith List Bool Lia.
From Model Require Import Tok.
From Proofs Require Import C02_proofs C19_proofs C19_tokenise.
Open Scope Z_scope.

(* clause "exactly one entry per token": all four lists have the length of the stream *)
Theorem C19_lengths : forall c imp ts,
  length (f_pos (get_info c imp ts)) = length ts /\
  length (f_time (get_info c imp ts)) = length ts /\
  length (f_tbar (get_info c imp ts)) = length ts /\
  length (f_pitch (get_info c imp ts)) = length ts.
Proof. exact C19_proofs.C19_lengths. Qed.
Print Assumptions C19_lengths.

(* clause "positions count 0, 1, 2, ..." *)
Theorem C19_positions : forall c imp ts,
  f_pos (get_info c imp ts) = rangeZ_aux (length ts) 0 /\
  forall k, (k < length ts)%nat -> nth k (f_pos (get_info c imp ts)) 0 = Z.of_nat k.
Proof. exact C19_proofs.C19_positions. Qed.
Print Assumptions C19_positions.

(* the clock of get_info and the clock of detokenise run in lock-step: `joint` folds detok_step (which may reject a
   token) and info_step side by side from their initial states; whenever the whole stream is accepted, the four
   clock components (time, time in bar, bar capacity, remaining capacity) agree.  No hypothesis on the tokens is
   needed: a TTsg with denominator 0 on an unfilled bar is rejected by detok_step and so never reaches the
   conclusion. *)
Theorem C19_clock : forall c imp ts sd si,
  joint c imp ts (dstate0 c) (istate0 c) = Ok (sd, si) ->
  (d_time sd, d_tbar sd, d_total sd, d_rem sd) = (i_time si, i_tbar si, i_total si, i_rem si).
Proof. exact C19_proofs.C19_clock. Qed.
Print Assumptions C19_clock.

(* `joint` is exactly the model's two folds run side by side *)
Theorem C19_joint_spec : forall c imp ts sd si,
  joint c imp ts sd si = (do sd' <- foldM (detok_step c) ts sd; Ok (sd', info_run c ts si)).
Proof. exact C19_proofs.joint_spec. Qed.
Print Assumptions C19_joint_spec.

(* clause "the absolute time annotated on each note token equals the onset tick at which detokenise places that note,
   and its pitch and circle-of-fifths annotations equal the note's pitch and the position of its pitch class":
   for every index k holding a note token, with sd the detokeniser state after the first k tokens: the annotated
   time / in-bar time are d_time sd / d_tbar sd, the pitch annotation is (p, get_position p) whatever imp is, and
   the step for that token inserts NOTE_ON(p, time = annotated time) (and the NOTE_OFF at time + value) into the
   addressed track, where it is found afterwards. *)
Theorem C19_note_time : forall c imp ts k trk p v w sd,
  nth_error ts k = Some (TNote trk p v w) ->
  foldM (detok_step c) (firstn k ts) (dstate0 c) = Ok sd ->
  let time := nth k (f_time (get_info c imp ts)) 0 in
  time = d_time sd /\
  nth k (f_tbar (get_info c imp ts)) 0 = d_tbar sd /\
  nth k (f_pitch (get_info c imp ts)) None = Some (p, get_position p) /\
  forall sd', detok_step c sd (TNote trk p v w) = Ok sd' ->
    foldM (detok_step c) (firstn (S k) ts) (dstate0 c) = Ok sd' /\
    exists i vel val,
      d_seqs sd' = set_nth i (fun a => insort (mk_off 0 p (time + val) false) (insort (mk_on 0 p vel time false) a))
                           (d_seqs sd) /\
      In (mk_on 0 p vel time false) (nth i (d_seqs sd') []) /\
      m_time (mk_on 0 p vel time false) = time /\ m_note (mk_on 0 p vel time false) = p.
Proof. exact C19_proofs.C19_note_time. Qed.
Print Assumptions C19_note_time.

(* every annotation entry, for any token: time / in-bar time are those of the get_info clock after the first k tokens
   and the pitch entry depends on imp only for non-note tokens (annot) *)
Theorem C19_entries : forall c imp ts k t,
  nth_error ts k = Some t ->
  nth k (f_time (get_info c imp ts)) 0 = i_time (info_run c (firstn k ts) (istate0 c)) /\
  nth k (f_tbar (get_info c imp ts)) 0 = i_tbar (info_run c (firstn k ts) (istate0 c)) /\
  nth k (f_pitch (get_info c imp ts)) None = annot imp t.
Proof. exact C19_proofs.C19_entries. Qed.
Print Assumptions C19_entries.

(* clause "in-bar time equals onset minus the start of its bar": holds for EVERY stream and every token, where
   bar_start c ts k is the ghost value "time + remaining capacity at the most recent TBar among the first k tokens"
   (0 before the first bar token). *)
Theorem C19_tbar : forall c imp ts k t,
  nth_error ts k = Some t ->
  nth k (f_tbar (get_info c imp ts)) 0 = nth k (f_time (get_info c imp ts)) 0 - bar_start c ts k.
Proof. exact C19_proofs.C19_tbar. Qed.
Print Assumptions C19_tbar.

(* for streams over the vocabulary of a valid configuration detokenise accepts every prefix, so the onset state of
   C19_note_time always exists and its clock is the get_info clock *)
Theorem C19_vocab_prefix : forall c ts k,
  valid_cfg c = true -> Forall (fun t => In t (vocab c)) ts ->
  exists sd, foldM (detok_step c) (firstn k ts) (dstate0 c) = Ok sd /\
             (d_time sd, d_tbar sd, d_total sd, d_rem sd) =
             (i_time (info_run c (firstn k ts) (istate0 c)), i_tbar (info_run c (firstn k ts) (istate0 c)),
              i_total (info_run c (firstn k ts) (istate0 c)), i_rem (info_run c (firstn k ts) (istate0 c))).
Proof. exact C19_tokenise.C19_vocab_prefix. Qed.
Print Assumptions C19_vocab_prefix.

(* the note clause for ANY stream of vocabulary tokens (tokenise output or not), with and without imputation: the
   detokeniser places NOTE_ON(p) at the annotated time of the token *)
Theorem C19_note_time_vocab : forall c imp ts k trk p v w,
  valid_cfg c = true -> Forall (fun t => In t (vocab c)) ts ->
  nth_error ts k = Some (TNote trk p v w) ->
  exists sd sd' i vel val,
    foldM (detok_step c) (firstn k ts) (dstate0 c) = Ok sd /\
    foldM (detok_step c) (firstn (S k) ts) (dstate0 c) = Ok sd' /\
    nth k (f_time (get_info c imp ts)) 0 = d_time sd /\
    nth k (f_pitch (get_info c imp ts)) None = Some (p, get_position p) /\
    d_seqs sd' = set_nth i (fun a => insort (mk_off 0 p (d_time sd + val) false) (insort (mk_on 0 p vel (d_time sd) false) a))
                         (d_seqs sd) /\
    In (mk_on 0 p vel (d_time sd) false) (nth i (d_seqs sd') []).
Proof. exact C19_tokenise.C19_note_time_vocab. Qed.
Print Assumptions C19_note_time_vocab.

(* clause "annotated times never decrease", general form: for every stream satisfying the boolean side condition
   clock_ok (every TRest value >= 0 and every TBar finds a remaining capacity >= 0).  Without the side condition the
   clause is false for arbitrary vocabulary streams (see C19_monotone_needs_clock_ok). *)
Theorem C19_monotone_clock_ok : forall c imp ts j k,
  clock_ok c (istate0 c) ts = true -> (j <= k)%nat -> (k < length ts)%nat ->
  nth j (f_time (get_info c imp ts)) 0 <= nth k (f_time (get_info c imp ts)) 0.
Proof. exact C19_proofs.C19_monotone_partial. Qed.
Print Assumptions C19_monotone_clock_ok.

Theorem C19_monotone_needs_clock_ok : exists c ts,
  valid_cfg c = true /\ Forall (fun t => In t (vocab c)) ts /\ clock_ok c (istate0 c) ts = false /\
  nth 5 (f_time (get_info c false ts)) 0 = 120 /\ nth 6 (f_time (get_info c false ts)) 0 = 96.
Proof. exact C19_tokenise.C19_monotone_needs_clock_ok. Qed.
Print Assumptions C19_monotone_needs_clock_ok.

(* clause "for streams produced by tokenise ... annotated times never decrease": one tokenise call from the fresh
   tokeniser state, any accepted input *)
Theorem C19_monotone : forall c imp tracks toks st' j k,
  tokenise c (tstate0 c) tracks = Ok (toks, st') -> valid_cfg c = true -> DEFAULT_TS_NUM = DEFAULT_TS_DEN ->
  (j <= k)%nat -> (k < length toks)%nat ->
  nth j (f_time (get_info c imp toks)) 0 <= nth k (f_time (get_info c imp toks)) 0.
Proof. exact C19_tokenise.C19_monotone. Qed.
Print Assumptions C19_monotone.

(* the same for the concatenated output of any number of successive tokenise calls that thread the persistent
   tokeniser state (tokenise_many), starting from the fresh state *)
Theorem C19_monotone_many : forall c imp pieces toks st' j k,
  tokenise_many c (tstate0 c) pieces = Ok (toks, st') -> valid_cfg c = true -> DEFAULT_TS_NUM = DEFAULT_TS_DEN ->
  (j <= k)%nat -> (k < length toks)%nat ->
  nth j (f_time (get_info c imp toks)) 0 <= nth k (f_time (get_info c imp toks)) 0.
Proof. exact C19_tokenise.C19_monotone_many. Qed.
Print Assumptions C19_monotone_many.

(* for tokenise output the clock of get_info is the tokeniser's own clock: after the whole stream the annotated
   time / in-bar time / remaining capacity are those of the returned tokeniser state *)
Theorem C19_tokenise_clock : forall c pieces toks st',
  tokenise_many c (tstate0 c) pieces = Ok (toks, st') -> valid_cfg c = true -> DEFAULT_TS_NUM = DEFAULT_TS_DEN ->
  clock_ok c (istate0 c) toks = true /\ bars_exact c (istate0 c) toks = true /\
  i_time (info_run c toks (istate0 c)) = t_time st' /\
  i_tbar (info_run c toks (istate0 c)) = t_tbar st' /\
  i_rem (info_run c toks (istate0 c)) = t_rem st'.
Proof. exact C19_tokenise.C19_tokenise_clock. Qed.
Print Assumptions C19_tokenise_clock.

(* bar_start (the ghost of C19_tbar) moves only at bar tokens ... *)
Theorem C19_bar_start_other : forall c ts k t,
  nth_error ts k = Some t -> t <> TBar -> bar_start c ts (S k) = bar_start c ts k.
Proof. exact C19_proofs.bar_start_snoc_other. Qed.
Print Assumptions C19_bar_start_other.

(* ... and for tokenise output (every bar token closes an exactly filled bar) it moves to the annotated time of that
   bar token: with C19_tbar this is the clause "each note's in-bar time equals its onset minus the start of its bar" *)
Theorem C19_bar_start_tokenise : forall c imp pieces toks st' k,
  tokenise_many c (tstate0 c) pieces = Ok (toks, st') -> valid_cfg c = true -> DEFAULT_TS_NUM = DEFAULT_TS_DEN ->
  nth_error toks k = Some TBar ->
  bar_start c toks (S k) = nth k (f_time (get_info c imp toks)) 0.
Proof. exact C19_tokenise.C19_bar_start_tokenise. Qed.
Print Assumptions C19_bar_start_tokenise.
