"""Canonical forms shared by the implementation side and the Coq model side.

A message is the tuple  M = (type, chan, time, tf, note, vel, ctrl, prog, num, den, key)
  type : MessageType member name (e.g. 'NOTE_ON');  None fields -> -1;  key -> Key member name or None;
  tf   : True iff the Python time value is a float.
`show_*` produce exactly the strings of coq/Model/Show.v; `lit_*` produce Coq terms for generated case files.
"""
import os, sys

REPO = os.environ.get("SCODA_REPO", "/repo")
if REPO not in sys.path:
    sys.path.insert(0, REPO)
import logging
logging.disable(logging.CRITICAL)

from scoda.elements.message import Message
from scoda.enumerations.message_type import MessageType
from scoda.misc.music_theory import Key

TYPES = [m.name for m in MessageType]


def _n(x):
    return -1 if x is None else x


def from_message(m, rel=False):
    """scoda Message -> tuple.  rel=True: non-wait messages carry no time (canonical 0)."""
    t, tf = m.time, False
    if rel and m.message_type != MessageType.WAIT:
        t, tf = 0, False
    else:
        if t is None:
            t = 0
        if isinstance(t, float):
            tf = True
            t = int(t) if t.is_integer() else t
    return (m.message_type.name, _n(m.channel), t, tf, _n(m.note), _n(m.velocity), _n(m.control), _n(m.program),
            _n(m.numerator), _n(m.denominator), m.key.name if m.key is not None else None)


def to_message(M, rel=False):
    ty, ch, t, tf, n, v, x, p, a, b, k = M
    nn = lambda z: None if z == -1 else z
    time = float(t) if tf else t
    if rel and ty != "WAIT":
        time = None
    return Message(message_type=MessageType[ty], channel=ch, time=time, note=nn(n), velocity=nn(v), control=nn(x),
                   program=nn(p), numerator=nn(a), denominator=nn(b), key=Key[k] if k is not None else None)


# ---- tuple constructors
def ON(c, n, v, t=0): return ("NOTE_ON", c, t, False, n, v, -1, -1, -1, -1, None)
def OFF(c, n, t=0): return ("NOTE_OFF", c, t, False, n, -1, -1, -1, -1, -1, None)
def WT(c, t): return ("WAIT", c, t, False, -1, -1, -1, -1, -1, -1, None)
def TS(c, a, b, t=0): return ("TIME_SIGNATURE", c, t, False, -1, -1, -1, -1, a, b, None)
def KS(c, k, t=0): return ("KEY_SIGNATURE", c, t, False, -1, -1, -1, -1, -1, -1, k)
def IT(c, t): return ("INTERNAL", c, t, False, -1, -1, -1, -1, -1, -1, None)
def CC(c, x, v, t=0): return ("CONTROL_CHANGE", c, t, False, -1, v, x, -1, -1, -1, None)
def PC(c, p, t=0): return ("PROGRAM_CHANGE", c, t, False, -1, -1, -1, p, -1, -1, None)
def FL(M): return M[:3] + (True,) + M[4:]


def show_key(k):
    return "~" if k is None else Key[k].value


def show_msg(M):
    ty, ch, t, tf, n, v, x, p, a, b, k = M
    return ":".join([MessageType[ty].value, str(ch), str(t) + ("f" if tf else ""), str(n), str(v), str(x), str(p),
                     str(a), str(b), show_key(k)])


def show_msgs(l):
    return ";".join(show_msg(m) for m in l)


def show_msgss(ll):
    return "|".join(show_msgs(l) for l in ll)


def z(i):
    return f"({i})" if i < 0 else str(i)


def lit_key(k):
    return "None" if k is None else f"(Some K_{k})"


def lit_msg(M):
    ty, ch, t, tf, n, v, x, p, a, b, k = M
    s = None
    if ty == "NOTE_ON" and (x, p, a, b, k) == (-1, -1, -1, -1, None):
        s = f"on {z(ch)} {z(n)} {z(v)} {z(t)}"
    elif ty == "NOTE_OFF" and (v, x, p, a, b, k) == (-1, -1, -1, -1, -1, None):
        s = f"of {z(ch)} {z(n)} {z(t)}"
    elif ty == "WAIT" and (n, v, x, p, a, b, k) == (-1, -1, -1, -1, -1, -1, None):
        s = f"wt {z(ch)} {z(t)}"
    elif ty == "TIME_SIGNATURE" and (n, v, x, p, k) == (-1, -1, -1, -1, None):
        s = f"ts {z(ch)} {z(a)} {z(b)} {z(t)}"
    elif ty == "KEY_SIGNATURE" and (n, v, x, p, a, b) == (-1,) * 6 and k is not None:
        s = f"ks {z(ch)} K_{k} {z(t)}"
    elif ty == "INTERNAL" and (n, v, x, p, a, b, k) == (-1,) * 6 + (None,) and not tf:
        return f"it {z(ch)} {z(t)}"
    if s is None:
        return (f"(mkmsg {ty} {z(ch)} {z(t)} {'true' if tf else 'false'} {z(n)} {z(v)} {z(x)} {z(p)} {z(a)} {z(b)} "
                f"{lit_key(k)})")
    return f"Fl ({s})" if tf else s


def lit_msgs(l):
    return "[" + "; ".join(lit_msg(m) for m in l) + "]"


def lit_msgss(ll):
    return "[" + "; ".join(lit_msgs(l) for l in ll) + "]"


def lit_zs(l):
    return "[" + "; ".join(z(i) for i in l) + "]"


def lit_bool(b):
    return "true" if b else "false"


def lit_str(s):
    assert '"' not in s
    return '"' + s + '"'


ERRMAP = {"BarException": "BarErr", "SequenceException": "SeqErr", "TokenisationException": "TokErr",
          "KeyError": "KeyErr", "IndexError": "IndexErr", "ValueError": "ValueErr", "TypeError": "TypeErr"}


def show_exc(e):
    return "!" + ERRMAP.get(type(e).__name__, "Other_" + type(e).__name__)
