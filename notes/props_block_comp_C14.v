
(* ================================================================ Bar.transpose (Model/Comp.v, Proofs/Comp_proofs.v)
   cbar_transpose b k = Bar.transpose(k): returns the new bar and the "some note was moved by octaves" flag.
   (This supersedes the remark in the header that Bar.transpose is not part of the model.) *)
From Model Require Import Comp.
From Proofs Require Import Comp_proofs.

(* clause "key signatures ... on bars are transposed by the same interval and never become undefined": the bar's key
   becomes transpose_key of it (always defined; its tonic is the old tonic + k modulo 12), a bar without key stays
   without key, the signature is kept, and the bar's sequence and the returned flag are exactly those of
   Sequence.transpose on the bar's sequence -- so C14_seq_flag / C14_seq / C14_seq_wrapped and through them every
   list-level theorem above describe the bar's notes *)
Theorem C14_bar_key : forall (b b' : cbar) (k : Z) (f : bool), cbar_transpose b k = Ok (b', f) ->
  seq_transpose (cb_seq b) k = Ok (cb_seq b', f) /\
  cb_num b' = cb_num b /\ cb_den b' = cb_den b /\
  (forall ky, cb_key b = Some ky ->
     exists ky' t, cb_key b' = Some ky' /\ transpose_key ky k = Some ky' /\
                   tonic ky = Some t /\ tonic ky' = Some ((t + k) mod 12)) /\
  (cb_key b = None -> cb_key b' = None).
Proof. exact Comp_proofs.C14_bar_key. Qed.
Print Assumptions C14_bar_key.

(* Bar.transpose never raises on a bar whose sequence can be read (not both views stale), for every integer interval;
   the flag is the flag of the relative view (C14_flag) *)
Theorem C14_bar_transpose_total : forall (b : cbar) (k : Z) (s1 : seq) (r : list msg),
  get_rel (cb_seq b) = Ok (s1, r) -> exists b', cbar_transpose b k = Ok (b', snd (transpose r k)).
Proof. exact Comp_proofs.C14_bar_transpose_total. Qed.
Print Assumptions C14_bar_transpose_total.

(* in particular on every bar returned by the Bar constructor *)
Theorem C14_bar_transpose_new : forall (s : seq) (num den : Z) (key : option Key) (b : cbar) (k : Z),
  cbar_new s num den key = Ok b ->
  exists b', cbar_transpose b k = Ok (b', snd (transpose (s_rel (cb_seq b)) k)).
Proof. exact Comp_proofs.C14_bar_transpose_new. Qed.
Print Assumptions C14_bar_transpose_new.

(* flag false: the bar's new relative view is the old one with every note shifted by exactly k (plain_msg) *)
Theorem C14_bar_plain : forall (b b' : cbar) (k : Z) (s1 : seq) (r : list msg),
  get_rel (cb_seq b) = Ok (s1, r) -> cbar_transpose b k = Ok (b', false) ->
  cb_seq b' = mkseq (s_abs s1) (map (plain_msg k) r) true false.
Proof. exact Comp_proofs.C14_bar_plain. Qed.
Print Assumptions C14_bar_plain.

(* inside a composition all of whose bars / tracks were made by the constructors (comp_built, e.g. the result of
   Composition.from_sequences or of a copy: C16_comp_copy): transposing bar bi of track ti never raises and puts the
   transposed bar at (ti, bi); C16_comp_frame says nothing else changes *)
Theorem C14_comp_bar_transpose : forall (c : comp) (ti bi : nat) (t : ctrack) (b : cbar) (k : Z),
  comp_built c -> nth_error c ti = Some t -> nth_error (ct_bars t) bi = Some b ->
  exists b' c', cbar_transpose b k = Ok (b', snd (transpose (s_rel (cb_seq b)) k)) /\
    comp_on_bar c ti bi (fun x => do '(x', _) <- cbar_transpose x k; Ok x') = Ok c' /\
    exists t', nth_error c' ti = Some t' /\ nth_error (ct_bars t') bi = Some b'.
Proof. exact Comp_proofs.C14_comp_bar_transpose. Qed.
Print Assumptions C14_comp_bar_transpose.
