"""Operations of the library that are modelled: for each, a generator of inputs, the implementation runner producing
the canonical result string, and the Coq expression (of type string) that computes the model's result.

Every runner goes through the public Sequence / Bar / tokeniser API of the live tree at $SCODA_REPO.
"""
import os, sys, random
from canon import *
import gen as G

from scoda.sequences.sequence import Sequence
from scoda.sequences.relative_sequence import RelativeSequence
from scoda.sequences.absolute_sequence import AbsoluteSequence
from scoda.elements.bar import Bar
from scoda.enumerations.message_type import MessageType as MT
from scoda.settings.settings import PPQN

import scoda.sequences.sequence as _sq
assert os.path.realpath(_sq.__file__).startswith(os.path.realpath(REPO) + os.sep), (_sq.__file__, REPO)


# ---------------------------------------------------------------------------------------------- helpers
def mk_abs(ms):
    s = Sequence()
    for m in ms:
        s.add_absolute_message(to_message(m))
    return s


PREBUILT = []      # a judge may hand over an already built object (e.g. one whose messages are shared) for the next mk_rel


def mk_rel(ms):
    if PREBUILT:
        return PREBUILT.pop(0)
    return _mk_rel(ms)


def mk_rel_junk(ms):
    """like mk_rel, but in some cases the non-wait messages keep a (meaningless) time, as messages taken over from an
    absolute view do: in a relative list only waits count.  Used for pad and Bar only -- the MIDI writer does add up
    every time it finds, so such lists are outside its contract"""
    if PREBUILT:
        return PREBUILT.pop(0)
    s_ = _mk_rel(ms)
    if len(ms) % 3 == 1:
        for m in s_._rel._messages:
            if m.message_type != MT.WAIT:
                m.time = 7
    return s_


def _mk_rel(ms):
    return Sequence(relative_sequence=RelativeSequence(messages=[to_message(m, rel=True) for m in ms]))


def abs_of(s):
    return [from_message(m) for m in s.abs._messages]


def rel_of(s):
    return [from_message(m, rel=True) for m in s.rel._messages]


def stored_abs(s):
    return [from_message(m) for m in s._abs._messages]


import signal


class Timeout(Exception):
    pass


def _alarm(signum, frame):
    raise Timeout()


try:
    signal.signal(signal.SIGALRM, _alarm)
except ValueError:
    pass


def with_timeout(f, inp, seconds=20):
    """run f(inp) with a wall-clock limit (main thread only): a changed implementation that no longer terminates must
    end up as a reported failure, not as a check that hangs"""
    try:
        old = signal.signal(signal.SIGALRM, _alarm)
    except ValueError:          # not in the main thread
        return f(inp)
    signal.alarm(seconds)
    try:
        return f(inp)
    finally:
        signal.alarm(0)
        signal.signal(signal.SIGALRM, old)


def guarded(f):
    def g(inp):
        try:
            return with_timeout(f, inp)
        except Timeout:
            return "!Timeout (no result within 20 s)"
        except MemoryError:
            return "!MemoryError"
        except Exception as e:  # noqa
            return show_exc(e)
    return g


def show_seq(s):
    a = "~" if s._abs_stale else show_msgs([from_message(m) for m in s._abs._messages])
    r = "~" if s._rel_stale else show_msgs([from_message(m, rel=True) for m in s._rel._messages])
    return f"A{a}/R{r}"


OPS = {}


class Op:
    def __init__(self, name, gen, impl, coq, nontrivial=None):
        self.name, self.gen, self.impl, self.coq = name, gen, guarded(impl), coq
        self.nontrivial = nontrivial or (lambda inp: True)
        OPS[name] = self


# ---------------------------------------------------------------------------------------------- conversions
def _impl_to_abs(ms):
    return show_msgs(abs_of(mk_rel(ms)))


Op("to_abs", lambda r: r.choice([G.gen_rel_wf, G.gen_rel_malformed])(r), _impl_to_abs,
   lambda ms: f"show_msgs (to_abs {lit_msgs(ms)})", lambda ms: len(ms) > 2)


def _impl_to_rel(ms):
    return show_msgs(rel_of(mk_abs(ms)))


Op("to_rel", lambda r: G.gen_abs_wf(r), _impl_to_rel,
   lambda ms: f"show_msgs (to_rel (fold_left (fun acc m => insort m acc) {lit_msgs(ms)} []))", lambda ms: len(ms) > 2)


def _impl_roundtrip(ms):
    s = mk_rel(ms)
    a = s.abs
    s2 = Sequence(absolute_sequence=a.copy())
    return show_msgs(rel_of(s2))


Op("rel_abs_rel", lambda r: r.choice([G.gen_rel_wf, G.gen_rel_malformed])(r), _impl_roundtrip,
   lambda ms: f"show_msgs (to_rel (to_abs {lit_msgs(ms)}))", lambda ms: len(ms) > 2)


# ---------------------------------------------------------------------------------------------- normalise
def _impl_normalise(ms):
    s = mk_rel(ms)
    s.normalise()
    return show_msgs(rel_of(s))


Op("normalise", lambda r: G.gen_rel_malformed(r, floats=r.random() < 0.1) if r.random() < 0.7 else G.gen_rel_wf(r),
   _impl_normalise, lambda ms: f"show_msgs (normalise {lit_msgs(ms)})",
   lambda ms: sum(1 for m in ms if m[0] in ("NOTE_ON", "NOTE_OFF")) >= 2)


# ---------------------------------------------------------------------------------------------- pad, set_channel, scale
def _gen_pad(r):
    ms = r.choice([G.gen_rel_wf, G.gen_rel_malformed])(r)
    d = sum(m[2] for m in ms if m[0] == "WAIT")
    return ms, r.choice([0, d, d + 1, max(0, d - 1), d + 12, 96, r.randint(0, 100)])


def _impl_pad(inp):
    ms, p = inp
    s = mk_rel_junk(ms)
    s.pad(p)
    return show_msgs(rel_of(s))


Op("pad", _gen_pad, _impl_pad, lambda inp: f"show_msgs (pad {lit_msgs(inp[0])} {z(inp[1])} false)")


def _impl_setch(inp):
    ms, c = inp
    s = mk_rel(ms)
    s.set_channel(c)
    return show_msgs(rel_of(s))


Op("set_channel", lambda r: (G.gen_rel_wf(r), r.choice([0, 1, 2, 5, 15, 16, 17, 40, 255])), _impl_setch,
   lambda inp: f"show_msgs (set_channel {lit_msgs(inp[0])} {z(inp[1])})")


def scale_apply(inp):
    """inp[2]: 'rel' (relative view given) | 'read' (absolute view read before) | 'abs' (built through the absolute view)"""
    ms, k = inp[0], inp[1]
    how = inp[2] if len(inp) > 2 else "rel"
    s = mk_track(ms, how)
    s.scale(k, quantise_afterwards=False)
    return s


def _impl_scale(inp):
    s = scale_apply(inp)
    how = inp[2] if len(inp) > 2 else "rel"
    if how == "rel":
        return show_msgs(rel_of(s))
    return show_msgs(abs_of(s)) + "/" + show_msgs(rel_of(s))      # the absolute view first: it was fresh before the call


def _coq_scale(inp):
    how = inp[2] if len(inp) > 2 else "rel"
    if how == "rel":
        return f"show_msgs (scale {lit_msgs(inp[0])} {z(inp[1])})"
    r0 = track_rel_lit(inp[0], how)
    return f"(let r := scale {r0} {z(inp[1])} in show_msgs (to_abs r) ++ \"/\" ++ show_msgs r)"


def _gen_scale(r):
    trailing = r.random() < 0.5
    ms = G.gen_rel_wf(r, trailing=trailing)
    how = r.choice(["rel", "rel", "read"] + ([] if (ms and ms[-1][0] == "WAIT") else ["abs"]))
    return ms, r.randint(1, 8), how


Op("scale", _gen_scale, _impl_scale, _coq_scale)


# ---------------------------------------------------------------------------------------------- transpose
def _gen_transpose(r):
    ms = G.gen_rel_wf(r)
    if r.random() < 0.2:      # ill-formed streams (orphan note-offs, unclosed notes), also next to the range limits
        ms = G.gen_rel_malformed(r)
        if r.random() < 0.6:
            sub = {60: 107, 61: 22, 62: 60}
            ms = [m[:4] + (sub.get(m[4], m[4]),) + m[5:] for m in ms]
    k = r.choice([0, 1, -1, 2, 7, 12, -12, 24, 11, 13, -13, 40, -40, 88, 89, -88, 100, -130, 130, r.randint(-130, 130)])
    return ms, k


def _impl_transpose_rel(inp):
    ms, k = inp
    rs = RelativeSequence(messages=[to_message(m, rel=True) for m in ms])
    sh = rs.transpose(k)
    return ("T" if sh else "F") + "@" + show_msgs([from_message(m, rel=True) for m in rs._messages])


Op("transpose_rel", _gen_transpose, _impl_transpose_rel,
   lambda inp: f"(let '(l, b) := transpose {lit_msgs(inp[0])} {z(inp[1])} in show_bool b ++ \"@\" ++ show_msgs l)")


# ---------------------------------------------------------------------------------------------- split
def _gen_split(r):
    x = r.random()
    if x < 0.7:
        ms = G.gen_rel_wf(r, hi=r.choice([30, 60, 100]))
    elif x < 0.8:      # the two ends of the pitch range on neighbouring channels, sounding together
        ms = G.gen_rel_wf(r, hi=r.choice([30, 60]), n=r.randint(2, 6), pitches=G.EDGE_PITCHES, chans=[0, 1, 1, 2], extra=False)
    else:
        ms = G.gen_rel_malformed(r)
    return ms, G.gen_caps(r)


def _impl_split(inp):
    ms, caps = inp
    s = mk_rel(ms)
    before = show_seq(s)
    ps = s.split(list(caps))
    assert show_seq(s) == before, "split changed its source"
    return show_msgss([rel_of(p) for p in ps])


Op("split", _gen_split, _impl_split,
   lambda inp: f"show_msgss (seq_split {lit_msgs(inp[0])} {lit_zs(inp[1])})",
   lambda inp: sum(m[2] for m in inp[0] if m[0] == "WAIT") > inp[1][0])


# ---------------------------------------------------------------------------------------------- merge
def mk_any(kind, ms):
    return mk_abs(ms) if kind == "abs" else mk_rel(ms)


def _gen_merge(r):
    """each input either through its absolute view or as a relative list (possibly ending with a rest: then its
    absolute view carries an INTERNAL cap)"""
    k = r.choice([0, 1, 1, 2, 3])
    out = []
    for _ in range(k + 1):
        if r.random() < 0.55:
            out.append(("abs", G.gen_abs_wf(r, n=r.randint(0, 4), pitches=[60, 61], chans=[0, 0, 1])))
        else:
            rel = G.gen_rel_wf(r, n=r.randint(0, 3), pitches=[60, 61], chans=[0, 0, 1], hi=40, trailing=False)
            if r.random() < 0.7:
                rel.append(WT(r.choice([0, 1]), r.choice([6, 24, 96, 200])))
            out.append(("rel", rel))
    return out


def merge_call(ss):
    """receiver.merge(arguments); for families of even size the arguments are handed over as a one-shot iterable"""
    if len(ss) % 2 == 0:
        ss[0].merge(s_ for s_ in ss[1:])
    else:
        ss[0].merge(ss[1:])


def _impl_merge(seqs):
    ss = [mk_any(k, ms) for k, ms in seqs]
    merge_call(ss)
    return show_seq(ss[0])


def _coq_merge(seqs):
    ins = lambda ms: f"(fold_left (fun acc m => insort m acc) {lit_msgs(ms)} [])"
    lit = lambda k, ms: f"(seq_of_abs {ins(ms)})" if k == "abs" else f"(seq_of_rel {lit_msgs(ms)})"
    others = "[" + "; ".join(lit(k, ms) for k, ms in seqs[1:]) + "]"
    return f"show_res (fun x => show_seq (fst x)) (seq_merge {lit(*seqs[0])} {others})"


Op("merge", _gen_merge, _impl_merge, _coq_merge, lambda seqs: len(seqs) > 1)


# ---------------------------------------------------------------------------------------------- cutoff
def _gen_cutoff(r):
    ms = G.gen_abs_wf(r)
    if r.random() < 0.25:      # unclosed notes (a note-off is imputed), orphan note-offs, re-triggers
        ms = [m for m in ms if r.random() < 0.8]
        for _ in range(r.choice([0, 1, 2])):
            c, p, t = r.choice([0, 1]), r.choice([60, 61]), G.tick(r, 40)
            ms.append(ON(c, p, 100, t) if r.random() < 0.5 else OFF(c, p, t))
    m = r.choice([6, 12, 24, 11, 13, 30, 1])
    return ms, m, r.choice([m, max(1, m - 1), 1, max(1, m // 2), 6, 0])        # 0: over-long notes collapse onto their onset


def _impl_cutoff(inp):
    ms, mx, red = inp
    s = mk_abs(ms)
    s.cutoff(mx, red)
    return show_msgs(abs_of(s))


INS = lambda ms: f"(fold_left (fun acc m => insort m acc) {lit_msgs(ms)} [])"

Op("cutoff", _gen_cutoff, _impl_cutoff, lambda inp: f"show_msgs (cutoff {INS(inp[0])} {z(inp[1])} {z(inp[2])})",
   lambda inp: any(m[0] == "NOTE_ON" for m in inp[0]))


# ---------------------------------------------------------------------------------------------- quantise
def _gen_quantise(r):
    mode = r.random()
    if mode < 0.75:
        ms = G.gen_abs_wf(r, hi=r.choice([30, 60]))
    else:   # malformed absolute input: re-triggers, orphans
        ms = []
        for _ in range(r.randint(0, 8)):
            c, p, t = r.choice([0, 0, 1]), r.choice([60, 61]), G.tick(r, 40)
            ms.append(ON(c, p, 100, t) if r.random() < 0.5 else OFF(c, p, t))
    # trail: the sequence arrives through its relative view and ends with a rest (after pad / split / concatenate),
    # so that its absolute view carries the INTERNAL end marker
    trail = r.choice([1, 5, 6, 7, 12, 13, 50]) if r.random() < 0.3 else None
    if r.random() < 0.12:      # a burst: three or four very short notes of one key inside one or two grid cells
        c, p, t = r.choice([0, 1]), r.choice([60, 61]), r.choice([7, 23, 103, 5, 11])
        for _ in range(r.choice([3, 3, 4])):
            d = r.choice([1, 1, 2])
            ms += [ON(c, p, 90, t), OFF(c, p, t + d)]
            t += d + r.choice([0, 0, 1])
        r.shuffle(ms)
    return ms, r.choice(G.STEP_POOLS), trail


def quant_rel(inp):
    return G.abs_to_rel(inp[0], library_order=True) + [WT(0, inp[2])]


def quant_seq(inp):
    return mk_rel(quant_rel(inp)) if len(inp) > 2 and inp[2] is not None else mk_abs(inp[0])


def _impl_quantise(inp):
    s = quant_seq(inp)
    s.quantise(list(inp[1]))
    return show_msgs(abs_of(s))


Op("quantise", _gen_quantise, _impl_quantise,
   lambda inp: f"show_res show_msgs (quantise {INS(inp[0])} {lit_zs(inp[1])})" if len(inp) < 3 or inp[2] is None else
   f"show_res show_msgs (quantise (to_abs {lit_msgs(quant_rel(inp))}) {lit_zs(inp[1])})",
   lambda inp: any(m[0] == "NOTE_ON" and any(m[2] % s for s in inp[1]) for m in inp[0]))


# ---------------------------------------------------------------------------------------------- quantise_note_lengths
def _gen_qnl(r):
    ms = G.gen_abs_wf(r, hi=r.choice([30, 60])) if r.random() < 0.85 else _gen_quantise(r)[0]
    # last: the same request made through the compound public call quantise_and_normalise(step_sizes=[1], ...)
    return ms, r.choice(G.VALUE_POOLS), r.choice([24, 24, 12]), r.random() < 0.5, r.random() < 0.3


def qnl_apply(inp):
    ms, vals, std, dne = inp[:4]
    s = mk_abs(ms)
    if len(inp) > 4 and inp[4]:
        s.quantise_and_normalise([1], list(vals), standard_length=std, do_not_extend=dne)
    else:
        s.quantise_note_lengths(list(vals), standard_length=std, do_not_extend=dne)
    return s


def _impl_qnl(inp):
    return show_msgs(abs_of(qnl_apply(inp)))


Op("qnl", _gen_qnl, _impl_qnl,
   lambda inp: f"show_msgs (quantise_note_lengths {INS(inp[0])} {lit_zs(inp[1])} {z(inp[2])} {lit_bool(inp[3])})"
   if not (len(inp) > 4 and inp[4]) else
   f"show_res show_msgs (do s <- seq_quantise_and_normalise (mkseq {INS(inp[0])} [] false true) [1] {lit_zs(inp[1])} {z(inp[2])} {lit_bool(inp[3])}; "
   f"do '(_, a_) <- get_abs s; Ok a_)",
   lambda inp: any(m[0] == "NOTE_ON" for m in inp[0]))


# ---------------------------------------------------------------------------------------------- pairings
def _show_pairing(p):
    s = show_msg(from_message(p[0]))
    if len(p) > 1:
        s += ">" + show_msg(from_message(p[1]))
    return s


def _impl_pairings(inp):
    ms, types, std, imp = inp
    s = mk_abs(ms)
    d = s.abs.get_message_pairings([MT[t] for t in types], standard_length=std, impute_notes=imp)
    return "|".join(f"{ch}=" + ";".join(_show_pairing(p) for p in ps) for ch, ps in d.items())


def _gen_pairings(r):
    ms = _gen_quantise(r)[0]
    types = r.choice([["NOTE_ON", "NOTE_OFF"], ["NOTE_ON", "NOTE_OFF", "TIME_SIGNATURE", "KEY_SIGNATURE"],
                      ["NOTE_ON", "NOTE_OFF", "TIME_SIGNATURE", "INTERNAL"]])
    return ms, types, r.choice([24, 12]), r.random() < 0.8


def lit_types(ts):
    return "[" + "; ".join(ts) + "]"


Op("pairings", _gen_pairings, _impl_pairings,
   lambda inp: f"show_pairings (pairings_sorted {lit_types(inp[1])} {z(inp[2])} {lit_bool(inp[3])} (sort_abs {INS(inp[0])}))")


def _impl_interleaved(inp):
    ms, types, std, imp = inp
    s = mk_abs(ms)
    l = s.abs.get_interleaved_message_pairings([MT[t] for t in types], standard_length=std, impute_notes=imp)
    return ";".join(f"{ch}=" + _show_pairing(p) for ch, p in l)


Op("interleaved", _gen_pairings, _impl_interleaved,
   lambda inp: f"show_res show_interleaved (interleaved {lit_types(inp[1])} {z(inp[2])} {lit_bool(inp[3])} (sort_abs {INS(inp[0])}))")


# ---------------------------------------------------------------------------------------------- equals
def perturb(r, ms):
    """one single-attribute perturbation of a message list (or none)"""
    ms = list(ms)
    if not ms:
        return ms, "none"
    kind = r.choice(["none", "reorder", "pitch", "onset", "duration", "velocity", "channel", "sig", "sigden", "sigtick",
                     "key", "drop", "chan_all", "sig", "sigden", "key", "sigtick", "velocity_none"])
    if kind in ("sig", "sigden", "sigtick", "key"):
        want = "KEY_SIGNATURE" if kind == "key" else r.choice(["TIME_SIGNATURE", "KEY_SIGNATURE"]) if kind == "sigtick" else "TIME_SIGNATURE"
        cands = [j for j, x in enumerate(ms) if x[0] == want]
        if not cands:
            ms.append(TS(0, 3, 4, r.choice([0, 12, 48])) if want == "TIME_SIGNATURE" else KS(0, r.choice(G.KEYS), r.choice([0, 12, 48])))
            cands = [len(ms) - 1]
    i = r.randrange(len(ms))
    if kind in ("sig", "sigden", "sigtick", "key"):
        i = r.choice(cands)
    m = ms[i]
    if kind == "reorder":
        r.shuffle(ms)
    elif kind == "pitch" and m[0] in ("NOTE_ON",):
        j = next((j for j in range(len(ms)) if ms[j][0] == "NOTE_OFF" and ms[j][1] == m[1] and ms[j][4] == m[4] and ms[j][2] > m[2]), None)
        if j is not None:
            ms[i] = m[:4] + (m[4] + 1,) + m[5:]
            ms[j] = ms[j][:4] + (ms[j][4] + 1,) + ms[j][5:]
    elif kind == "onset" and m[0] == "NOTE_ON":
        ms[i] = m[:2] + (max(0, m[2] - 1),) + m[3:]
    elif kind == "duration" and m[0] == "NOTE_OFF":
        ms[i] = m[:2] + (m[2] + 1,) + m[3:]
    elif kind == "velocity" and m[0] == "NOTE_ON":
        ms[i] = m[:5] + (m[5] % 127 + 1,) + m[6:]
    elif kind == "velocity_none" and m[0] == "NOTE_ON":
        ms[i] = m[:5] + (-1,) + m[6:]                  # a note-on without velocity information (Message's default)
    elif kind == "channel":
        ms[i] = m[:1] + (m[1] + 1,) + m[2:]
    elif kind == "chan_all":
        ms = [x[:1] + (x[1] + 3,) + x[2:] for x in ms]
    elif kind == "sig" and m[0] == "TIME_SIGNATURE":
        ms[i] = m[:8] + (m[8] + 1,) + m[9:]
    elif kind == "sigden" and m[0] == "TIME_SIGNATURE":
        ms[i] = m[:9] + (m[9] * 2,) + m[10:]
    elif kind == "sigtick" and m[0] in ("TIME_SIGNATURE", "KEY_SIGNATURE"):
        ms[i] = m[:2] + (m[2] + 1,) + m[3:]
    elif kind == "key" and m[0] == "KEY_SIGNATURE":
        ms[i] = m[:10] + (G.KEYS[(G.KEYS.index(m[10]) + 1) % 15],)
    elif kind == "drop":
        del ms[i]
    return ms, kind


def _gen_equals(r):
    a = G.gen_abs_wf(r, chans=r.choice([[0], [0, 1]]), extra=False)
    if r.random() < 0.5:      # make sure signatures are present often
        a.append(TS(0, *r.choice(G.SIGS), r.choice([0, 0, 24, 96])))
        a.append(KS(0, r.choice(G.KEYS), r.choice([0, 0, 24, 96])))
    b, kind = perturb(r, a)
    flags = tuple(r.random() < 0.3 for _ in range(4))
    # last: the second sequence is assembled from the first one's Message OBJECTS wherever the content coincides
    return a, b, flags, kind, r.random() < 0.3


def mk_abs_pair(a, b, share):
    sa = mk_abs(a)
    if not share:
        return sa, mk_abs(b)
    pool = {}
    for m in sa.abs._messages:
        pool.setdefault(from_message(m), []).append(m)
    sb = Sequence()
    for t in b:
        objs = pool.get(tuple(t), [])
        sb.add_absolute_message(objs.pop() if objs else to_message(t))
    return sa, sb


def _impl_equals(inp):
    a, b, fl = inp[0], inp[1], inp[2]
    sa0, sb0 = mk_abs_pair(a, b, len(inp) > 4 and inp[4])
    res = sa0.equals(sb0, *fl)
    if not any(fl):
        # the operators: Sequence.__eq__, AbsoluteSequence.__eq__, RelativeSequence.__eq__ are equals() with all flags off;
        # anything that is not a sequence is unequal
        sa, sb = mk_abs(a), mk_abs(b)
        others = [mk_abs(a) == mk_abs(b), sa.abs == sb.abs, mk_abs(a).rel == mk_abs(b).rel]
        if mk_abs(a) == 1 or mk_abs(a).equals("x") or mk_abs(a).abs == None or mk_abs(a).rel == []:   # noqa: E711
            return "!operator accepts a non-sequence"
        if any(bool(x) != bool(res) for x in others):
            return f"!operators disagree with equals: {others} vs {res}"
    return "T" if res else "F"


Op("equals", _gen_equals, _impl_equals,
   lambda inp: f"show_res show_bool (equals {INS(inp[0])} {INS(inp[1])} {' '.join(lit_bool(x) for x in inp[2])})",
   lambda inp: inp[3] != "none")


# ---------------------------------------------------------------------------------------------- Bar
def _gen_bar(r):
    num, den = r.choice(G.SIGS)
    cap = num * 96 // den
    mode = r.random()
    ms = G.gen_rel_wf(r, hi=r.choice([max(1, cap // 2), cap, cap + 20]), sigs=False) if mode < 0.8 else G.gen_rel_malformed(r)
    # signatures: none / matching / conflicting / several
    k = r.choice([0, 0, 1, 1, 2, 3])
    for _ in range(k):
        a, b = (num, den) if r.random() < 0.6 else r.choice(G.SIGS)
        ms.insert(r.randrange(len(ms) + 1), TS(0, a, b))
    if r.random() < 0.3:
        d = sum(m[2] for m in ms if m[0] == "WAIT")
        if d < cap:
            ms.append(WT(0, r.choice([cap - d, cap - d + 1, max(1, cap - d - 1)])))
    return ms, num, den


def show_sig(n, d, k):
    return f"{n}/{d}/{'~' if k is None else k.value}"


def _impl_bar(inp):
    ms, num, den = inp
    s = mk_rel_junk(ms)
    try:
        b = Bar(s, num, den)
    except Exception as e:
        return show_exc(e) + "@" + show_seq(s)
    assert b.sequence is s
    c = b.copy()
    cs = show_sig(c.time_signature_numerator, c.time_signature_denominator, c.key_signature) + "=" + show_msgs(rel_of(c.sequence))
    return "ok@" + show_seq(s) + "@" + cs


def _coq_bar(inp):
    ms, num, den = inp
    return (f"(let '(r, e) := bar_init_full {lit_msgs(ms)} {z(num)} {z(den)} in "
            f"match e with Some e' => \"!\" ++ show_err e' ++ \"@\" ++ show_seq (mkseq [] r true false) "
            f"| None => \"ok@\" ++ show_seq (mkseq [] r true false) ++ \"@\" ++ "
            f"show_res (fun r' => show_bar (mkbar r' {z(num)} {z(den)} None)) (bar_init r {z(num)} {z(den)}) end)")


Op("bar", _gen_bar, _impl_bar, _coq_bar)


# ---------------------------------------------------------------------------------------------- split_bars
def gen_piece_tracks(r, ntracks=None, aligned=True):
    """tracks (relative lists); time signatures on bar boundaries of the running grid, on the meta track"""
    ntracks = ntracks or r.choice([1, 1, 2, 3])
    nbars = r.randint(0, 4) if r.random() < 0.85 else r.randint(4, 7)
    sig, t, metas = (4, 4), 0, []
    bounds = []
    key, restate = None, r.random() < 0.3      # restate: sections joined with concatenate restate the key in force
    for b in range(nbars):
        if r.random() < (0.5 if b == 0 else 0.3):
            sig = r.choice(G.SIGS)
            metas.append(TS(0, sig[0], sig[1], t))
        if r.random() < (0.6 if restate else 0.25):
            if not (restate and key is not None and r.random() < 0.5):
                key = r.choice(G.KEYS)
            metas.append(KS(0, key, t if aligned or r.random() < 0.5 else t + 1))
        bounds.append(t)
        t += sig[0] * 96 // sig[1]
    total = t
    tracks = []
    for i in range(ntracks):
        hi = r.choice([total, total, max(0, total - 30), total // 2]) if total else 0
        notes = G.gen_notes(r, n=r.randint(0, 6), chans=[i], pitches=[60, 61, 62, 64], hi=max(hi, 1)) if hi > 0 else []
        ms = []
        for c, p, on, d, v in notes:
            ms += [ON(c, p, v, on), OFF(c, p, on + d)]
        tracks.append(ms)
    meta = r.randrange(ntracks)
    tracks[meta] = tracks[meta] + metas
    return tracks, meta


def _gen_splitbars(r):
    tracks, meta = gen_piece_tracks(r, aligned=r.random() < 0.8)
    rels = []
    for ms in tracks:
        rel = G.abs_to_rel(ms)
        if r.random() < 0.4:
            rel.append(WT(0, r.choice([1, 12, 24, 96])))
        rels.append(rel)
    return rels, meta, r.random() < 0.5


def _impl_splitbars(inp):
    rels, meta, qnl = inp
    ss = [mk_rel(ms) for ms in rels]
    for s in ss:
        s.refresh()
    before = [show_seq(s) for s in ss]
    bars = Sequence.sequences_split_bars(ss, meta_track_index=meta, quantise_note_lengths=qnl)
    assert [show_seq(s) for s in ss] == before, "sequences_split_bars changed its inputs"
    return "|".join("&".join(show_sig(b.time_signature_numerator, b.time_signature_denominator, b.key_signature) + "=" +
                             show_msgs(rel_of(b.sequence)) for b in t) for t in bars)


def _coq_splitbars(inp):
    rels, meta, qnl = inp
    return f"show_bars (split_bars {lit_msgss(rels)} (to_abs {lit_msgs(rels[meta])}) {lit_bool(qnl)})"


Op("split_bars", _gen_splitbars, _impl_splitbars, _coq_splitbars,
   lambda inp: sum(len(x) for x in inp[0]) > 3)


# ---------------------------------------------------------------------------------------------- util
def _impl_util(inp):
    from scoda.misc import util
    kind, a = inp
    if kind == "defaults":
        # the returned lists belong to the caller: editing them must not change what later calls return
        for f_ in (util.get_default_note_values, util.get_default_step_sizes, util.get_velocity_bins):
            l_ = f_()
            l_.sort()
            l_.append(999)
            del l_[0]
        return ",".join(map(str, util.get_default_note_values())) + "/" + ",".join(map(str, util.get_default_step_sizes())) + \
            "/" + ",".join(map(str, util.get_default_step_sizes(lower_bound_shift=1)))
    if kind == "vbins":
        return ",".join(str(int(x)) for x in util.get_velocity_bins(velocity_bins=a))
    if kind == "binvel":
        n, v = a
        bins = [int(x) for x in util.get_velocity_bins(velocity_bins=n)]
        return str(util.bin_velocity(v, bins))
    if kind == "fmd":
        e, l = a
        return str(util.find_minimal_distance(e, list(l)))
    if kind == "durs":
        ub, lb = a
        return ",".join(map(str, util.get_note_durations(ub, lb)))      # str() keeps 24 and 24.0 apart (C11)
    if kind == "steps":
        ubs, lbs = a
        return ",".join(map(str, util.get_default_step_sizes(upper_bound_shift=ubs, lower_bound_shift=lbs)))
    if kind == "dotted":
        ds, it = a
        return ",".join(map(str, util.get_dotted_note_durations(list(ds), it)))
    if kind == "tuplet":
        ds, rn, rd = a
        return ",".join(map(str, util.get_tuplet_durations(list(ds), rn, rd)))


def _gen_util(r):
    k = r.choice(["defaults", "vbins", "vbins", "binvel", "binvel", "fmd", "fmd", "durs", "steps", "dotted", "tuplet"])
    if k == "dotted":      # odd durations: the dotted value is not integral and is skipped
        return k, ([r.choice([96, 48, 24, 12, 6, 3, 1, 5, 36, 18, 9, 10, 2]) for _ in range(r.randint(0, 5))], r.choice([0, 1, 1, 2, 3]))
    if k == "tuplet":
        return k, ([r.choice([96, 48, 24, 12, 6, 3, 1, 5, 36, 7]) for _ in range(r.randint(0, 5))], r.choice([3, 3, 5, 7, 2]), r.choice([2, 2, 4, 1, 3]))
    if k == "steps":
        return k, (r.choice([0, 1, 2]), r.choice([0, 1, 2]))
    if k == "defaults":
        return k, None
    if k == "vbins":
        return k, r.choice([1, 2, 3, 4, 5, 8, 16, 32, 64, 100, 127, 128, r.randint(1, 140)])
    if k == "binvel":
        return k, (r.choice([1, 2, 3, 4, 5, 8, 16, 32, 127]), r.randint(0, 127))
    if k == "fmd":
        if r.random() < 0.15:      # distances beyond 2^31 (ticks of a very long held note against small note values)
            return k, (r.choice([3 * 10 ** 9, 5 * 10 ** 12, 0]), r.sample([24, 48, 96, 2 ** 31 + 5, 4 * 10 ** 9, 10 ** 13], r.randint(1, 4)))
        return k, (r.randint(0, 40), [r.randint(0, 40) for _ in range(r.randint(1, 6))])
    return k, (r.choice([1, 2, 4, 8, 3]), r.choice([1, 2, 4, 8, 16]))


def _coq_util(inp):
    kind, a = inp
    if kind == "defaults":
        return ("(show_Zs get_default_note_values ++ \"/\" ++ show_Zs (get_default_step_sizes 0 0) ++ \"/\" ++ "
                "show_Zs (get_default_step_sizes 0 1))")
    if kind == "vbins":
        return f"show_Zs (velocity_bins {a})"
    if kind == "binvel":
        return f"show_Z (bin_velocity {a[1]} (velocity_bins {a[0]}))"
    if kind == "fmd":
        return f"show_Z (find_minimal_distance {a[0]} {lit_zs(a[1])})"
    if kind == "steps":
        return f"show_Zs (get_default_step_sizes {a[0]} {a[1]})"
    if kind == "dotted":
        return f"show_Zs (get_dotted_note_durations {lit_zs(a[0])} {a[1]})"
    if kind == "tuplet":
        return f"show_Zs (get_tuplet_durations {lit_zs(a[0])} {a[1]} {a[2]})"
    return f"show_Zs (get_note_durations {a[0]} {a[1]} PPQN)"


Op("util", _gen_util, _impl_util, _coq_util)


# ---------------------------------------------------------------------------------------------- tokeniser
from scoda.tokenisation.notelike_tokenisation import MultiTrackLargeVocabularyNotelikeTokeniser as Tokeniser
import math

TOK_SIGS = [(4, 4), (3, 4), (2, 4), (6, 8), (5, 8), (2, 2), (12, 8), (3, 16), (7, 8), (9, 16), (8, 8), (2, 8),
            (4, 2), (2, 1), (8, 4), (16, 8), (1, 4), (4, 16), (4, 2), (16, 8)]   # both ends of the signature range (2 and 16 eighths)


HIRES_STEPS = [[120, 240, 480, 960, 1920], [480, 1920], [240, 480, 960], [1920]]
HIRES_VALUES = [[120, 240, 480, 960, 1920], [480, 960, 1920, 3840], [240, 1440], [1920]]


def gen_cfg(r, small=True, valid_bins=False, hires=True):
    nt = r.choice([1, 1, 2, 3, 4])
    pr = r.choice([(60, 64), (58, 66), (60, 61), (21, 108)] if not small else [(60, 64), (58, 66), (60, 61), (60, 72)])
    steps = r.choice([None, None, None, [12, 24], [6, 12, 24], [2, 4, 8, 16], [3, 6, 12, 24, 48], [24], [24, 12], [16, 2, 8, 4], [12, 12, 24]])
    values = r.choice([None, None, None, [12, 24], [6, 12, 24, 48], [4, 8, 16], [24], [24, 12], [48, 6, 24, 12], [12, 12]])
    nb = r.choice([1, 1, 2, 3, 4, 5, 8, 8, 16, 127, 7, 12] + ([] if valid_bins else [100, 128, 60, 19, 23, 64]))
    flags = tuple(r.random() < 0.5 for _ in range(5))   # running, fuse_track, fuse_value, fuse_velocity, simplify
    size = (nt if flags[1] else 1) * (pr[1] - pr[0] + 1) * ((len(values) if values else 9) if flags[2] else 1) * \
        (nb if flags[3] else 1)
    if size > 2500:      # keep one vocabulary small enough to be rendered inside Coq in about a second
        return gen_cfg(r, small, valid_bins, hires)
    tsr = r.choice([(2, 16)] * 6 + [(2, 8), (4, 12), (1, 32), (8, 8)])
    ppqn = r.choice([24] * 10 + [48, 12, 15, 25])
    if hires and r.random() < 0.12:
        # a MIDI-file resolution (480 ticks per quarter note): step sizes and note values with four digits
        ppqn, steps, values = 480, r.choice(HIRES_STEPS), r.choice(HIRES_VALUES)
    elif hires and r.random() < 0.05:
        steps, values = r.choice([[12, 24, 1200], steps]), r.choice([[12, 24, 1008], values])
    return (nt, pr[0], pr[1], steps, values, nb) + flags + (ppqn, tsr)


def mk_tok(cfg):
    nt, lo, hi, steps, values, nb, run, ft, fv, fw, simp = cfg[:11]
    ppqn = cfg[11] if len(cfg) > 11 else None
    tsr = tuple(cfg[12]) if len(cfg) > 12 else (2, 16)
    return Tokeniser(ppqn=ppqn, time_signature_range=tsr, num_tracks=nt, pitch_range=(lo, hi), step_sizes=list(steps) if steps else None,
                     note_values=list(values) if values else None, velocity_bins=nb, flag_running_values=run,
                     flag_fuse_track=ft, flag_fuse_value=fv, flag_fuse_velocity=fw, flag_simplify_time_signature=simp)


def lit_cfg(cfg):
    nt, lo, hi, steps, values, nb, run, ft, fv, fw, simp = cfg[:11]
    ppqn = cfg[11] if len(cfg) > 11 else 24
    tsr = cfg[12] if len(cfg) > 12 else (2, 16)
    o = lambda l: f"(Some {lit_zs(l)})" if l else "None"
    return (f"(make_cfg_full {tsr[0]} {tsr[1]} {ppqn} {nt} {lo} {hi} {o(steps)} {o(values)} {nb} {lit_bool(run)} {lit_bool(ft)} {lit_bool(fv)} "
            f"{lit_bool(fw)} {lit_bool(simp)})")


def _impl_vocab(cfg):
    t = mk_tok(cfg)
    n = t.dictionary_size
    return f"{n}#" + " ".join(t.inverse_dictionary.get(i, "?") for i in range(n))


Op("vocab", lambda r: gen_cfg(r), _impl_vocab, lambda cfg: f"show_vocab {lit_cfg(cfg)}")


def cfg_steps(cfg):
    return sorted(set(cfg[3])) if cfg[3] else [2, 3, 4, 6, 8, 12, 16, 24]


def cfg_values(cfg):
    return sorted(set(cfg[4])) if cfg[4] else [4, 6, 8, 9, 12, 16, 18, 24, 36]


def gen_piece(r, cfg, valid=True, nbars=None, meta_first=False, single_sig=False):
    """tracks as relative lists + the bar grid; valid pieces satisfy the tokeniser's input constraints"""
    nt, lo, hi = cfg[0], cfg[1], cfg[2]
    steps, values = cfg_steps(cfg), cfg_values(cfg)
    unit = steps[0] if all(s % steps[0] == 0 for s in steps) else math.gcd(*steps)
    if not cfg[3]:
        unit = 2
    nbars = r.randint(0, 4) if nbars is None else nbars
    W = 1920 if len(cfg) > 11 and cfg[11] == 480 else 96      # ticks of a whole note on the grid the piece is written on
    sig, t, metas, bounds = (4, 4), 0, [], []
    for b in range(nbars):
        if (r.random() < (0.5 if b == 0 else 0.3)) if not single_sig else b == 0:     # single_sig: one signature, at tick 0
            cands = [s for s in TOK_SIGS if (W * s[0] // s[1]) % unit == 0] or [(4, 4)]
            sig = r.choice(cands)
            metas.append(TS(0, sig[0], sig[1], t))
        bounds.append(t)
        t += W * sig[0] // sig[1]
    total = t
    tracks = []
    meta_track = 0 if (meta_first or r.random() < 0.6) else r.randrange(nt)     # the signature map may live in any track
    # sometimes the piece ends with notes that all start exactly on the last bar line (a final downbeat chord)
    downbeat_end = bool(bounds) and r.random() < 0.3
    limit = bounds[-1] if downbeat_end and bounds[-1] > 0 else total
    for i in range(nt):
        notes, busy = [], {}
        n = r.randint(0, 6) if total else 0
        if downbeat_end and r.random() < 0.7:
            d0 = r.choice(values)
            notes.append((i, r.randint(lo, min(hi, lo + 3)), bounds[-1], d0, r.choice(G.VELS)))
            busy.setdefault(notes[-1][1], []).append((bounds[-1], bounds[-1] + d0))
        for _ in range(n):
            p = r.randint(lo, min(hi, lo + 3))
            on = r.randrange(0, limit, unit) if valid or r.random() < 0.8 else r.randrange(0, limit)
            d = r.choice(values) if valid or r.random() < 0.8 else r.choice([5, 7, 1])
            if not valid and r.random() < 0.1:
                p = hi + 1
            if any(on < e and s < on + d for s, e in busy.get(p, [])) or any(on == s for s, e in busy.get(p, [])):
                continue
            busy.setdefault(p, []).append((on, on + d))
            notes.append((i, p, on, d, r.choice(G.VELS)))
        ms = []
        for c, p, on, d, v in notes:
            ms += [ON(c, p, v, on), OFF(c, p, on + d)]
        if i == meta_track:
            ms += metas
        rel = G.abs_to_rel(ms)
        dur = sum(m[2] for m in rel if m[0] == "WAIT")
        mode = r.random() if not downbeat_end else 0.9
        if mode < 0.5 and dur < total:
            rel.append(WT(i, total - dur))          # bar-shaped: capped at the end of the last bar
        elif mode < 0.6 and dur + unit <= total:
            rel.append(WT(i, r.randrange(unit, total - dur + 1, unit)))
        tracks.append(rel)
    return tracks


def show_state(d):
    ks = ["cur_time", "cur_time_bar", "cur_time_signature_numerator", "cur_time_signature_denominator",
          "cur_bar_capacity_remaining", "prv_track", "prv_value", "prv_velocity"]
    return ",".join(str(d[k]) for k in ks)


def _abs_of_track(ms, how):
    """absolute tuples of a track given as a relative list.  'abs0': every message on channel 0; 'absmix': the notes of
    odd pitch on the next channel, except that the first message keeps the track's channel (a track that mixes
    channels: tokenise stamps its own track number on all of it)"""
    a, d = [], 0
    for m in ms:
        if m[0] == "WAIT":
            d += m[2]
        else:
            ch = 0 if how == "abs0" else m[1]
            if how == "absmix" and a and m[4] % 2 == 1:
                ch = m[1] + 1
            a.append(m[:1] + (ch,) + (d,) + m[3:])
    return a


def mk_track(ms, how):
    """how: 'rel' (relative view given), 'abs' (built with add_absolute_message: absolute view fresh),
    'abs0' (same, every message on channel 0), 'read' (relative given, then the absolute view is read)"""
    if how == "rel":
        return mk_rel(ms)
    if how == "read":
        s = mk_rel(ms)
        s.abs
        return s
    return mk_abs(_abs_of_track(ms, how))


def track_rel_lit(ms, how):
    """the relative list the model starts from, as a Coq term"""
    if how in ("rel", "read"):
        return lit_msgs(ms)
    return f"(to_rel {INS(_abs_of_track(ms, how))})"


def init_state(inp):
    """inp[3]: running values (track, value, velocity) an earlier call -- possibly of another tokeniser -- left in the state"""
    if len(inp) > 3 and inp[3] is not None:
        return {"prv_track": inp[3][0], "prv_value": inp[3][1], "prv_velocity": inp[3][2]}
    return {}


def _impl_roundtrip_tok(inp):
    cfg, tracks = inp[0], inp[1]
    hows = inp[2] if len(inp) > 2 else ["rel"] * len(tracks)
    t = mk_tok(cfg)
    seqs = [mk_track(ms, h) for ms, h in zip(tracks, hows)]
    sd = init_state(inp)
    toks = t.tokenise(seqs, state_dict=sd)
    out = " ".join(toks) + "#" + show_state(sd) + "#"
    try:
        ids = t.encode(toks)
    except Exception as e:
        return out + show_exc(e)
    out += ",".join(map(str, ids)) + "#"
    try:
        back = t.decode(ids)
    except Exception as e:
        return out + show_exc(e)
    try:
        res = t.detokenise(back)
    except Exception as e:
        return out + show_exc(e)
    return out + show_msgss([stored_abs(s) for s in res])


def _gen_rt(r):
    cfg = gen_cfg(r)
    tracks = gen_piece(r, cfg, valid=r.random() < 0.8)
    if r.random() < 0.012 and cfg[11] == 24:
        # a general pause of 1200 short bars between two notes (one uninterrupted rest crossing every bar line)
        cfg = cfg[:3] + ([12, 24], [12, 24]) + cfg[5:]
        tracks = [[TS(0, 2, 8), ON(0, cfg[1], 100), WT(0, 12), OFF(0, cfg[1]), WT(0, 12 + 24 * 1200), ON(0, cfg[1], 100), WT(0, 12), OFF(0, cfg[1])]] + \
                 [[] for _ in tracks[1:]]
    if r.random() < 0.04:       # a wrong number of sequences for the configured number of tracks
        tracks = tracks[:-1] if r.random() < 0.5 else tracks + [tracks[0]]
    # tracks without a trailing rest can be handed over through the absolute view as well
    hows = [r.choice(["rel", "rel", "abs", "abs0", "read", "absmix"]) if not (ms and ms[-1][0] == "WAIT") else r.choice(["rel", "read"])
            for ms in tracks]
    st = None
    if r.random() < 0.15:
        st = (r.choice([-1, 0, 1, cfg[0] - 1, 7]), r.choice([-1, 12, 24, 36, 5, 48, 6]), r.choice([-1, 127, 64, 100, 8]))
    if r.random() < 0.06:
        # the state was left behind by a tokeniser with other note values: its running value is one this configuration
        # does not know, and the piece opens with a note of exactly that length
        bad = [v for v in (5, 7, 36, 48, 1) if v not in cfg_values(cfg)]
        if bad and tracks:
            v = r.choice(bad)
            tracks = [[ON(0, cfg[1], 100), WT(0, v), OFF(0, cfg[1])] + [m for m in tracks[0] if m[0] == "WAIT"][:1]] + tracks[1:]
            hows = ["rel"] + hows[1:]
            st = (0, v, r.choice([-1, 127]))
    return cfg, tracks, hows, st


Op("tok_roundtrip", _gen_rt, _impl_roundtrip_tok,
   lambda inp: (f"roundtrip {lit_cfg(inp[0])} [" if len(inp) < 4 or inp[3] is None else
                f"roundtrip_from {lit_cfg(inp[0])} {z(inp[3][0])} {z(inp[3][1])} {z(inp[3][2])} [")
   + "; ".join(track_rel_lit(ms, h) for ms, h in zip(inp[1], inp[2])) + "]",
   lambda inp: sum(len(t) for t in inp[1]) > 4)


def partition(r, n):
    cuts, k = [], 0
    while k < n:
        step = r.choice([1, 1, 2, 3])
        cuts.append((k, min(n, k + step)))
        k += step
    return cuts


def _gen_stateful(r):
    cfg = gen_cfg(r, valid_bins=True, hires=False)     # the bars come from sequences_split_bars, i.e. the library's PPQN
    single = r.random() < 0.3        # one (usually non-4/4) signature at tick 0: chunks cut with split carry none of their own
    if single and not cfg[3]:
        cfg = cfg[:3] + ([12, 24],) + cfg[4:]
    tracks = gen_piece(r, cfg, valid=True, nbars=r.randint(3, 5) if single else r.randint(1, 5), meta_first=True, single_sig=single)
    if r.random() < 0.4:         # every track on MIDI channel 0 (as loaded from most files): tokenise re-channels them
        tracks = [[m[:1] + (0,) + m[2:] for m in ms] for ms in tracks]
    seed = r.randrange(1 << 30)
    # nobar: call tokenise with insert_bar_token=False; shared: the README's usage -- the bars have been inspected
    # (absolute views materialised), the whole piece is re-joined from the SAME bar objects and tokenised first, and
    # a group of one bar hands over bar.sequence itself
    return cfg, tracks, seed, r.random() < 0.3, r.random() < 0.4


def _bars_of(tracks):
    ss = [mk_rel(ms) for ms in tracks]
    return Sequence.sequences_split_bars(ss, meta_track_index=0)


def _impl_stateful(inp):
    cfg, tracks, seed = inp[0], inp[1], inp[2]
    nobar = len(inp) > 3 and inp[3]
    shared = len(inp) > 4 and inp[4]
    t = mk_tok(cfg)
    bars = _bars_of(tracks)
    nb = len(bars[0])
    groups = partition(random.Random(seed), nb)
    sd, out = {}, ""
    whole_first = None
    if shared:
        for tb in bars:
            for b_ in tb:
                try:
                    b_.sequence.get_sequence_duration()      # an abs-based public read
                except IndexError:
                    pass
        try:
            whole_first = "%" + " ".join(t.tokenise([Bar.to_sequence(tb) for tb in bars], insert_bar_token=not nobar))
        except Exception as e:
            whole_first = "%" + show_exc(e)
    for a, b in groups:
        seqs = [(tb[a].sequence if shared and b - a == 1 else Bar.to_sequence(tb[a:b])) for tb in bars]
        try:
            toks = t.tokenise(seqs, state_dict=sd, insert_bar_token=not nobar)
        except Exception as e:
            out += show_exc(e)
            break
        out += " ".join(toks) + "#" + show_state(sd) + "$"
    # the other side of the property: the whole piece in ONE call, without a state dictionary
    if whole_first is not None:
        return out + whole_first
    try:
        whole = t.tokenise([Bar.to_sequence(tb) for tb in _bars_of(tracks)], insert_bar_token=not nobar)
        out += "%" + " ".join(whole)
    except Exception as e:
        out += "%" + show_exc(e)
    return out


def _coq_stateful(inp):
    cfg, tracks, seed = inp[0], inp[1], inp[2]
    nb_ = "true" if (len(inp) > 3 and inp[3]) else "false"
    # the grouping is decided by the number of bars, which the model computes itself; the harness passes the cuts
    bars = _bars_of(tracks)
    nb = len(bars[0])
    groups = partition(random.Random(seed), nb)
    cuts = "[" + "; ".join(f"({a}%nat, {b}%nat)" for a, b in groups) + "]"
    return (f"(match split_bars {lit_msgss(tracks)} (to_abs {lit_msgs(tracks[0])}) true with "
            f"| Err e => \"!\" ++ show_err e "
            f"| Ok bars => tokenise_calls_nb {nb_} {lit_cfg(cfg)} (tstate0 {lit_cfg(cfg)}) "
            f"(map (fun ab : nat * nat => map (fun tb : list bar => concat (map b_rel (firstn (snd ab - fst ab) (skipn (fst ab) tb)))) bars) {cuts}) "
            f"++ \"%\" ++ tokenise_ns_nb {nb_} {lit_cfg(cfg)} (map (fun tb : list bar => concat (map b_rel tb)) bars) end)")


Op("tok_stateful", _gen_stateful, _impl_stateful, _coq_stateful)


def _gen_stream(r):
    cfg = gen_cfg(r, valid_bins=True)
    t = mk_tok(cfg)
    keys = list(t.dictionary.keys())
    notes = [k for k in keys if "pit" in k]
    rests = [k for k in keys if k.startswith("rst")]
    tsgs = [k for k in keys if k.startswith("tsg")]
    others = [k for k in keys if "pit" not in k and not k.startswith("rst")]
    toks = []
    if r.random() < 0.5:
        n = r.randint(0, 14)
        for _ in range(n):
            x = r.random()
            toks.append(r.choice(notes) if x < 0.4 else r.choice(rests) if x < 0.65 else r.choice(others))
    else:
        # structured streams: bars filled exactly / overfull / partly by rests, signature tokens right before or after
        # the bar token, notes in between (what a generative model typically emits)
        steps = sorted(int(k.split("_")[1]) for k in rests)
        cap = 96
        for _ in range(r.randint(1, 4)):
            fill = r.choice([cap, cap, cap - steps[0], cap + steps[0], cap // 2, 0])
            left = fill
            while left > 0:
                cands = [s_ for s_ in steps if s_ <= left] or [steps[0]]
                s_ = r.choice(cands[-2:])
                toks.append(f"rst_{s_:02}")
                left -= s_
                if r.random() < 0.25:
                    toks.append(r.choice(notes))
            order = r.choice(["tsg-bar", "bar-tsg", "bar", "tsg", "none"])
            tk = r.choice(tsgs)
            if order == "tsg-bar":
                toks += [tk, "bar"]
            elif order == "bar-tsg":
                toks += ["bar", tk]
                cap = 12 * int(tk.split("_")[1])
            elif order == "bar":
                toks.append("bar")
            elif order == "tsg":
                toks.append(tk)
            if r.random() < 0.6:
                toks.append(r.choice(notes))
    return cfg, toks


def _show_info(d):
    def ann(p, c):
        if isinstance(p, float) and math.isnan(p):
            return "n"
        return f"{p}/{c}"
    return (",".join(map(str, d["info_position"])) + "#" + ",".join(map(str, d["info_time"])) + "#" +
            ",".join(map(str, d["info_time_bar"])) + "#" +
            ",".join(ann(p, c) for p, c in zip(d["info_pitch"], d["info_circle_of_fifths"])))


def mk_tok_used(cfg, toks):
    """for streams of even length: the tokeniser was built at another resolution, has annotated a stream already and then
    had its public ppqn attribute set (the vocabulary does not depend on it)"""
    if len(toks) % 2 or len(cfg) < 12:
        return mk_tok(cfg)
    t = mk_tok(cfg[:11] + (12 if cfg[11] != 12 else 48,) + cfg[12:])
    t.get_info(list(toks))
    t.ppqn = cfg[11]
    return t


def _impl_stream(inp):
    cfg, toks = inp
    t = mk_tok_used(cfg, toks)
    try:
        res = show_msgss([stored_abs(s) for s in t.detokenise(list(toks))])
    except Exception as e:
        res = show_exc(e)
    return res + "#" + _show_info(t.get_info(list(toks))) + "#" + _show_info(t.get_info(list(toks), flag_impute_values=True))


Op("tok_stream", _gen_stream, _impl_stream,
   lambda inp: f"detok_strings {lit_cfg(inp[0])} [" + "; ".join(lit_str(s) for s in inp[1]) + "]",
   lambda inp: len(inp[1]) > 2)


# ---------------------------------------------------------------------------------------------- histories (Store.v)
FIELDS = {"FTime": "time", "FChan": "channel", "FNote": "note", "FVel": "velocity", "FNum": "numerator", "FDen": "denominator"}


def gen_history(r, nsteps=None, two_sided=False):
    """a list of operations over a growing store of Sequence objects; returns the op list (python tuples)"""
    nsteps = nsteps or r.randint(1, 12)
    ops, n = [], 0
    kinds = [None]  # kinds[i]: 'seq' | 'bar:(num,den)'
    kinds = []

    def new():
        nonlocal n
        x = r.random()
        if x < 0.45:
            ops.append(("ONewAbs", G.gen_abs_wf(r, n=r.randint(0, 4), pitches=[60, 61, 62], hi=r.choice([40, 100]), extra=False)))
        elif x < 0.9:
            ops.append(("ONewRel", G.gen_rel_wf(r, n=r.randint(0, 4), pitches=[60, 61, 62], hi=r.choice([40, 100]), extra=False)))
        else:
            ops.append(("ONew",))
        n += 1

    new()
    if two_sided or r.random() < 0.3:
        new()
    for _ in range(nsteps):
        i = r.randrange(n)
        k = r.choice(["OAddAbs", "OAddRel", "OConcat", "OConcatLit", "OMerge", "OCutoff", "ONormalise", "OPad",
                      "OSetChannel", "OOverwriteAbs", "OOverwriteRel", "OSplit", "OScale", "OTranspose", "OQuantise",
                      "OQnl", "OQuantNorm", "ORefresh", "OReadAbs", "OReadRel", "OEquals", "OPairings", "ODuration",
                      "OEditAbs", "OEditRel", "OCopy", "OCopy", "OBarInit", "OBarCopy", "OSplitBars", "new",
                      "OReadAbs", "OReadRel", "ONormalise", "OTranspose", "OQuantDefault", "OQnlDefault", "OQuantNormDefault",
                      "OScaleQ", "OScaleDown", "OOverwriteSelf", "OOverwriteBad"])
        if k == "new":
            new()
        elif k == "OCopy":
            ops.append((k, i))
        elif k == "OAddAbs":
            m = r.choice([ON(r.choice([0, 1]), r.choice([60, 61]), 90, G.tick(r)), OFF(r.choice([0, 1]), r.choice([60, 61]), G.tick(r)),
                          TS(0, *r.choice(G.SIGS), G.tick(r)), KS(0, r.choice(G.KEYS), G.tick(r))])
            ops.append((k, i, m))
        elif k == "OAddRel":
            m = r.choice([ON(r.choice([0, 1]), r.choice([60, 61]), 90), OFF(r.choice([0, 1]), r.choice([60, 61])),
                          WT(0, r.choice([1, 6, 12, 24])), TS(0, *r.choice(G.SIGS)), KS(0, r.choice(G.KEYS))])
            ops.append((k, i, m, r.choice([None, None, 0, 1, 2, -1, 5])))
        elif k in ("OConcat", "OMerge"):
            js = list(dict.fromkeys(j for j in (r.randrange(n) for _ in range(r.choice([1, 1, 2]))) if j != i))
            ops.append((k, i, js))
        elif k == "OConcatLit":
            ops.append((k, i, [G.gen_rel_wf(r, n=r.randint(0, 2), pitches=[60, 61], hi=30, extra=False) for _ in range(r.choice([1, 2]))]))
        elif k == "OCutoff":
            m = r.choice([6, 12, 24, 11])
            ops.append((k, i, m, r.choice([m, 1, max(1, m // 2)])))
        elif k in ("ONormalise", "ORefresh", "OReadAbs", "OReadRel", "OPairings", "ODuration"):
            ops.append((k, i))
        elif k == "OPad":
            ops.append((k, i, r.choice([0, 12, 48, 96, 100, 200])))
        elif k == "OSetChannel":
            ops.append((k, i, r.choice([0, 1, 2, 3, 17])))
        elif k == "OOverwriteAbs":
            ops.append((k, i, G.gen_abs_wf(r, n=r.randint(0, 3), pitches=[60, 61], hi=40, extra=False)))
        elif k == "OOverwriteRel":
            ops.append((k, i, G.gen_rel_wf(r, n=r.randint(0, 3), pitches=[60, 61], hi=40, extra=False)))
        elif k == "OSplit":
            caps = G.gen_caps(r)
            # the model's split does not track the int/float type of the remaining capacity (Seq.v): objects that carry
            # float waits (after scale(1/k)) are read instead
            ops.append((k, i, caps) if not _has_float(ops, i) else ("OReadRel", i))
            # number of pieces is not known here: the executor appends as many kinds as pieces
        elif k == "OScale":
            ops.append((k, i, r.randint(1, 4)))
        elif k == "OOverwriteSelf":
            view, keep = r.choice(["abs", "abs", "rel"]), r.choice(list(KEEP))
            try:
                ops.append((k, i, view, keep, _own_messages(ops, i, view, keep)))
            except Exception:
                pass
        elif k == "OOverwriteBad":
            ops.append((k, i, ON(0, 61, 90, G.tick(r))))
        elif k == "OScaleQ":
            ops.append((k, i, r.randint(1, 3)))
        elif k == "OScaleDown":
            ops.append((k, i, r.choice([2, 2, 4]), r.choice([None, i, r.randrange(n)]), r.random() < 0.5))
            if not _integral(ops):
                ops.pop()
        elif k in ("OQuantDefault", "OQnlDefault", "OQuantNormDefault"):
            ops.append((k, i))
        elif k == "OTranspose":
            ops.append((k, i, r.choice([0, 1, -1, 2, 12, -12, 7, 50, -50, 13])))
        elif k == "OQuantise":
            prev = [o[2] for o in ops if o[0] == "OQuantise" and o[1] == i]
            ops.append((k, i, prev[-1] if prev and r.random() < 0.5 else r.choice(G.STEP_POOLS)))   # often the same grid again
        elif k == "OQnl":
            ops.append((k, i, r.choice(G.VALUE_POOLS), r.choice([24, 12]), r.random() < 0.5))
        elif k == "OQuantNorm":
            ops.append((k, i, r.choice(G.STEP_POOLS), r.choice(G.VALUE_POOLS)))
        elif k == "OEquals":
            ops.append((k, i, r.randrange(n)) + tuple(r.random() < 0.3 for _ in range(4)))
        elif k in ("OEditAbs", "OEditRel"):
            # edits must stay well-typed (a pitch only on note messages, a time only on waits in the relative view):
            # look at the messages the iteration will yield, on a throw-away execution of the history so far
            store, _ = _exec(ops, return_store=True)
            try:
                view = store[i].abs._messages if k == "OEditAbs" else store[i].rel._messages
            except Exception:
                view = []
            es = []
            for _ in range(r.choice([1, 1, 2, 3])):
                if not view:
                    break
                j = r.randrange(len(view))
                m = view[j]
                isnote = m.message_type in (MT.NOTE_ON, MT.NOTE_OFF)
                fields = ["FChan"] + (["FNote"] if isnote else []) + (["FVel"] if m.message_type == MT.NOTE_ON else [])
                if k == "OEditAbs" or m.message_type == MT.WAIT:
                    fields.append("FTime")
                f = r.choice(fields)
                v = {"FTime": r.choice([0, 6, 12, 13, 30, 50]), "FChan": r.choice([0, 1, 2]), "FNote": r.choice([60, 61, 62]),
                     "FVel": r.choice([1, 64, 127])}[f]
                es.append((j, f, v))
            # peek: read the OTHER view while holding a yielded message, then edit it (the per-yield invalidation
            # exists to make exactly this safe); the model op is the same with or without peeking
            ops.append((k, i, es, r.random() < 0.4, r.random() < 0.35))
        elif k in ("OBarInit", "OBarCopy"):
            ops.append((k, i) + r.choice([(4, 4), (4, 4), (3, 4), (6, 8), (2, 2)]))
            if k == "OBarCopy":
                pass
        elif k == "OSplitBars":
            is_ = list(dict.fromkeys(r.randrange(n) for _ in range(r.choice([1, 1, 2]))))
            is_ = [j for j in is_ if not _has_float(ops, j)]        # bar splitting is built on split (see OSplit)
            if is_:
                ops.append((k, is_, r.randrange(len(is_)), r.random() < 0.5))
        # the executor tells how many objects an op appended; the generator must know n: recompute by dry run
        try:
            n = _dry_count(ops)
        except StopGen:
            break
    if r.random() < 0.2 and n:
        # quantise, move events in place on the absolute side (off the grid again), quantise with the same grid
        i, steps = r.randrange(n), r.choice([[12], [8], [6, 4], [24, 12]])
        ops.append(("OQuantise", i, steps))
        ops.append(r.choice([("OCutoff", i, r.choice([6, 12, 24]), r.choice([5, 7, 1, 17])),
                             ("OQnl", i, r.choice([[5, 7], [1], [5]]), 24, r.random() < 0.5)]))
        ops.append(("OQuantise", i, steps))
        ops.append(("OReadAbs", i))
    return ops


def _exec(ops, upto=None, trace=True, return_store=False, hook=None):
    """run ops on real objects; returns the trace string (output@store after every step)"""
    store, tr = [], []
    for o in ops:
        k = o[0]
        out = "-"
        try:
            signal.setitimer(signal.ITIMER_REAL, 2.0)   # per operation: a changed implementation that loops must not hang generation or checks
        except ValueError:
            pass
        try:
            if k == "ONew":
                store.append(Sequence())
            elif k == "ONewAbs":
                store.append(mk_abs(o[1]))
            elif k == "ONewRel":
                store.append(mk_rel(o[1]))
            elif k == "OCopy":
                store.append(store[o[1]].copy())
            elif k == "OAddAbs":
                store[o[1]].add_absolute_message(to_message(o[2]))
            elif k == "OAddRel":
                store[o[1]].add_relative_message(to_message(o[2], rel=True), index=o[3])
            elif k == "OConcat":
                store[o[1]].concatenate([store[j].copy() for j in o[2]])
            elif k == "OOverwriteSelf":   # overwrite a view with a lazy iterable over the sequence's own messages
                keep = KEEP[o[3]]
                if o[2] == "abs":
                    store[o[1]].overwrite_absolute_messages(m for m in store[o[1]].messages_abs() if keep(m))
                else:
                    store[o[1]].overwrite_relative_messages(m for m in store[o[1]].messages_rel() if keep(m))
            elif k == "OOverwriteBad":    # the second message has no time: binary_insort raises before anything is installed
                store[o[1]].overwrite_absolute_messages([to_message(o[2]), Message(message_type=MT.NOTE_ON, channel=0, note=60, velocity=1)])
            elif k == "OConcatShare":     # plain concatenate: the receiver takes over the operands' Message objects
                store[o[1]].concatenate([store[j] for j in o[2]])
            elif k == "OConcatLit":
                store[o[1]].concatenate([mk_rel(ms) for ms in o[2]])
            elif k == "OMerge":
                store[o[1]].merge([store[j] for j in o[2]])
            elif k == "OCutoff":
                store[o[1]].cutoff(o[2], o[3])
            elif k == "ONormalise":
                store[o[1]].normalise()
            elif k == "OPad":
                store[o[1]].pad(o[2])
            elif k == "OSetChannel":
                store[o[1]].set_channel(o[2])
            elif k == "OOverwriteAbs":
                store[o[1]].overwrite_absolute_messages([to_message(m) for m in o[2]])
            elif k == "OOverwriteRel":
                store[o[1]].overwrite_relative_messages([to_message(m, rel=True) for m in o[2]])
            elif k == "OSplit":
                ps = store[o[1]].split(list(o[2]))
                store.extend(ps)
                out = str(len(ps))
            elif k == "OScale":
                store[o[1]].scale(o[2], quantise_afterwards=False)
            elif k == "OScaleQ":
                store[o[1]].scale(o[2])                      # default: quantise_and_normalise afterwards
            elif k == "OScaleDown":
                if o[3] is not None:
                    store[o[3]].abs
                    store[o[3]].rel
                store[o[1]].scale(1 / o[2], meta_sequence=None if o[3] is None else store[o[3]], quantise_afterwards=o[4])
            elif k == "OScaleFrac":       # a factor that is neither an integer nor the inverse of one: rejected
                store[o[1]].scale(o[2] / o[3], quantise_afterwards=o[4])
            elif k == "OQuantDefault":
                store[o[1]].quantise()
            elif k == "OQnlDefault":
                store[o[1]].quantise_note_lengths()
            elif k == "OQuantNormDefault":
                store[o[1]].quantise_and_normalise()
            elif k == "OTranspose":
                out = "T" if store[o[1]].transpose(o[2]) else "F"
            elif k == "OQuantise":
                store[o[1]].quantise(list(o[2]))
            elif k == "OQnl":
                store[o[1]].quantise_note_lengths(list(o[2]), standard_length=o[3], do_not_extend=o[4])
            elif k == "OQuantNorm":
                store[o[1]].quantise_and_normalise(list(o[2]), list(o[3]))
            elif k == "ORefresh":
                store[o[1]].refresh()
            elif k == "OReadAbs":
                out = "[" + show_msgs([from_message(m) for m in store[o[1]].abs._messages]) + "]"
            elif k == "OReadRel":
                out = "[" + show_msgs([from_message(m, rel=True) for m in store[o[1]].rel._messages]) + "]"
            elif k == "OEquals":
                out = "T" if store[o[1]].equals(store[o[2]], *o[3:7]) else "F"
            elif k == "OPairings":
                store[o[1]].get_message_pairings()
            elif k == "ODuration":
                d_ = store[o[1]].get_sequence_duration()
                out = str(int(d_) if isinstance(d_, float) and d_.is_integer() else d_)
            elif k == "OEditAbs":
                peek = len(o) > 3 and o[3]
                last = max([j for j, _, _ in o[2]] + [-1]) if len(o) > 4 and o[4] else None     # leave the loop right after the last edit
                for idx, m in enumerate(store[o[1]].messages_abs()):
                    for (j, f, v) in o[2]:
                        if j == idx:
                            if peek:
                                store[o[1]].rel
                            setattr(m, FIELDS[f], v)
                    if last is not None and idx >= last:
                        break
            elif k == "OEditRel":
                peek = len(o) > 3 and o[3]
                last = max([j for j, _, _ in o[2]] + [-1]) if len(o) > 4 and o[4] else None
                for idx, m in enumerate(store[o[1]].messages_rel()):
                    for (j, f, v) in o[2]:
                        if j == idx and not (f == "FTime" and m.message_type != MT.WAIT):
                            if peek:
                                store[o[1]].abs
                            setattr(m, FIELDS[f], v)
                    if last is not None and idx >= last:
                        break
            elif k == "OBarInit":
                Bar(store[o[1]], o[2], o[3])
            elif k == "OBarCopy":
                b = Bar.__new__(Bar)      # a bar whose sequence is object i: copy() = Bar(seq.copy(), num, den, key)
                b.sequence, b.time_signature_numerator, b.time_signature_denominator, b.key_signature = store[o[1]], o[2], o[3], None
                store.append(b.copy().sequence)
            elif k == "OSplitBars":
                for j in [o[1][o[2]]] + list(o[1]):
                    store[j].refresh()
                bars = Sequence.sequences_split_bars([store[j] for j in o[1]], meta_track_index=o[2], quantise_note_lengths=o[3])
                for t in bars:
                    store.extend(b.sequence for b in t)
                out = "|".join(",".join(show_sig(b.time_signature_numerator, b.time_signature_denominator, b.key_signature) for b in t) for t in bars)
            else:
                raise AssertionError(k)
        except AssertionError:
            raise
        except (Timeout, MemoryError) as e:
            out = "!Timeout" if isinstance(e, Timeout) else "!MemoryError"
            for s_ in store:         # a runaway operation leaves lists of millions of messages behind: cut them down
                for rep in (getattr(s_, "_abs", None), getattr(s_, "_rel", None)):
                    if rep is not None and len(rep._messages) > 5000:
                        del rep._messages[50:]
        except Exception as e:
            out = show_exc(e)
        finally:
            try:
                signal.setitimer(signal.ITIMER_REAL, 0)
            except (ValueError, Timeout):
                try:
                    signal.setitimer(signal.ITIMER_REAL, 0)
                except (ValueError, Timeout):
                    pass
        tr.append(out + "@" + "#".join(show_seq(s) for s in store))
        if hook is not None:
            hook(store, len(tr) - 1, o)
    if return_store:
        return store, tr
    return "$".join(tr)


KEEP = {"all": lambda m: True, "notes": lambda m: m.message_type in (MT.NOTE_ON, MT.NOTE_OFF),
        "no_sigs": lambda m: m.message_type not in (MT.TIME_SIGNATURE, MT.KEY_SIGNATURE),
        "chan0": lambda m: m.channel == 0}


def _own_messages(ops, i, view, keep):
    """what the lazy iterable yields: the messages of the view as they are stored when the call starts (tuples)"""
    store, _ = _exec(ops, return_store=True)
    if view == "abs":
        return [from_message(m) for m in store[i].abs._messages if KEEP[keep](m)]
    return [from_message(m, rel=True) for m in store[i].rel._messages if KEEP[keep](m)]


def _has_float(ops, i):
    store, _ = _exec(ops, return_store=True)
    for rep in (getattr(store[i], "_abs", None), getattr(store[i], "_rel", None)):
        if any(isinstance(m.time, float) for m in (rep._messages if rep is not None else [])):
            return True
    return False


def _integral(ops):
    """no message of the store carries a non-integral float time (Sequence.scale(1/k) on an odd wait): such values are
    outside the model (integers with a float tag)"""
    ops = list(ops)
    if ops and ops[-1][0] == "OScaleDown":
        ops[-1] = ops[-1][:4] + (False,)          # look at the scaled values before any re-quantisation
    store, _ = _exec(ops, return_store=True)
    for s_ in store:
        for rep in (getattr(s_, "_abs", None), getattr(s_, "_rel", None)):
            for m in (rep._messages if rep is not None else []):
                if isinstance(m.time, float) and not m.time.is_integer():
                    return False
    return True


class StopGen(Exception):
    pass


def _dry_count(ops):
    store, tr = _exec(ops, return_store=True)
    if tr and tr[-1].startswith("!Timeout"):
        raise StopGen()          # the last operation does not terminate: the history ends here
    return len(store)


def lit_op(o):
    k = o[0]
    nat = lambda i: f"{i}%nat"
    nats = lambda l: "[" + "; ".join(nat(i) for i in l) + "]"
    if k == "ONew":
        return "ONew"
    if k in ("ONewAbs", "ONewRel"):
        return f"{k} {lit_msgs(o[1])}"
    if k in ("OCopy", "ONormalise", "ORefresh", "OReadAbs", "OReadRel", "OPairings", "ODuration"):
        return f"{k} {nat(o[1])}"
    if k == "OAddAbs":
        return f"OAddAbs {nat(o[1])} ({lit_msg(o[2])})"
    if k == "OAddRel":
        return f"OAddRel {nat(o[1])} ({lit_msg(o[2])}) " + ("None" if o[3] is None else f"(Some {z(o[3])})")
    if k in ("OConcat", "OMerge"):
        return f"{k} {nat(o[1])} {nats(o[2])}"
    if k == "OConcatShare":
        return f"OConcat {nat(o[1])} {nats(o[2])}"
    if k == "OConcatLit":
        return f"OConcatLit {nat(o[1])} {lit_msgss(o[2])}"
    if k == "OCutoff":
        return f"OCutoff {nat(o[1])} {z(o[2])} {z(o[3])}"
    if k in ("OPad", "OSetChannel", "OScale", "OTranspose"):
        return f"{k} {nat(o[1])} {z(o[2])}"
    # default-argument calls are expressed through the explicit-argument operations of the model
    if k == "OQuantDefault":
        return f"OQuantise {nat(o[1])} (get_default_step_sizes 0 0)"
    if k == "OQnlDefault":
        return f"OQnl {nat(o[1])} get_default_note_values PPQN false"
    if k == "OQuantNormDefault":
        return f"OQuantNorm {nat(o[1])} (get_default_step_sizes 0 0) get_default_note_values"
    if k == "OScaleQ":
        return f"HSEQ[OScale {nat(o[1])} {z(o[2])}; OQuantNorm {nat(o[1])} (get_default_step_sizes 0 0) get_default_note_values]"
    if k == "OScaleDown":
        meta = "None" if o[3] is None else f"(Some {nat(o[3])})"
        then_ = f"[OQuantNorm {nat(o[1])} (get_default_step_sizes 0 0) get_default_note_values]" if o[4] else "[]"
        return f"HSCALEDOWN {nat(o[1])} {z(o[2])} {meta} {then_}"
    if k == "OScaleFrac":
        return f"HFAIL (OReadRel {nat(o[1])}) SeqErr"
    if k == "OOverwriteSelf":      # the model is given the yielded messages as a literal; reading the view refreshes it first
        rd = "OReadAbs" if o[2] == "abs" else "OReadRel"
        ow = "OOverwriteAbs" if o[2] == "abs" else "OOverwriteRel"
        return f"HSEQ[{rd} {nat(o[1])}; {ow} {nat(o[1])} {lit_msgs(o[4])}]"
    if k == "OOverwriteBad":
        return "HRAISE TypeErr"
    if k in ("OOverwriteAbs", "OOverwriteRel"):
        return f"{k} {nat(o[1])} {lit_msgs(o[2])}"
    if k in ("OSplit", "OQuantise"):
        return f"{k} {nat(o[1])} {lit_zs(o[2])}"
    if k == "OQnl":
        return f"OQnl {nat(o[1])} {lit_zs(o[2])} {z(o[3])} {lit_bool(o[4])}"
    if k == "OQuantNorm":
        return f"OQuantNorm {nat(o[1])} {lit_zs(o[2])} {lit_zs(o[3])}"
    if k == "OEquals":
        return f"OEquals {nat(o[1])} {nat(o[2])} " + " ".join(lit_bool(b) for b in o[3:7])
    if k in ("OEditAbs", "OEditRel"):
        return f"{k} {nat(o[1])} [" + "; ".join(f"({nat(j)}, {f}, {z(v)})" for j, f, v in o[2]) + "]"
    if k in ("OBarInit", "OBarCopy"):
        return f"{k} {nat(o[1])} {z(o[2])} {z(o[3])}"
    if k == "OSplitBars":
        return f"OSplitBars {nats(o[1])} {nat(o[1][o[2]])} {lit_bool(o[3])}"
    raise AssertionError(k)


def lit_ops(ops):
    return "[" + "; ".join(lit_op(o) for o in ops) + "]"


def lit_hops(ops):
    out = []
    for o in ops:
        l = lit_op(o)
        out.append("HSeq " + l[4:] if l.startswith("HSEQ[") else "HScaleDown " + l[11:] if l.startswith("HSCALEDOWN ") else "HFail " + l[6:] if l.startswith("HFAIL ") else "HRaise " + l[7:] if l.startswith("HRAISE ") else f"HOp ({l})")
    return "[" + "; ".join(out) + "]"


def gen_scale_down(r):
    """histories around Sequence.scale(1/k, meta_sequence): objects on an even grid with time signatures, the meta
    sequence being None, the receiver itself or another object, from every freshness state, followed by reads"""
    def obj():
        notes = [(c, p, 12 * on, 12 * d, v) for c, p, on, d, v in
                 G.gen_notes(r, n=r.randint(0, 4), chans=[0, 0, 1], pitches=[60, 61, 62], hi=20)]
        notes = [(c, p, on, min(d, 96), v) for c, p, on, d, v in notes]
        ms = []
        for c, p, on, d, v in notes:
            ms += [ON(c, p, v, on), OFF(c, p, on + d)]
        t = 0
        for _ in range(r.choice([0, 1, 1, 2, 3])):
            a, b = r.choice([(4, 4), (3, 4), (2, 4), (6, 8), (2, 2), (4, 4), (3, 4), (1, 4), (8, 8), (5, 4)])
            ms.append(TS(0, a, b, t))
            t += (96 * a // b) * r.choice([1, 1, 2, 3])
        if r.random() < 0.3:
            ms.append(KS(0, r.choice(G.KEYS), r.choice([0, 48, 96])))
        r.shuffle(ms)
        if r.random() < 0.5:
            return ("ONewAbs", ms)
        rel = G.abs_to_rel(ms)
        if r.random() < 0.4:
            rel.append(WT(0, r.choice([12, 24, 48])))
        return ("ONewRel", rel)
    ops = [obj()]
    n = 1
    if r.random() < 0.6:
        ops.append(obj() if r.random() < 0.6 else ("OCopy", 0)); n = 2
    for _ in range(r.choice([0, 1, 1, 2])):
        ops.append((r.choice(["OReadAbs", "OReadRel", "ORefresh", "OPairings"]), r.randrange(n)))
    for _ in range(r.choice([1, 1, 2])):
        i = r.randrange(n)
        if r.random() < 0.12:
            ops.append(("OScaleFrac", i) + r.choice([(3, 2), (2, 5), (3, 10), (5, 2), (2, 3)]) + (r.random() < 0.5,))
        else:
            ops.append(("OScaleDown", i, r.choice([2, 2, 2, 4, 3]), r.choice([None, i, i, r.randrange(n)]), r.random() < 0.5))
            if not _integral(ops):
                ops.pop()
        ops.append((r.choice(["OReadAbs", "OReadRel"]), i))
        k2 = r.choice(["OReadAbs", "OReadRel", "ODuration", "OTranspose"])
        ops.append((k2, r.randrange(n)) + ((1,) if k2 == "OTranspose" else ()))
    return ops


Op("scale_down", gen_scale_down, lambda ops_: _exec(ops_), lambda ops_: f"show_trace_h {lit_hops(ops_)}",
   lambda ops_: any(o[0] == "OScaleDown" for o in ops_))

def gen_concat_repeat(r):
    """a section repeated with plain concatenate (the same operand several times, or a sequence appended to itself: the
    piece then holds the same Message objects more than once), followed by ONE operation on the piece and reads.  Only
    operations that do not edit message fields in place are used (transpose / scale on such a piece fall under the
    known finding D9').  Returns (ops, target index, number of objects before the follow-up)."""
    x = r.random()
    if x < 0.4:
        motif = G.gen_rel_malformed(r, n=r.randint(1, 7))
    else:
        motif = G.gen_rel_wf(r, n=r.randint(0, 3), pitches=[60, 61, 62], hi=40, extra=False, sigs=r.random() < 0.4)
        if r.random() < 0.6:
            motif.append(WT(r.choice([0, 1]), r.choice([6, 12, 24])))         # a rest, e.g. the one pad() appended
        if r.random() < 0.4:
            motif.append(WT(0, r.choice([6, 12])))
    if r.random() < 0.15:      # an unclosed note between two single rests, then a proper note
        p_, q_ = r.sample([60, 61, 62], 2)
        motif = [WT(0, r.choice([12, 24])), ON(0, p_, 90), WT(0, r.choice([12, 24])), ON(0, q_, 100), WT(0, 12), OFF(0, q_)]
    if r.random() < 0.1:       # a section that starts with the end of a note and ends with the start of one, single rests
        p_ = r.choice([60, 61])
        motif = [OFF(0, p_), WT(0, r.choice([12, 24])), ON(0, p_, 90), WT(0, r.choice([12, 24]))]
    mode = r.choice(["new", "new", "prefix", "self"])
    ops = [("ONewRel", motif)]
    if mode == "self":
        t = 0
        ops.append(("OConcatShare", 0, [0]))      # s.concatenate([s]): the section twice
    else:
        t = 1
        ops.append(("ONew",) if mode == "new" else ("ONewRel", G.gen_rel_wf(r, n=r.randint(0, 2), pitches=[60, 61], hi=30, extra=False)))
        ops.append(("OConcatShare", 1, [0] * r.choice([2, 2, 3])))
    n0 = t + 1
    d = sum(m[2] for m in motif if m[0] == "WAIT")
    k = r.choice(["ONormalise", "ONormalise", "OPad", "OPad", "OSplit", "OSplit", "OSetChannel", "OCutoff", "OQuantNormDefault",
                  "ODuration", "OPairings", "OQuantise", "OQnl"])
    if k in ("ONormalise", "OQuantNormDefault", "ODuration", "OPairings"):
        ops.append((k, t))
    elif k == "OPad":
        ops.append((k, t, r.choice([0, d, 2 * d, 2 * d + 6, 3 * d + 12, 200, 2 * d + 1])))
    elif k == "OSplit":
        caps = r.choice([G.gen_caps(r), [max(1, d // 2)] * 4, [max(1, d - 2), d, d], [4, 8, 8]])
        ops.append((k, t, caps))
    elif k == "OSetChannel":
        ops.append((k, t, r.choice([0, 1, 2])))
    elif k == "OCutoff":
        ops.append((k, t, 12, 6))
    elif k == "OQuantise":
        ops.append((k, t, r.choice(G.STEP_POOLS)))
    elif k == "OQnl":
        ops.append((k, t, r.choice([v for v in G.VALUE_POOLS if v]), 24, r.random() < 0.5))
    ops += [("OReadRel", t), ("OReadAbs", t)]
    return ops, t, n0


def _impl_concat_repeat(inp):
    ops_, t, n0 = inp
    store, tr = _exec(ops_, return_store=True)
    return "$".join(x.split("@")[0] for x in tr) + "@" + show_seq(store[t]) + "#" + "#".join(show_seq(s_) for s_ in store[n0:])


Op("concat_repeat", gen_concat_repeat, _impl_concat_repeat,
   lambda inp: f"show_final_h {lit_hops(inp[0])} {inp[2]}%nat {inp[1]}%nat",
   lambda inp: len(inp[0][0][1]) > 2)

Op("history", lambda r: gen_history(r), lambda ops_: _exec(ops_), lambda ops_: f"show_trace_h {lit_hops(ops_)}",
   lambda ops_: len(ops_) >= 4)


# ---------------------------------------------------------------------------------------------- MIDI
import mido, tempfile
from scoda.midi.midi_file import MidiFile

TMP = tempfile.mkdtemp(prefix="scoda-verif-")
MIDO_KEYS = ["C", "G", "D", "A", "E", "B", "F#", "C#", "F", "Bb", "Eb", "Ab", "Db", "Gb", "Cb",
             "Am", "Em", "Bm", "F#m", "C#m", "G#m", "D#m", "Dm", "Gm", "Cm", "Fm", "Bbm", "Ebm"]


def ev_of_mido(m):
    t = m.type
    ch = getattr(m, "channel", -1)
    if t == "note_on":
        return ("on", ch, m.note, m.velocity, "", m.time)
    if t == "note_off":
        return ("off", ch, m.note, m.velocity, "", m.time)
    if t == "time_signature":
        return ("ts", -1, m.numerator, m.denominator, "", m.time)
    if t == "key_signature":
        return ("ks", -1, 0, 0, m.key, m.time)
    if t == "control_change":
        return ("cc", ch, m.control, m.value, "", m.time)
    if t == "program_change":
        return ("pc", ch, m.program, 0, "", m.time)
    return ("x", ch, 0, 0, "", m.time)


def mido_of_ev(e):
    k, ch, a, b, key, dt = e
    if k == "on":
        return mido.Message("note_on", channel=ch, note=a, velocity=b, time=dt)
    if k == "off":
        return mido.Message("note_off", channel=ch, note=a, velocity=b, time=dt)
    if k == "ts":
        return mido.MetaMessage("time_signature", numerator=a, denominator=b, time=dt)
    if k == "ks":
        return mido.MetaMessage("key_signature", key=key, time=dt)
    if k == "cc":
        return mido.Message("control_change", channel=ch, control=a, value=b, time=dt)
    if k == "pc":
        return mido.Message("program_change", channel=ch, program=a, time=dt)
    if k == "pw":
        return mido.Message("pitchwheel", channel=ch, pitch=a, time=dt)
    if k == "at":
        return mido.Message("aftertouch", channel=ch, value=a, time=dt)
    return mido.MetaMessage("marker", text="m", time=dt)


def show_ev(e):
    return ":".join(str(x) for x in e)


def lit_ev(e):
    k, ch, a, b, key, dt = e
    K = {"on": "MOn", "off": "MOff", "ts": "MTs", "ks": "MKs", "cc": "MCc", "pc": "MPc", "x": "MOther", "pw": "MOther", "at": "MOther"}[k]
    return f"ev {K} {z(ch)} {z(a)} {z(b)} {lit_str(key)} {z(dt)}"


def lit_evs(l):
    return "[" + "; ".join(lit_ev(e) for e in l) + "]"


def _impl_midi_events(ms):
    s = mk_rel(ms)
    tr = s.to_midi_track().to_mido_track()
    return ";".join(show_ev(ev_of_mido(m)) for m in tr)


Op("midi_events", lambda r: G.gen_rel_wf(r) if r.random() < 0.7 else G.gen_rel_malformed(r), _impl_midi_events,
   lambda ms: f"show_mevs (to_events {lit_msgs(ms)})", lambda ms: len(ms) > 2)


def gen_midi_file(r, dyadic=True):
    # non-dyadic resolutions make PPQN / ticks_per_beat inexact in binary floating point: at exact .5 ties the
    # implementation's accumulated float and the model's exact rational may round to different (equally near) ticks, so
    # the correspondence uses dyadic resolutions and the non-dyadic ones are judged by the oracle alone (midi_load_nd)
    tpb = r.choice([24, 48, 96, 12, 6, 192, 384, 3, 16, 8, 24, 48] if dyadic else [480, 960, 120, 100, 7, 1000, 36, 72, 5])
    ntr = r.choice([1, 2, 2, 3, 4])
    tracks = []
    unit = max(1, tpb // r.choice([1, 2, 4, 8, 3, 6, 24, 48]))
    for _ in range(ntr):
        evs, open_ = [], []
        for _ in range(r.randint(0, 10)):
            dt = r.choice([0, 0, unit, unit, 2 * unit, unit // 2, r.randint(0, 3 * tpb), 1])
            x = r.random()
            ch = r.choice([0, 0, 1, 9])
            if x < 0.4:
                n = r.choice([60, 61, 62])
                evs.append(("on", ch, n, r.choice([1, 64, 127]), "", dt)); open_.append((ch, n))
            elif x < 0.7 and open_:
                ch, n = open_.pop(r.randrange(len(open_)))
                evs.append(("on", ch, n, 0, "", dt) if r.random() < 0.4 else ("off", ch, n, r.choice([0, 64]), "", dt))
            elif x < 0.8:
                a, b = r.choice(G.SIGS)
                evs.append(("ts", -1, a, b, "", dt))
            elif x < 0.88:
                evs.append(("ks", -1, 0, 0, r.choice(MIDO_KEYS), dt))
            elif x < 0.92:
                evs.append(("cc", ch, 64, r.choice([0, 127]), "", dt))
            elif x < 0.96:
                evs.append(("pc", ch, r.randint(0, 5), 0, "", dt))
            elif x < 0.98:
                evs.append(("x", -1, 0, 0, "", dt))
            else:       # channel messages the library has no representation for: their delta time still counts
                evs.append(("pw", ch, r.choice([0, 100, -200]), 0, "", dt) if r.random() < 0.5 else ("at", ch, r.choice([0, 64]), 0, "", dt))
        for ch, n in open_:
            if r.random() < 0.8:
                evs.append(("off", ch, n, 0, "", r.choice([unit, 1, 0])))
        tracks.append(evs)
    # groupings
    idx = list(range(ntr))
    mode = r.random()
    if mode < 0.4:
        groups = [[i] for i in idx]
    elif mode < 0.7:
        r.shuffle(idx)
        k = r.randint(1, ntr)
        groups = [idx[j::k] for j in range(k)]
        groups = [g for g in groups if g]
        if r.random() < 0.5 and len(groups) > 1:
            groups = groups[:-1]          # some track in no group
    else:
        groups = [[r.randrange(ntr) for _ in range(r.choice([1, 2]))] for _ in range(r.choice([1, 2]))]
        if r.random() < 0.3:
            groups.append([ntr + 1])    # a group naming a track that does not exist
    metas = r.choice([list(range(ntr)), [0], [r.randrange(ntr)], []])
    mi = r.choice([0, 0, 0, len(groups) - 1, len(groups), -1])
    # last: the file is parsed once and converted several times (sequences_load(midi_file=...)); the judged load is the last
    return tpb, tracks, groups, metas, mi, r.choice([False, False, False, True, True, "parse"])


def write_midi(tpb, tracks, path):
    f = mido.MidiFile(ticks_per_beat=tpb)
    for evs in tracks:
        tr = mido.MidiTrack()
        for e in evs:
            tr.append(mido_of_ev(e))
        f.tracks.append(tr)
    f.save(path)


def midi_load(inp, path):
    tpb, tracks, groups, metas, mi = inp[:5]
    write_midi(tpb, tracks, path)
    if len(inp) > 5 and inp[5] == "parse":       # the in-memory route: MidiFile().parse_mido(mido file object)
        mf = MidiFile()
        mf.parse_mido(mido.MidiFile(path))
        return Sequence.sequences_load(midi_file=mf, track_indices=[list(g) for g in groups], meta_track_indices=list(metas),
                                       target_meta_track_index=mi)
    if len(inp) > 5 and inp[5]:
        mf = MidiFile.open(path)
        try:
            Sequence.sequences_load(midi_file=mf)                 # an earlier look at the file with the default grouping
            Sequence.sequences_load(midi_file=mf, track_indices=[list(g) for g in groups], meta_track_indices=list(metas),
                                    target_meta_track_index=mi)
        except Exception:
            pass
        return Sequence.sequences_load(midi_file=mf, track_indices=[list(g) for g in groups], meta_track_indices=list(metas),
                                       target_meta_track_index=mi)
    return Sequence.sequences_load(path, track_indices=[list(g) for g in groups], meta_track_indices=list(metas),
                                   target_meta_track_index=mi)


def _impl_midi_load(inp):
    return "#".join(show_seq(s) for s in midi_load(inp, os.path.join(TMP, f"l{os.getpid()}.mid")))


Op("midi_load_nd", lambda r: gen_midi_file(r, dyadic=False), lambda inp: "", None)

Op("midi_load", lambda r: gen_midi_file(r), _impl_midi_load,
   lambda inp: f"show_seqs (convert_exec {inp[0]} [" + "; ".join(lit_evs(t) for t in inp[1]) + f"] {'[' + '; '.join(lit_zs(g) for g in inp[2]) + ']'} {lit_zs(inp[3])} {z(inp[4])})",
   lambda inp: sum(len(t) for t in inp[1]) > 3)


def _gen_midi_rt(r):
    n = r.choice([1, 1, 2, 3])
    out = []
    for i in range(n):
        notes = G.gen_notes(r, n=r.randint(0, 5), chans=[r.choice([0, 1])], pitches=[60, 61, 62, 64], hi=100)
        ms = G.notes_to_abs(r, notes, sigs=True, extra=False)
        # program / control changes in the middle of a track (sequences_load itself puts them into the note sequences)
        for _ in range(r.choice([0, 0, 0, 1, 2])):
            ms.append(PC(ms[0][1] if ms else 0, r.randint(0, 5), G.tick(r, 100)) if r.random() < 0.7 else
                      CC(ms[0][1] if ms else 0, 64, r.choice([0, 127]), G.tick(r, 100)))
        rel = G.abs_to_rel(ms)
        if r.random() < 0.3:
            rel.append(WT(0, r.choice([6, 24])))
        out.append(rel)
    return out


def _impl_midi_rt(rels):
    ss = [mk_rel(ms) for ms in rels]
    path = os.path.join(TMP, f"r{os.getpid()}.mid")
    if len(ss) == 1:
        ss[0].save(path)              # Sequence.save = sequences_save([self], path)
    else:
        Sequence.sequences_save(ss, path)
    back = Sequence.sequences_load(path)
    return "#".join(show_seq(s) for s in back)


Op("midi_roundtrip", _gen_midi_rt, _impl_midi_rt, lambda rels: f"show_seqs (save_load {lit_msgss(rels)})",
   lambda rels: sum(len(t) for t in rels) > 3)


def _gen_midi_rt_mi(r):
    rels = _gen_midi_rt(r)
    return rels, r.randrange(len(rels))


def _impl_midi_rt_mi(inp):
    rels, mi = inp
    ss = [mk_rel(ms) for ms in rels]
    path = os.path.join(TMP, f"s{os.getpid()}.mid")
    Sequence.sequences_save(ss, path)
    back = Sequence.sequences_load(path, target_meta_track_index=mi)
    return "#".join(show_seq(s) for s in back)


Op("midi_roundtrip_mi", _gen_midi_rt_mi, _impl_midi_rt_mi,
   lambda inp: (f"show_seqs (let rels := {lit_msgss(inp[0])} in convert_exec PPQN (map to_events rels) "
                f"(map (fun i => [i]) (rangeZ_aux (List.length rels) 0)) (rangeZ_aux (List.length rels) 0) {z(inp[1])})"),
   lambda inp: sum(len(t) for t in inp[0]) > 3 and inp[1] > 0)


# ---------------------------------------------------------------------------------------------- music theory (validates the translator)
def _gen_mt(r):
    k = r.choice(["tk", "tk", "pos", "dist", "from"])
    if k == "tk":
        return k, r.choice(G.KEYS), r.randint(-40, 40)
    if k == "pos":
        return k, r.randint(0, 127), 0
    if k == "dist":
        return k, r.randint(0, 127), r.randint(0, 127)
    return k, r.randint(0, 127), r.randint(-20, 20)


def _impl_mt(inp):
    from scoda.misc.music_theory import Key as K_, CircleOfFifths as C_
    k, a, b = inp
    if k == "tk":
        r = K_.transpose_key(K_[a], b)
        return "~" if r is None else r.value
    if k == "pos":
        return str(C_.get_position(a))
    if k == "dist":
        return str(C_.get_distance(a, b))
    return str(C_.from_distance(a, b))


def _coq_mt(inp):
    k, a, b = inp
    if k == "tk":
        return f"show_key (transpose_key K_{a} {z(b)})"
    if k == "pos":
        return f"show_opt show_Z (get_position {a})"
    if k == "dist":
        return f"show_opt show_Z (get_distance {a} {b})"
    return f"show_opt show_Z (from_distance {a} {z(b)})"


Op("music_theory", _gen_mt, _impl_mt, _coq_mt)


# ---------------------------------------------------------------------------------------------- Bar / Track / Composition
from scoda.elements.composition import Composition
from scoda.elements.track import Track
ERRMAP["TrackException"] = "TrackErr"


def show_comp(c):
    return "|".join(("~" if t.program is None else str(t.program)) + ">" +
                    "&".join(show_sig(b.time_signature_numerator, b.time_signature_denominator, b.key_signature) + "=" + show_seq(b.sequence)
                             for b in t.bars) for t in c.tracks)


def _gen_comp(r):
    tracks, meta = gen_piece_tracks(r, aligned=True)
    rels = []
    for i, ms in enumerate(tracks):
        if i != meta and r.random() < 0.3:         # a part written in its own key (transposing instrument)
            ms = ms + [KS(i, r.choice(G.KEYS), 0)]
        if r.random() < 0.3:
            ms = ms + [PC(i, r.choice([1, 1, 2]), G.tick(r, 100))]
            if r.random() < 0.4:
                ms = ms + [PC(i, r.choice([1, 2]), G.tick(r, 200))]
        rel = G.abs_to_rel(ms)
        if r.random() < 0.4:
            rel.append(WT(0, r.choice([1, 12, 24, 96])))
        rels.append(rel)
    return rels, meta, r.randrange(len(rels)), r.randrange(3), r.choice([1, -1, 2, 12, 7, 50, -60, 5])


def _impl_comp(inp):
    rels, meta, ti, bi, k = inp
    ss = [mk_rel(ms) for ms in rels]
    try:
        c = Composition.from_sequences(ss, meta)
    except Exception as e:
        return show_exc(e)
    before = show_comp(c)
    try:
        cp = c.copy()
    except Exception as e:
        return before + "#" + show_exc(e)
    try:
        cp.tracks[ti].bars[bi].transpose(k)
    except Exception as e:
        assert show_comp(c) == before, "operating on the copy changed the original"
        return show_comp(c) + "#" + show_comp(cp) + "#" + show_exc(e)
    out = show_comp(c) + "#" + show_comp(cp) + "#"
    try:
        out += "|".join(show_seq(s) for s in cp.to_sequences())
    except Exception as e:
        out += show_exc(e)
    return out


Op("composition", _gen_comp, _impl_comp,
   lambda inp: f"comp_scenario {lit_msgss(inp[0])} {inp[1]}%nat {inp[2]}%nat {inp[3]}%nat {z(inp[4])}",
   lambda inp: sum(len(x) for x in inp[0]) > 3)


def _gen_comp_file(r):
    tpb, tracks, groups, metas, mi = gen_midi_file(r)[:5]
    return tpb, tracks, groups, metas, max(0, mi)


def _impl_comp_file(inp):
    tpb, tracks, groups, metas, mi = inp
    path = os.path.join(TMP, f"c{os.getpid()}.mid")
    write_midi(tpb, tracks, path)
    c = Composition.from_midi_file(path, [list(g) for g in groups], list(metas), mi)
    out = show_comp(c) + "#"
    try:
        out += "|".join(show_seq(s) for s in c.to_sequences())
    except Exception as e:
        out += show_exc(e)
    path2 = os.path.join(TMP, f"d{os.getpid()}.mid")
    try:
        c.save(path2)
        out += "#" + "#".join(show_seq(s) for s in Sequence.sequences_load(path2))
    except Exception as e:
        out += "#" + show_exc(e)
    return out


Op("comp_file", _gen_comp_file, _impl_comp_file,
   lambda inp: f"show_comp_file {inp[0]} [" + "; ".join(lit_evs(t) for t in inp[1]) + f"] {'[' + '; '.join(lit_zs(g) for g in inp[2]) + ']'} {lit_zs(inp[3])} {z(inp[4])}",
   lambda inp: sum(len(t) for t in inp[1]) > 3)


# ---------------------------------------------------------------------------------------------- getters (Model/Getters.v)
def _impl_getters(ms):
    s = mk_abs(ms)
    out = ["T" if s.is_empty() else "F", "T" if s.is_channel_consistent() else "F"]
    try:
        out.append(str(s.get_sequence_channel()))
    except Exception as e:
        out.append(show_exc(e))
    out.append(str(round(s.get_sequence_duration_relation() * PPQN)))
    k = s.rel.get_key_signature_guess()
    out.append("~" if k is None else k.value)
    out.append(show_msgs([from_message(m) for _, m in s.get_message_times_of_type([MT.TIME_SIGNATURE, MT.KEY_SIGNATURE])]))
    return "/".join(out)


Op("getters", lambda r: G.gen_abs_wf(r, chans=r.choice([[0], [1], [0, 1]]), pitches=r.choice([[60, 62, 64, 65, 67], [61, 63, 66, 68, 70], G.PITCHES])),
   _impl_getters, lambda ms: f"show_getters {INS(ms)}", lambda ms: len(ms) > 2)


def _impl_digitise(v):
    from scoda.misc import util
    return f"{util.digitise_velocity(v)},{util.velocity_from_bin(v % 9)}"


Op("digitise", lambda r: r.randint(0, 127), _impl_digitise,
   lambda v: f"(show_Z (digitise_velocity {v}) ++ \",\" ++ show_Z (velocity_from_bin {v % 9}))")
