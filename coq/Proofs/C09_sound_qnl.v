(* C09_sound_qnl -- last sentence of C09 with note-length re-quantisation ON: laid end to end, a track's bars sound
   only where the track sounds ("a subset").  Builds on C09_sound.v (round / loop structure), C06_main (the
   re-quantised notes of a key are the reference quantiser qnl_key of the key's notes) and Sound_glue.v (absolute
   tick-wise sounding <-> relative list-order sounding through to_abs / to_rel). *)
From Coq Require Import ZArith List Bool Lia Permutation.
From Model Require Import Base Seq Pairing Util Bars.
From Proofs Require Import C04_sort C05_closest C05_proofs C05_wf C05_sweep C05_sort C05_final C06_proofs C06_main.
From Proofs Require Import C07_proofs C15_proofs Sound_glue C08_proofs C09_proofs C09_sound.
Import ListNotations.
Open Scope Z_scope.

Definition isS (o : option Z) : bool := match o with Some _ => true | None => false end.

Lemma isS_orelse a b : isS (orelse a b) = isS a || isS b.
Proof. now destruct a. Qed.

(* ================================================================ S1: C07's boolean sounding = C08's sound is Some *)
Lemma sounding_isS k t : forall l o ov cur, alt_run k o l <> None -> isS ov = o ->
  C07_proofs.sounding k t (b2z o) cur l = isS (sound k t cur ov l).
Proof.
  induction l as [|m l IH]; intros o ov cur A Ho; [reflexivity|].
  cbn [C07_proofs.sounding sound alt_run] in *. rewrite isS_orelse.
  change (is_key k m) with (k2_eqb k (mkey m)) in *.
  destruct (type_cases m) as [T|[T|[T|T]]].
  - destruct (is_on_t m T) as (On & _ & Wt).
    assert (Of : is_off m = false) by (unfold is_off, mtype_eqb; now rewrite T).
    rewrite Wt, On, Of, !andb_true_r, !andb_false_r in *. rewrite hit_nw, dt_nw, Z.add_0_r by congruence.
    cbn [isS orb]. unfold ostep. rewrite T.
    destruct (k2_eqb k (mkey m)).
    + destruct o; [congruence|]. cbn [b2z Z.add]. apply (IH true (Some (m_vel m)) cur A eq_refl).
    + now apply IH.
  - destruct (is_off_t m T) as (On & _ & Wt).
    assert (Of : is_off m = true) by (unfold is_off, mtype_eqb; now rewrite T).
    rewrite Wt, On, Of, !andb_true_r, !andb_false_r in *. rewrite hit_nw, dt_nw, Z.add_0_r by congruence.
    cbn [isS orb]. unfold ostep. rewrite T.
    destruct (k2_eqb k (mkey m)).
    + destruct o; [|congruence]. cbn [b2z Z.sub]. apply (IH false None cur A eq_refl).
    + now apply IH.
  - assert (On : is_on m = false) by (unfold is_on, mtype_eqb; now rewrite T).
    assert (Of : is_off m = false) by (unfold is_off, mtype_eqb; now rewrite T).
    rewrite (is_wait_true _ T), On, Of, !andb_false_r in *.
    assert (Hdt : dt m = m_time m) by (unfold dt; now rewrite T). rewrite Hdt.
    assert (Eo : ostep k ov m = ov) by (unfold ostep; now rewrite T). rewrite Eo.
    rewrite (IH o ov (cur + m_time m) A Ho). f_equal. unfold hit. rewrite T.
    destruct o; cbn [b2z]; [change (0 <? 1) with true|change (0 <? 0) with false]; cbn [andb];
      destruct ((cur <=? t) && (t <? cur + m_time m)); cbn [isS]; now rewrite ?Ho.
  - destruct (is_plain_t m T) as (Nt & Wt). unfold is_note in Nt. apply orb_false_iff in Nt. destruct Nt as [On Of].
    destruct T as (T1 & T2 & T3).
    rewrite Wt, On, Of, !andb_false_r in *. rewrite hit_nw, dt_nw, Z.add_0_r by congruence.
    assert (Eo : ostep k ov m = ov) by (unfold ostep; destruct (m_type m); congruence). rewrite Eo.
    cbn [isS orb]. now apply IH.
Qed.

Lemma sounding_sound k t l : (forall k, alt_run k false l = Some false) ->
  C07_proofs.sounding k t 0 0 l = isS (sound k t 0 None l).
Proof. intros A. apply (sounding_isS k t l false None 0); [now rewrite A|reflexivity]. Qed.

(* ================================================================ S2: no zero-length notes in a paired_pos list *)
Lemma lt_le_mono t a c : a < c -> le_t t c <= lt_t t a.
Proof.
  intros H. unfold le_t, lt_t. destruct (Z.leb_spec c t), (Z.ltb_spec a t); cbn; lia.
Qed.

Lemma krun_rsdepth k t : forall r s cur, krun k s r = Some KC -> nonneg_waits r = true ->
  match s with
  | KC => 0 <= rsdepth k t cur r
  | KS => True
  | KF _ => forall a, a <= cur -> 0 <= lt_t t a + rsdepth k t cur r
  | KO _ => forall a, a < cur -> 0 <= lt_t t a + rsdepth k t cur r
  end.
Proof.
  unfold rsdepth. induction r as [|m r IH]; intros s cur H NN.
  - cbn in H. injection H as ->. cbn. lia.
  - apply nonneg_cons in NN. destruct NN as (Wm & NN & _). cbn [krun] in H.
    destruct (kstep k s m) as [s1|] eqn:KS; [|discriminate]. cbn [rsum].
    specialize (IH s1). unfold kstep in KS.
    destruct (type_cases m) as [T|[T|[T|T]]].
    + destruct (is_on_t m T) as (On & _ & Wt). rewrite Wt, T in *.
      destruct (k2_eqb k (mkey m)) eqn:K.
      * rewrite (term_on k _ _ cur m K On).
        destruct s; try discriminate; [|exact I]. injection KS as <-.
        specialize (IH cur H NN). cbn in IH. apply IH. lia.
      * rewrite (term_nokey k _ _ cur m K). injection KS as <-. specialize (IH cur H NN).
        destruct s; auto; try (intros a Ha; specialize (IH a Ha)); lia.
    + destruct (is_off_t m T) as (On & _ & Wt). rewrite Wt, T in *.
      assert (Of : is_off m = true) by (unfold is_off, mtype_eqb; now rewrite T).
      destruct (k2_eqb k (mkey m)) eqn:K.
      * rewrite (term_off k _ _ cur m K Of).
        destruct s; try discriminate. injection KS as <-. specialize (IH cur H NN). cbn in IH.
        intros a Ha. pose proof (lt_le_mono t a cur Ha). lia.
      * rewrite (term_nokey k _ _ cur m K). injection KS as <-. specialize (IH cur H NN).
        destruct s; auto; try (intros a Ha; specialize (IH a Ha)); lia.
    + rewrite (is_wait_true _ T), T in *. specialize (Wm eq_refl).
      destruct s; try discriminate; try (injection KS as <-); auto.
      * intros a Ha. specialize (IH (cur + m_time m) H NN).
        destruct (0 <? m_time m) eqn:E; [apply Z.ltb_lt in E|]; apply IH; lia.
      * intros a Ha. specialize (IH (cur + m_time m) H NN). cbn in IH. apply IH. lia.
    + destruct (is_plain_t m T) as (Nt & Wt). destruct T as (T1 & T2 & T3). rewrite Wt.
      rewrite (term_nonnote k _ _ cur m Nt).
      assert (s1 = s) by (destruct (m_type m); congruence). subst s1. specialize (IH cur H NN).
      destruct s; auto; try (intros a Ha; specialize (IH a Ha)); lia.
Qed.

Lemma paired_rsdepth l : paired_pos l = true -> nonneg_waits l = true -> forall k t, 0 <= rsdepth k t 0 l.
Proof.
  intros P NN k t. exact (krun_rsdepth k t l KC 0 (proj1 (paired_pos_all l) P k) NN).
Qed.

(* ================================================================ S3: strict alternation (salt) gives C05's wf_key *)
Definition st_match (o : option Z) (st : C05_wf.kst) (l : list msg) : Prop :=
  match o with
  | Some t0 => st = KOpen t0
  | None => st = KNone \/ exists a b, st = KClosed a b /\ Forall (fun m => b <= m_time m) l
  end.

Lemma salt_wf_run k : forall l o st, tsorted l = true -> salt k o l = true -> st_match o st l ->
  exists st', C05_wf.krun true st (kproj k l) = Some st' /\ kst_closed st'.
Proof.
  induction l as [|m l IH]; intros o st TS H M.
  - cbn in H. destruct o; [discriminate|]. exists st. split; [reflexivity|].
    destruct M as [->|(a & b & -> & _)]; exact I.
  - change (tsorted (m :: l)) with (sorted_time (m :: l)) in TS. apply sorted_time_cons in TS.
    destruct TS as [Fm TS]. change (sorted_time l) with (tsorted l) in TS.
    rewrite kproj_cons_eq. cbn [salt] in H. change (is_key k m) with (k2_eqb k (qkey m)) in H.
    assert (Mtail : forall b : Z, Forall (fun y => b <= m_time y) (m :: l) -> Forall (fun y => b <= m_time y) l)
      by (intros b F; now inversion F).
    destruct (k2_eqb k (qkey m)) eqn:K; cbn [andb] in H.
    + destruct (is_on m) eqn:On.
      * assert (N : is_note m = true) by (unfold is_note; now rewrite On). rewrite N. cbn [andb C05_wf.krun].
        destruct o as [t0|]; [discriminate|].
        assert (KS : C05_wf.kstep true st m = Some (KOpen (m_time m))).
        { unfold C05_wf.kstep. rewrite On. destruct M as [->|(a & b & -> & F)]; [reflexivity|].
          inversion F as [|? ? Hb _]; subst. apply Z.leb_le in Hb. now rewrite Hb. }
        rewrite KS. apply (IH (Some (m_time m)) _ TS H). reflexivity.
      * destruct (is_off m) eqn:Of.
        -- assert (N : is_note m = true) by (unfold is_note; now rewrite Of, orb_true_r). rewrite N. cbn [andb C05_wf.krun].
           destruct o as [t0|]; [|discriminate]. apply andb_true_iff in H. destruct H as [Hlt H]. cbn in M. subst st.
           unfold C05_wf.kstep. rewrite On, Hlt.
           apply (IH None _ TS H). right. exists t0, (m_time m). split; [reflexivity|exact Fm].
        -- assert (N : is_note m = false) by (unfold is_note; now rewrite On, Of). rewrite N. cbn [andb].
           apply (IH o st TS H). destruct o; [exact M|]. destruct M as [->|(a & b & -> & F)]; [now left|right].
           exists a, b. split; [reflexivity|now apply Mtail].
    + rewrite andb_false_r. apply (IH o st TS H). destruct o; [exact M|].
      destruct M as [->|(a & b & -> & F)]; [now left|right]. exists a, b. split; [reflexivity|now apply Mtail].
Qed.

Lemma swf_wf_abs l : tsorted l = true -> swf l = true -> wf_abs l = true.
Proof.
  intros TS W. apply wf_abs_spec. split; [exact TS|]. intros k.
  destruct (salt_wf_run k l None KNone TS (swf_spec l W k) (or_introl eq_refl)) as (st' & R & C).
  unfold wf_key. rewrite R. destruct st'; cbn in C; auto; contradiction.
Qed.

(* ================================================================ S4: C05's wf_key gives C07's alternation *)
Lemma krun5_alt k : forall l st st', C05_wf.krun true st (kproj k l) = Some st' ->
  alt_run k (opn st) l = Some (opn st').
Proof.
  induction l as [|m l IH]; intros st st' H.
  - cbn in H. now injection H as <-.
  - rewrite kproj_cons_eq in H. cbn [alt_run]. change (is_key k m) with (k2_eqb k (qkey m)).
    destruct (k2_eqb k (qkey m)) eqn:K; cbn [andb] in *.
    + destruct (is_note m) eqn:N; cbn [andb] in H.
      * cbn [C05_wf.krun] in H. destruct (C05_wf.kstep true st m) as [s1|] eqn:KS; [|discriminate].
        pose proof (kstep_opn _ _ _ _ KS) as Ho. specialize (IH s1 st' H). rewrite Ho in IH.
        destruct (is_on m) eqn:On.
        -- destruct (C05_wf.kstep_on _ _ _ _ On KS) as [_ Hno].
           destruct st as [|a|a b]; cbn [opn negb] in *; [exact IH|now destruct (Hno a)|exact IH].
        -- unfold is_note in N. rewrite On in N. cbn [orb] in N. rewrite N.
           unfold C05_wf.kstep in KS. rewrite On in KS. destruct st as [|a|a b]; try discriminate. exact IH.
      * unfold is_note in N. apply orb_false_iff in N. destruct N as [-> ->]. now apply IH.
    + rewrite andb_false_r in H. now apply IH.
Qed.

Lemma wf_key_alt k l : wf_key k l = true -> alt_run k false l = Some false.
Proof.
  intros H. destruct (wf_key_krun k l H) as (st & R & C). pose proof (krun5_alt k l KNone st R) as A.
  cbn [opn] in A. rewrite A. destruct st; cbn in C; try reflexivity. contradiction.
Qed.

Lemma alt_run_bal k : forall l o, alt_run k o l = Some false -> bal k (b2z o) l = true.
Proof.
  induction l as [|m l IH]; intros o H; cbn [alt_run bal] in *.
  - injection H as ->. reflexivity.
  - destruct (is_key k m && is_on m); [|destruct (is_key k m && is_off m)].
    + destruct o; [discriminate|]. exact (IH true H).
    + destruct o; [|discriminate]. exact (IH false H).
    + now apply IH.
Qed.

Lemma alt_balanced l : (forall k, alt_run k false l = Some false) -> balanced l = true.
Proof. intros A. apply balanced_intro. intros k. exact (alt_run_bal k l false (A k)). Qed.

Lemma alt_orun k : forall l o ov, alt_run k o l <> None -> isS ov = o ->
  forall b, alt_run k o l = Some b -> isS (orun k ov l) = b.
Proof.
  induction l as [|m l IH]; intros o ov A Ho b Hb; cbn [alt_run] in *.
  - injection Hb as <-. exact Ho.
  - rewrite orun_cons. change (is_key k m) with (k2_eqb k (mkey m)) in *. unfold ostep.
    destruct (type_cases m) as [T|[T|[T|T]]].
    + destruct (is_on_t m T) as (On & _ & _).
      assert (Of : is_off m = false) by (unfold is_off, mtype_eqb; now rewrite T).
      rewrite T, On, Of, !andb_true_r, !andb_false_r in *. destruct (k2_eqb k (mkey m)).
      * destruct o; [discriminate|]. apply (IH true (Some (m_vel m))); auto.
      * now apply (IH o ov).
    + destruct (is_off_t m T) as (On & _ & _).
      assert (Of : is_off m = true) by (unfold is_off, mtype_eqb; now rewrite T).
      rewrite T, On, Of, !andb_true_r, !andb_false_r in *. destruct (k2_eqb k (mkey m)).
      * destruct o; [|discriminate]. apply (IH false None); auto.
      * now apply (IH o ov).
    + assert (On : is_on m = false) by (unfold is_on, mtype_eqb; now rewrite T).
      assert (Of : is_off m = false) by (unfold is_off, mtype_eqb; now rewrite T).
      rewrite T, On, Of, !andb_false_r in *. now apply (IH o ov).
    + destruct (is_plain_t m T) as (Nt & _). unfold is_note in Nt. apply orb_false_iff in Nt. destruct Nt as [On Of].
      destruct T as (T1 & T2 & T3). rewrite On, Of, !andb_false_r in *.
      assert (E : match m_type m with
                  | NOTE_OFF => if k2_eqb k (mkey m) then None else ov
                  | NOTE_ON => if k2_eqb k (mkey m) then Some (m_vel m) else ov
                  | _ => ov end = ov) by (destruct (m_type m); congruence).
      rewrite E. now apply (IH o ov).
Qed.

Lemma alt_closed l k : alt_run k false l = Some false -> orun k None l = None.
Proof.
  intros A. pose proof (alt_orun k l false None ltac:(now rewrite A) eq_refl false A) as H.
  destruct (orun k None l); [discriminate|reflexivity].
Qed.

(* ================================================================ S5: the reference quantiser only shrinks notes *)
Lemma asum_kproj k a b : forall l, asum k a b l = asum k a b (kproj k l).
Proof.
  induction l as [|m l IH]; [reflexivity|]. rewrite kproj_cons_eq, asum_cons, IH.
  destruct (is_note m) eqn:N; cbn [andb].
  - change (k2_eqb k (qkey m)) with (is_key k m). destruct (is_key k m) eqn:K; [now rewrite asum_cons|].
    rewrite term_nokey by exact K. lia.
  - rewrite term_nonnote by exact N. lia.
Qed.

Lemma le_t_anti t c c' : c <= c' -> le_t t c' <= le_t t c.
Proof. intros H. unfold le_t. destruct (Z.leb_spec c' t), (Z.leb_spec c t); cbn; lia. Qed.

Definition keynote (k : k2) (m : msg) : Prop := is_note m = true /\ qkey m = k.

Lemma keynote_key k m : keynote k m -> is_key k m = true.
Proof. intros [_ <-]. apply C07_proofs.k2_eqb_refl. Qed.

Lemma qnl_key_adepth values k t : pos_steps values = true -> forall L st st',
  Forall (keynote k) L -> kst_closed st -> C05_wf.krun true st L = Some st' ->
  adepth k t (qnl_key values true L) <= adepth k t L.
Proof.
  intros Hpos. unfold adepth. induction L as [| x | on off L IH] using list_ind2; intros st st' HF Hc Hr.
  - cbn. lia.
  - cbn [qnl_key asum]. inversion HF as [|? ? Hx _]; subst. cbn [C05_wf.krun] in Hr.
    destruct (C05_wf.kstep true st x) as [s1|] eqn:KS; [|discriminate].
    destruct (kstep_closed_on _ _ _ Hc KS) as (On & _ & _).
    rewrite (term_on k _ _ _ x (keynote_key k x Hx) On). pose proof (le_t_range t (m_time x)). lia.
  - inversion HF as [|? ? Hon HF1]; subst. inversion HF1 as [|? ? Hoff HF2]; subst.
    cbn [C05_wf.krun] in Hr.
    destruct (C05_wf.kstep true st on) as [s1|] eqn:KS1; [|discriminate].
    destruct (kstep_closed_on _ _ _ Hc KS1) as (On & -> & _).
    destruct (C05_wf.kstep true (KOpen (m_time on)) off) as [s2|] eqn:KS2; [|discriminate].
    assert (Off : is_on off = false).
    { destruct (is_on off) eqn:E; [|reflexivity]. unfold C05_wf.kstep in KS2. rewrite E in KS2. discriminate. }
    destruct (kstep_off_inv _ _ _ _ Off KS2) as (a & [= <-] & -> & Hlt).
    assert (Offb : is_off off = true).
    { destruct Hoff as [N _]. unfold is_note in N. now rewrite Off in N. }
    specialize (IH (KClosed (m_time on) (m_time off)) st' HF2 I Hr).
    rewrite !asum_cons, (term_on k _ _ _ on (keynote_key k on Hon) On),
      (term_off k _ _ _ off (keynote_key k off Hoff) Offb).
    cbn [qnl_key]. set (cur := m_time off - m_time on). set (valid := filter _ values).
    destruct valid as [|v vs] eqn:Ev.
    + pose proof (le_t_anti t (m_time on) (m_time off) ltac:(lia)). lia.
    + assert (Hin : In (closest cur (v :: vs)) valid) by (rewrite Ev; apply closest_in; discriminate).
      unfold valid in Hin. apply filter_In in Hin. destruct Hin as [Hv Hfit].
      apply andb_true_iff in Hfit. destruct Hfit as [_ Hle]. cbn [negb orb] in Hle. apply Z.leb_le in Hle.
      set (d := closest cur (v :: vs)) in *.
      rewrite !asum_cons, (term_on k _ _ _ on (keynote_key k on Hon) On).
      assert (K' : is_key k (set_time off (m_time on + d) (m_tf off)) = true) by exact (keynote_key k off Hoff).
      rewrite (term_off k _ _ _ _ K' Offb). cbn [set_time m_time].
      pose proof (le_t_anti t (m_time on + d) (m_time off) ltac:(unfold cur in Hle; lia)). lia.
Qed.

Lemma qnl_key_nnt values dne : pos_steps values = true -> forall L,
  Forall (fun m => 0 <= m_time m) L -> Forall (fun m => 0 <= m_time m) (qnl_key values dne L).
Proof.
  intros Hpos. induction L as [| x | on off L IH] using list_ind2; intros HF; try constructor.
  inversion HF as [|? ? Hon HF1]; subst. inversion HF1 as [|? ? Hoff HF2]; subst.
  cbn [qnl_key]. set (cur := m_time off - m_time on). set (valid := filter _ values).
  destruct valid as [|v vs] eqn:Ev; [now apply IH|].
  assert (Hin : In (closest cur (v :: vs)) valid) by (rewrite Ev; apply closest_in; discriminate).
  unfold valid in Hin. apply filter_In in Hin. destruct Hin as [Hv _].
  pose proof (pos_steps_in _ _ Hpos Hv) as Hd.
  constructor; [exact Hon|]. constructor; [cbn [set_time m_time]; lia|now apply IH].
Qed.

(* ================================================================ S6: one piece through the re-quantiser *)
Definition qn (p : list msg) : list msg :=
  to_rel (quantise_note_lengths (to_abs p) get_default_note_values PPQN true).

Lemma default_values_ok : nodupb get_default_note_values = true /\ pos_steps get_default_note_values = true.
Proof. vm_compute. split; reflexivity. Qed.

Lemma qn_spec p : track_ok p ->
  nonneg_waits (qn p) = true /\ (forall k, alt_run k false (qn p) = Some false) /\
  forall k t, isS (sound k t 0 None (qn p)) = true -> isS (sound k t 0 None p) = true.
Proof.
  intros [NN P]. change (nonneg_waits p = true) in NN.
  pose proof (paired_alt p P) as A0.
  assert (A1 : forall k, alt k false p = true) by (intros k; apply alt_spec; apply A0).
  destruct (to_abs_wf p NN A1 (paired_rsdepth p P NN)) as (TS & NT & SW & _ & _).
  pose proof (swf_wf_abs _ TS SW) as WA.
  destruct default_values_ok as [Hnd Hpos].
  destruct (C06_main (to_abs p) get_default_note_values PPQN true WA Hnd Hpos) as [WQ HK].
  set (Q := quantise_note_lengths (to_abs p) get_default_note_values PPQN true) in *.
  apply wf_abs_spec in WQ. destruct WQ as [TSQ KQ]. change (tsorted Q = true) in TSQ.
  assert (AQ : forall k, alt_run k false Q = Some false) by (intros k; apply wf_key_alt, KQ).
  assert (NTQ : nnt Q = true).
  { unfold nnt. apply forallb_forall. intros m Hm. apply Z.leb_le.
    destruct (is_note m) eqn:N.
    - assert (Hk : In m (kproj (qkey m) Q)) by (unfold kproj; apply filter_In; now rewrite N, C05_closest.k2_eqb_refl).
      rewrite HK in Hk.
      assert (F : Forall (fun x => 0 <= m_time x) (qnl_key get_default_note_values true (kproj (qkey m) (to_abs p)))).
      { apply qnl_key_nnt; [exact Hpos|].
        apply Forall_forall. intros x Hx. apply kproj_in in Hx. destruct Hx as [Hx _]. now apply (nnt_In _ NT). }
      rewrite Forall_forall in F. exact (F m Hk).
    - assert (Hf : In m (filter nonnote Q)) by (apply filter_In; unfold nonnote; now rewrite N).
      apply (Permutation_in _ (C06_nonnote (to_abs p) get_default_note_values PPQN true)) in Hf.
      apply filter_In in Hf. destruct Hf as [Hf _]. apply (proj1 (sort_abs_in _ _)) in Hf. now apply (nnt_In _ NT). }
  destruct (glue_to_rel Q TSQ NTQ (alt_balanced Q AQ)) as (NNR & _ & SQ).
  assert (AR : forall k, alt_run k false (qn p) = Some false).
  { intros k. apply alt_spec. unfold qn. fold Q. rewrite alt_to_rel. apply alt_spec, AQ. }
  split; [exact NNR|]. split; [exact AR|]. intros k t.
  rewrite <- (sounding_sound k t (qn p) AR), <- (sounding_sound k t p A0).
  unfold qn. fold Q. rewrite SQ.
  rewrite <- (glue_to_abs p k t NN) by (pose proof (alt_run_zdelta k p false false (A0 k)) as Z; cbn in Z; lia).
  rewrite !sounding_adepth. intros H. apply Z.ltb_lt in H. apply Z.ltb_lt.
  assert (Hle : adepth k t Q <= adepth k t (to_abs p)).
  { unfold adepth. rewrite (asum_kproj k _ _ Q), (asum_kproj k _ _ (to_abs p)), HK.
    pose proof (wf_abs_spec (to_abs p)) as W. apply W in WA. destruct WA as [_ KA].
    destruct (wf_key_krun k (to_abs p) (KA k)) as (st & R & _).
    apply (qnl_key_adepth _ k t Hpos _ KNone st); [|exact I|exact R].
    apply Forall_forall. intros m Hm. apply kproj_in in Hm. destruct Hm as (_ & N & Kq). now split. }
  lia.
Qed.

(* ================================================================ S7: the loop with re-quantisation on *)
Lemma sb_track_true len rel :
  sb_track true len rel =
  (qn (tr_bar (sb_track false len rel)), tr_rest (sb_track false len rel), tr_more (sb_track false len rel)).
Proof. unfold sb_track, qn. destruct (seq_split rel [len]) as [|p0 [|p1 tl]]; reflexivity. Qed.

Lemma sb_track_true_rest len seqs :
  map tr_rest (map (sb_track true len) seqs) = map tr_rest (map (sb_track false len) seqs).
Proof. rewrite !map_map. apply map_ext. intros s. now rewrite sb_track_true. Qed.

Lemma sb_track_true_more len seqs :
  existsb tr_more (map (sb_track true len) seqs) = existsb tr_more (map (sb_track false len) seqs).
Proof. induction seqs as [|s seqs IH]; [reflexivity|]. cbn [map existsb]. now rewrite IH, sb_track_true. Qed.

Lemma sound_isS_shift k l1 l2 : (forall t, isS (sound k t 0 None l1) = true -> isS (sound k t 0 None l2) = true) ->
  forall t now, isS (sound k t now None l1) = true -> isS (sound k t now None l2) = true.
Proof. intros H t now. rewrite <- (Z.add_0_l now), !sound_shift. apply H. Qed.

Definition ext_sub (a : list bar) (s : list msg) (r : list bar) : Prop :=
  exists ext, r = a ++ ext /\
    forall k t now, isS (sound k t now None (concat (map b_rel ext))) = true -> isS (sound k t now None s) = true.

Lemma round_F3_sub len num den : 0 < len -> bar_capacity num den = len -> forall seqs acc nb res,
  length acc = length seqs -> Forall track_ok seqs ->
  Forall2 (fun x b => bar_init (tr_bar x) num den = Ok (b_rel b)) (map (sb_track true len) seqs) nb ->
  (F3 ext_sub (extend acc nb) (map tr_rest (map (sb_track false len) seqs)) res \/
   (existsb tr_more (map (sb_track false len) seqs) = false /\ res = extend acc nb)) ->
  F3 ext_sub acc seqs res.
Proof.
  intros Hlen Hcap0. assert (Hcap : bar_capacity num den <= len <= bar_capacity num den) by lia. clear Hcap0.
  induction seqs as [|s seqs IH]; intros acc nb res L Hok HF H.
  - destruct acc; [|discriminate]. cbn [map] in HF. inversion HF; subst. cbn in H.
    destruct H as [H|[_ ->]]; [inversion H|]; constructor.
  - destruct acc as [|a acc]; [discriminate|]. cbn [map] in HF. inversion HF as [|x b xs nb' Hb HF']; subst.
    inversion Hok as [|? ? Hs Hok']; subst. injection L as L.
    destruct (round_track len s Hs Hlen) as (Hsound & Hbar & Hrest & Hmore).
    rewrite sb_track_true in Hb. unfold tr_bar at 1 in Hb. cbn [fst] in Hb.
    destruct (qn_spec _ Hbar) as (NNq & Aq & Sub).
    destruct (bar_init_sound_alt _ num den (b_rel b) Hb Aq (fun k => alt_closed _ k (Aq k)) NNq) as [Sb Cb].
    assert (Db : dur_rel (b_rel b) = len).
    { apply bar_init_post in Hb. destruct Hb as [Hb _]. lia. }
    assert (Hhead : forall ext', (forall k t now, isS (sound k t now None (concat (map b_rel ext'))) = true ->
                                   isS (sound k t now None (tr_rest (sb_track false len s))) = true) ->
              forall k t now, isS (sound k t now None (concat (map b_rel (b :: ext')))) = true ->
                              isS (sound k t now None s) = true).
    { intros ext' He k t now. cbn [map concat]. rewrite sound_app, Sb, Cb, Db, Hsound, !isS_orelse.
      intros Hx. apply orb_true_iff in Hx. apply orb_true_iff. destruct Hx as [Hx|Hx].
      - left. revert Hx. apply sound_isS_shift. apply Sub.
      - right. now apply He. }
    cbn [extend combine map fst snd] in H. fold (extend acc nb') in H.
    destruct H as [H|[Hm ->]].
    + inversion H as [|? ? r ? ? res' (ext' & -> & He) H']; subst. constructor.
      * exists (b :: ext'). split; [now rewrite <- app_assoc|]. now apply Hhead.
      * apply (IH acc nb' res' L Hok' HF'). now left.
    + cbn [existsb] in Hm. apply orb_false_iff in Hm. destruct Hm as [Hm0 Hm]. constructor.
      * exists [b]. split; [reflexivity|]. apply Hhead. intros k t now. rewrite (Hmore Hm0). cbn. discriminate.
      * apply (IH acc nb' _ L Hok' HF'). right. split; [exact Hm|reflexivity].
Qed.

Lemma sb_loop_sub : forall fuel seqs tsq ksq cur num den key acc res,
  sb_loop fuel true seqs tsq ksq cur num den key acc = Ok res ->
  length acc = length seqs -> Forall track_ok seqs -> all_pos tsq = true -> 0 < blen num den ->
  F3 ext_sub acc seqs res.
Proof.
  induction fuel as [|f IH]; intros seqs tsq ksq cur num den key acc res H L Hok Hp H0; [discriminate|].
  rewrite sb_loop_S in H. cbn zeta in H.
  pose proof (sig_pos tsq cur num den Hp H0) as Hlen.
  set (num' := sig_num tsq cur num) in *. set (den' := sig_den tsq cur den) in *.
  set (key' := key_cur ksq cur key) in *.
  destruct (collect _ _ _ _) as [nb|e] eqn:C; [|discriminate].
  pose proof (collect_F2 num' den' key' (fun x => bar_init (tr_bar x) num' den') _ nb C) as HF.
  apply round_bars in C. destruct C as [Lnb _].
  apply (round_F3_sub (blen num' den') num' den' Hlen (bar_capacity_blen num' den') seqs acc nb res L Hok HF).
  rewrite sb_track_true_more, sb_track_true_rest in H.
  destruct (existsb tr_more _) eqn:M.
  - left. apply (IH _ _ _ _ _ _ _ _ _ H).
    + rewrite extend_length, !map_length; congruence.
    + now apply rests_ok.
    + now apply q_rest_pos.
    + exact Hlen.
  - right. split; [reflexivity|]. now injection H as <-.
Qed.

(* C09, last sentence, re-quantisation on: the bars sound only where the track sounds *)
Theorem C09_sound_subset : forall rels meta bars,
  split_bars rels meta true = Ok bars ->
  all_nonneg rels = true -> all_pos (filter Bars.is_ts meta) = true -> forallb paired_pos rels = true ->
  forall i bs r, nth_error bars i = Some bs -> nth_error rels i = Some r ->
  forall k t, isS (sound k t 0 None (concat (map b_rel bs))) = true -> isS (sound k t 0 None r) = true.
Proof.
  intros rels meta bars H Hnn Hp Hpp i bs r Hbs Hr k t. rewrite split_bars_eq in H.
  assert (Hok : Forall track_ok rels).
  { apply Forall_forall. intros s Hs. unfold all_nonneg in Hnn. rewrite forallb_forall in Hnn, Hpp.
    split; [exact (Hnn s Hs)|exact (Hpp s Hs)]. }
  pose proof (sb_loop_sub _ _ _ _ _ _ _ _ _ _ H ltac:(now rewrite map_length) Hok (init_tsq_pos meta Hp) eq_refl) as F.
  destruct (F3_nth _ _ _ _ F i r bs Hr Hbs) as (a & Ha & (ext & -> & He)).
  apply nth_error_In in Ha. apply in_map_iff in Ha. destruct Ha as (? & <- & _). cbn [app]. apply He.
Qed.

(* the inclusion can be strict: the 100-tick note is cut at the bar line (96) and its first fragment re-quantised to
   the largest default note value 36, its second fragment keeps 4 ticks; the 3-tick note is shorter than every note
   value and is dropped *)
Module C09_qnl_examples.
Import Show.
Definition qx_rels : list (list msg) := [[on 0 60 100 0; wt 0 100; of 0 60 0; on 0 62 90 0; wt 0 3; of 0 62 0; wt 0 20]].
Example qx_strict :
  all_nonneg qx_rels = true /\ forallb paired_pos qx_rels = true /\ all_pos (filter Bars.is_ts []) = true /\
  exists bars, split_bars qx_rels [] true = Ok bars /\
    map (fun t => isS (sound (0, 60) t 0 None (concat (map b_rel (nth 0 bars []))))) [0; 50; 95; 96; 99; 100] =
      [true; false; false; true; true; false] /\
    map (fun t => isS (sound (0, 60) t 0 None (nth 0 qx_rels []))) [0; 50; 95; 96; 99; 100] =
      [true; true; true; true; true; false] /\
    isS (sound (0, 62) 101 0 None (concat (map b_rel (nth 0 bars [])))) = false /\
    isS (sound (0, 62) 101 0 None (nth 0 qx_rels [])) = true.
Proof.
  split; [vm_compute; reflexivity|]. split; [vm_compute; reflexivity|]. split; [reflexivity|].
  eexists. split; [vm_compute; reflexivity|]. vm_compute. repeat split; reflexivity.
Qed.

(* FINDING: it is not only boundary-cut fragments that shrink.  The default note values are
   [24; 12; 6; 16; 8; 4; 36; 18; 9] (PPQN = 24), so every note longer than 36 ticks is shortened to 36 by the
   re-quantisation, also a half note lying entirely inside one 4/4 bar *)
Definition qx_half : list (list msg) := [[on 0 60 100 0; wt 0 48; of 0 60 0; wt 0 48]].
Example qx_uncut_shrinks :
  get_default_note_values = [24; 12; 6; 16; 8; 4; 36; 18; 9] /\
  all_nonneg qx_half = true /\ forallb paired_pos qx_half = true /\
  exists b, split_bars qx_half [] true = Ok [[b]] /\
    map (fun t => isS (sound (0, 60) t 0 None (b_rel b))) [0; 35; 36; 47; 48] = [true; true; false; false; false] /\
    map (fun t => isS (sound (0, 60) t 0 None (nth 0 qx_half []))) [0; 35; 36; 47; 48] = [true; true; true; true; false].
Proof.
  split; [vm_compute; reflexivity|]. split; [vm_compute; reflexivity|]. split; [vm_compute; reflexivity|].
  eexists. split; [vm_compute; reflexivity|]. vm_compute. split; reflexivity.
Qed.
End C09_qnl_examples.
