(* C06_main -- quantise_note_lengths on a well-formed list: per (channel, pitch) key the output is the reference
   per-key length quantiser applied to the notes of the key. *)
From Coq Require Import ZArith List Bool Lia Permutation.
From Model Require Import Base Seq Pairing.
From Proofs Require Import C05_closest C05_proofs C05_wf C05_sweep C05_sort C05_final C06_proofs.
Import ListNotations.
Open Scope Z_scope.

(* ------------------------------------------------------------------ list helpers *)
Lemma list_ind2 {A} (P : list A -> Prop) :
  P [] -> (forall x, P [x]) -> (forall x y l, P l -> P (x :: y :: l)) -> forall l, P l.
Proof.
  intros H0 H1 H2 l. enough (P l /\ forall x, P (x :: l)) by tauto.
  induction l as [|y l [IH1 IH2]]; [split; auto|]. split; [apply IH2|]. intros x. now apply H2.
Qed.

(* index of the last element satisfying q *)
Fixpoint last_idx {A} (q : A -> bool) (l : list A) : option nat :=
  match l with
  | [] => None
  | x :: l' => match last_idx q l' with Some i => Some (S i) | None => if q x then Some O else None end
  end.

Lemma last_idx_none {A} (q : A -> bool) l : last_idx q l = None -> filter q l = [].
Proof.
  induction l as [|x l IH]; cbn [last_idx filter]; [reflexivity|].
  destruct (last_idx q l); [discriminate|]. destruct (q x); [discriminate|]. auto.
Qed.

Lemma last_idx_split {A} (q : A -> bool) l idx : last_idx q l = Some idx ->
  exists a p b, l = a ++ p :: b /\ length a = idx /\ q p = true /\ filter q b = [].
Proof.
  revert idx. induction l as [|x l IH]; intros idx; cbn [last_idx]; [discriminate|].
  destruct (last_idx q l) as [i|] eqn:E.
  - intros [= <-]. destruct (IH i eq_refl) as (a & p & b & -> & Hl & Hq & Hb).
    exists (x :: a), p, b. cbn [length app]. repeat split; auto.
  - destruct (q x) eqn:Q; [|discriminate]. intros [= <-].
    exists [], x, l. repeat split; auto. now apply last_idx_none.
Qed.

Lemma last_idx_snoc {A} (q : A -> bool) l x :
  last_idx q (l ++ [x]) = if q x then Some (length l) else last_idx q l.
Proof.
  induction l as [|y l IH]; cbn [app last_idx length].
  - now destruct (q x).
  - rewrite IH. destruct (q x); [reflexivity|]. reflexivity.
Qed.

Lemma last_idx_set_nth {A} (q : A -> bool) (f : A -> A) : (forall x, q (f x) = q x) ->
  forall l n, last_idx q (set_nth n f l) = last_idx q l.
Proof.
  intros Hf. induction l as [|x l IH]; intros n; destruct n; cbn [set_nth last_idx]; try reflexivity.
  - now rewrite Hf.
  - now rewrite IH.
Qed.

Lemma set_nth_split {A} (f : A -> A) a p b : set_nth (length a) f (a ++ p :: b) = a ++ f p :: b.
Proof. induction a as [|x a IH]; cbn [length app set_nth]; [reflexivity|now rewrite IH]. Qed.

(* ------------------------------------------------------------------ the pairing loop on well-formed input *)
Definition chan_of (ch : Z) (st : list (Z * chst)) : chst :=
  match dget Z.eqb ch st with Some c => c | None => mkch [] [] end.
Definition pitchb (n : Z) (p : pairing) : bool := m_note (p_first p) =? n.
Definition strip (p : pairing) : spair := (p_first p, p_second p).

Definition KI (L : list msg) (cs : chst) (n : Z) : Prop :=
  map strip (filter (pitchb n) (c_pairs cs)) = pairs_from None L /\
  match dget Z.eqb n (c_open cs) with
  | Some idx => last_idx (pitchb n) (c_pairs cs) = Some idx /\ popen None L <> None
  | None => popen None L = None
  end.

Definition PInv (pre : list msg) (st : list (Z * chst)) : Prop :=
  uniq st /\ forall ch, uniq (c_open (chan_of ch st)) /\ forall n, KI (kproj (ch, n) pre) (chan_of ch st) n.

Lemma dgetZ_dset {V} k k' (v : V) d : dget Z.eqb k (dset Z.eqb k' v d) = if k =? k' then Some v else dget Z.eqb k d.
Proof. apply dget_dset. apply Z.eqb_eq. Qed.
Lemma dgetZ_ddel {V} k k' (d : list (Z * V)) : uniq d ->
  dget Z.eqb k (ddel Z.eqb k' d) = if k =? k' then None else dget Z.eqb k d.
Proof. apply dget_ddel. apply Z.eqb_eq. Qed.

Lemma tmem_is_note m : tmem (m_type m) NOTE_TYPES = is_note m.
Proof. rewrite tmem_note_types. unfold is_note, is_on, is_off, mtype_eqb. now destruct (m_type m). Qed.

Lemma k2_eqb_pair ch n m : k2_eqb (ch, n) (qkey m) = (ch =? m_chan m) && (n =? m_note m).
Proof. reflexivity. Qed.

Lemma PInv_update pre st m cs' :
  PInv pre st ->
  uniq (c_open cs') ->
  (forall n, KI (kproj (m_chan m, n) (pre ++ [m])) cs' n) ->
  PInv (pre ++ [m]) (dset Z.eqb (m_chan m) cs' st).
Proof.
  intros (Hu & Hc) Hu' Hk'. split; [apply uniq_dset; [apply Z.eqb_eq|exact Hu]|].
  intros ch. unfold chan_of. rewrite dgetZ_dset. destruct (Z.eqb_spec ch (m_chan m)) as [->|Hne].
  - split; assumption.
  - destruct (Hc ch) as [H1 H2]. split; [exact H1|]. intros n.
    rewrite kproj_snoc_other; [apply H2|]. rewrite k2_eqb_pair.
    destruct (Z.eqb_spec ch (m_chan m)); [contradiction|]. now rewrite andb_false_r.
Qed.

Lemma pairs_from_closed L : popen None L = None -> pairs_from None L = cpairs None L.
Proof. unfold pairs_from. intros ->. apply app_nil_r. Qed.

Lemma pitchb_new n (i : nat) (m : msg) : pitchb n ((i, m), None) = (m_note m =? n).
Proof. reflexivity. Qed.

Lemma pair_step_inv pre st i m : no_fail (pre ++ [m]) -> PInv pre st ->
  PInv (pre ++ [m]) (pair_step NOTE_TYPES true st (i, m)).
Proof.
  intros Hnf HP. unfold pair_step. rewrite tmem_is_note.
  destruct (is_note m) eqn:N; cbn [negb].
  2:{ destruct HP as (Hu & Hc). split; [exact Hu|]. intros ch. destruct (Hc ch) as [H1 H2].
      split; [exact H1|]. intros n. rewrite kproj_snoc_other by now rewrite N. apply H2. }
  fold (chan_of (m_chan m) st). set (cs := chan_of (m_chan m) st).
  pose proof HP as (Hu & Hc). destruct (Hc (m_chan m)) as [Huo Hkn]. fold cs in Huo, Hkn.
  set (L0 := kproj (m_chan m, m_note m) pre).
  pose proof (Hnf (qkey m)) as Hnf0. rewrite kproj_snoc_same, krun_app in Hnf0 by exact N.
  change (kproj (qkey m) pre) with L0 in Hnf0.
  destruct (krun true KNone L0) as [stin|] eqn:Rin; [|congruence].
  cbn [krun] in Hnf0. destruct (kstep true stin m) as [stin'|] eqn:KS; [|congruence]. clear Hnf0.
  pose proof (krun_popen true L0 KNone None stin Rin eq_refl) as Hpo.
  destruct (Hkn (m_note m)) as [Hmap Hopen]. fold L0 in Hmap, Hopen.
  assert (Hsame : forall n, n = m_note m -> kproj (m_chan m, n) (pre ++ [m]) = L0 ++ [m]).
  { intros n ->. exact (kproj_snoc_same pre m N). }
  assert (Hoth : forall n, n <> m_note m -> kproj (m_chan m, n) (pre ++ [m]) = kproj (m_chan m, n) pre).
  { intros n Hne. apply kproj_snoc_other. rewrite k2_eqb_pair.
    destruct (Z.eqb_spec n (m_note m)); [contradiction|]. now rewrite !andb_false_r. }
  apply is_note_type in N. destruct N as [T|T]; rewrite T.
  - (* NOTE_ON *)
    assert (Hon : is_on m = true) by now apply is_on_type.
    destruct (kstep_on_inv _ _ _ _ Hon KS) as [_ Hst].
    assert (Hpop : popen None L0 = None).
    { destruct (popen None L0); [|reflexivity]. cbn in Hpo.
      destruct Hst as [->|(a & b & -> & _)]; discriminate. }
    destruct (dget Z.eqb (m_note m) (c_open cs)) as [idx|] eqn:G; [now destruct Hopen as [_ Hopen]|].
    apply PInv_update; [exact HP|cbn [c_open]; apply uniq_dset; [apply Z.eqb_eq|exact Huo]|].
    intros n. destruct (Z.eq_dec n (m_note m)) as [->|Hne].
    + rewrite (Hsame _ eq_refl). split; cbn [c_pairs c_open].
      * rewrite filter_app, map_app, Hmap. cbn [filter]. rewrite pitchb_new.
        rewrite Z.eqb_refl. cbn [map]. unfold pairs_from. rewrite cpairs_snoc, popen_snoc, Hpop.
        rewrite !app_nil_r. reflexivity.
      * rewrite dgetZ_dset, Z.eqb_refl. split.
        -- rewrite last_idx_snoc, pitchb_new. now rewrite Z.eqb_refl.
        -- rewrite popen_snoc, Hpop. discriminate.
    + rewrite (Hoth n Hne). destruct (Hkn n) as [Hm Ho]. split; cbn [c_pairs c_open].
      * rewrite filter_app. cbn [filter]. rewrite pitchb_new.
        destruct (Z.eqb_spec (m_note m) n); [congruence|]. now rewrite app_nil_r.
      * rewrite dgetZ_dset. destruct (Z.eqb_spec n (m_note m)); [contradiction|].
        destruct (dget Z.eqb n (c_open cs)) as [idx|]; [|exact Ho]. destruct Ho as [Ho1 Ho2]. split; [|exact Ho2].
        rewrite last_idx_snoc, pitchb_new.
        destruct (Z.eqb_spec (m_note m) n); [congruence|exact Ho1].
  - (* NOTE_OFF *)
    assert (Hon : is_on m = false) by now apply is_on_off_false.
    destruct (kstep_off_inv _ _ _ _ Hon KS) as (a & -> & _ & _).
    destruct (popen None L0) as [on|] eqn:Hpop; [|discriminate]. clear Hpo.
    destruct (dget Z.eqb (m_note m) (c_open cs)) as [idx|] eqn:G; [|discriminate].
    destruct Hopen as [Hlast _].
    destruct (last_idx_split _ _ _ Hlast) as (A & p & B & HAB & HlenA & Hqp & HqB).
    assert (Hset : set_nth idx (close_with (Some i, m)) (c_pairs cs) = A ++ close_with (Some i, m) p :: B).
    { rewrite HAB, <- HlenA. apply set_nth_split. }
    assert (Hpn : m_note (p_first p) = m_note m) by (unfold pitchb in Hqp; now apply Z.eqb_eq in Hqp).
    apply PInv_update; [exact HP|cbn [c_open]; apply uniq_ddel; exact Huo|].
    intros n. destruct (Z.eq_dec n (m_note m)) as [->|Hne].
    + rewrite (Hsame _ eq_refl). split; cbn [c_pairs c_open].
      * rewrite Hset. rewrite HAB in Hmap. rewrite filter_app in Hmap |- *. cbn [filter] in Hmap |- *.
        change (pitchb (m_note m) (close_with (Some i, m) p)) with (pitchb (m_note m) p).
        rewrite Hqp, HqB in Hmap |- *. rewrite map_app in Hmap |- *. cbn [map] in Hmap |- *.
        unfold pairs_from in Hmap |- *. rewrite Hpop in Hmap. rewrite cpairs_snoc, popen_snoc, Hpop, app_nil_r.
        apply app_inj_tail in Hmap. destruct Hmap as [Hm1 Hm2]. rewrite Hm1. f_equal.
        unfold strip in Hm2 |- *. injection Hm2 as Hm2 _. cbn. now rewrite <- Hm2.
      * rewrite dgetZ_ddel, Z.eqb_refl by exact Huo. rewrite popen_snoc, Hpop. reflexivity.
    + rewrite (Hoth n Hne). destruct (Hkn n) as [Hm Ho]. split; cbn [c_pairs c_open].
      * rewrite Hset. rewrite HAB in Hm. rewrite filter_app in Hm |- *. cbn [filter] in Hm |- *.
        change (pitchb n (close_with (Some i, m) p)) with (pitchb n p).
        assert (Hf : pitchb n p = false).
        { unfold pitchb. rewrite Hpn. destruct (Z.eqb_spec (m_note m) n); congruence. }
        rewrite Hf in Hm |- *. exact Hm.
      * rewrite dgetZ_ddel by exact Huo. destruct (Z.eqb_spec n (m_note m)); [contradiction|].
        destruct (dget Z.eqb n (c_open cs)) as [idx'|]; [|exact Ho]. destruct Ho as [Ho1 Ho2]. split; [|exact Ho2].
        rewrite last_idx_set_nth; [exact Ho1|]. intros x. reflexivity.
Qed.

Lemma pair_fold : forall L pre st, no_fail (pre ++ map snd L) -> PInv pre st ->
  PInv (pre ++ map snd L) (fold_left (pair_step NOTE_TYPES true) L st).
Proof.
  induction L as [|[i m] L IH]; intros pre st Hnf HP; cbn [map fold_left snd] in *.
  - now rewrite app_nil_r.
  - replace (pre ++ m :: map snd L) with ((pre ++ [m]) ++ map snd L) in * by (rewrite <- app_assoc; reflexivity).
    apply IH; [exact Hnf|]. apply pair_step_inv; [|exact HP]. now apply no_fail_app with (map snd L).
Qed.

Definition chan_pairs (ch : Z) (ps : list (Z * list pairing)) : list pairing :=
  match dget Z.eqb ch ps with Some P => P | None => [] end.

Lemma dget_map_vals {V W} (g : V -> W) k (d : list (Z * V)) :
  dget Z.eqb k (map (fun kv => (fst kv, g (snd kv))) d) = option_map g (dget Z.eqb k d).
Proof.
  induction d as [|[k' v] d IH]; cbn [map dget fst snd]; [reflexivity|].
  destruct (k =? k'); [reflexivity|exact IH].
Qed.

Lemma wf_key_closed_popen k s : wf_key k s = true -> popen None (kproj k s) = None.
Proof.
  unfold wf_key. intros H. destruct (krun true KNone (kproj k s)) as [st|] eqn:Hr; [|discriminate].
  pose proof (krun_popen true _ KNone None st Hr eq_refl) as Ho.
  destruct (popen None (kproj k s)); [|reflexivity]. destruct st; cbn in Ho; discriminate.
Qed.

Lemma impute_close_closed std imp p off : p_second p = Some off -> impute_close std imp p = p.
Proof.
  unfold p_second, impute_close. destruct (snd p); [reflexivity|discriminate].
Qed.

(* the pairings of a well-formed sorted list: channels are distinct and, per (channel, pitch), the pairings are the
   consecutive (on, off) pairs of the key's messages *)
Lemma pairings_wf std s : (forall k, wf_key k s = true) ->
  uniq (pairings_sorted NOTE_TYPES std true s) /\
  forall ch n, map strip (filter (pitchb n) (chan_pairs ch (pairings_sorted NOTE_TYPES std true s))) =
               cpairs None (kproj (ch, n) s).
Proof.
  intros Hwf. unfold pairings_sorted.
  set (st := fold_left (pair_step NOTE_TYPES true) (index_from 0 s) []).
  assert (HP : PInv s st).
  { pose proof (pair_fold (index_from 0 s) [] [] ) as H. rewrite index_from_snd in H. cbn [app] in H.
    apply H; [now apply wf_key_no_fail|].
    split; [constructor|]. intros ch. split; [constructor|]. intros n. split; reflexivity. }
  destruct HP as (Hu & Hc). split.
  - unfold uniq. rewrite map_map. cbn [fst]. exact Hu.
  - intros ch n. unfold chan_pairs.
    rewrite (dget_map_vals (fun cs : chst => map (impute_close std true) (c_pairs cs)) ch st).
    assert (Hcp : match option_map (fun cs => map (impute_close std true) (c_pairs cs)) (dget Z.eqb ch st) with
                  | Some P => P | None => [] end = c_pairs (chan_of ch st)).
    { unfold chan_of. destruct (dget Z.eqb ch st) as [cs|] eqn:G; cbn [option_map c_pairs]; [|reflexivity].
      rewrite <- (map_id (c_pairs cs)) at 2. apply map_ext_in. intros p Hp.
      destruct (Hc ch) as [_ Hk]. destruct (Hk (m_note (p_first p))) as [Hm _].
      unfold chan_of in Hm. rewrite G in Hm.
      rewrite pairs_from_closed in Hm by now apply wf_key_closed_popen.
      assert (Hin : In (strip p) (cpairs None (kproj (ch, m_note (p_first p)) s))).
      { rewrite <- Hm. apply in_map. apply filter_In. split; [exact Hp|]. unfold pitchb. apply Z.eqb_refl. }
      destruct (cpairs_closed _ _ _ Hin) as (off & Hoff). cbn [strip snd] in Hoff.
      now apply impute_close_closed with off. }
    rewrite Hcp. destruct (Hc ch) as [_ Hk]. destruct (Hk n) as [Hm _]. rewrite Hm.
    apply pairs_from_closed. now apply wf_key_closed_popen.
Qed.

(* ------------------------------------------------------------------ the reference per-key quantiser *)
(* L: the note messages of one key, on/off alternating.  Each note (on, off) gets the allowed duration closest to its
   current one among those that end no later than the onset of the next note of the key (and, with do_not_extend,
   are not longer than the current duration); it is dropped when there is none. *)
Fixpoint qnl_key (values : list Z) (dne : bool) (L : list msg) : list msg :=
  match L with
  | on :: off :: L' =>
      let cur := m_time off - m_time on in
      let valid := filter (fun v => (match L' with [] => true | on' :: _ => m_time on + v <=? m_time on' end)
                                    && (negb dne || (v <=? cur))) values in
      match valid with
      | [] => qnl_key values dne L'
      | _ => on :: set_time off (m_time on + closest cur valid) (m_tf off) :: qnl_key values dne L'
      end
  | _ => []
  end.

Fixpoint qnl_keyP (values : list Z) (dne : bool) (P : list spair) : list msg :=
  match P with
  | [] => []
  | (on, o) :: P' =>
      match o with
      | Some off =>
          let cur := m_time off - m_time on in
          let valid := filter (fun v => (match P' with [] => true | (on', _) :: _ => m_time on + v <=? m_time on' end)
                                        && (negb dne || (v <=? cur))) values in
          match valid with
          | [] => qnl_keyP values dne P'
          | _ => on :: set_time off (m_time on + closest cur valid) (m_tf off) :: qnl_keyP values dne P'
          end
      | None => qnl_keyP values dne P'
      end
  end.

Lemma qnl_keyP_cpairs values dne : forall L, popen None L = None ->
  qnl_keyP values dne (cpairs None L) = qnl_key values dne L.
Proof.
  induction L as [| x | on off L IH] using list_ind2; intros Hp.
  - reflexivity.
  - discriminate.
  - change (popen None (on :: off :: L)) with (popen None L) in Hp.
    change (cpairs None (on :: off :: L)) with ((on, Some off) :: cpairs None L).
    cbn [qnl_keyP qnl_key]. rewrite (IH Hp).
    destruct L as [|on' [|off' L'']]; [reflexivity|discriminate|reflexivity].
Qed.

Lemma next_same_hd n P : next_same n P = hd_error (filter (pitchb n) P).
Proof.
  induction P as [|p P IH]; cbn [next_same filter]; [reflexivity|]. unfold pitchb at 1.
  destruct (m_note (p_first p) =? n); [reflexivity|exact IH].
Qed.

Definition good_pair (ch : Z) (p : pairing) : Prop :=
  exists i off, snd p = Some (i, off) /\ m_type (p_first p) = NOTE_ON /\ m_type off = NOTE_OFF /\
                m_chan (p_first p) = ch /\ m_chan off = ch /\ m_note off = m_note (p_first p).

Lemma kproj_cons k x l :
  kproj k (x :: l) = if is_note x && k2_eqb k (qkey x) then x :: kproj k l else kproj k l.
Proof. reflexivity. Qed.

Lemma qnl_channel_key values dne ch n : nodupb values = true -> forall P, Forall (good_pair ch) P ->
  kproj (ch, n) (qnl_channel values dne P) = qnl_keyP values dne (map strip (filter (pitchb n) P)).
Proof.
  intros Hb. induction P as [|p P IH]; intros HF; [reflexivity|].
  inversion HF as [|? ? (i & off & Hs & Ton & Toff & Con & Coff & Noff) HF']; subst.
  specialize (IH HF'). cbn [qnl_channel filter].
  rewrite qnl_valid_filter by exact Hb. rewrite Hs.
  assert (Hon : is_note (p_first p) = true) by (apply is_note_type; now left).
  assert (Hoff : is_note off = true) by (apply is_note_type; now right).
  assert (Hont : p_on_time p = m_time (p_first p)) by reflexivity.
  assert (Hofft : p_off_time p = m_time off) by (unfold p_off_time, p_second; now rewrite Hs).
  assert (Hk1 : forall t f, is_note (set_time off t f) && k2_eqb (m_chan (p_first p), n) (qkey (set_time off t f)) =
                            is_note (p_first p) && k2_eqb (m_chan (p_first p), n) (qkey (p_first p))).
  { intros t f. change (is_note (set_time off t f)) with (is_note off).
    change (qkey (set_time off t f)) with (qkey off). rewrite Hon, Hoff. unfold qkey. now rewrite Coff, Noff. }
  unfold pitchb at 1.
  destruct (Z.eqb_spec (m_note (p_first p)) n) as [En|En].
  - (* the pairing belongs to the key *)
    cbn [map qnl_keyP]. unfold strip at 1. unfold p_second. rewrite Hs. cbn [option_map snd].
    assert (Hkey : is_note (p_first p) && k2_eqb (m_chan (p_first p), n) (qkey (p_first p)) = true).
    { rewrite Hon. unfold qkey. rewrite En. apply k2_eqb_refl. }
    assert (Hval : filter (fits dne p (next_same (m_note (p_first p)) P)) values =
                   filter (fun v => (match map strip (filter (pitchb n) P) with
                                     | [] => true
                                     | (on', _) :: _ => m_time (p_first p) + v <=? m_time on' end)
                                    && (negb dne || (v <=? m_time off - m_time (p_first p)))) values).
    { apply filter_ext. intros v. unfold fits. rewrite Hont, Hofft, En, next_same_hd.
      destruct (filter (pitchb n) P) as [|nx ?]; reflexivity. }
    rewrite Hofft, Hont, Hval. clear Hval.
    destruct (filter _ values) as [|v vs] eqn:Ev.
    + exact IH.
    + rewrite !kproj_cons, Hk1, Hkey, IH.
      replace (m_time off + (closest (m_time off - m_time (p_first p)) (v :: vs) - (m_time off - m_time (p_first p))))
        with (m_time (p_first p) + closest (m_time off - m_time (p_first p)) (v :: vs)) by ring.
      reflexivity.
  - (* another pitch *)
    assert (Hkey : is_note (p_first p) && k2_eqb (m_chan (p_first p), n) (qkey (p_first p)) = false).
    { rewrite Hon. unfold qkey, k2_eqb. cbn [fst snd andb].
      destruct (Z.eqb_spec n (m_note (p_first p))); [congruence|apply andb_false_r]. }
    destruct (filter (fits dne p (next_same (m_note (p_first p)) P)) values) as [|v vs]; [exact IH|].
    now rewrite !kproj_cons, Hk1, Hkey.
Qed.

(* ------------------------------------------------------------------ the reference quantiser keeps a key well-formed *)
Definition end_le (st : kst) (t : Z) : Prop :=
  match st with KNone => True | KClosed _ b => b <= t | KOpen _ => False end.

Lemma end_le_mono st t t' : end_le st t -> t <= t' -> end_le st t'.
Proof. destruct st; cbn; auto; lia. Qed.

Lemma kstep_closed_on st m st' : kst_closed st -> kstep true st m = Some st' ->
  is_on m = true /\ st' = KOpen (m_time m) /\ end_le st (m_time m).
Proof.
  intros Hc KS. destruct (is_on m) eqn:Hon.
  - destruct (kstep_on_inv _ _ _ _ Hon KS) as [-> Hst]. split; [reflexivity|]. split; [reflexivity|].
    destruct Hst as [->|(a & b & -> & Hb)]; cbn; auto.
  - destruct (kstep_off_inv _ _ _ _ Hon KS) as (a & -> & _). destruct Hc.
Qed.

Lemma kstep_on_end_le st m : is_on m = true -> end_le st (m_time m) -> kstep true st m = Some (KOpen (m_time m)).
Proof.
  intros Hon He. unfold kstep. rewrite Hon. destruct st as [|a|a b]; cbn in He; [reflexivity|destruct He|].
  apply Z.leb_le in He. now rewrite He.
Qed.

Lemma krun_restart L s1 s2 st' : krun true s1 L = Some st' -> kst_closed s1 -> kst_closed s2 ->
  (forall m, hd_error L = Some m -> end_le s2 (m_time m)) ->
  exists st'', krun true s2 L = Some st'' /\ (kst_closed st' -> kst_closed st'').
Proof.
  destruct L as [|m L]; intros Hr H1 H2 Hh.
  - exists s2. split; [reflexivity|auto].
  - cbn [krun] in *. destruct (kstep true s1 m) as [s|] eqn:KS; [|discriminate].
    destruct (kstep_closed_on _ _ _ H1 KS) as (Hon & -> & _).
    rewrite (kstep_on_end_le s2 m Hon (Hh m eq_refl)). exists st'. auto.
Qed.

Lemma qnl_key_wf values dne : pos_steps values = true -> forall L st st',
  kst_closed st -> krun true st L = Some st' -> kst_closed st' ->
  exists st'', krun true st (qnl_key values dne L) = Some st'' /\ kst_closed st''.
Proof.
  intros Hpos. induction L as [| x | on off L IH] using list_ind2; intros st st' Hc Hr Hc'.
  - exists st. split; [reflexivity|exact Hc].
  - exists st. split; [reflexivity|exact Hc].
  - cbn [krun] in Hr.
    destruct (kstep true st on) as [s1|] eqn:KS1; [|discriminate].
    destruct (kstep_closed_on _ _ _ Hc KS1) as (Hon & -> & Hend).
    destruct (kstep true (KOpen (m_time on)) off) as [s2|] eqn:KS2; [|discriminate].
    assert (Hoff : is_on off = false).
    { destruct (is_on off) eqn:E; [|reflexivity]. unfold kstep in KS2. rewrite E in KS2. discriminate. }
    destruct (kstep_off_inv _ _ _ _ Hoff KS2) as (a & [= <-] & -> & Hlt).
    assert (Hhd : forall m, hd_error L = Some m -> m_time off <= m_time m).
    { intros m Hm. destruct L as [|m' L']; [discriminate|]. injection Hm as ->. cbn [krun] in Hr.
      destruct (kstep true (KClosed (m_time on) (m_time off)) m) as [s|] eqn:KS; [|discriminate].
      now destruct (kstep_closed_on (KClosed (m_time on) (m_time off)) m s I KS) as (_ & _ & He). }
    cbn [qnl_key].
    set (cur := m_time off - m_time on).
    set (valid := filter _ values).
    destruct valid as [|v vs] eqn:Ev.
    + destruct (krun_restart L (KClosed (m_time on) (m_time off)) st st' Hr I Hc) as (st2 & Hr2 & Hc2).
      { intros m Hm. eapply end_le_mono; [exact Hend|]. specialize (Hhd m Hm). lia. }
      exact (IH st st2 Hc Hr2 (Hc2 Hc')).
    + assert (Hin : In (closest cur (v :: vs)) valid) by (rewrite Ev; apply closest_in; discriminate).
      unfold valid in Hin. apply filter_In in Hin. destruct Hin as [Hv Hfit].
      apply andb_true_iff in Hfit. destruct Hfit as [Hnext _].
      pose proof (pos_steps_in _ _ Hpos Hv) as Hd.
      set (d := closest cur (v :: vs)) in *.
      cbn [krun]. rewrite KS1.
      assert (KS2' : kstep true (KOpen (m_time on)) (set_time off (m_time on + d) (m_tf off)) =
                     Some (KClosed (m_time on) (m_time on + d))).
      { unfold kstep. change (is_on (set_time off (m_time on + d) (m_tf off))) with (is_on off). rewrite Hoff.
        cbn [set_time m_time]. assert (E : m_time on <? m_time on + d = true) by (apply Z.ltb_lt; lia).
        now rewrite E. }
      rewrite KS2'.
      destruct (krun_restart L (KClosed (m_time on) (m_time off)) (KClosed (m_time on) (m_time on + d)) st' Hr I I) as (st2 & Hr2 & Hc2).
      { intros m Hm. destruct L as [|m' L']; [discriminate|]. injection Hm as ->. cbn [end_le].
        now apply Z.leb_le in Hnext. }
      exact (IH (KClosed (m_time on) (m_time on + d)) st2 I Hr2 (Hc2 Hc')).
Qed.

(* ------------------------------------------------------------------ assembling the channels *)
Lemma chan_pairs_in ch ps p : In p (chan_pairs ch ps) -> exists c, In (c, chan_pairs ch ps) ps.
Proof.
  unfold chan_pairs. destruct (dget Z.eqb ch ps) as [P|] eqn:G; [|intros []].
  intros _. exact (dget_in Z.eqb _ _ _ G).
Qed.

Lemma pairings_good std s : (forall k, wf_key k s = true) ->
  forall ch, Forall (good_pair ch) (chan_pairs ch (pairings_sorted NOTE_TYPES std true s)).
Proof.
  intros Hwf ch. destruct (pairings_wf std s Hwf) as [_ Hmap].
  pose proof (pairings_note std true s) as Hnote. rewrite Forall_forall in Hnote.
  apply Forall_forall. intros p Hp.
  destruct (chan_pairs_in _ _ _ Hp) as (c & Hc). specialize (Hnote _ Hc). cbn [snd] in Hnote.
  rewrite Forall_forall in Hnote. destruct (Hnote p Hp) as [Ton Toff].
  specialize (Hmap ch (m_note (p_first p))).
  assert (Hin : In (strip p) (cpairs None (kproj (ch, m_note (p_first p)) s))).
  { rewrite <- Hmap. apply in_map. apply filter_In. split; [exact Hp|]. unfold pitchb. apply Z.eqb_refl. }
  destruct (cpairs_closed _ _ _ Hin) as (off & Hoff). cbn [strip snd] in Hoff.
  unfold p_second in Hoff. destruct (snd p) as [[i off']|] eqn:Hs; [|discriminate]. cbn in Hoff. injection Hoff as ->.
  assert (Hst : strip p = (p_first p, Some off)) by (unfold strip, p_second; now rewrite Hs).
  rewrite Hst in Hin. apply cpairs_in in Hin. destruct Hin as [[H1|H1] H2]; [|discriminate].
  apply kproj_in in H1, H2. destruct H1 as (_ & _ & K1). destruct H2 as (_ & _ & K2).
  unfold qkey in K1, K2.
  assert (C1 : m_chan (p_first p) = ch) by congruence.
  assert (C2 : m_chan off = ch) by congruence.
  assert (N2 : m_note off = m_note (p_first p)) by congruence.
  exists i, off. repeat split; auto.
Qed.

Lemma qnl_channel_chan values dne c P : Forall (good_pair c) P ->
  Forall (fun m => m_chan m = c) (qnl_channel values dne P).
Proof.
  induction P as [|p P IH]; intros HF; cbn [qnl_channel]; [constructor|].
  inversion HF as [|? ? (i & off & Hs & _ & _ & Con & Coff & _) HF']; subst. specialize (IH HF').
  destruct (qnl_valid values dne p _); [exact IH|]. rewrite Hs.
  constructor; [reflexivity|]. constructor; [exact Coff|exact IH].
Qed.

Lemma kproj_other_chan ch n c l : Forall (fun m => m_chan m = c) l -> c <> ch -> kproj (ch, n) l = [].
Proof.
  intros HF Hne. unfold kproj. apply filter_none. eapply Forall_impl; [|exact HF].
  intros m Hm. cbn beta. rewrite k2_eqb_pair. destruct (Z.eqb_spec ch (m_chan m)); [congruence|].
  now rewrite andb_false_r.
Qed.

Lemma kproj_flat_map k {A} (f : A -> list msg) l : kproj k (flat_map f l) = flat_map (fun x => kproj k (f x)) l.
Proof.
  induction l as [|x l IH]; cbn [flat_map]; [reflexivity|]. now rewrite kproj_app, IH.
Qed.

Lemma kproj_channels values dne ch n (ps : list (Z * list pairing)) :
  uniq ps -> (forall c, Forall (good_pair c) (chan_pairs c ps)) ->
  kproj (ch, n) (flat_map (fun kv => qnl_channel values dne (snd kv)) ps) =
  kproj (ch, n) (qnl_channel values dne (chan_pairs ch ps)).
Proof.
  unfold uniq. induction ps as [|[c P] ps IH]; intros Hu Hg; [reflexivity|].
  cbn [map fst] in Hu. inversion Hu as [|? ? Hc Hu']; subst.
  assert (HgP : Forall (good_pair c) P).
  { specialize (Hg c). unfold chan_pairs in Hg. cbn [dget] in Hg. now rewrite Z.eqb_refl in Hg. }
  assert (Hg' : forall c', Forall (good_pair c') (chan_pairs c' ps)).
  { intros c'. specialize (Hg c'). unfold chan_pairs in *. cbn [dget] in Hg.
    destruct (Z.eqb_spec c' c) as [E|Hne]; [|exact Hg].
    rewrite E. rewrite (dget_notin Z.eqb Z.eqb_eq c ps Hc). constructor. }
  cbn [flat_map snd]. rewrite kproj_app, (IH Hu' Hg').
  unfold chan_pairs at 2. cbn [dget]. destruct (Z.eqb_spec ch c) as [->|Hne].
  - unfold chan_pairs. rewrite (dget_notin Z.eqb Z.eqb_eq c ps Hc). cbn [qnl_channel kproj filter]. apply app_nil_r.
  - rewrite (kproj_other_chan ch n c _ (qnl_channel_chan values dne c P HgP)); [reflexivity|congruence].
Qed.

(* ------------------------------------------------------------------ C06_main *)
Lemma kproj_nonnote k l : kproj k (filter (fun m => negb (is_note m)) l) = [].
Proof.
  unfold kproj. rewrite filter_filter. apply filter_none. apply Forall_forall. intros m _.
  now destruct (is_note m).
Qed.

Lemma qnl_pre_sort l values std dne k :
  (forall k, wf_key k (sort_abs l) = true) -> nodupb values = true ->
  kproj k (flat_map (fun kv => qnl_channel values dne (snd kv)) (pairings_sorted NOTE_TYPES std true (sort_abs l)) ++
           filter (fun m => negb (is_note m)) (sort_abs l)) =
  qnl_key values dne (kproj k (sort_abs l)).
Proof.
  intros Hwf Hb. destruct k as [ch n]. rewrite kproj_app, kproj_nonnote, app_nil_r.
  destruct (pairings_wf std (sort_abs l) Hwf) as [Hu Hmap].
  rewrite kproj_channels by (try exact Hu; apply pairings_good; exact Hwf).
  rewrite qnl_channel_key by (try exact Hb; apply pairings_good; exact Hwf).
  rewrite Hmap. apply qnl_keyP_cpairs. now apply wf_key_closed_popen.
Qed.

Lemma wf_key_krun k l : wf_key k l = true ->
  exists st, krun true KNone (kproj k l) = Some st /\ kst_closed st.
Proof.
  unfold wf_key. destruct (krun true KNone (kproj k l)) as [st|]; [|discriminate].
  intros H. exists st. split; [reflexivity|]. destruct st; cbn; auto; discriminate.
Qed.

Lemma C06_main : forall l values std dne,
  wf_abs l = true -> nodupb values = true -> pos_steps values = true ->
  wf_abs (quantise_note_lengths l values std dne) = true /\
  forall k, kproj k (quantise_note_lengths l values std dne) = qnl_key values dne (kproj k l).
Proof.
  intros l values std dne Hwf Hb Hpos. apply wf_abs_spec in Hwf. destruct Hwf as [_ Hkeys].
  assert (Hs : forall k, wf_key k (sort_abs l) = true) by (intros k; now apply wf_key_sort_abs).
  assert (Hsame : forall k, kproj k (sort_abs l) = kproj k l).
  { intros k. destruct (wf_key_krun k l (Hkeys k)) as (st & Hr & _). now apply kproj_sort_abs with st. }
  unfold quantise_note_lengths.
  set (R := flat_map _ _ ++ filter _ _).
  assert (HR : forall k, kproj k R = qnl_key values dne (kproj k l)).
  { intros k. unfold R. rewrite qnl_pre_sort by assumption. now rewrite Hsame. }
  assert (Hrun : forall k, exists st, krun true KNone (kproj k R) = Some st /\ kst_closed st).
  { intros k. rewrite HR. destruct (wf_key_krun k l (Hkeys k)) as (st & Hr & Hc).
    exact (qnl_key_wf values dne Hpos _ KNone st I Hr Hc). }
  split.
  - apply wf_abs_sort_abs. intros k. destruct (Hrun k) as (st & Hr & Hc). unfold wf_key. rewrite Hr.
    destruct st; cbn in Hc; auto.
  - intros k. destruct (Hrun k) as (st & Hr & _). rewrite (kproj_sort_abs k R st Hr). apply HR.
Qed.

(* ------------------------------------------------------------------ corollaries *)
(* durations of the consecutive (on, off) pairs of a key's list *)
Fixpoint pair_durs (L : list msg) : list Z :=
  match L with
  | on :: off :: L' => (m_time off - m_time on) :: pair_durs L'
  | _ => []
  end.

Lemma qnl_key_durs values dne : forall L, Forall (fun d => In d values) (pair_durs (qnl_key values dne L)).
Proof.
  induction L as [| x | on off L IH] using list_ind2; try constructor.
  cbn [qnl_key]. set (cur := m_time off - m_time on). set (valid := filter _ values).
  destruct valid as [|v vs] eqn:Ev; [exact IH|].
  cbn [pair_durs]. constructor; [|exact IH]. cbn [set_time m_time].
  replace (m_time on + closest cur (v :: vs) - m_time on) with (closest cur (v :: vs)) by ring.
  assert (Hin : In (closest cur (v :: vs)) valid) by (rewrite Ev; apply closest_in; discriminate).
  unfold valid in Hin. apply filter_In in Hin. tauto.
Qed.

Lemma qnl_key_in values dne : forall L st st', kst_closed st -> krun true st L = Some st' ->
  forall m, In m (qnl_key values dne L) ->
    (is_on m = true /\ In m L) \/
    (is_on m = false /\ exists off, In off L /\ m = set_time off (m_time m) (m_tf off)).
Proof.
  induction L as [| x | on off L IH] using list_ind2; intros st st' Hc Hr m Hm; try destruct Hm.
  cbn [krun] in Hr.
  destruct (kstep true st on) as [s1|] eqn:KS1; [|discriminate].
  destruct (kstep_closed_on _ _ _ Hc KS1) as (Hon & -> & _).
  destruct (kstep true (KOpen (m_time on)) off) as [s2|] eqn:KS2; [|discriminate].
  assert (Hoff : is_on off = false).
  { destruct (is_on off) eqn:E; [|reflexivity]. unfold kstep in KS2. rewrite E in KS2. discriminate. }
  destruct (kstep_off_inv _ _ _ _ Hoff KS2) as (a & _ & -> & _).
  assert (Hrest : In m (qnl_key values dne L) ->
    (is_on m = true /\ In m (on :: off :: L)) \/
    (is_on m = false /\ exists off0, In off0 (on :: off :: L) /\ m = set_time off0 (m_time m) (m_tf off0))).
  { intros H. destruct (IH (KClosed a (m_time off)) st' I Hr m H) as [[H1 H2]|[H1 (o & H2 & H3)]].
    - left. split; [exact H1|]. right. now right.
    - right. split; [exact H1|]. exists o. split; [right; now right|exact H3]. }
  cbn [qnl_key] in Hm. set (valid := filter _ values) in Hm.
  destruct valid as [|v vs]; [now apply Hrest|].
  destruct Hm as [<-|[<-|Hm]]; [| |now apply Hrest].
  - left. split; [exact Hon|now left].
  - right. split; [exact Hoff|]. exists off. split; [right; now left|reflexivity].
Qed.

Lemma C06_main_durations : forall l values std dne k,
  wf_abs l = true -> nodupb values = true -> pos_steps values = true ->
  Forall (fun d => In d values) (pair_durs (kproj k (quantise_note_lengths l values std dne))).
Proof.
  intros l values std dne k Hwf Hb Hpos. destruct (C06_main l values std dne Hwf Hb Hpos) as [_ H].
  rewrite H. apply qnl_key_durs.
Qed.

Lemma C06_main_members : forall l values std dne m,
  wf_abs l = true -> nodupb values = true -> pos_steps values = true ->
  In m (quantise_note_lengths l values std dne) -> is_note m = true ->
  (is_on m = true /\ In m l) \/
  (is_on m = false /\ exists off, In off l /\ m = set_time off (m_time m) (m_tf off)).
Proof.
  intros l values std dne m Hwf Hb Hpos Hin Hn.
  destruct (C06_main l values std dne Hwf Hb Hpos) as [_ H].
  assert (Hk : In m (kproj (qkey m) (quantise_note_lengths l values std dne))).
  { unfold kproj. apply filter_In. split; [exact Hin|]. now rewrite Hn, k2_eqb_refl. }
  rewrite H in Hk. apply wf_abs_spec in Hwf. destruct Hwf as [_ Hkeys].
  destruct (wf_key_krun (qkey m) l (Hkeys (qkey m))) as (st & Hr & _).
  destruct (qnl_key_in values dne _ KNone st I Hr m Hk) as [[H1 H2]|[H1 (o & H2 & H3)]].
  - left. split; [exact H1|]. now apply kproj_in in H2.
  - right. split; [exact H1|]. exists o. split; [now apply kproj_in in H2|exact H3].
Qed.

(* ------------------------------------------------------------------ examples (non-vacuity) *)
(* two channels with the same pitch, back-to-back repeated pitch on channel 0, a very short note, a control change *)
Definition ex6_l : list msg :=
  [ mk_on 0 60 90 0 false; mk_on 1 60 80 0 false; mk_cc 0 7 100 3 false; mk_off 0 60 10 false;
    mk_on 0 60 70 10 false; mk_off 0 60 13 false; mk_on 0 62 64 13 false;
    mk_off 0 62 14 false; mk_off 1 60 50 false ].

Example ex6_hyp : wf_abs ex6_l = true /\ nodupb [12; 24; 48] = true /\ pos_steps [12; 24; 48] = true.
Proof. vm_compute. repeat split. Qed.

Example ex6_out :
  map (fun m => (m_type m, m_chan m, m_note m, m_time m)) (quantise_note_lengths ex6_l [12; 24; 48] 24 false) =
  [ (NOTE_ON, 1, 60, 0); (CONTROL_CHANGE, 0, -1, 3); (NOTE_ON, 0, 60, 10); (NOTE_ON, 0, 62, 13);
    (NOTE_OFF, 0, 60, 22); (NOTE_OFF, 0, 62, 25); (NOTE_OFF, 1, 60, 48) ] /\
  map (fun m => (m_type m, m_chan m, m_note m, m_time m)) (quantise_note_lengths ex6_l [12; 24; 48] 24 true) =
  [ (NOTE_ON, 1, 60, 0); (CONTROL_CHANGE, 0, -1, 3); (NOTE_OFF, 1, 60, 48) ].
Proof. vm_compute. split; reflexivity. Qed.
