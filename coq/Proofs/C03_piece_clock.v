(* C03 (piece level), part D -- the reference bar clock over a time-sorted event list: where it ends on its bar grid
   (`ts_grid`), when its "bar holds a note" flag is off, and how it moves with a shift of all event times. *)
From Coq Require Import ZArith List Bool Lia Permutation Sorted.
From Model Require Import Base Util Seq Pairing Tok.
From Proofs Require Import C05_closest C04_sort C04_proofs C07_proofs.
From Proofs Require Import C01_frontend_sig C01_frontend_pipe C01_frontend_pair C01_rest C01_proofs C01_frontend.
From Proofs Require Import C03_proofs.
Import ListNotations.
Open Scope Z_scope.

(* the grid (start of the current run of equal bars, bar length) after the time signatures l, as in `ts_run` *)
Fixpoint ts_grid (c : cfg) (t0 B : Z) (l : list (Z * Z * Z)) : Z * Z :=
  match l with
  | [] => (t0, B)
  | (t, n, d) :: l' => if 0 <? (t - t0) mod B then ts_grid c t0 B l' else ts_grid c t (bar_cap c n d) l'
  end.

Lemma ref_step_fst c k e :
  r_time (fst (ref_step c k e)) = ev_time e /\ r_tbar (fst (ref_step c k e)) = adv_tbar k (ev_time e) /\
  r_total (fst (ref_step c k e)) =
    (if is_tsev e && negb (0 <? adv_tbar k (ev_time e)) then bar_cap c (m_num (ev_msg e)) (m_den (ev_msg e)) else r_total k) /\
  r_has (fst (ref_step c k e)) = (if is_on (ev_msg e) then true else adv_has k (ev_time e)).
Proof.
  unfold ref_step, is_tsev, is_ts, is_on, mtype_eqb. fold (ev_time e).
  destruct (m_type (ev_msg e)); cbn [fst r_time r_tbar r_total r_has mtype_rank Z.eqb Pos.eqb andb]; try tauto.
  destruct (0 <? adv_tbar k (ev_time e)); cbn [negb]; tauto.
Qed.

(* the clock stays on the grid computed by ts_grid; hypotheses as for C01_frontend.valid_from_ts *)
Lemma ref_run_grid g c evs : forall k t0 B,
  0 < B -> r_total k = B -> r_tbar k = (r_time k - t0) mod B ->
  StronglySorted ele evs -> (forall e, In e evs -> r_time k <= ev_time e) ->
  ts_run g c t0 B (map ev_tsv (filter is_tsev evs)) = true ->
  let k' := fst (ref_run c k evs) in
  let tb := ts_grid c t0 B (map ev_tsv (filter is_tsev evs)) in
  0 < snd tb /\ r_total k' = snd tb /\ r_tbar k' = (r_time k' - fst tb) mod snd tb.
Proof.
  induction evs as [|e evs IH]; intros k t0 B HB Htot Htb Hs H Hrun; [cbn; auto|].
  cbn [ref_run]. destruct (ref_step c k e) as [k1 a] eqn:Es. destruct (ref_run c k1 evs) as [k2 b] eqn:Er.
  cbn [fst]. pose proof (ref_step_fst c k e) as (K1 & K2 & K3 & _). rewrite Es in K1, K2, K3. cbn [fst] in K1, K2, K3.
  pose proof (H e (or_introl eq_refl)) as Ht. inversion Hs as [|? ? Hs' He]; subst.
  assert (Hadv : adv_tbar k (ev_time e) = (ev_time e - t0) mod r_total k).
  { unfold adv_tbar. rewrite Htb. rewrite Z.add_mod_idemp_l by lia. f_equal. lia. }
  assert (Hnext : forall x, In x evs -> r_time k1 <= ev_time x).
  { intros x Hx. rewrite Forall_forall in He. specialize (He x Hx). rewrite K1. exact He. }
  specialize (IH k1). rewrite Er in IH. cbn [fst] in IH.
  cbn [filter] in *. destruct (is_tsev e) eqn:Ets.
  - cbn [map] in *. change (ev_tsv e) with (ev_time e, m_num (ev_msg e), m_den (ev_msg e)) in *.
    cbn [ts_run ts_grid] in *. apply andb_prop in Hrun. destruct Hrun as [Hd Hrun]. cbn [andb] in K3. rewrite Hadv in K3.
    destruct (0 <? (ev_time e - t0) mod r_total k) eqn:Epos.
    + cbn [negb] in K3. apply (IH t0 (r_total k)); try assumption; now rewrite K2, K1.
    + cbn [negb] in K3. apply andb_prop in Hrun. destruct Hrun as [Hconj Hrun].
      assert (HB' : 0 < bar_cap c (m_num (ev_msg e)) (m_den (ev_msg e))).
      { apply andb_prop in Hconj. destruct Hconj as [Hconj _]. apply andb_prop in Hconj. destruct Hconj as [_ Hb].
        now apply Z.ltb_lt in Hb. }
      assert (Hz : (ev_time e - t0) mod r_total k = 0).
      { pose proof (Z.mod_pos_bound (ev_time e - t0) (r_total k) HB). apply Z.ltb_ge in Epos. lia. }
      apply (IH (ev_time e) (bar_cap c (m_num (ev_msg e)) (m_den (ev_msg e)))); try assumption.
      rewrite K2, K1, Hadv, Hz, Z.sub_diag. reflexivity.
  - cbn [andb] in K3. apply (IH t0 (r_total k)); try assumption; try congruence; now rewrite K2, K1.
Qed.

(* a time-sorted run ends at the time of its last event *)
Lemma last_time_sorted evs : StronglySorted ele evs -> forall d e, In e evs -> ev_time e <= last_time d evs.
Proof.
  induction 1 as [|x evs Hs IH Hx]; intros d e He; [destruct He|]. cbn [last_time]. destruct He as [<-|He].
  - destruct evs as [|y evs]; [cbn; lia|]. rewrite Forall_forall in Hx. specialize (Hx y (or_introl eq_refl)).
    unfold ele, ptime in Hx. fold (ev_msg x) (ev_msg y) in Hx. fold (ev_time x) (ev_time y) in Hx.
    specialize (IH (ev_time x) y (or_introl eq_refl)). lia.
  - now apply IH.
Qed.

Lemma last_time_In evs : forall d, last_time d evs = d \/ exists e, In e evs /\ ev_time e = last_time d evs.
Proof.
  induction evs as [|x evs IH]; intros d; [now left|]. cbn [last_time]. right.
  destruct (IH (ev_time x)) as [E|(e & He & E)]; [exists x; split; [now left|now rewrite E]|exists e; split; [now right|exact E]].
Qed.

(* the flag "the current bar holds a note": when it is on, the current bar started no later than the last onset *)
Lemma ref_run_has g c evs : forall k tau,
  valid_from g c k evs = true -> 0 < r_total k -> 0 <= r_tbar k ->
  (r_has k = true -> r_time k - r_tbar k <= tau) ->
  (forall e, In e evs -> is_on (ev_msg e) = true -> ev_time e <= tau) ->
  let k' := fst (ref_run c k evs) in
  0 < r_total k' /\ 0 <= r_tbar k' /\ (r_has k' = true -> r_time k' - r_tbar k' <= tau).
Proof.
  induction evs as [|e evs IH]; intros k tau Hv HB Htb Hh Hon; [cbn; auto|].
  cbn [valid_from] in Hv. apply andb_prop in Hv. destruct Hv as [Hev Hv].
  cbn [ref_run]. destruct (ref_step c k e) as [k1 a] eqn:Es. destruct (ref_run c k1 evs) as [k2 b] eqn:Er.
  cbn [fst]. pose proof (ref_step_fst c k e) as (K1 & K2 & K3 & K4). rewrite Es in K1, K2, K3, K4. cbn [fst] in *.
  specialize (IH k1 tau Hv). rewrite Er in IH. cbn [fst] in IH.
  assert (Hle : r_time k <= ev_time e).
  { unfold ev_ok in Hev. apply andb_prop in Hev. destruct Hev as [Hev _]. apply andb_prop in Hev. destruct Hev as [Hev _].
    apply Z.leb_le in Hev. exact Hev. }
  assert (Hmod : 0 <= adv_tbar k (ev_time e) < r_total k) by (unfold adv_tbar; apply Z.mod_pos_bound; lia).
  apply IH.
  - rewrite K3. destruct (is_tsev e && negb (0 <? adv_tbar k (ev_time e))) eqn:E; [|exact HB].
    apply andb_prop in E. destruct E as [E1 E2]. apply negb_true_iff in E2.
    unfold ev_ok in Hev. apply andb_prop in Hev. destruct Hev as [_ Hev].
    unfold is_tsev in E1. apply is_ts_type in E1. rewrite E1 in Hev. fold (ev_time e) in Hev. rewrite E2 in Hev. cbn [orb] in Hev.
    apply andb_prop in Hev. destruct Hev as [Hev _]. apply andb_prop in Hev. destruct Hev as [_ Hev]. now apply Z.ltb_lt in Hev.
  - rewrite K2. lia.
  - rewrite K4, K1, K2. destruct (is_on (ev_msg e)) eqn:Eon.
    + intros _. specialize (Hon e (or_introl eq_refl) Eon). lia.
    + unfold adv_has. destruct (0 <? adv_n k (ev_time e)) eqn:En; [discriminate|]. intros Hk. specialize (Hh Hk).
      apply Z.ltb_ge in En. unfold adv_n in En. unfold adv_tbar.
      assert (Hq : 0 <= (r_tbar k + (ev_time e - r_time k)) / r_total k) by (apply Z.div_pos; lia).
      assert (Hq0 : (r_tbar k + (ev_time e - r_time k)) / r_total k = 0) by lia.
      apply Z.div_small_iff in Hq0; [|lia]. rewrite Z.mod_small by lia. lia.
  - intros x Hx. apply Hon. now right.
Qed.

(* ================================================================ shifting all event times *)
Definition kshift (a : Z) (k : rclk) : rclk := mkrc (r_time k + a) (r_tbar k) (r_total k) (r_has k).

Lemma ev_msg_shift a e : ev_msg (shift_ev a e) = shift_msg a (ev_msg e).
Proof. reflexivity. Qed.
Lemma ev_time_shift' a e : ev_time (shift_ev a e) = ev_time e + a.
Proof. reflexivity. Qed.

Lemma ref_step_shift c a k e :
  fst (ref_step c (kshift a k) (shift_ev a e)) = kshift a (fst (ref_step c k e)).
Proof.
  unfold ref_step. rewrite ev_msg_shift.
  change (m_type (shift_msg a (ev_msg e))) with (m_type (ev_msg e)).
  change (m_time (shift_msg a (ev_msg e))) with (m_time (ev_msg e) + a).
  change (m_num (shift_msg a (ev_msg e))) with (m_num (ev_msg e)).
  change (m_den (shift_msg a (ev_msg e))) with (m_den (ev_msg e)).
  assert (T : adv_tbar (kshift a k) (m_time (ev_msg e) + a) = adv_tbar k (m_time (ev_msg e))).
  { unfold adv_tbar, kshift. cbn [r_time r_tbar r_total]. f_equal. lia. }
  assert (N : adv_has (kshift a k) (m_time (ev_msg e) + a) = adv_has k (m_time (ev_msg e))).
  { unfold adv_has, adv_n, kshift. cbn [r_time r_tbar r_total r_has].
    replace (m_time (ev_msg e) + a - (r_time k + a)) with (m_time (ev_msg e) - r_time k) by lia. reflexivity. }
  destruct (m_type (ev_msg e)); cbn [fst]; rewrite ?T, ?N; unfold kshift; cbn [r_time r_tbar r_total r_has]; reflexivity.
Qed.

Lemma ref_run_shift c a evs : forall k,
  fst (ref_run c (kshift a k) (map (shift_ev a) evs)) = kshift a (fst (ref_run c k evs)).
Proof.
  induction evs as [|e evs IH]; intros k; [reflexivity|]. cbn [map ref_run].
  pose proof (ref_step_shift c a k e) as Hs.
  destruct (ref_step c (kshift a k) (shift_ev a e)) as [k1 x]. destruct (ref_step c k e) as [k1' x']. cbn [fst] in Hs. subst k1.
  specialize (IH k1'). destruct (ref_run c (kshift a k1') (map (shift_ev a) evs)) as [k2 y].
  destruct (ref_run c k1' evs) as [k2' y']. cbn [fst] in *. exact IH.
Qed.

Lemma divb_shift g a t : 0 < g -> (g | a) -> divb g (t + a) = divb g t.
Proof.
  intros Hg [q ->]. unfold divb. now rewrite Z.mod_add by lia.
Qed.

Lemma ev_ok_shift g c a k e : 0 < g -> (g | a) -> ev_ok g c (kshift a k) (shift_ev a e) = ev_ok g c k e.
Proof.
  intros Hg Ha. unfold ev_ok. rewrite ev_msg_shift.
  assert (D : ev_dur (shift_ev a e) = ev_dur e).
  { unfold ev_dur. rewrite p_off_shift, ev_time_shift'. lia. }
  rewrite D. unfold ts_scaled.
  change (m_type (shift_msg a (ev_msg e))) with (m_type (ev_msg e)).
  change (m_time (shift_msg a (ev_msg e))) with (m_time (ev_msg e) + a).
  change (m_num (shift_msg a (ev_msg e))) with (m_num (ev_msg e)).
  change (m_den (shift_msg a (ev_msg e))) with (m_den (ev_msg e)).
  change (m_chan (shift_msg a (ev_msg e))) with (m_chan (ev_msg e)).
  change (m_note (shift_msg a (ev_msg e))) with (m_note (ev_msg e)).
  change (m_vel (shift_msg a (ev_msg e))) with (m_vel (ev_msg e)).
  rewrite (divb_shift g a _ Hg Ha).
  assert (T : adv_tbar (kshift a k) (m_time (ev_msg e) + a) = adv_tbar k (m_time (ev_msg e))).
  { unfold adv_tbar, kshift. cbn [r_time r_tbar r_total]. f_equal. lia. }
  rewrite T. unfold kshift at 1. cbn [r_time].
  replace (r_time k + a <=? m_time (ev_msg e) + a) with (r_time k <=? m_time (ev_msg e)); [reflexivity|].
  destruct (r_time k <=? m_time (ev_msg e)) eqn:E; symmetry; [apply Z.leb_le in E; apply Z.leb_le; lia|].
  apply Z.leb_gt in E. apply Z.leb_gt. lia.
Qed.

Lemma valid_from_shift g c a evs : 0 < g -> (g | a) -> forall k,
  valid_from g c (kshift a k) (map (shift_ev a) evs) = valid_from g c k evs.
Proof.
  intros Hg Ha. induction evs as [|e evs IH]; intros k; [reflexivity|]. cbn [map valid_from].
  rewrite ev_ok_shift, ref_step_shift, IH by assumption. reflexivity.
Qed.

(* ================================================================ the bar ends passed by the clock *)
Lemma ends_app n1 n2 : forall s B, ends (n1 + n2) s B = ends n1 s B ++ ends n2 (s + Z.of_nat n1 * B) B.
Proof.
  induction n1 as [|n1 IH]; intros s B; [cbn [Nat.add ends app]; f_equal; lia|].
  cbn [Nat.add ends app]. f_equal. rewrite IH. do 2 f_equal. lia.
Qed.

Lemma ends_shift n a : forall s B, ends n (s + a) B = map (fun x => x + a) (ends n s B).
Proof.
  induction n as [|n IH]; intros s B; [reflexivity|]. cbn [ends map]. f_equal.
  replace (s + a + B) with (s + B + a) by lia. apply IH.
Qed.

(* advancing in two steps passes the same bar ends as advancing in one *)
Lemma adv_comp k k1 t t' :
  0 < r_total k -> 0 <= r_tbar k -> r_time k <= t -> t <= t' ->
  r_time k1 = t -> r_tbar k1 = adv_tbar k t -> r_total k1 = r_total k ->
  adv_caps k t ++ adv_caps k1 t' = adv_caps k t' /\ adv_tbar k1 t' = adv_tbar k t'.
Proof.
  intros HB Htb Ht Ht' K1 K2 K3. unfold adv_caps, adv_n, adv_tbar in *. rewrite K1, K2, K3.
  set (B := r_total k) in *. set (a := r_tbar k + (t - r_time k)).
  assert (Ha : 0 <= a) by (unfold a; lia).
  pose proof (Z.div_mod a B ltac:(lia)) as Hdm. pose proof (Z.mod_pos_bound a B HB) as Hmb.
  assert (Hn1 : 0 <= a / B) by (apply Z.div_pos; lia).
  assert (E : r_tbar k + (t' - r_time k) = (a mod B + (t' - t)) + (a / B) * B) by (unfold a in *; lia).
  rewrite E, Z.div_add, Z.mod_add by lia.
  assert (Hn2 : 0 <= (a mod B + (t' - t)) / B) by (apply Z.div_pos; lia).
  split; [|reflexivity].
  replace (Z.to_nat ((a mod B + (t' - t)) / B + a / B)) with (Z.to_nat (a / B) + Z.to_nat ((a mod B + (t' - t)) / B))%nat by lia.
  rewrite ends_app. do 2 f_equal. rewrite Z2Nat.id by lia. unfold a in *. lia.
Qed.

(* the bar ends expected from clock k up to time T, given the time signatures (all on bar lines) still to come *)
Fixpoint expected (c : cfg) (k : rclk) (l : list (Z * Z * Z)) (T : Z) : list Z :=
  match l with
  | [] => adv_caps k T
  | (s, n, d) :: l' => adv_caps k s ++ expected c (mkrc s 0 (bar_cap c n d) false) l' T
  end.

Lemma expected_ext c k k' l T : r_time k = r_time k' -> r_tbar k = r_tbar k' -> r_total k = r_total k' ->
  expected c k l T = expected c k' l T.
Proof.
  intros H1 H2 H3. destruct l as [|[[s n] d] l]; cbn [expected]; unfold adv_caps, adv_n; now rewrite H1, H2, H3.
Qed.

(* every time signature on a bar line of the grid in force, with a positive bar length *)
Fixpoint ts_on (c : cfg) (t0 B : Z) (l : list (Z * Z * Z)) : bool :=
  match l with
  | [] => true
  | (t, n, d) :: l' => ((t - t0) mod B =? 0) && (0 <? bar_cap c n d) && ts_on c t (bar_cap c n d) l'
  end.

Lemma ref_step_snd c k e : snd (ref_step c k e) = adv_caps k (ev_time e).
Proof. unfold ref_step. fold (ev_time e). destruct (m_type (ev_msg e)); reflexivity. Qed.

Lemma expected_adv c k k1 t l T :
  0 < r_total k -> 0 <= r_tbar k -> r_time k <= t -> t <= T -> (forall x, In x l -> t <= fst (fst x)) ->
  r_time k1 = t -> r_tbar k1 = adv_tbar k t -> r_total k1 = r_total k ->
  adv_caps k t ++ expected c k1 l T = expected c k l T.
Proof.
  intros HB Htb Ht HT Hl K1 K2 K3. destruct l as [|[[s n] d] l]; cbn [expected].
  - now apply adv_comp.
  - rewrite app_assoc. f_equal. apply adv_comp; try assumption. apply (Hl (s, n, d)). now left.
Qed.

Lemma run_expected c evs : forall k t0 B T,
  0 < B -> r_total k = B -> r_tbar k = (r_time k - t0) mod B ->
  StronglySorted ele evs -> (forall e, In e evs -> r_time k <= ev_time e <= T) -> r_time k <= T ->
  ts_on c t0 B (map ev_tsv (filter is_tsev evs)) = true ->
  snd (ref_run c k evs) ++ adv_caps (fst (ref_run c k evs)) T = expected c k (map ev_tsv (filter is_tsev evs)) T.
Proof.
  induction evs as [|e evs IH]; intros k t0 B T HB Htot Htb Hs H HkT Hon; [reflexivity|].
  cbn [ref_run]. destruct (ref_step c k e) as [k1 a] eqn:Es. destruct (ref_run c k1 evs) as [k2 b] eqn:Er.
  cbn [fst snd]. pose proof (ref_step_fst c k e) as (K1 & K2 & K3 & _). pose proof (ref_step_snd c k e) as K5.
  rewrite Es in K1, K2, K3, K5. cbn [fst snd] in K1, K2, K3, K5. subst a.
  pose proof (H e (or_introl eq_refl)) as Ht. inversion Hs as [|? ? Hs' He]; subst.
  assert (Hadv : adv_tbar k (ev_time e) = (ev_time e - t0) mod r_total k).
  { unfold adv_tbar. rewrite Htb. rewrite Z.add_mod_idemp_l by lia. f_equal. lia. }
  assert (Hnext : forall x, In x evs -> r_time k1 <= ev_time x <= T).
  { intros x Hx. rewrite Forall_forall in He. specialize (He x Hx). rewrite K1. split; [exact He|]. apply H. now right. }
  assert (Htb0 : 0 <= r_tbar k) by (rewrite Htb; apply Z.mod_pos_bound; lia).
  specialize (IH k1). rewrite Er in IH. cbn [fst snd] in IH. rewrite <- app_assoc.
  cbn [filter] in *. destruct (is_tsev e) eqn:Ets.
  - cbn [map] in *. change (ev_tsv e) with (ev_time e, m_num (ev_msg e), m_den (ev_msg e)) in *.
    cbn [ts_on expected] in *. apply andb_prop in Hon. destruct Hon as [Hon Hon3]. apply andb_prop in Hon.
    destruct Hon as [Hon1 Hon2]. apply Z.eqb_eq in Hon1. apply Z.ltb_lt in Hon2.
    cbn [andb] in K3. rewrite Hadv, Hon1 in K3, K2. change (0 <? 0) with false in K3. cbn [negb] in K3.
    f_equal.
    assert (IH1 : b ++ adv_caps k2 T =
                  expected c k1 (map ev_tsv (filter is_tsev evs)) T).
    { apply (IH (ev_time e) (bar_cap c (m_num (ev_msg e)) (m_den (ev_msg e))) T); try assumption.
      - rewrite K2, K1, Z.sub_diag. reflexivity.
      - rewrite K1. lia. }
    rewrite IH1. apply expected_ext; cbn [r_time r_tbar r_total]; assumption.
  - cbn [andb] in K3.
    assert (IH1 : b ++ adv_caps k2 T = expected c k1 (map ev_tsv (filter is_tsev evs)) T).
    { apply (IH t0 (r_total k) T); try assumption.
      - now rewrite K2, K1.
      - rewrite K1. lia. }
    rewrite IH1. apply expected_adv; try assumption; try lia.
    intros x Hx. apply in_map_iff in Hx. destruct Hx as (y & <- & Hy). apply filter_In in Hy. destruct Hy as [Hy _].
    rewrite Forall_forall in He. specialize (He y Hy). exact He.
Qed.

(* shifting: the bar ends move along *)
Lemma ref_step_shift_snd c a k e :
  snd (ref_step c (kshift a k) (shift_ev a e)) = map (fun x => x + a) (snd (ref_step c k e)).
Proof.
  rewrite !ref_step_snd, ev_time_shift'. unfold adv_caps, adv_n, kshift. cbn [r_time r_tbar r_total].
  replace (ev_time e + a - (r_time k + a)) with (ev_time e - r_time k) by lia.
  replace (r_time k + a - r_tbar k + r_total k) with (r_time k - r_tbar k + r_total k + a) by lia. apply ends_shift.
Qed.

Lemma ref_run_shift_snd c a evs : forall k,
  snd (ref_run c (kshift a k) (map (shift_ev a) evs)) = map (fun x => x + a) (snd (ref_run c k evs)).
Proof.
  induction evs as [|e evs IH]; intros k; [reflexivity|]. cbn [map ref_run].
  pose proof (ref_step_shift c a k e) as Hs. pose proof (ref_step_shift_snd c a k e) as Hs2.
  destruct (ref_step c (kshift a k) (shift_ev a e)) as [k1 x]. destruct (ref_step c k e) as [k1' x']. cbn [fst snd] in Hs, Hs2. subst k1 x.
  specialize (IH k1'). destruct (ref_run c (kshift a k1') (map (shift_ev a) evs)) as [k2 y].
  destruct (ref_run c k1' evs) as [k2' y']. cbn [fst snd] in *. now rewrite map_app, IH.
Qed.
