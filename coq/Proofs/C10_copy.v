(* C10, clause "copying a bar yields an equal bar": re-running the constructor on the list of an accepted bar.
   The work is a normal-form argument for normalise: the output of normalise (per (channel,pitch) strictly
   alternating NOTE_ON / NOTE_OFF, balanced; key signatures never repeating the one in force) is a list from which a
   second normalise drops nothing but time-signature repetitions; it only merges adjacent waits. *)
From Coq Require Import ZArith List Bool Lia Arith.
From Model Require Import Base Seq Pairing Bars.
From Proofs Require Import C18_proofs C10_proofs.
Import ListNotations.
Open Scope Z_scope.

(* ================================================================ keys, per-key note subsequences *)
Definition kof (m : msg) : k2 := (m_chan m, m_note m).
Definition sel (k : k2) (m : msg) : bool := is_note m && k2_eqb k (kof m).
Definition N (k : k2) (l : list msg) : list msg := filter (sel k) l.
Definition KS (l : list msg) : list msg := filter is_ks l.

Lemma k2_eqb_refl k : k2_eqb k k = true.
Proof. unfold k2_eqb. now rewrite !Z.eqb_refl. Qed.
Lemma k2_eqb_eq a b : k2_eqb a b = true -> a = b.
Proof.
  unfold k2_eqb. intros H. apply andb_prop in H. destruct H as [H1 H2].
  apply Z.eqb_eq in H1, H2. destruct a, b. cbn in *. congruence.
Qed.
Lemma k2_eqb_sym a b : k2_eqb a b = k2_eqb b a.
Proof. unfold k2_eqb. now rewrite (Z.eqb_sym (fst a)), (Z.eqb_sym (snd a)). Qed.

(* strict alternation, starting in state b (true = a note is open) *)
Fixpoint alt (b : bool) (l : list msg) : bool :=
  match l with [] => true | m :: l' => if is_on m then negb b && alt true l' else b && alt false l' end.
Fixpoint alt_end (b : bool) (l : list msg) : bool :=
  match l with [] => b | m :: l' => alt_end (is_on m) l' end.

Lemma alt_app b a c : alt b (a ++ c) = alt b a && alt (alt_end b a) c.
Proof.
  revert b. induction a as [|m a IH]; intros b; [reflexivity|].
  cbn [app alt alt_end]. destruct (is_on m); rewrite IH.
  - now rewrite andb_assoc.
  - now rewrite andb_assoc.
Qed.
Lemma alt_end_app b a c : alt_end b (a ++ c) = alt_end (alt_end b a) c.
Proof. revert b. induction a as [|m a IH]; intros b; [reflexivity|]. cbn [app alt_end]. apply IH. Qed.

(* key signatures: none repeats the key in force *)
Fixpoint ksok (cur : option Key) (l : list msg) : bool :=
  match l with [] => true | m :: l' => negb (okey_eqb (m_key m) cur) && ksok (m_key m) l' end.
Fixpoint ks_end (cur : option Key) (l : list msg) : option Key :=
  match l with [] => cur | m :: l' => ks_end (m_key m) l' end.
Lemma ksok_app c a b : ksok c (a ++ b) = ksok c a && ksok (ks_end c a) b.
Proof. revert c. induction a as [|m a IH]; intros c; [reflexivity|]. cbn [app ksok ks_end]. now rewrite IH, andb_assoc. Qed.
Lemma ks_end_app c a b : ks_end c (a ++ b) = ks_end (ks_end c a) b.
Proof. revert c. induction a as [|m a IH]; intros c; [reflexivity|]. cbn [app ks_end]. apply IH. Qed.

(* ================================================================ the open table *)
Definition opened (s : nstate) (k : k2) : bool := negb (Nat.eqb (depth k (n_open s)) 0).

Lemma dget_dset_same k (v : nat) o : dget k2_eqb k (dset k2_eqb k v o) = Some v.
Proof.
  induction o as [|[k1 v1] o IH]; cbn [dset dget].
  - now rewrite k2_eqb_refl.
  - destruct (k2_eqb k k1) eqn:E; cbn [dget]; rewrite E; [reflexivity|exact IH].
Qed.
Lemma dget_dset_other k k' (v : nat) o : k2_eqb k' k = false -> dget k2_eqb k' (dset k2_eqb k v o) = dget k2_eqb k' o.
Proof.
  intros H. induction o as [|[k1 v1] o IH]; cbn [dset dget].
  - now rewrite H.
  - destruct (k2_eqb k k1) eqn:E; cbn [dget].
    + apply k2_eqb_eq in E. subst k1. now rewrite H.
    + now rewrite IH.
Qed.
Lemma depth_dset_same k v o : depth k (dset k2_eqb k v o) = v.
Proof. unfold depth. now rewrite dget_dset_same. Qed.
Lemma depth_dset_other k k' v o : k2_eqb k' k = false -> depth k' (dset k2_eqb k v o) = depth k' o.
Proof. intros H. unfold depth. now rewrite dget_dset_other. Qed.

Definition keys (o : list (k2 * nat)) : list k2 := map fst o.

Lemma in_keys_dset x k v o : In x (keys (dset k2_eqb k v o)) -> x = k \/ In x (keys o).
Proof.
  unfold keys. induction o as [|[k1 v1] o IH]; cbn [dset map fst In].
  - intros [H|[]]. now left.
  - destruct (k2_eqb k k1) eqn:E; cbn [map fst In].
    + intros [H|H]; right; auto.
    + intros [H|H]; [right; now left|]. destruct (IH H); auto.
Qed.
Lemma nodup_dset k v o : NoDup (keys o) -> NoDup (keys (dset k2_eqb k v o)).
Proof.
  unfold keys. induction o as [|[k1 v1] o IH]; cbn [dset map fst]; intros H.
  - constructor; [intros []|constructor].
  - inversion H as [|? ? H1 H2]; subst. destruct (k2_eqb k k1) eqn:E; cbn [map fst].
    + constructor; assumption.
    + constructor; [|now apply IH]. intros I. apply in_keys_dset in I. destruct I as [I|I]; [|contradiction].
      subst k1. now rewrite k2_eqb_refl in E.
Qed.

(* ================================================================ types *)
Ltac tycase m T := destruct (m_type m) eqn:T.

Lemma sel_note k m : sel k m = true -> is_note m = true.
Proof. unfold sel. intros H. apply andb_prop in H. tauto. Qed.
Lemma not_note_sel k m : is_note m = false -> sel k m = false.
Proof. unfold sel. now intros ->. Qed.
Lemma sel_kof m : is_note m = true -> sel (kof m) m = true.
Proof. unfold sel. intros ->. now rewrite k2_eqb_refl. Qed.
Lemma wait_not_note m : is_wait m = true -> is_note m = false.
Proof. unfold is_wait, is_note, is_on, is_off. destruct (m_type m); cbn; congruence. Qed.
Lemma ts_not_note m : is_ts m = true -> is_note m = false.
Proof. unfold is_ts, is_note, is_on, is_off. destruct (m_type m); cbn; congruence. Qed.
Lemma wait_not_ks m : is_wait m = true -> is_ks m = false.
Proof. unfold is_wait, is_ks. destruct (m_type m); cbn; congruence. Qed.
Lemma ts_not_ks m : is_ts m = true -> is_ks m = false.
Proof. unfold is_ts, is_ks. destruct (m_type m); cbn; congruence. Qed.
Lemma note_not_ks m : is_note m = true -> is_ks m = false.
Proof. unfold is_note, is_on, is_off, is_ks. destruct (m_type m); cbn; congruence. Qed.
Lemma on_is_note m : is_on m = true -> is_note m = true.
Proof. unfold is_note. now intros ->. Qed.

Lemma N_wait_of k s c : N k (wait_of s c) = [].
Proof. unfold wait_of. destruct (0 <? n_wait s); reflexivity. Qed.
Lemma KS_wait_of s c : KS (wait_of s c) = [].
Proof. unfold wait_of. destruct (0 <? n_wait s); reflexivity. Qed.

(* ================================================================ complete description of one step *)
Lemma nstep_open_other s m : is_note m = false -> n_open (nstep s m) = n_open s.
Proof.
  unfold is_note, is_on, is_off, nstep. tycase m T; cbn; try discriminate; intros _; try reflexivity.
  - destruct (okey_eqb (m_key m) (n_key s)); reflexivity.
  - destruct (_ && _); reflexivity.
Qed.

Lemma nstep_key_other s m : is_ks m = false -> n_key (nstep s m) = n_key s.
Proof.
  unfold is_ks, nstep. tycase m T; cbn; try discriminate; intros _; try reflexivity.
  - destruct (_ && _); reflexivity.
  - destruct (depth _ _) as [|[|d]]; reflexivity.
  - destruct (depth _ _) as [|d]; reflexivity.
Qed.

(* a note message: what happens depending on the depth of its key *)
Lemma nstep_on s m : is_on m = true ->
  n_open (nstep s m) = dset k2_eqb (kof m) (S (depth (kof m) (n_open s))) (n_open s) /\
  (depth (kof m) (n_open s) = 0%nat ->
     n_out (nstep s m) = n_out s ++ wait_of s (m_chan m) ++ [m] /\
     n_wait (nstep s m) = (if 0 <? n_wait s then 0 else n_wait s)) /\
  (depth (kof m) (n_open s) <> 0%nat -> n_out (nstep s m) = n_out s /\ n_wait (nstep s m) = n_wait s).
Proof.
  unfold is_on, nstep, kof. tycase m T; cbn; try discriminate; intros _.
  destruct (depth (m_chan m, m_note m) (n_open s)) as [|d].
  - rewrite flush_out. split; [reflexivity|]. split; [intros _; split; reflexivity|intros H; now elim H].
  - split; [reflexivity|]. split; [intros H; discriminate|intros _; split; reflexivity].
Qed.

Lemma nstep_off s m : is_off m = true ->
  (depth (kof m) (n_open s) = 0%nat -> nstep s m = s) /\
  (forall d, depth (kof m) (n_open s) = S d -> n_open (nstep s m) = dset k2_eqb (kof m) d (n_open s)) /\
  (depth (kof m) (n_open s) = 1%nat ->
     n_out (nstep s m) = n_out s ++ wait_of s (m_chan m) ++ [m] /\
     n_wait (nstep s m) = (if 0 <? n_wait s then 0 else n_wait s)) /\
  (forall d, depth (kof m) (n_open s) = S (S d) -> n_out (nstep s m) = n_out s /\ n_wait (nstep s m) = n_wait s).
Proof.
  unfold is_off, nstep, kof. tycase m T; cbn; try discriminate; intros _.
  destruct (depth (m_chan m, m_note m) (n_open s)) as [|[|d]].
  - split; [reflexivity|]. split; [intros d H; discriminate|]. split; [intros H; discriminate|intros d H; discriminate].
  - rewrite flush_out. split; [intros H; discriminate|]. split; [intros d H; injection H as <-; reflexivity|].
    split; [intros _; split; reflexivity|intros d H; discriminate].
  - split; [intros H; discriminate|]. split; [intros d' H; injection H as <-; reflexivity|].
    split; [intros H; discriminate|intros d' _; split; reflexivity].
Qed.

Lemma nstep_ks s m : is_ks m = true ->
  (okey_eqb (m_key m) (n_key s) = true -> nstep s m = s) /\
  (okey_eqb (m_key m) (n_key s) = false ->
     n_out (nstep s m) = n_out s ++ wait_of s (m_chan m) ++ [m] /\
     n_wait (nstep s m) = (if 0 <? n_wait s then 0 else n_wait s) /\ n_key (nstep s m) = m_key m).
Proof.
  unfold is_ks, nstep. tycase m T; cbn; try discriminate; intros _.
  destruct (okey_eqb (m_key m) (n_key s)).
  - split; [reflexivity|discriminate].
  - rewrite flush_out. split; [discriminate|]. repeat split; reflexivity.
Qed.

(* anything that is not a wait, note, time or key signature is always kept *)
Lemma nstep_plain s m : is_wait m = false -> is_note m = false -> is_ts m = false -> is_ks m = false ->
  n_out (nstep s m) = n_out s ++ wait_of s (m_chan m) ++ [m] /\
  n_wait (nstep s m) = (if 0 <? n_wait s then 0 else n_wait s).
Proof.
  unfold is_wait, is_note, is_on, is_off, is_ts, is_ks, nstep.
  tycase m T; cbn [mtype_eqb mtype_rank Z.eqb Pos.eqb orb]; try discriminate; intros _ _ _ _;
    rewrite flush_out; split; reflexivity.
Qed.

Lemma is_on_off_excl m : is_on m = true -> is_off m = false.
Proof. unfold is_on, is_off. destruct (m_type m); cbn; congruence. Qed.
Lemma note_on_or_off m : is_note m = true -> is_on m = false -> is_off m = true.
Proof. unfold is_note. intros H E. now rewrite E in H. Qed.

(* ================================================================ first pass: invariants of the output *)
Definition inv_notes (s : nstate) : Prop :=
  forall k, alt false (N k (n_out s)) = true /\ alt_end false (N k (n_out s)) = opened s k.
Definition inv_ks (s : nstate) : Prop :=
  ksok None (KS (n_out s)) = true /\ ks_end None (KS (n_out s)) = n_key s.

Lemma N_kept k s m : N k (n_out s ++ wait_of s (m_chan m) ++ [m]) = N k (n_out s) ++ (if sel k m then [m] else []).
Proof. unfold N. rewrite !filter_app. fold (N k (wait_of s (m_chan m))). rewrite N_wait_of. reflexivity. Qed.
Lemma KS_kept s m : KS (n_out s ++ wait_of s (m_chan m) ++ [m]) = KS (n_out s) ++ (if is_ks m then [m] else []).
Proof. unfold KS. rewrite !filter_app. fold (KS (wait_of s (m_chan m))). rewrite KS_wait_of. reflexivity. Qed.

Lemma opened_same s s' k : depth k (n_open s') = depth k (n_open s) -> opened s' k = opened s k.
Proof. unfold opened. now intros ->. Qed.

Lemma nstep_inv_notes s m : inv_notes s -> inv_notes (nstep s m).
Proof.
  intros I k. destruct (I k) as [A E].
  destruct (is_note m) eqn:Nt.
  - destruct (is_on m) eqn:On.
    + (* NOTE_ON *)
      destruct (nstep_on s m On) as (Op & K0 & K1).
      destruct (depth (kof m) (n_open s)) as [|d] eqn:D.
      * destruct (K0 eq_refl) as [O _]. rewrite O, N_kept. unfold sel. rewrite Nt. cbn [andb].
        destruct (k2_eqb k (kof m)) eqn:Ek.
        -- apply k2_eqb_eq in Ek. subst k. rewrite alt_app, alt_end_app, A, E. cbn [alt alt_end andb].
           rewrite On. unfold opened. rewrite D, Op, depth_dset_same. split; reflexivity.
        -- rewrite app_nil_r. split; [exact A|]. rewrite E. symmetry. apply opened_same.
           rewrite Op. now apply depth_dset_other.
      * destruct K1 as [O _]; [discriminate|]. rewrite O. split; [exact A|]. rewrite E.
        unfold opened. rewrite Op. destruct (k2_eqb k (kof m)) eqn:Ek.
        -- apply k2_eqb_eq in Ek. subst k. rewrite D, depth_dset_same. reflexivity.
        -- now rewrite depth_dset_other.
    + (* NOTE_OFF *)
      pose proof (note_on_or_off m Nt On) as Off.
      destruct (nstep_off s m Off) as (Z0 & Op & K1 & K2).
      destruct (depth (kof m) (n_open s)) as [|[|d]] eqn:D.
      * rewrite (Z0 eq_refl). split; assumption.
      * destruct (K1 eq_refl) as [O _]. specialize (Op _ eq_refl). rewrite O, N_kept. unfold sel. rewrite Nt. cbn [andb].
        destruct (k2_eqb k (kof m)) eqn:Ek.
        -- apply k2_eqb_eq in Ek. subst k. rewrite alt_app, alt_end_app, A, E. cbn [alt alt_end andb].
           rewrite On. unfold opened. rewrite D, Op, depth_dset_same. split; reflexivity.
        -- rewrite app_nil_r. split; [exact A|]. rewrite E. symmetry. apply opened_same.
           rewrite Op. now apply depth_dset_other.
      * destruct (K2 _ eq_refl) as [O _]. specialize (Op _ eq_refl). rewrite O. split; [exact A|]. rewrite E.
        unfold opened. rewrite Op. destruct (k2_eqb k (kof m)) eqn:Ek.
        -- apply k2_eqb_eq in Ek. subst k. rewrite D, depth_dset_same. reflexivity.
        -- now rewrite depth_dset_other.
  - (* not a note: the table is untouched, the message is not selected *)
    pose proof (nstep_open_other s m Nt) as Op.
    assert (Eo : opened (nstep s m) k = opened s k) by (apply opened_same; now rewrite Op).
    rewrite Eo.
    destruct (nstep_shape s m) as [(_ & -> & _)|[(_ & -> & _)|(_ & -> & _)]]; try (split; assumption).
    rewrite N_kept, (not_note_sel k m Nt), app_nil_r. split; assumption.
Qed.

Lemma nstep_inv_ks s m : inv_ks s -> inv_ks (nstep s m).
Proof.
  intros [A E]. unfold inv_ks. destruct (is_ks m) eqn:K.
  - destruct (nstep_ks s m K) as [D1 D2]. destruct (okey_eqb (m_key m) (n_key s)) eqn:Q.
    + rewrite (D1 eq_refl). split; assumption.
    + destruct (D2 eq_refl) as (-> & _ & ->). rewrite KS_kept, K, ksok_app, ks_end_app, A, E.
      cbn [ksok ks_end andb]. now rewrite Q.
  - rewrite (nstep_key_other s m K).
    destruct (nstep_shape s m) as [(_ & -> & _)|[(_ & -> & _)|(_ & -> & _)]]; try (split; assumption).
    rewrite KS_kept, K, app_nil_r. split; assumption.
Qed.

Lemma nstep_inv_nodup s m : NoDup (keys (n_open s)) -> NoDup (keys (n_open (nstep s m))).
Proof.
  intros H. destruct (is_note m) eqn:Nt.
  - destruct (is_on m) eqn:On.
    + destruct (nstep_on s m On) as (-> & _). now apply nodup_dset.
    + pose proof (note_on_or_off m Nt On) as Off. destruct (nstep_off s m Off) as (Z0 & Op & _).
      destruct (depth (kof m) (n_open s)) as [|d] eqn:D.
      * now rewrite (Z0 eq_refl).
      * rewrite (Op _ eq_refl). now apply nodup_dset.
  - now rewrite (nstep_open_other s m Nt).
Qed.

Lemma fold_inv (P : nstate -> Prop) : (forall s m, P s -> P (nstep s m)) ->
  forall l s, P s -> P (fold_left nstep l s).
Proof. intros St l. induction l as [|m l IH]; intros s H; [exact H|]. cbn [fold_left]. apply IH, St, H. Qed.

Lemma inv_n0 : inv_notes n0 /\ inv_ks n0 /\ NoDup (keys (n_open n0)).
Proof. repeat split. constructor. Qed.

(* ================================================================ cleanup *)
Definition selon (k : k2) (m : msg) : bool := is_on m && k2_eqb k (kof m).

Lemma remove_last_on_nothing k l : snd (remove_last_on k l) = false -> fst (remove_last_on k l) = l.
Proof.
  induction l as [|m l IH]; [reflexivity|]. cbn [remove_last_on].
  destruct (remove_last_on k l) as [r f]. cbn [fst snd] in IH. destruct f; [discriminate|].
  fold (kof m). destruct (is_on m && k2_eqb k (kof m)); [discriminate|].
  cbn [fst snd]. intros _. now rewrite IH.
Qed.

(* removing commutes with selecting the notes of that key *)
Lemma remove_last_on_gen (q : msg -> bool) k l :
  (forall m, is_on m && k2_eqb k (kof m) = true -> q m = true) ->
  remove_last_on k (filter q l) = (filter q (fst (remove_last_on k l)), snd (remove_last_on k l)).
Proof.
  intros Q. induction l as [|m l IH]; [reflexivity|].
  cbn [remove_last_on filter]. destruct (remove_last_on k l) as [r f]. cbn [fst snd] in IH.
  fold (kof m). destruct (q m) eqn:Qm.
  - cbn [remove_last_on]. rewrite IH. fold (kof m). destruct f.
    + cbn [fst snd filter]. now rewrite Qm.
    + destruct (is_on m && k2_eqb k (kof m)); cbn [fst snd filter]; [reflexivity|now rewrite Qm].
  - rewrite IH. destruct f.
    + cbn [fst snd filter]. now rewrite Qm.
    + destruct (is_on m && k2_eqb k (kof m)) eqn:E; [now rewrite (Q m E) in Qm|].
      cbn [fst snd filter]. now rewrite Qm.
Qed.

Lemma remove_last_on_other (q : msg -> bool) k l :
  (forall m, is_on m && k2_eqb k (kof m) = true -> q m = false) ->
  filter q (fst (remove_last_on k l)) = filter q l.
Proof.
  intros Q. induction l as [|m l IH]; [reflexivity|].
  cbn [remove_last_on]. destruct (remove_last_on k l) as [r f]. cbn [fst] in IH. fold (kof m).
  destruct f; [cbn [fst filter]; now rewrite IH|].
  destruct (is_on m && k2_eqb k (kof m)) eqn:E; cbn [fst filter]; [now rewrite (Q m E)|now rewrite IH].
Qed.

(* on a list holding only notes of key k that ends with a NOTE_ON, remove_last_on drops exactly that last element *)
Lemma remove_last_on_last k L : forall b, L <> [] -> forallb (sel k) L = true -> alt_end b L = true ->
  exists L' mo, L = L' ++ [mo] /\ is_on mo = true /\ remove_last_on k L = (L', true).
Proof.
  induction L as [|m L IH]; intros b NE F E; [contradiction|].
  cbn [forallb] in F. apply andb_prop in F. destruct F as [F1 F2].
  destruct L as [|m1 L2].
  - cbn [alt_end] in E. exists [], m. cbn [remove_last_on app]. fold (kof m). rewrite E.
    unfold sel in F1. apply andb_prop in F1. destruct F1 as [_ ->]. auto.
  - cbn [alt_end] in E. destruct (IH (is_on m)) as (L' & mo & EqL & On & R); [discriminate|exact F2|exact E|].
    exists (m :: L'), mo. rewrite EqL. split; [reflexivity|]. split; [exact On|].
    rewrite <- EqL. cbn [remove_last_on]. cbn [remove_last_on] in R. now rewrite R.
Qed.

Definition pending (o : list (k2 * nat)) (k : k2) : bool :=
  existsb (fun kd => k2_eqb k (fst kd) && negb (Nat.eqb (snd kd) 0)) o.

Lemma pending_absent o k : ~ In k (keys o) -> pending o k = false.
Proof.
  unfold keys, pending. induction o as [|[k1 d1] o IH]; [reflexivity|]. cbn [map fst In existsb snd].
  intros H. rewrite IH by tauto. destruct (k2_eqb k k1) eqn:E; [|reflexivity].
  apply k2_eqb_eq in E. subst. tauto.
Qed.

Lemma pending_depth o k : NoDup (keys o) -> pending o k = negb (Nat.eqb (depth k o) 0).
Proof.
  unfold keys, depth. induction o as [|[k1 d1] o IH]; [reflexivity|]. cbn [map fst]. intros H.
  inversion H as [|? ? H1 H2]; subst. unfold pending. cbn [existsb fst snd dget].
  fold (pending o k). destruct (k2_eqb k k1) eqn:E.
  - apply k2_eqb_eq in E. subst k1. rewrite (pending_absent o k H1). cbn [andb]. now rewrite orb_false_r.
  - cbn [andb orb]. now apply IH.
Qed.

Lemma forallb_sel_N k l : forallb (sel k) (N k l) = true.
Proof. apply forallb_forall. intros m I. apply filter_In in I. tauto. Qed.

Lemma cleanup_notes o : forall out, NoDup (keys o) ->
  (forall k, alt false (N k out) = true /\ alt_end false (N k out) = pending o k) ->
  forall k, alt false (N k (cleanup o out)) = true /\ alt_end false (N k (cleanup o out)) = false.
Proof.
  unfold cleanup. induction o as [|[k0 d0] o IH]; intros out ND H k.
  - cbn [fold_left]. exact (H k).
  - cbn [fold_left fst snd]. inversion ND as [|? ? ND1 ND2]; subst.
    apply IH; [exact ND2|]. clear k. intros k. destruct (H k) as [A E].
    unfold pending in E. cbn [existsb fst snd] in E. fold (pending o k) in E.
    destruct d0 as [|d0].
    + cbn [Nat.eqb negb] in E. rewrite andb_false_r in E. cbn [orb] in E. split; assumption.
    + cbn [Nat.eqb negb] in E. rewrite andb_true_r in E.
      destruct (k2_eqb k k0) eqn:Ek.
      * apply k2_eqb_eq in Ek. subst k0. cbn [orb] in E.
        assert (NE : N k out <> []) by (intros Z; rewrite Z in E; discriminate).
        destruct (remove_last_on_last k (N k out) false NE (forallb_sel_N k out) E) as (L' & mo & EqL & On & R).
        unfold N in R. rewrite remove_last_on_gen in R.
        2:{ intros m Hm. unfold sel. apply andb_prop in Hm. destruct Hm as [Hm1 ->]. now rewrite (on_is_note m Hm1). }
        injection R as R _. fold (N k (fst (remove_last_on k out))) in R. rewrite R.
        rewrite EqL, alt_app in A. apply andb_prop in A. destruct A as [A1 A2].
        cbn [alt] in A2. rewrite On, andb_true_r in A2.
        rewrite (pending_absent o k ND1). split; [exact A1|]. now destruct (alt_end false L').
      * cbn [orb] in E. unfold N. rewrite remove_last_on_other; [split; assumption|].
        intros m Hm. apply andb_prop in Hm. destruct Hm as [_ Hm]. apply k2_eqb_eq in Hm. subst k0.
        unfold sel. rewrite Ek. apply andb_false_r.
Qed.

(* ================================================================ normal form of the normalised list *)
Definition balanced (l : list msg) : Prop := forall k, alt false (N k l) = true /\ alt_end false (N k l) = false.

Lemma N_app k a b : N k (a ++ b) = N k a ++ N k b.
Proof. apply filter_app. Qed.

Lemma normalise_balanced l : balanced (normalise l).
Proof.
  rewrite normalise_unfold. set (s := fold_left nstep l n0).
  destruct inv_n0 as (I1 & _ & I3).
  pose proof (fold_inv inv_notes nstep_inv_notes l n0 I1) as J1.
  pose proof (fold_inv (fun s => NoDup (keys (n_open s))) nstep_inv_nodup l n0 I3) as J3. cbn beta in J3.
  fold s in J1, J3. intros k0. apply cleanup_notes; [exact J3|].
  intros k. rewrite N_app, N_wait_of, app_nil_r, (pending_depth _ k J3). exact (J1 k).
Qed.

Lemma is_ks_not_on m : is_on m = true -> is_ks m = false.
Proof. intros H. apply note_not_ks, on_is_note, H. Qed.

Lemma normalise_ksok l : ksok None (KS (normalise l)) = true.
Proof.
  rewrite normalise_unfold. unfold KS. rewrite cleanup_filter by exact is_ks_not_on.
  rewrite filter_app. fold (KS (wait_of (fold_left nstep l n0) (first_chan l))). rewrite KS_wait_of, app_nil_r.
  destruct inv_n0 as (_ & I2 & _).
  exact (proj1 (fold_inv inv_ks nstep_inv_ks l n0 I2)).
Qed.

(* ================================================================ second pass: nothing but signatures is dropped *)
Definition nts (p : msg * Z) : bool := negb (is_ts (fst p)).

Lemma ticks_wait_of s c cur : ticks (wait_of s c) cur = [].
Proof. unfold wait_of. destruct (0 <? n_wait s); reflexivity. Qed.

Lemma ticks_kept s m : 0 <= n_wait s -> is_wait m = false ->
  ticks (n_out s ++ wait_of s (m_chan m) ++ [m]) 0 = ticks (n_out s) 0 ++ [(m, dur_rel (n_out s) + n_wait s)].
Proof.
  intros W Wm. rewrite !ticks_app, ticks_wait_of. cbn [app ticks]. rewrite Wm.
  now rewrite (dur_rel_wait_of s _ W), Z.add_0_l.
Qed.

Lemma dur_kept s m : 0 <= n_wait s -> is_wait m = false ->
  dur_rel (n_out s ++ wait_of s (m_chan m) ++ [m]) + (if 0 <? n_wait s then 0 else n_wait s) = dur_rel (n_out s) + n_wait s.
Proof.
  intros W Wm. rewrite !dur_rel_app, (dur_rel_wait_of s _ W), (dur_rel_single_other m Wm).
  destruct (0 <? n_wait s) eqn:E; [lia|]. apply Z.ltb_ge in E. lia.
Qed.

Lemma alt_cons_on b m L : is_on m = true -> alt b (m :: L) = true -> b = false /\ alt true L = true.
Proof. intros On. cbn [alt]. rewrite On. intros H. apply andb_prop in H. destruct b; cbn in H; [destruct H; discriminate|tauto]. Qed.
Lemma alt_cons_off b m L : is_on m = false -> alt b (m :: L) = true -> b = true /\ alt false L = true.
Proof. intros On. cbn [alt]. rewrite On. intros H. apply andb_prop in H. tauto. Qed.

Lemma N_cons k m l : N k (m :: l) = if sel k m then m :: N k l else N k l.
Proof. reflexivity. Qed.

Lemma opened_false s k : opened s k = false -> depth k (n_open s) = 0%nat.
Proof. unfold opened. intros H. apply negb_false_iff, Nat.eqb_eq in H. exact H. Qed.
Lemma opened_true s k : (depth k (n_open s) <= 1)%nat -> opened s k = true -> depth k (n_open s) = 1%nat.
Proof. unfold opened. intros L H. apply negb_true_iff, Nat.eqb_neq in H. lia. Qed.

Lemma second_pass l : forall s,
  waits_nonneg l = true -> 0 <= n_wait s ->
  (forall k, (depth k (n_open s) <= 1)%nat) ->
  (forall k, alt (opened s k) (N k l) = true) ->
  ksok (n_key s) (KS l) = true ->
  filter nts (ticks (n_out (fold_left nstep l s)) 0) =
    filter nts (ticks (n_out s) 0) ++ filter nts (ticks l (dur_rel (n_out s) + n_wait s)) /\
  (forall k, opened (fold_left nstep l s) k = alt_end (opened s k) (N k l)).
Proof.
  induction l as [|m l IH]; intros s Wn W0 D1 HN HK.
  - cbn [fold_left ticks filter N alt_end]. rewrite app_nil_r. split; reflexivity.
  - apply waits_nonneg_cons in Wn. destruct Wn as [Wm Wl]. cbn [fold_left].
    (* generic finishing step: given the description of nstep s m, apply the IH *)
    destruct (is_wait m) eqn:Ew.
    { (* WAIT *)
      destruct (nstep_shape s m) as [(_ & O & Wt & _)|[(F & _)|(F & _)]]; try congruence.
      pose proof (nstep_open_other s m (wait_not_note m Ew)) as Op.
      pose proof (nstep_key_other s m (wait_not_ks m Ew)) as Ky.
      specialize (Wm eq_refl).
      destruct (IH (nstep s m)) as [T Oe]; try assumption.
      - lia.
      - intros k. rewrite Op. apply D1.
      - intros k. specialize (HN k). rewrite N_cons, (not_note_sel k m (wait_not_note m Ew)) in HN.
        now rewrite (opened_same s (nstep s m) k) by (now rewrite Op).
      - rewrite Ky. unfold KS in HK |- *. cbn [filter] in HK. now rewrite (wait_not_ks m Ew) in HK.
      - split.
        + rewrite T, O, Wt. cbn [ticks]. rewrite Ew. now rewrite Z.add_assoc.
        + intros k. rewrite Oe, N_cons, (not_note_sel k m (wait_not_note m Ew)).
          now rewrite (opened_same s (nstep s m) k) by (now rewrite Op). }
    destruct (is_ts m) eqn:Et.
    { (* TIME_SIGNATURE: dropped or kept, invisible through nts *)
      pose proof (nstep_open_other s m (ts_not_note m Et)) as Op.
      pose proof (nstep_key_other s m (ts_not_ks m Et)) as Ky.
      assert (HN' : forall k, alt (opened (nstep s m) k) (N k l) = true).
      { intros k. specialize (HN k). rewrite N_cons, (not_note_sel k m (ts_not_note m Et)) in HN.
        now rewrite (opened_same s (nstep s m) k) by (now rewrite Op). }
      assert (HK' : ksok (n_key (nstep s m)) (KS l) = true).
      { rewrite Ky. unfold KS in HK |- *. cbn [filter] in HK. now rewrite (ts_not_ks m Et) in HK. }
      assert (D1' : forall k, (depth k (n_open (nstep s m)) <= 1)%nat) by (intros k; rewrite Op; apply D1).
      assert (Fin : forall k, alt_end (opened (nstep s m) k) (N k l) = alt_end (opened s k) (N k (m :: l))).
      { intros k. rewrite N_cons, (not_note_sel k m (ts_not_note m Et)).
        now rewrite (opened_same s (nstep s m) k) by (now rewrite Op). }
      destruct (nstep_shape s m) as [(F & _)|[(_ & O & Wt & _)|(_ & O & Wt & _)]]; try congruence.
      - destruct (IH (nstep s m)) as [T Oe]; try assumption; [lia|].
        split; [|intros k; now rewrite Oe, Fin].
        rewrite T, O, Wt. cbn [ticks]. rewrite Ew. cbn [filter]. change (nts (m, dur_rel (n_out s) + n_wait s)) with (negb (is_ts m)). rewrite Et. reflexivity.
      - destruct (IH (nstep s m)) as [T Oe]; try assumption.
        { rewrite Wt. destruct (0 <? n_wait s); lia. }
        split; [|intros k; now rewrite Oe, Fin].
        rewrite T, O, Wt, (dur_kept s m W0 Ew), (ticks_kept s m W0 Ew), filter_app. cbn [ticks filter].
        rewrite Ew. cbn [filter]. change (nts (m, dur_rel (n_out s) + n_wait s)) with (negb (is_ts m)). rewrite Et. cbn [negb]. now rewrite app_nil_r. }
    (* every other message is kept *)
    assert (Kept : n_out (nstep s m) = n_out s ++ wait_of s (m_chan m) ++ [m] /\
                   n_wait (nstep s m) = (if 0 <? n_wait s then 0 else n_wait s) /\
                   (forall k, depth k (n_open (nstep s m)) = if sel k m then (if is_on m then 1%nat else 0%nat) else depth k (n_open s)) /\
                   n_key (nstep s m) = if is_ks m then m_key m else n_key s).
    { destruct (is_note m) eqn:Nt.
      - pose proof (HN (kof m)) as Hk. rewrite N_cons, (sel_kof m Nt) in Hk.
        rewrite (nstep_key_other s m (note_not_ks m Nt)), (note_not_ks m Nt).
        destruct (is_on m) eqn:On.
        + destruct (alt_cons_on _ _ _ On Hk) as [B _]. apply opened_false in B.
          destruct (nstep_on s m On) as (Op & K0 & _). destruct (K0 B) as [O Wt].
          repeat split; try assumption. intros k. rewrite Op, B. unfold sel. rewrite Nt. cbn [andb].
          destruct (k2_eqb k (kof m)) eqn:Ek.
          * apply k2_eqb_eq in Ek. subst k. apply depth_dset_same.
          * now apply depth_dset_other.
        + destruct (alt_cons_off _ _ _ On Hk) as [B _]. apply (opened_true _ _ (D1 (kof m))) in B.
          destruct (nstep_off s m (note_on_or_off m Nt On)) as (_ & Op & K1 & _). destruct (K1 B) as [O Wt].
          repeat split; try assumption. intros k. rewrite (Op _ B). unfold sel. rewrite Nt. cbn [andb].
          destruct (k2_eqb k (kof m)) eqn:Ek.
          * apply k2_eqb_eq in Ek. subst k. apply depth_dset_same.
          * now apply depth_dset_other.
      - pose proof (nstep_open_other s m Nt) as Op.
        assert (Dk : forall k, depth k (n_open (nstep s m)) = (if sel k m then if is_on m then 1%nat else 0%nat else depth k (n_open s))).
        { intros k. now rewrite (not_note_sel k m Nt), Op. }
        destruct (is_ks m) eqn:Ek.
        + unfold KS in HK. cbn [filter] in HK. rewrite Ek in HK. cbn [ksok] in HK. apply andb_prop in HK.
          destruct HK as [HK _]. apply negb_true_iff in HK.
          destruct (nstep_ks s m Ek) as (_ & K2). destruct (K2 HK) as (O & Wt & Ky). auto.
        + destruct (nstep_plain s m Ew Nt Et Ek) as [O Wt]. rewrite (nstep_key_other s m Ek). auto. }
    destruct Kept as (O & Wt & Dk & Ky).
    destruct (IH (nstep s m)) as [T Oe]; try assumption.
    + rewrite Wt. destruct (0 <? n_wait s); lia.
    + intros k. rewrite Dk. destruct (sel k m); [destruct (is_on m); lia|apply D1].
    + intros k. specialize (HN k). rewrite N_cons in HN. unfold opened at 1. rewrite Dk.
      destruct (sel k m) eqn:Sk; [|exact HN].
      destruct (is_on m) eqn:On.
      * now destruct (alt_cons_on _ _ _ On HN).
      * now destruct (alt_cons_off _ _ _ On HN).
    + rewrite Ky. unfold KS in HK |- *. cbn [filter] in HK. destruct (is_ks m); [|exact HK].
      cbn [ksok] in HK. apply andb_prop in HK. tauto.
    + split.
      * rewrite T, O, Wt, (dur_kept s m W0 Ew), (ticks_kept s m W0 Ew), filter_app. cbn [ticks filter].
        rewrite Ew. cbn [filter]. change (nts (m, dur_rel (n_out s) + n_wait s)) with (negb (is_ts m)). rewrite Et. cbn [negb app].
        now rewrite <- app_assoc.
      * intros k. rewrite Oe, N_cons. unfold opened at 1. rewrite Dk.
        destruct (sel k m); [|reflexivity]. cbn [alt_end]. now destruct (is_on m).
Qed.

(* ================================================================ assembling: re-running the constructor *)
Lemma filter_filter_sub (p q : msg -> bool) l : (forall m, p m = true -> q m = true) -> filter p (filter q l) = filter p l.
Proof.
  intros H. induction l as [|m l IH]; [reflexivity|]. cbn [filter].
  destruct (q m) eqn:Q; cbn [filter].
  - now rewrite IH.
  - destruct (p m) eqn:P; [now rewrite (H m P) in Q|exact IH].
Qed.

Lemma ticks_filter (q : msg -> bool) l : (forall m, is_wait m = true -> q m = true) ->
  forall cur, ticks (filter q l) cur = filter (fun p => q (fst p)) (ticks l cur).
Proof.
  intros H. induction l as [|m l IH]; intros cur; [reflexivity|]. cbn [filter ticks].
  destruct (is_wait m) eqn:W.
  - rewrite (H m W). cbn [ticks]. rewrite W. apply IH.
  - destruct (q m) eqn:Q; cbn [ticks filter fst]; rewrite ?W, Q, IH; reflexivity.
Qed.

Lemma cleanup_nothing o out : (forall k, pending o k = false) -> cleanup o out = out.
Proof.
  unfold cleanup. induction o as [|[k0 d0] o IH]; intros H; [reflexivity|].
  cbn [fold_left fst snd].
  pose proof (H k0) as H0. unfold pending in H0. cbn [existsb fst snd] in H0. rewrite k2_eqb_refl in H0.
  apply orb_false_iff in H0. destruct H0 as [H0 _]. cbn [andb] in H0. apply negb_false_iff, Nat.eqb_eq in H0. subst d0.
  apply IH. intros k. specialize (H k). unfold pending in H. cbn [existsb] in H. apply orb_false_iff in H. tauto.
Qed.

(* facts about the list of an accepted bar *)
Lemma bar_body_N rel num den k : N k (bar_body rel num den) = N k (normalise rel).
Proof.
  unfold bar_body. destruct (_ <? _); [|reflexivity].
  destruct (C18_pad (normalise rel) (bar_capacity num den) false (waits_pos_nonneg _ (normalise_waits_pos rel)))
    as ([->|(w & W & ->)] & _); [reflexivity|].
  rewrite N_app. cbn [N filter]. rewrite (not_note_sel k w (wait_not_note w W)). apply app_nil_r.
Qed.
Lemma bar_body_KS rel num den : KS (bar_body rel num den) = KS (normalise rel).
Proof.
  unfold bar_body. destruct (_ <? _); [|reflexivity].
  destruct (C18_pad (normalise rel) (bar_capacity num den) false (waits_pos_nonneg _ (normalise_waits_pos rel)))
    as ([->|(w & W & ->)] & _); [reflexivity|].
  unfold KS. rewrite filter_app. cbn [filter]. rewrite (wait_not_ks w W). apply app_nil_r.
Qed.

Lemma sel_not_ts k m : sel k m = true -> negb (is_ts m) = true.
Proof. intros H. apply sel_note in H. destruct (is_ts m) eqn:E; [|reflexivity]. apply ts_not_note in E. congruence. Qed.
Lemma ks_not_ts m : is_ks m = true -> negb (is_ts m) = true.
Proof. intros H. destruct (is_ts m) eqn:E; [|reflexivity]. apply ts_not_ks in E. congruence. Qed.
Lemma wait_negb_ts m : is_wait m = true -> negb (is_ts m) = true.
Proof. intros H. now rewrite (is_wait_not_ts m H). Qed.

Lemma filter_ts_no_ts l : filter is_ts (filter (fun m => negb (is_ts m)) l) = [].
Proof. induction l as [|m l IH]; [reflexivity|]. cbn [filter]. destruct (is_ts m) eqn:E; cbn [negb filter]; [exact IH|]. now rewrite E. Qed.

Lemma C10_copy rel num den r : bar_init rel num den = Ok r ->
  exists r2, bar_init r num den = Ok r2 /\ ticks r2 0 = ticks r 0 /\ dur_rel r2 = dur_rel r.
Proof.
  intros H. pose proof (C10_duration _ _ _ _ H) as Dr.
  destruct (bar_init_ok _ _ _ _ H) as (D & _ & _ & Er).
  destruct (bar_body_spec rel num den D) as (_ & _ & _ & Wp).
  set (ts0 := mk_ts 0 num den 0 false) in *. set (nt := fun m => negb (is_ts m)) in *.
  set (x := filter nt (bar_body rel num den)) in *.
  (* facts about r *)
  assert (Wr : waits_nonneg r = true).
  { rewrite Er. unfold waits_nonneg. cbn [filter]. change (is_wait ts0) with false.
    unfold x. rewrite filter_filter_sub by exact wait_negb_ts. now apply waits_pos_nonneg in Wp. }
  assert (Nr : forall k, alt false (N k r) = true /\ alt_end false (N k r) = false).
  { intros k. rewrite Er. rewrite N_cons. change (sel k ts0) with false. cbn iota.
    unfold x, N. rewrite filter_filter_sub by exact (sel_not_ts k). fold (N k (bar_body rel num den)).
    rewrite bar_body_N. apply normalise_balanced. }
  assert (Kr : ksok None (KS r) = true).
  { rewrite Er. unfold KS. cbn [filter]. change (is_ks ts0) with false. cbn iota.
    unfold x. rewrite filter_filter_sub by exact ks_not_ts. fold (KS (bar_body rel num den)).
    rewrite bar_body_KS. apply normalise_ksok. }
  (* the second normalise *)
  destruct (second_pass r n0 Wr) as [T Oe].
  { cbn. lia. } { intros k. cbn. lia. } { intros k. exact (proj1 (Nr k)). } { exact Kr. }
  set (s' := fold_left nstep r n0) in *.
  assert (ND : NoDup (keys (n_open s'))).
  { apply (fold_inv (fun s => NoDup (keys (n_open s))) nstep_inv_nodup). constructor. }
  assert (Enorm : normalise r = n_out s' ++ wait_of s' (first_chan r)).
  { rewrite normalise_unfold. fold s'. apply cleanup_nothing. intros k.
    rewrite (pending_depth _ k ND). fold (opened s' k). rewrite Oe. exact (proj2 (Nr k)). }
  assert (Tn : filter nts (ticks (normalise r) 0) = filter nts (ticks r 0)).
  { rewrite Enorm, ticks_app, ticks_wait_of, app_nil_r, T. cbn [n_out n0 ticks filter app]. reflexivity. }
  assert (Dn : dur_rel (normalise r) = bar_capacity num den) by (now rewrite normalise_dur).
  (* the second constructor run *)
  assert (Eb : bar_body r num den = normalise r).
  { unfold bar_body. rewrite Dn, Z.ltb_irrefl. reflexivity. }
  assert (Ets : filter is_ts (normalise r) = dedup_ts (NONE, NONE) [ts0]).
  { rewrite normalise_ts, Er. cbn [filter]. change (is_ts ts0) with true. cbn iota.
    unfold x, nt. now rewrite filter_ts_no_ts. }
  exists (ts0 :: filter nt (normalise r)). split; [|split].
  - rewrite bar_init_eq, Eb, Dn, Z.ltb_irrefl, Ets. cbn [dedup_ts].
    destruct ((m_num ts0 =? fst (NONE, NONE)) && (m_den ts0 =? snd (NONE, NONE))); [reflexivity|].
    cbn [lenZ length forallb]. unfold sig_ok, ts0. cbn [m_num m_den mk_ts]. now rewrite !Z.eqb_refl.
  - cbn [ticks]. change (is_wait ts0) with false. cbn iota.
    rewrite (ticks_filter nt) by exact wait_negb_ts.
    change (fun p : msg * Z => nt (fst p)) with nts. rewrite Tn, Er.
    cbn [ticks]. change (is_wait ts0) with false. cbn iota. cbn [filter]. change (nts (ts0, 0)) with false. cbn iota.
    f_equal. change nts with (fun p : msg * Z => nt (fst p)). rewrite <- (ticks_filter nt) by exact wait_negb_ts.
    unfold x. now rewrite filter_filter_sub by auto.
  - rewrite Dr, dur_rel_cons_other by reflexivity. rewrite dur_rel_filter by exact wait_negb_ts. exact Dn.
Qed.

Example C10_copy_ex : exists r r2, bar_init ex_bar 4 4 = Ok r /\ bar_init r 4 4 = Ok r2 /\ r2 <> r.
Proof. eexists. eexists. split; [vm_compute; reflexivity|]. split; [vm_compute; reflexivity|]. discriminate. Qed.
