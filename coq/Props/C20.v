(* C20 -- Key and circle-of-fifths tables are algebraically consistent.
   Statements about the functions GENERATED from scoda/misc/music_theory.py (coq/Gen/MusicTheory.v), for every key and
   every integer interval / pitch.  tonic k = value of the first note of the key's scale in KeyNoteMapping. *)
From Coq Require Import ZArith List.
From Gen Require Import MusicTheory.
From Proofs Require Import C20_proofs.
Open Scope Z_scope.

(* transposing a key by any integer returns a key, never nothing *)
Theorem C20_total : forall (k : Key) (i : Z), exists k', transpose_key k i = Some k'.
Proof. exact C20_proofs.C20_total. Qed.
Print Assumptions C20_total.

(* its tonic and its scale (as a set) are the original's shifted by the interval modulo 12, and every key's note
   set is a major scale on its tonic *)
Theorem C20_tonic_scale : forall (k : Key) (i : Z),
  exists k' t sc t' sc',
    transpose_key k i = Some k' /\ tonic k = Some t /\ scale_set k = Some sc /\
    tonic k' = Some t' /\ scale_set k' = Some sc' /\
    t' = (t + i) mod 12 /\
    same_set sc' (map (fun x => (x + i) mod 12) sc) = true /\
    same_set sc (map (fun x => (t + x) mod 12) major) = true.
Proof. exact C20_proofs.C20_tonic_scale. Qed.
Print Assumptions C20_tonic_scale.

(* transpositions compose additively (up to enharmonic spelling: equal tonics) *)
Theorem C20_additive : forall (k : Key) (i j : Z),
  exists k1 a b x, transpose_key k i = Some k1 /\ transpose_key k1 j = Some a /\
                   transpose_key k (i + j) = Some b /\ tonic a = Some x /\ tonic b = Some x.
Proof. exact C20_proofs.C20_additive. Qed.
Print Assumptions C20_additive.

(* a multiple of 12 is the identity up to enharmonic spelling *)
Theorem C20_identity : forall (k : Key) (m : Z),
  exists k' t, transpose_key k (12 * m) = Some k' /\ tonic k = Some t /\ tonic k' = Some t.
Proof. exact C20_proofs.C20_identity. Qed.
Print Assumptions C20_identity.

(* circle of fifths: distance in [-5, 6], congruent to the difference of positions, and moving by it lands on b *)
Theorem C20_distance : forall a b : Z,
  exists d pa pb, get_distance a b = Some d /\ get_position a = Some pa /\ get_position b = Some pb /\
                  -5 <= d <= 6 /\ (pb - pa - d) mod 12 = 0 /\ from_distance a d = Some (b mod 12).
Proof. exact C20_proofs.C20_distance. Qed.
Print Assumptions C20_distance.

(* KeyNoteMapping's accidental counts agree with the circle of fifths: every key has between 0 and 7 accidentals,
   and the count is the circle-of-fifths distance from C to the key's tonic, clockwise (sharps) or anticlockwise
   (flats), modulo 12 *)
Theorem C20_accidentals : forall k : Key,
  exists t c d, tonic k = Some t /\ accidentals k = Some c /\ get_distance 0 t = Some d /\
                0 <= c <= 7 /\ ((c - d) mod 12 = 0 \/ (c + d) mod 12 = 0).
Proof. exact C20_proofs.C20_accidentals. Qed.
Print Assumptions C20_accidentals.

(* ... and two different keys on the same tonic (the enharmonic pairs B/Cb, F#/Gb, C#/Db) have accidental counts
   adding up to 12 *)
Theorem C20_enharmonic_accidentals : forall (a b : Key) (t ca cb : Z),
  tonic a = Some t -> tonic b = Some t -> a <> b ->
  accidentals a = Some ca -> accidentals b = Some cb -> ca + cb = 12.
Proof. exact C20_proofs.C20_enharmonic_accidentals. Qed.
Print Assumptions C20_enharmonic_accidentals.

(* non-vacuity: B and Cb share the tonic 11 with 5 + 7 accidentals *)
Example C20_enharmonic_example :
  tonic K_B = Some 11 /\ tonic K_C_B = Some 11 /\ accidentals K_B = Some 5 /\ accidentals K_C_B = Some 7.
Proof. vm_compute. repeat split. Qed.
