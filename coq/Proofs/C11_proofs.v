(* C11 -- Tick values stay integers through every operation.
   m_tf m = true means the Python time value of m is a float.  `ints l` says every message of l carries an
   integer-typed time.  All lemmas are about the executable model (Model/*.v). *)
From Coq Require Import ZArith List Bool Lia Ascii String.
From Model Require Import Base Seq Pairing Util Bars Store Tok.
Import ListNotations.
Open Scope Z_scope.

(* ---------------------------------------------------------------- predicates *)
Definition intm (m : msg) : bool := negb (m_tf m).
Definition ints (l : list msg) : bool := forallb (fun m => negb (m_tf m)) l.
Definition intss (ll : list (list msg)) : bool := forallb ints ll.
Definition ints_seq (s : seq) : bool := ints (s_abs s) && ints (s_rel s).
Definition ints_store (st : store) : bool := forallb ints_seq st.

Ltac btrue := repeat match goal with
  | H : _ && _ = true |- _ => apply andb_true_iff in H; destruct H
  | |- _ && _ = true => apply andb_true_iff; split
  end.

Lemma intm_tf m : intm m = true <-> m_tf m = false.
Proof. unfold intm. destruct (m_tf m); simpl; split; congruence. Qed.

Lemma ints_cons m l : ints (m :: l) = intm m && ints l.
Proof. reflexivity. Qed.
Lemma ints_app a b : ints (a ++ b) = ints a && ints b.
Proof. apply forallb_app. Qed.
Lemma ints_In l : ints l = true <-> (forall m, In m l -> intm m = true).
Proof. unfold ints. rewrite forallb_forall. reflexivity. Qed.
Lemma ints_Forall l : ints l = true -> Forall (fun m => intm m = true) l.
Proof. intro H. apply Forall_forall. apply ints_In. exact H. Qed.
Lemma ints_incl l l' : (forall m, In m l' -> In m l \/ intm m = true) -> ints l = true -> ints l' = true.
Proof.
  intros Hi Hl. apply ints_In. intros m Hm. destruct (Hi m Hm) as [H | H]; [| exact H].
  exact (proj1 (ints_In l) Hl m H).
Qed.
Lemma ints_map f l : (forall m, intm m = true -> intm (f m) = true) -> ints l = true -> ints (map f l) = true.
Proof.
  intros Hf. induction l as [| a l IH]; [reflexivity |]. cbn [map]. rewrite !ints_cons. intro H. btrue; auto.
Qed.
Lemma ints_map_any {A} (f : A -> msg) l : (forall x, intm (f x) = true) -> ints (map f l) = true.
Proof. intro Hf. induction l as [| a l IH]; [reflexivity |]. cbn [map]. rewrite ints_cons, Hf, IH. reflexivity. Qed.
Lemma ints_filter p l : ints l = true -> ints (filter p l) = true.
Proof. apply ints_incl. intros m Hm. left. apply filter_In in Hm. tauto. Qed.
Lemma ints_flat_map {A} (f : A -> list msg) l :
  (forall x, In x l -> ints (f x) = true) -> ints (flat_map f l) = true.
Proof.
  intro H. apply ints_In. intros m Hm. apply in_flat_map in Hm. destruct Hm as [x [Hx Hm]].
  exact (proj1 (ints_In _) (H x Hx) m Hm).
Qed.
Lemma ints_concat ll : intss ll = true -> ints (concat ll) = true.
Proof.
  induction ll as [| a ll IH]; [reflexivity |]. cbn [concat intss forallb]. intro H. btrue.
  rewrite ints_app. btrue; auto.
Qed.
Lemma intss_app a b : intss (a ++ b) = intss a && intss b.
Proof. apply forallb_app. Qed.
Lemma ints_firstn_skipn n l : ints l = true -> ints (firstn n l) = true /\ ints (skipn n l) = true.
Proof. intro H. rewrite <- (firstn_skipn n l), ints_app in H. btrue. auto. Qed.

Lemma fold_left_inv {A B} (P : A -> Prop) (Q : B -> Prop) (f : A -> B -> A) l :
  (forall a b, P a -> Q b -> P (f a b)) -> Forall Q l -> forall a, P a -> P (fold_left f l a).
Proof.
  intros Hf HQ. induction HQ as [| b l Hb _ IH]; intros a Ha; [exact Ha |]. cbn [fold_left]. apply IH. auto.
Qed.

Lemma set_nth_forallb {A} (P : A -> bool) f n : forall l,
  (forall x, P x = true -> P (f x) = true) -> forallb P l = true -> forallb P (set_nth n f l) = true.
Proof.
  intros l Hf. revert n. induction l as [| a l IH]; intros n H; [destruct n; exact H |].
  cbn [forallb] in H. btrue. destruct n; cbn [set_nth forallb]; btrue; auto.
Qed.

(* ---------------------------------------------------------------- Seq.v *)
Lemma ins_sorted_ints x l : intm x = true -> ints l = true -> ints (ins_sorted x l) = true.
Proof.
  intros Hx. induction l as [| y l IH]; intro Hl; cbn [ins_sorted].
  - rewrite ints_cons, Hx. reflexivity.
  - rewrite ints_cons in Hl. btrue. destruct (key_le x y); rewrite !ints_cons; btrue; auto.
Qed.
Lemma sort_abs_ints l : ints l = true -> ints (sort_abs l) = true.
Proof.
  induction l as [| x l IH]; intro H; [reflexivity |]. rewrite ints_cons in H. btrue.
  cbn [sort_abs]. apply ins_sorted_ints; auto.
Qed.
Lemma insort_ints x l : intm x = true -> ints l = true -> ints (insort x l) = true.
Proof.
  intros Hx. induction l as [| y l IH]; intro Hl; cbn [insort].
  - rewrite ints_cons, Hx. reflexivity.
  - rewrite ints_cons in Hl. btrue. destruct (m_time x <? m_time y); rewrite !ints_cons; btrue; auto.
Qed.

Lemma intm_set_time m t : intm (set_time m t false) = true.
Proof. reflexivity. Qed.

Lemma to_abs_aux_ints l : forall cur cap r c f k, ints l = true ->
  to_abs_aux l cur false cap = (r, c, f, k) -> ints r = true /\ f = false.
Proof.
  induction l as [| m l IH]; intros cur cap r c f k Hl E; cbn [to_abs_aux] in E.
  - inversion E; subst. split; reflexivity.
  - rewrite ints_cons in Hl. btrue. assert (Hm : m_tf m = false) by (apply intm_tf; assumption).
    destruct (is_wait m).
    + rewrite Hm in E. cbn [orb] in E. eapply IH; eauto.
    + destruct (to_abs_aux l cur false true) as [[[r1 c1] f1] k1] eqn:E1.
      inversion E; subst. destruct (IH _ _ _ _ _ _ H0 E1) as [Hr Hf]. split; [| exact Hf].
      rewrite ints_cons. btrue; auto.
Qed.
Lemma to_abs_ints l : ints l = true -> ints (to_abs l) = true.
Proof.
  intro Hl. unfold to_abs. destruct (to_abs_aux l 0 false true) as [[[r c] f] k] eqn:E.
  destruct (to_abs_aux_ints _ _ _ _ _ _ _ Hl E) as [Hr _].
  destruct k; [apply sort_abs_ints; exact Hr |]. apply insort_ints; [reflexivity | apply sort_abs_ints; exact Hr].
Qed.

Lemma to_rel_aux_ints l : forall cur, ints l = true -> ints (to_rel_aux l cur false) = true.
Proof.
  induction l as [| m l IH]; intros cur Hl; [reflexivity |]. rewrite ints_cons in Hl. btrue.
  assert (Hm : m_tf m = false) by (apply intm_tf; assumption).
  cbn [to_rel_aux]. rewrite Hm. cbn [orb]. rewrite !ints_app.
  assert (E : (if cur <? m_time m then false else false) = false) by (destruct (cur <? m_time m); reflexivity).
  rewrite E. btrue.
  - destruct (cur <? m_time m); reflexivity.
  - destruct (mtype_eqb (m_type m) INTERNAL); reflexivity.
  - apply IH; assumption.
Qed.
Lemma to_rel_ints l : ints l = true -> ints (to_rel l) = true.
Proof. apply to_rel_aux_ints. Qed.

(* normalise *)
Definition nint (s : nstate) : bool := ints (n_out s) && negb (n_waitf s).
Lemma flush_nint s c m : nint s = true -> intm m = true -> nint (flush s c m) = true.
Proof.
  unfold nint, flush. intros H Hm. btrue. destruct (n_waitf s) eqn:Ew; [discriminate |].
  destruct (0 <? n_wait s); cbn [n_out n_waitf]; rewrite ?ints_app, ?ints_cons, ?H, ?Hm; reflexivity.
Qed.
Lemma nstep_nint s m : nint s = true -> intm m = true -> nint (nstep s m) = true.
Proof.
  intros H Hm. assert (Hf : m_tf m = false) by (apply intm_tf; assumption).
  assert (Hopen : forall o ts ky, nint (mkn o (n_out s) (n_wait s) (n_waitf s) ts ky) = true) by (intros; exact H).
  unfold nstep. destruct (m_type m); try (apply flush_nint; assumption).
  - destruct (okey_eqb (m_key m) (n_key s)); [exact H | apply flush_nint; auto].
  - destruct (_ && _); [exact H | apply flush_nint; auto].
  - destruct (depth _ _) as [| d]; [exact H |]. destruct d; [apply flush_nint; auto | apply Hopen].
  - destruct (depth _ _) as [| d]; [apply flush_nint; auto | apply Hopen].
  - unfold nint in *. cbn [n_out n_waitf]. rewrite Hf. btrue. destruct (n_waitf s); [discriminate |]. auto.
Qed.
Lemma remove_last_on_ints k l : ints l = true -> ints (fst (remove_last_on k l)) = true.
Proof.
  induction l as [| m l IH]; intro H; [reflexivity |]. rewrite ints_cons in H. btrue.
  cbn [remove_last_on]. destruct (remove_last_on k l) as [r found]. cbn [fst] in IH.
  destruct found; [cbn [fst]; rewrite ints_cons; btrue; auto |].
  destruct (is_on m && k2_eqb k (m_chan m, m_note m)); cbn [fst]; rewrite ?ints_cons; btrue; auto.
Qed.
Lemma cleanup_ints o out : ints out = true -> ints (cleanup o out) = true.
Proof.
  unfold cleanup. intro H.
  apply (fold_left_inv (fun acc => ints acc = true) (fun _ : k2 * nat => True)); auto.
  - intros a b Ha _. destruct (snd b); [exact Ha | apply remove_last_on_ints; exact Ha].
  - apply Forall_forall. auto.
Qed.
Lemma normalise_ints l : ints l = true -> ints (normalise l) = true.
Proof.
  intro H. unfold normalise.
  assert (Hs : nint (fold_left nstep l (mkn [] [] 0 false (NONE, NONE) None)) = true).
  { apply (fold_left_inv (fun s => nint s = true) (fun m => intm m = true)).
    - intros; apply nstep_nint; assumption.
    - apply ints_Forall; exact H.
    - reflexivity. }
  set (s := fold_left nstep l _) in *. unfold nint in Hs. btrue. apply cleanup_ints.
  destruct (0 <? n_wait s); [| assumption]. rewrite ints_app, ints_cons. btrue; auto.
  destruct (n_waitf s); [discriminate | reflexivity].
Qed.

(* pad *)
Lemma pad_len_ints l : forall cur p c f, ints l = true -> pad_len l cur false p = (c, f) -> f = false.
Proof.
  induction l as [| m l IH]; intros cur p c f Hl E; cbn [pad_len] in E; [inversion E; reflexivity |].
  rewrite ints_cons in Hl. btrue. assert (Hm : m_tf m = false) by (apply intm_tf; assumption).
  rewrite Hm in E. cbn [orb] in E. destruct (is_wait m); [| eauto].
  destruct (p <=? cur + m_time m); [inversion E; reflexivity | eauto].
Qed.
Lemma pad_ints l p : ints l = true -> ints (pad l p false) = true.
Proof.
  intro H. unfold pad. destruct (pad_len l 0 false p) as [c f] eqn:E.
  rewrite (pad_len_ints _ _ _ _ _ H E). destruct (c <? p); [| exact H].
  rewrite ints_app, H. reflexivity.
Qed.
Lemma set_channel_ints l c : ints l = true -> ints (set_channel l c) = true.
Proof. apply ints_map. intros m Hm. exact Hm. Qed.
Lemma scale_ints l k : ints l = true -> ints (scale l k) = true.
Proof.
  intro H. unfold scale. destruct (k =? 1); [exact H |]. revert H. apply ints_map.
  intros m Hm. destruct (is_wait m); exact Hm.
Qed.
Lemma transpose_ints l k : ints l = true -> ints (fst (transpose l k)) = true.
Proof.
  intro H. unfold transpose. cbn [fst]. rewrite map_map. revert H. apply ints_map.
  intros m Hm. unfold transpose_msg. destruct (is_note m); [exact Hm |].
  destruct (mtype_eqb _ _); exact Hm.
Qed.
Lemma merge_abs_ints a os : ints a = true -> intss os = true -> ints (merge_abs a os) = true.
Proof. intros Ha Ho. unfold merge_abs. apply sort_abs_ints. rewrite ints_app. btrue; auto using ints_concat. Qed.

(* split *)
Definition sres_ints (r : split_res) : bool :=
  match r with SEnd cur _ => ints cur | SCut cur _ wm => ints cur && ints wm end.
Lemma split_inner_ints wm : forall cur opn q rem, ints wm = true -> ints cur = true -> ints q = true ->
  sres_ints (split_inner wm cur opn q rem) = true.
Proof.
  induction wm as [| m wm IH]; intros cur opn q rem Hw Hc Hq; cbn [split_inner]; [exact Hc |].
  rewrite ints_cons in Hw. btrue.
  assert (Hcm : ints (cur ++ [m]) = true) by (rewrite ints_app, ints_cons; btrue; auto).
  assert (Hqm : ints (q ++ [m]) = true) by (rewrite ints_app, ints_cons; btrue; auto).
  destruct (m_type m); try (destruct (0 <? rem); apply IH; assumption); try (apply IH; assumption).
  destruct (m_time m <=? rem); [apply IH; assumption |].
  cbn [sres_ints]. btrue.
  - rewrite ints_app. btrue; [destruct (0 <? rem); [rewrite ints_app; btrue; auto | exact Hc] |].
    apply ints_map_any. reflexivity.
  - rewrite !ints_app. btrue; auto. + apply ints_map_any. reflexivity.
    + cbn [ints forallb mk_wait m_tf]. fold (intm m). rewrite H. reflexivity.
Qed.
Lemma split_outer_ints caps : forall wm cur opn acc acc' wm' cur',
  ints wm = true -> ints cur = true -> intss acc = true ->
  split_outer caps wm cur opn acc = (acc', wm', cur') ->
  intss acc' = true /\ ints wm' = true /\ ints cur' = true.
Proof.
  induction caps as [| c caps IH]; intros wm cur opn acc acc' wm' cur' Hw Hc Ha E; cbn [split_outer] in E.
  - inversion E; subst. auto.
  - pose proof (split_inner_ints wm cur opn [] c Hw Hc eq_refl) as Hi.
    destruct (split_inner wm cur opn [] c) as [cur1 opn1 | cur1 opn1 wm1]; cbn [sres_ints] in Hi; btrue.
    + eapply IH; [| | | exact E]; try reflexivity.
      destruct cur1; [exact Ha |]. rewrite intss_app. btrue; auto. cbn [intss forallb]. rewrite Hi. reflexivity.
    + eapply IH; [| | | exact E]; try reflexivity; auto.
      destruct cur1; [exact Ha |]. rewrite intss_app. btrue; auto. cbn [intss forallb]. rewrite H. reflexivity.
Qed.
Lemma seq_split_ints l caps : ints l = true -> intss (seq_split l caps) = true.
Proof.
  intro H. unfold seq_split. destruct (split_outer caps l [] [] []) as [[acc wm] cur] eqn:E.
  destruct (split_outer_ints _ _ _ _ _ _ _ _ H eq_refl eq_refl E) as [Ha [Hw Hc]].
  assert (Hcw : ints (cur ++ wm) = true) by (rewrite ints_app; btrue; auto).
  destruct (cur ++ wm); [exact Ha |]. rewrite intss_app. btrue; auto. cbn [intss forallb]. rewrite Hcw. reflexivity.
Qed.
