(* C17_roll -- from "the sequences differ musically" to "the interleaved lists differ".
   Part 1: the pairing loop (pairings_sorted with the types equals() uses) on a list whose keys are well-formed
           (wf_key of C05_wf: per (channel, pitch) on/off alternate, off strictly after on) is described by an
           independent right-recursive reference `ref`: every NOTE_ON with the first NOTE_OFF of its key after it,
           every signature message alone, in list order, per channel.
   Part 2: interleave is a merge: restricted to one channel it is that channel's list.
   Part 3: the view of equals(), the canonical event list, equality iff canonical lists coincide (single channel),
           sensitivity per channel (any number of channels). *)
From Coq Require Import ZArith List Bool Lia Permutation.
From Model Require Import Base Seq Pairing.
From Proofs Require Import C05_closest C05_proofs C05_wf C05_sort C05_final C06_proofs C06_main C17_proofs.
Import ListNotations.
Open Scope Z_scope.

(* ================================================================ Part 1: the reference pairing *)
Definition offb (ch n : Z) (m : msg) : bool := is_off m && (m_chan m =? ch) && (m_note m =? n).

Fixpoint first_off (ch n : Z) (l : list msg) : option msg :=
  match l with [] => None | m :: l' => if offb ch n m then Some m else first_off ch n l' end.

(* a compared message that is not a note: a time / key signature whose type is in the compared types *)
Definition sigb (ty : list mtype) (m : msg) : bool := tmem (m_type m) ty && negb (is_note m).

Fixpoint ref (ty : list mtype) (ch : Z) (l : list msg) : list spair :=
  match l with
  | [] => []
  | m :: l' =>
      if (m_chan m =? ch) && is_on m then (m, first_off ch (m_note m) l') :: ref ty ch l'
      else if (m_chan m =? ch) && sigb ty m then (m, None) :: ref ty ch l'
      else ref ty ch l'
  end.

Definition closeby (ch : Z) (x : msg) (sp : spair) : spair :=
  match snd sp with
  | None => if is_on (fst sp) && offb ch (m_note (fst sp)) x then (fst sp, Some x) else sp
  | Some _ => sp
  end.

Definition newpair (ty : list mtype) (ch : Z) (x : msg) : list spair :=
  if (m_chan x =? ch) && (is_on x || sigb ty x) then [(x, None)] else [].

Lemma first_off_snoc ch n l x :
  first_off ch n (l ++ [x]) =
  match first_off ch n l with Some o => Some o | None => if offb ch n x then Some x else None end.
Proof.
  induction l as [|m l IH]; cbn [app first_off]; [reflexivity|].
  destruct (offb ch n m); [reflexivity|exact IH].
Qed.

Lemma is_on_not_off m : is_on m = true -> is_off m = false.
Proof. unfold is_on, is_off, mtype_eqb. now destruct (m_type m). Qed.

Lemma sigb_not_on ty m : sigb ty m = true -> is_on m = false.
Proof.
  unfold sigb, is_note. intros H. apply andb_true_iff in H. destruct H as [_ H].
  apply negb_true_iff in H. apply orb_false_iff in H. tauto.
Qed.

Lemma ref_snoc ty ch l x :
  ref ty ch (l ++ [x]) = map (closeby ch x) (ref ty ch l) ++ newpair ty ch x.
Proof.
  induction l as [|m l IH]; cbn [app ref map].
  - unfold newpair. destruct (m_chan x =? ch); cbn [andb]; [|reflexivity].
    destruct (is_on x) eqn:O; cbn [orb]; [reflexivity|]. destruct (sigb ty x); reflexivity.
  - destruct ((m_chan m =? ch) && is_on m) eqn:E1.
    + cbn [map]. rewrite IH, first_off_snoc. f_equal.
      apply andb_true_iff in E1. destruct E1 as [_ O].
      unfold closeby. cbn [fst snd]. rewrite O. cbn [andb].
      destruct (first_off ch (m_note m) l); [reflexivity|]. destruct (offb ch (m_note m) x); reflexivity.
    + destruct ((m_chan m =? ch) && sigb ty m) eqn:E2; [|exact IH].
      cbn [map]. rewrite IH. f_equal. apply andb_true_iff in E2. destruct E2 as [_ S].
      unfold closeby. cbn [fst snd]. now rewrite (sigb_not_on ty m S).
Qed.

Lemma closeby_id_notoff ch x sp : offb ch (m_note (fst sp)) x = false -> closeby ch x sp = sp.
Proof. intros H. unfold closeby. rewrite H, andb_false_r. now destruct (snd sp). Qed.

Lemma offb_other_chan ch n x : (m_chan x =? ch) = false -> offb ch n x = false.
Proof. intros H. unfold offb. now rewrite H, andb_false_r. Qed.

Lemma offb_not_off ch n x : is_off x = false -> offb ch n x = false.
Proof. intros H. unfold offb. now rewrite H. Qed.

(* an open note-on of the reference: where it sits *)
Lemma ref_open_in ty ch on : forall l, In (on, None) (ref ty ch l) -> is_on on = true ->
  exists A B, l = A ++ on :: B /\ first_off ch (m_note on) B = None /\ m_chan on = ch.
Proof.
  induction l as [|m l IH]; cbn [ref]; [intros []|]. intros Hin Hon.
  assert (Hrest : In (on, None) (ref ty ch l) ->
                  exists A B, m :: l = A ++ on :: B /\ first_off ch (m_note on) B = None /\ m_chan on = ch).
  { intros H. destruct (IH H Hon) as (A & B & -> & H1 & H2). exists (m :: A), B. auto. }
  destruct ((m_chan m =? ch) && is_on m) eqn:E1.
  - destruct Hin as [Hin|Hin]; [|now apply Hrest]. injection Hin as -> Hf.
    apply andb_true_iff in E1. destruct E1 as [C _]. apply Z.eqb_eq in C.
    exists [], l. auto.
  - destruct ((m_chan m =? ch) && sigb ty m) eqn:E2; [|now apply Hrest].
    destruct Hin as [Hin|Hin]; [|now apply Hrest]. injection Hin as ->.
    apply andb_true_iff in E2. destruct E2 as [_ S]. rewrite (sigb_not_on ty on S) in Hon. discriminate.
Qed.

Lemma kproj_first_off_on ch n : forall B, first_off ch n B = None ->
  forall x, In x (kproj (ch, n) B) -> is_on x = true.
Proof.
  induction B as [|m B IH]; cbn [first_off]; [intros _ x []|].
  destruct (offb ch n m) eqn:O; [discriminate|]. intros H x. rewrite kproj_cons_eq.
  destruct (is_note m && k2_eqb (ch, n) (qkey m)) eqn:K; [|now apply IH].
  intros [<-|Hx]; [|now apply IH].
  apply andb_true_iff in K. destruct K as [N K]. unfold k2_eqb, qkey in K. cbn [fst snd] in K.
  apply andb_true_iff in K. destruct K as [K1 K2].
  unfold offb in O. rewrite (Z.eqb_sym (m_chan m)), K1, (Z.eqb_sym (m_note m)), K2, !andb_true_r in O.
  unfold is_note in N. rewrite O, orb_false_r in N. exact N.
Qed.

(* an open note-on of the reference means the key's automaton is in the open state *)
Lemma open_on_state ch on A B st : is_on on = true -> m_chan on = ch -> first_off ch (m_note on) B = None ->
  krun true KNone (kproj (ch, m_note on) (A ++ on :: B)) = Some st -> exists a, st = KOpen a.
Proof.
  intros Hon Hc Hf Hr.
  assert (Hk : is_note on && k2_eqb (ch, m_note on) (qkey on) = true).
  { unfold is_note. rewrite Hon. cbn [orb andb]. unfold qkey. rewrite Hc. apply k2_eqb_refl. }
  rewrite kproj_app, kproj_cons_eq, Hk, krun_app in Hr.
  destruct (krun true KNone (kproj (ch, m_note on) A)) as [s1|]; [|discriminate].
  cbn [krun] in Hr. destruct (kstep true s1 on) as [s2|] eqn:KS; [|discriminate].
  destruct (kstep_on _ _ _ _ Hon KS) as [-> _].
  pose proof (kproj_first_off_on ch (m_note on) B Hf) as Hall.
  destruct (kproj (ch, m_note on) B) as [|x L]; [cbn in Hr; injection Hr as <-; eauto|].
  cbn [krun] in Hr. unfold kstep in Hr. rewrite (Hall x (or_introl eq_refl)) in Hr. discriminate.
Qed.

(* ---------------------------------------------------------------- list helpers *)
Lemma nth_error_set_nth {A} (f : A -> A) : forall (l : list A) i j,
  nth_error (set_nth i f l) j = if Nat.eqb j i then option_map f (nth_error l j) else nth_error l j.
Proof.
  induction l as [|x l IH]; intros i j.
  - assert (E : nth_error (@nil A) j = None) by now destruct j.
    destruct i; cbn [set_nth]; rewrite E; now destruct (Nat.eqb j _).
  - destruct i, j; cbn [set_nth nth_error Nat.eqb option_map]; try reflexivity. apply IH.
Qed.

Lemma nth_error_snoc {A} (l : list A) x j y : nth_error (l ++ [x]) j = Some y ->
  (nth_error l j = Some y /\ (j < length l)%nat) \/ (j = length l /\ y = x).
Proof.
  intros H. destruct (Nat.lt_ge_cases j (length l)) as [L|L].
  - left. rewrite nth_error_app1 in H by exact L. auto.
  - right. rewrite nth_error_app2 in H by exact L.
    destruct (j - length l)%nat as [|d] eqn:D; cbn in H; [|now destruct d].
    injection H as <-. split; [lia|reflexivity].
Qed.

(* ---------------------------------------------------------------- the loop invariant, one channel *)
Section Loop.
Variable ty : list mtype.
Hypothesis ty_on : tmem NOTE_ON ty = true.
Hypothesis ty_off : tmem NOTE_OFF ty = true.

Definition open_at (n : Z) (p : pairing) : Prop :=
  is_on (p_first p) = true /\ m_note (p_first p) = n /\ snd p = None.

Record CInv (ch : Z) (pre : list msg) (cs : chst) : Prop := mkCInv {
  ci_ref : map strip (c_pairs cs) = ref ty ch pre;
  ci_uniq : uniq (c_open cs);
  ci_open : forall n idx, dget Z.eqb n (c_open cs) = Some idx ->
              exists p, nth_error (c_pairs cs) idx = Some p /\ open_at n p;
  ci_track : forall j p, nth_error (c_pairs cs) j = Some p -> is_on (p_first p) = true -> snd p = None ->
              dget Z.eqb (m_note (p_first p)) (c_open cs) = Some j }.

Lemma tmem_on m : is_on m = true -> tmem (m_type m) ty = true.
Proof. intros H. apply is_on_type in H. now rewrite H. Qed.
Lemma tmem_off m : is_off m = true -> tmem (m_type m) ty = true.
Proof. intros H. apply is_off_type in H. now rewrite H. Qed.

Lemma strip_new (i : nat) (m : msg) : strip ((i, m), None) = (m, None).
Proof. reflexivity. Qed.

Lemma strip_snd_none p : snd p = None -> snd (strip p) = None.
Proof. unfold strip, p_second. now intros ->. Qed.

(* closing exactly the tracked open pairing is what closeby does on the whole list *)
Lemma close_tracked ch (x : msg) (i : nat) : is_off x = true -> m_chan x = ch ->
  forall (l : list pairing) idx p0,
  nth_error l idx = Some p0 -> open_at (m_note x) p0 ->
  (forall j p, nth_error l j = Some p -> open_at (m_note x) p -> j = idx) ->
  map strip (set_nth idx (close_with (Some i, x)) l) = map (closeby ch x) (map strip l).
Proof.
  intros Hoff Hc. induction l as [|q l IH]; intros idx p0 Hn Hp0 Huniq; [now destruct idx|].
  assert (Hcl : forall p, ~ open_at (m_note x) p -> closeby ch x (strip p) = strip p).
  { intros p Hno. unfold closeby, strip. cbn [fst snd]. unfold p_second.
    destruct (snd p) as [c|] eqn:S; cbn [option_map]; [reflexivity|].
    destruct (is_on (p_first p)) eqn:O; cbn [andb]; [|reflexivity].
    unfold offb. rewrite Hoff, Hc, Z.eqb_refl. cbn [andb].
    destruct (Z.eqb_spec (m_note x) (m_note (p_first p))) as [E|E]; [|reflexivity].
    exfalso. apply Hno. repeat split; auto. }
  destruct idx as [|idx]; cbn [set_nth map].
  - cbn in Hn. injection Hn as ->. f_equal.
    + destruct Hp0 as (O & N & S). unfold closeby, strip, close_with, p_second. cbn [fst snd option_map].
      rewrite S. cbn [option_map]. rewrite O. unfold offb. rewrite Hoff, Hc, N, !Z.eqb_refl. reflexivity.
    + rewrite map_map. apply map_ext_in. intros p Hp. symmetry. apply Hcl. intros Ho.
      destruct (In_nth_error _ _ Hp) as (j & Hj). specialize (Huniq (S j) p Hj Ho). discriminate.
  - cbn [nth_error] in Hn. f_equal.
    + symmetry. apply Hcl. intros Ho. specialize (Huniq O q eq_refl Ho). discriminate.
    + apply (IH idx p0 Hn Hp0). intros j p Hj Ho. specialize (Huniq (S j) p Hj Ho). now injection Huniq.
Qed.

Lemma cinv_init ch : CInv ch [] (mkch [] []).
Proof.
  split; cbn; [reflexivity|constructor|discriminate|]. intros j p H. now destruct j.
Qed.

(* a message that does not concern channel ch, or whose type is not compared *)
Lemma cinv_skip ch pre cs x : CInv ch pre cs ->
  (m_chan x =? ch) = false \/ tmem (m_type x) ty = false -> CInv ch (pre ++ [x]) cs.
Proof.
  intros [H1 H2 H3 H4] Hx. split; auto. rewrite ref_snoc, H1.
  assert (Hn : newpair ty ch x = []).
  { unfold newpair. destruct Hx as [Hx|Hx]; [now rewrite Hx|].
    destruct (is_on x) eqn:O; [rewrite (tmem_on x O) in Hx; discriminate|].
    unfold sigb. rewrite Hx. cbn. now rewrite andb_false_r. }
  rewrite Hn, app_nil_r. symmetry. rewrite <- (map_id (ref ty ch pre)) at 2. apply map_ext. intros sp.
  apply closeby_id_notoff. destruct Hx as [Hx|Hx]; [now apply offb_other_chan|].
  apply offb_not_off. destruct (is_off x) eqn:O; [|reflexivity]. rewrite (tmem_off x O) in Hx. discriminate.
Qed.

Lemma cinv_append ch pre cs x (i : nat) : CInv ch pre cs -> m_chan x = ch ->
  is_off x = false -> (is_on x = true \/ sigb ty x = true) ->
  (is_on x = true -> dget Z.eqb (m_note x) (c_open cs) = None) ->
  CInv ch (pre ++ [x])
       (mkch (c_pairs cs ++ [((i, x), None)])
             (if is_on x then dset Z.eqb (m_note x) (length (c_pairs cs)) (c_open cs) else c_open cs)).
Proof.
  intros [H1 H2 H3 H4] Hc Hoff Hrel Hnone. split; cbn [c_pairs c_open].
  - rewrite ref_snoc, map_app, H1. cbn [map]. rewrite strip_new. f_equal.
    + rewrite <- (map_id (ref ty ch pre)) at 1. apply map_ext. intros sp. symmetry.
      apply closeby_id_notoff. now apply offb_not_off.
    + unfold newpair. rewrite Hc, Z.eqb_refl. cbn [andb].
      destruct Hrel as [-> | ->]; [reflexivity|now rewrite orb_true_r].
  - destruct (is_on x); [apply uniq_dset; [apply Z.eqb_eq|exact H2]|exact H2].
  - intros n idx G.
    assert (Hold : dget Z.eqb n (c_open cs) = Some idx ->
                   exists p, nth_error (c_pairs cs ++ [((i, x), None)]) idx = Some p /\ open_at n p).
    { intros G'. destruct (H3 n idx G') as (p & Hp & Ho). exists p. split; [|exact Ho].
      rewrite nth_error_app1; [exact Hp|]. apply nth_error_Some. congruence. }
    destruct (is_on x) eqn:O; [|now apply Hold].
    rewrite dgetZ_dset in G. destruct (Z.eqb_spec n (m_note x)) as [->|Hne]; [|now apply Hold].
    injection G as <-. exists ((i, x), None). split.
    + rewrite nth_error_app2 by lia. now rewrite Nat.sub_diag.
    + repeat split. exact O.
  - intros j p Hj Ho Hs. apply nth_error_snoc in Hj. destruct Hj as [[Hj _]|[-> ->]].
    + pose proof (H4 j p Hj Ho Hs) as G. destruct (is_on x) eqn:O; [|exact G].
      rewrite dgetZ_dset. destruct (Z.eqb_spec (m_note (p_first p)) (m_note x)) as [E|E]; [|exact G].
      rewrite E, (Hnone eq_refl) in G. discriminate.
    + change (p_first ((i, x), None)) with x in *. rewrite Ho. now rewrite dgetZ_dset, Z.eqb_refl.
Qed.

Lemma cinv_close ch pre cs x (i : nat) idx : CInv ch pre cs -> m_chan x = ch -> is_off x = true ->
  dget Z.eqb (m_note x) (c_open cs) = Some idx ->
  CInv ch (pre ++ [x]) (mkch (set_nth idx (close_with (Some i, x)) (c_pairs cs)) (ddel Z.eqb (m_note x) (c_open cs))).
Proof.
  intros [H1 H2 H3 H4] Hc Hoff G. destruct (H3 _ _ G) as (p0 & Hp0 & Ho0).
  assert (Hon : is_on x = false) by (destruct (is_on x) eqn:O; [now rewrite (is_on_not_off x O) in Hoff|reflexivity]).
  assert (Huniq : forall j p, nth_error (c_pairs cs) j = Some p -> open_at (m_note x) p -> j = idx).
  { intros j p Hj (O & N & S). pose proof (H4 j p Hj O S) as G'. rewrite N, G in G'. now injection G'. }
  split; cbn [c_pairs c_open].
  - rewrite ref_snoc, (close_tracked ch x i Hoff Hc _ idx p0 Hp0 Ho0 Huniq), H1.
    unfold newpair. rewrite Hon. cbn [orb].
    assert (S : sigb ty x = false) by (unfold sigb, is_note; now rewrite Hoff, orb_true_r, andb_false_r).
    now rewrite S, andb_false_r, app_nil_r.
  - now apply uniq_ddel.
  - intros n idx' G'. rewrite dgetZ_ddel in G' by exact H2.
    destruct (Z.eqb_spec n (m_note x)) as [->|Hne]; [discriminate|].
    destruct (H3 n idx' G') as (p & Hp & Ho). exists p. split; [|exact Ho].
    rewrite nth_error_set_nth. destruct (Nat.eqb_spec idx' idx) as [->|]; [|exact Hp].
    exfalso. rewrite Hp0 in Hp. injection Hp as <-. destruct Ho as (_ & N & _), Ho0 as (_ & N0 & _). congruence.
  - intros j p Hj Ho Hs. rewrite nth_error_set_nth in Hj. destruct (Nat.eqb_spec j idx) as [->|Hne].
    + rewrite Hp0 in Hj. cbn in Hj. injection Hj as <-. discriminate.
    + pose proof (H4 j p Hj Ho Hs) as G'. rewrite dgetZ_ddel by exact H2.
      destruct (Z.eqb_spec (m_note (p_first p)) (m_note x)) as [E|E]; [|exact G'].
      rewrite E, G in G'. congruence.
Qed.

Lemma cinv_orphan ch pre cs x : CInv ch pre cs -> m_chan x = ch -> is_off x = true ->
  dget Z.eqb (m_note x) (c_open cs) = None -> CInv ch (pre ++ [x]) cs.
Proof.
  intros [H1 H2 H3 H4] Hc Hoff G. split; auto. rewrite ref_snoc.
  assert (Hon : is_on x = false) by (destruct (is_on x) eqn:O; [now rewrite (is_on_not_off x O) in Hoff|reflexivity]).
  assert (S : sigb ty x = false) by (unfold sigb, is_note; now rewrite Hoff, orb_true_r, andb_false_r).
  unfold newpair. rewrite Hon, S, andb_false_r, app_nil_r, <- H1, map_map.
  apply map_ext_in. intros p Hp. unfold closeby, strip, p_second. cbn [fst snd].
  destruct (snd p) as [c|] eqn:Sp; cbn [option_map]; [reflexivity|].
  destruct (is_on (p_first p)) eqn:O; cbn [andb]; [|reflexivity].
  destruct (offb ch (m_note (p_first p)) x) eqn:Ob; [|reflexivity]. exfalso.
  destruct (In_nth_error _ _ Hp) as (j & Hj). pose proof (H4 j p Hj O Sp) as G'.
  unfold offb in Ob. apply andb_true_iff in Ob. destruct Ob as [_ Ob]. apply Z.eqb_eq in Ob. rewrite <- Ob, G in G'.
  discriminate.
Qed.

(* ---------------------------------------------------------------- the whole state *)
Definition GInv (pre : list msg) (st : list (Z * chst)) : Prop :=
  uniq st /\ (forall ch, CInv ch pre (chan_of ch st)) /\
  (forall ch, In ch (map fst st) -> exists m, In m pre /\ m_chan m = ch /\ tmem (m_type m) ty = true).

Lemma chan_of_dset ch ch' cs st : chan_of ch (dset Z.eqb ch' cs st) = if ch =? ch' then cs else chan_of ch st.
Proof. unfold chan_of. rewrite dgetZ_dset. now destruct (ch =? ch'). Qed.

Lemma ginv_update pre st x cs' : GInv pre st -> tmem (m_type x) ty = true ->
  CInv (m_chan x) (pre ++ [x]) cs' -> GInv (pre ++ [x]) (dset Z.eqb (m_chan x) cs' st).
Proof.
  intros (Hu & Hc & Hk) Ht Hcs. split; [apply uniq_dset; [apply Z.eqb_eq|exact Hu]|]. split.
  - intros ch. rewrite chan_of_dset. destruct (Z.eqb_spec ch (m_chan x)) as [->|Hne]; [exact Hcs|].
    apply cinv_skip; [apply Hc|]. left. now apply Z.eqb_neq, not_eq_sym.
  - intros ch Hin. apply (dset_keys Z.eqb) in Hin. destruct Hin as [->|Hin].
    + exists x. split; [apply in_or_app; right; now left|auto].
    + destruct (Hk ch Hin) as (m & H1 & H2). exists m. split; [apply in_or_app; now left|exact H2].
Qed.

Lemma pair_step_ginv pre st i x : no_fail (pre ++ [x]) -> GInv pre st ->
  GInv (pre ++ [x]) (pair_step ty true st (i, x)).
Proof.
  intros Hnf HG. pose proof HG as (Hu & Hc & Hk). unfold pair_step.
  destruct (tmem (m_type x) ty) eqn:T; cbn [negb].
  2:{ split; [exact Hu|]. split.
      - intros ch. apply cinv_skip; [apply Hc|now right].
      - intros ch Hin. destruct (Hk ch Hin) as (m & H1 & H2). exists m. split; [apply in_or_app; now left|exact H2]. }
  fold (chan_of (m_chan x) st). set (cs := chan_of (m_chan x) st).
  pose proof (Hc (m_chan x)) as Hcs. fold cs in Hcs.
  apply ginv_update; [exact HG|exact T|].
  destruct (is_on x) eqn:Hon.
  - (* NOTE_ON: the key is not open, otherwise the key's automaton would fail *)
    assert (Hnone : dget Z.eqb (m_note x) (c_open cs) = None).
    { destruct (dget Z.eqb (m_note x) (c_open cs)) as [idx|] eqn:G; [exfalso|reflexivity].
      destruct (ci_open _ _ _ Hcs _ _ G) as (p & Hp & (O & N & S)).
      assert (Hin : In (p_first p, None) (ref ty (m_chan x) pre)).
      { rewrite <- (ci_ref _ _ _ Hcs). apply nth_error_In in Hp. apply (in_map strip) in Hp.
        unfold strip at 1 in Hp. unfold p_second in Hp. now rewrite S in Hp. }
      destruct (ref_open_in ty _ _ _ Hin O) as (A & B & Epre & Hf & Hch).
      assert (Hnote : is_note x = true) by (unfold is_note; now rewrite Hon).
      pose proof (Hnf (qkey x)) as Hnf0. rewrite kproj_snoc_same, krun_app in Hnf0 by exact Hnote.
      destruct (krun true KNone (kproj (qkey x) pre)) as [stin|] eqn:Rin; [|congruence].
      unfold qkey in Rin. rewrite <- N, Epre in Rin.
      destruct (open_on_state _ _ A B stin O Hch Hf Rin) as (a & ->).
      apply Hnf0. cbn [krun]. unfold kstep. now rewrite Hon. }
    apply is_on_type in Hon as Tx. rewrite Tx, Hnone.
    pose proof (cinv_append (m_chan x) pre cs x i Hcs eq_refl (is_on_not_off x Hon) (or_introl Hon) (fun _ => Hnone)) as H.
    now rewrite Hon in H.
  - destruct (is_off x) eqn:Hoff.
    + apply is_off_type in Hoff as Tx. rewrite Tx.
      destruct (dget Z.eqb (m_note x) (c_open cs)) as [idx|] eqn:G.
      * now apply cinv_close.
      * now apply cinv_orphan.
    + assert (Hs : sigb ty x = true) by (unfold sigb, is_note; now rewrite T, Hon, Hoff).
      pose proof (cinv_append (m_chan x) pre cs x i Hcs eq_refl Hoff (or_intror Hs)) as H.
      rewrite Hon in H.
      assert (Tn : m_type x <> NOTE_ON) by (intros E; apply is_on_type in E; congruence).
      assert (Tf : m_type x <> NOTE_OFF) by (intros E; apply is_off_type in E; congruence).
      destruct (m_type x); try congruence; apply H; discriminate.
Qed.

Lemma pair_fold_ginv : forall L pre st, no_fail (pre ++ map snd L) -> GInv pre st ->
  GInv (pre ++ map snd L) (fold_left (pair_step ty true) L st).
Proof.
  induction L as [|[i m] L IH]; intros pre st Hnf HP; cbn [map fold_left snd] in *.
  - now rewrite app_nil_r.
  - replace (pre ++ m :: map snd L) with ((pre ++ [m]) ++ map snd L) in * by (rewrite <- app_assoc; reflexivity).
    apply IH; [exact Hnf|]. apply pair_step_ginv; [|exact HP]. now apply no_fail_app with (map snd L).
Qed.

(* on a list whose keys are all closed at the end, no note-on of the reference stays open *)
Lemma ref_closed ch s on : (forall k, wf_key k s = true) -> In (on, None) (ref ty ch s) -> is_on on = false.
Proof.
  intros Hwf Hin. destruct (is_on on) eqn:O; [exfalso|reflexivity].
  destruct (ref_open_in ty ch on s Hin O) as (A & B & -> & Hf & Hc).
  specialize (Hwf (ch, m_note on)). unfold wf_key in Hwf.
  destruct (krun true KNone (kproj (ch, m_note on) (A ++ on :: B))) as [st|] eqn:R; [|discriminate].
  destruct (open_on_state ch on A B st O Hc Hf R) as (a & ->). discriminate.
Qed.

Lemma ref_nonempty ch x : forall s, In x s -> m_chan x = ch -> is_on x = true \/ sigb ty x = true -> ref ty ch s <> [].
Proof.
  induction s as [|m s IH]; [intros []|]. intros [->|Hin] Hc Hx; cbn [ref].
  - rewrite Hc, Z.eqb_refl. cbn [andb]. destruct (is_on x); [discriminate|].
    destruct Hx as [Hx|Hx]; [discriminate|]. now rewrite Hx.
  - destruct (_ && is_on m); [discriminate|]. destruct (_ && sigb ty m); [discriminate|]. now apply IH.
Qed.

(* the result of pairings_sorted, per channel *)
Lemma pairings_ref std s : (forall k, wf_key k s = true) ->
  let ps := pairings_sorted ty std true s in
  uniq ps /\
  (forall ch, map strip (chan_pairs ch ps) = ref ty ch s) /\
  (forall ch, In ch (map fst ps) -> ref ty ch s <> []).
Proof.
  intros Hwf. unfold pairings_sorted.
  set (st := fold_left (pair_step ty true) (index_from 0 s) []).
  assert (HP : GInv s st).
  { pose proof (pair_fold_ginv (index_from 0 s) [] []) as H. rewrite index_from_snd in H. cbn [app] in H.
    apply H; [now apply wf_key_no_fail|]. split; [constructor|]. split; [intros ch; apply cinv_init|intros ch []]. }
  destruct HP as (Hu & Hc & Hk). cbv zeta.
  assert (Hkeys : map fst (map (fun kv : Z * chst => (fst kv, map (impute_close std true) (c_pairs (snd kv)))) st) = map fst st).
  { rewrite map_map. reflexivity. }
  split; [unfold uniq; rewrite Hkeys; exact Hu|]. split.
  - intros ch. unfold chan_pairs.
    rewrite (dget_map_vals (fun cs : chst => map (impute_close std true) (c_pairs cs)) ch st).
    assert (Hcp : match option_map (fun cs => map (impute_close std true) (c_pairs cs)) (dget Z.eqb ch st) with
                  | Some P => P | None => [] end = c_pairs (chan_of ch st)).
    { unfold chan_of. destruct (dget Z.eqb ch st) as [cs|] eqn:G; cbn [option_map c_pairs]; [|reflexivity].
      rewrite <- (map_id (c_pairs cs)) at 2. apply map_ext_in. intros p Hp.
      unfold impute_close. destruct (snd p) eqn:S; [reflexivity|].
      pose proof (ci_ref _ _ _ (Hc ch)) as Hr. unfold chan_of in Hr. rewrite G in Hr.
      assert (Hin : In (p_first p, None) (ref ty ch s)).
      { rewrite <- Hr. apply (in_map strip) in Hp. unfold strip at 1 in Hp. unfold p_second in Hp. now rewrite S in Hp. }
      now rewrite (ref_closed ch s _ Hwf Hin). }
    rewrite Hcp. apply (ci_ref _ _ _ (Hc ch)).
  - intros ch Hin. rewrite Hkeys in Hin. destruct (Hk ch Hin) as (m & Hm & Hch & Ht).
    destruct (is_on m) eqn:O; [apply (ref_nonempty ch m s Hm Hch); now left|].
    destruct (is_off m) eqn:F; [|apply (ref_nonempty ch m s Hm Hch); right; unfold sigb, is_note; now rewrite Ht, O, F].
    (* a note-off: its key starts with a note-on *)
    assert (Hn : is_note m = true) by (unfold is_note; now rewrite F, orb_true_r).
    assert (Hkp : In m (kproj (qkey m) s)).
    { unfold kproj. apply filter_In. split; [exact Hm|]. now rewrite Hn, k2_eqb_refl. }
    specialize (Hwf (qkey m)). unfold wf_key in Hwf.
    destruct (kproj (qkey m) s) as [|x L] eqn:E; [destruct Hkp|].
    assert (Hx : In x (kproj (qkey m) s)) by (rewrite E; now left).
    apply kproj_in in Hx. destruct Hx as (Hxs & _ & Kx).
    cbn [krun] in Hwf. unfold kstep in Hwf. destruct (is_on x) eqn:Ox; [|discriminate].
    apply (ref_nonempty ch x s Hxs); [|now left]. unfold qkey in Kx. congruence.
Qed.

End Loop.

(* ================================================================ Part 2: interleave is a merge *)
Definition total (l : list (Z * list pairing)) : nat := length (concat (map snd l)).

Lemma min_head_some : forall l i0 b, min_head l i0 (Some b) <> None.
Proof.
  induction l as [|[c [|p ps]] l IH]; intros i0 [bi bt]; cbn [min_head]; [discriminate|apply IH|].
  destruct (_ <? bt); apply IH.
Qed.

Lemma min_head_none : forall l i0, min_head l i0 None = None -> forall c P, In (c, P) l -> P = [].
Proof.
  induction l as [|[c0 [|p ps]] l IH]; intros i0 H c P Hin; cbn [min_head] in H.
  - destruct Hin.
  - destruct Hin as [[= <- <-]|Hin]; [reflexivity|eauto].
  - now apply min_head_some in H.
Qed.

Lemma min_head_spec : forall l i0 best i t, min_head l i0 best = Some (i, t) ->
  best = Some (i, t) \/ exists c p ps, (i0 <= i)%nat /\ nth_error l (i - i0) = Some (c, p :: ps).
Proof.
  induction l as [|[c0 [|p0 ps0]] l IH]; intros i0 best i t H; cbn [min_head] in H.
  - now left.
  - destruct (IH _ _ _ _ H) as [E|(c & p & ps & L & N)]; [now left|right].
    exists c, p, ps. split; [lia|]. replace (i - i0)%nat with (S (i - S i0)) by lia. exact N.
  - assert (Hnew : forall t0, min_head l (S i0) (Some (i0, t0)) = Some (i, t) ->
              exists c p ps, (i0 <= i)%nat /\ nth_error ((c0, p0 :: ps0) :: l) (i - i0) = Some (c, p :: ps)).
    { intros t0 H'. destruct (IH _ _ _ _ H') as [E|(c & p & ps & L & N)].
      - injection E as <- <-. exists c0, p0, ps0. split; [lia|]. now rewrite Nat.sub_diag.
      - exists c, p, ps. split; [lia|]. replace (i - i0)%nat with (S (i - S i0)) by lia. exact N. }
    destruct best as [[bi bt]|]; [|right; eapply Hnew; exact H].
    destruct (_ <? bt); [right; eapply Hnew; exact H|].
    destruct (IH _ _ _ _ H) as [E|(c & p & ps & L & N)]; [now left|right].
    exists c, p, ps. split; [lia|]. replace (i - i0)%nat with (S (i - S i0)) by lia. exact N.
Qed.

Lemma set_nth_keys {V} (l : list (Z * V)) : forall i c v v', nth_error l i = Some (c, v) ->
  map fst (set_nth i (fun _ => (c, v')) l) = map fst l.
Proof.
  induction l as [|[c0 v0] l IH]; intros [|i] c v v' H; cbn in H; try discriminate; cbn [set_nth map fst].
  - now injection H as -> _.
  - f_equal. eapply IH; eauto.
Qed.

Lemma dget_set_nth {V} (l : list (Z * V)) : forall i c v v', uniq l -> nth_error l i = Some (c, v) ->
  dget Z.eqb c l = Some v /\
  forall ch, dget Z.eqb ch (set_nth i (fun _ => (c, v')) l) = if ch =? c then Some v' else dget Z.eqb ch l.
Proof.
  unfold uniq. induction l as [|[c0 v0] l IH]; intros [|i] c v v' Hu H; cbn in H; try discriminate.
  - injection H as -> ->. cbn [dget set_nth]. rewrite Z.eqb_refl. split; [reflexivity|].
    intros ch. now destruct (ch =? c).
  - cbn [map fst] in Hu. inversion Hu as [|? ? Hn Hu']; subst.
    destruct (IH i c v v' Hu' H) as [G S].
    assert (Hne : c <> c0).
    { intros ->. apply Hn. apply nth_error_In in H. now apply (in_map fst) in H. }
    cbn [dget set_nth]. destruct (Z.eqb_spec c c0); [contradiction|]. split; [exact G|].
    intros ch. rewrite S. destruct (Z.eqb_spec ch c0) as [->|]; [|reflexivity].
    destruct (Z.eqb_spec c0 c); [congruence|reflexivity].
Qed.

Lemma total_set_nth (l : list (Z * list pairing)) : forall i c p ps, nth_error l i = Some (c, p :: ps) ->
  total l = S (total (set_nth i (fun _ => (c, ps)) l)).
Proof.
  unfold total. induction l as [|[c0 v0] l IH]; intros [|i] c p ps H; cbn in H; try discriminate;
    cbn [set_nth map snd concat]; rewrite !app_length.
  - injection H as -> ->. reflexivity.
  - rewrite (IH i c p ps H). lia.
Qed.

Lemma total_zero l : total l = O -> forall c P, In (c, P) l -> P = [].
Proof.
  unfold total. induction l as [|[c0 v0] l IH]; intros H c P Hin; [destruct Hin|].
  cbn [map snd concat] in H. rewrite app_length in H.
  destruct Hin as [[= <- <-]|Hin]; [destruct v0; [reflexivity|cbn in H; lia]|].
  apply (IH ltac:(lia) c P Hin).
Qed.

Lemma chan_pairs_empty ch l : (forall c P, In (c, P) l -> P = []) -> chan_pairs ch l = [].
Proof.
  intros H. unfold chan_pairs. destruct (dget Z.eqb ch l) as [P|] eqn:G; [|reflexivity].
  destruct (dget_in Z.eqb _ _ _ G) as (k' & Hin). eauto.
Qed.

Lemma interleave_fuel_step f l i t c p ps :
  min_head l O None = Some (i, t) -> nth_error l i = Some (c, p :: ps) ->
  interleave_fuel (S f) l = (c, p) :: interleave_fuel f (set_nth i (fun _ => (c, ps)) l).
Proof. intros H N. cbn [interleave_fuel]. now rewrite H, N. Qed.

Lemma interleave_chan ch : forall fuel l, uniq l -> (total l <= fuel)%nat ->
  filter (fun e : Z * pairing => fst e =? ch) (interleave_fuel fuel l) = map (pair ch) (chan_pairs ch l).
Proof.
  induction fuel as [|f IH]; intros l Hu Ht.
  - cbn [interleave_fuel filter]. rewrite chan_pairs_empty; [reflexivity|]. apply total_zero. lia.
  - destruct (min_head l O None) as [[i t]|] eqn:M.
    + destruct (min_head_spec _ _ _ _ _ M) as [E|(c & p & ps & _ & N)]; [discriminate|].
      rewrite Nat.sub_0_r in N. rewrite (interleave_fuel_step f l i t c p ps M N).
      destruct (dget_set_nth l i c (p :: ps) ps Hu N) as [G S].
      assert (Hu' : uniq (set_nth i (fun _ => (c, ps)) l)).
      { unfold uniq. now rewrite (set_nth_keys l i c (p :: ps) ps N). }
      pose proof (total_set_nth l i c p ps N) as Ht'.
      cbn [filter fst]. rewrite (IH _ Hu' ltac:(lia)). unfold chan_pairs. rewrite S.
      destruct (Z.eqb_spec c ch) as [->|Hne].
      * rewrite Z.eqb_refl, G. reflexivity.
      * destruct (Z.eqb_spec ch c); [congruence|reflexivity].
    + cbn [interleave_fuel]. rewrite M. cbn [filter]. rewrite chan_pairs_empty; [reflexivity|].
      now apply min_head_none with O.
Qed.

Lemma interleave_keys : forall fuel l e, In e (interleave_fuel fuel l) -> In (fst e) (map fst l).
Proof.
  induction fuel as [|f IH]; intros l e H; [destruct H|].
  cbn [interleave_fuel] in H. destruct (min_head l O None) as [[i t]|]; [|destruct H].
  destruct (nth_error l i) as [[c [|p ps]]|] eqn:N; try destruct H.
  - subst e. apply nth_error_In in N. now apply (in_map fst) in N.
  - apply IH in H. now rewrite (set_nth_keys l i c (p :: ps) ps N) in H.
Qed.

(* ================================================================ Part 3: the view of equals() *)
Lemma eq_types_on its iks : tmem NOTE_ON (eq_types its iks) = true.
Proof. now destruct its, iks. Qed.
Lemma eq_types_off its iks : tmem NOTE_OFF (eq_types its iks) = true.
Proof. now destruct its, iks. Qed.

(* every (channel, pitch) key of the stored list is well-formed (no hypothesis on the stored order) *)
Definition wf_keys (a : list msg) : bool := forallb (fun m => wf_key (qkey m) a) (filter is_note a).

Lemma wf_keys_sorted a : wf_keys a = true -> forall k, wf_key k (sort_abs a) = true.
Proof. intros H k. apply wf_key_sort_abs. now apply wf_key_all. Qed.

Lemma wf_keys_kproj a k : wf_keys a = true -> kproj k (sort_abs a) = kproj k a.
Proof.
  intros H. pose proof (wf_key_all a H k) as Hk. destruct (wf_key_krun k a Hk) as (st & Hr & _).
  now apply kproj_sort_abs with st.
Qed.

(* the hypothesis of the theorems below: the keys are well-formed in SORTED order (equals() sorts first), whatever
   the stored order; implied by wf_keys a *)
Definition wf_seq (a : list msg) : bool := wf_keys (sort_abs a).

Lemma wf_seq_keys a : wf_seq a = true -> forall k, wf_key k (sort_abs a) = true.
Proof. apply wf_key_all. Qed.

Lemma wf_keys_seq a : wf_keys a = true -> wf_seq a = true.
Proof. intros H. unfold wf_seq, wf_keys. apply forallb_forall. intros m _. now apply wf_keys_sorted. Qed.

(* what one comparison looks at, as a function of the stripped pairing *)
Definition sproj (ich ivel : bool) (ch : Z) (sp : spair) : proj_t :=
  let m := fst sp in
  let offt := match snd sp with Some o => m_time o | None => m_time m end in
  (if ich then 0 else ch, m_type m, m_time m,
   match m_type m with NOTE_ON => m_note m | _ => 0 end,
   match m_type m with NOTE_ON => offt - m_time m | _ => 0 end,
   match m_type m with NOTE_ON => if ivel then 0 else m_vel m | _ => 0 end,
   match m_type m with TIME_SIGNATURE => m_num m | _ => 0 end,
   match m_type m with TIME_SIGNATURE => m_den m | _ => 0 end,
   match m_type m with KEY_SIGNATURE => m_key m | _ => None end).

Lemma proj_sproj ich ivel ch p : proj ich ivel (ch, p) = sproj ich ivel ch (strip p).
Proof. reflexivity. Qed.

Definition chan_canon (ich ivel its iks : bool) (ch : Z) (a : list msg) : list proj_t :=
  map (sproj ich ivel ch) (ref (eq_types its iks) ch (sort_abs a)).

(* the view exists, and restricted to any channel it is the reference pairing of that channel *)
Lemma view_spec a its iks : wf_seq a = true ->
  exists ia, view a its iks = Ok ia /\
    (forall ch, map (fun e => strip (snd e)) (filter (fun e : Z * pairing => fst e =? ch) ia) =
                ref (eq_types its iks) ch (sort_abs a)) /\
    (forall e, In e ia -> ref (eq_types its iks) (fst e) (sort_abs a) <> []).
Proof.
  intros Hwf. pose proof (wf_seq_keys a Hwf) as Hs.
  destruct (pairings_ref (eq_types its iks) (eq_types_on its iks) (eq_types_off its iks) PPQN (sort_abs a) Hs)
    as (Hu & Hr & Hk). cbv zeta in Hu, Hr, Hk.
  set (ps := pairings_sorted (eq_types its iks) PPQN true (sort_abs a)) in *.
  exists (interleave ps). split; [|split].
  - unfold view, interleaved. fold ps. destruct ps as [|[c P] ps'] eqn:E; [reflexivity|].
    destruct (concat (map snd ((c, P) :: ps'))) eqn:Ec; [exfalso|reflexivity].
    assert (Hc : In c (map fst ((c, P) :: ps'))) by now left.
    apply Hk in Hc. apply Hc. rewrite <- Hr. unfold chan_pairs. cbn [dget]. rewrite Z.eqb_refl.
    cbn [map snd concat] in Ec. apply app_eq_nil in Ec. destruct Ec as [-> _]. reflexivity.
  - intros ch. change (interleave ps) with (interleave_fuel (total ps) ps).
    rewrite (interleave_chan ch _ ps Hu (le_n _)), map_map. cbn [snd].
    rewrite <- Hr. reflexivity.
  - intros e He. apply Hk. unfold interleave in He. now apply interleave_keys in He.
Qed.

(* ---------------------------------------------------------------- C17_view_notes *)
Definition on_key (n : Z) (sp : spair) : bool := is_on (fst sp) && (m_note (fst sp) =? n).

Lemma first_off_cons ch n m l : first_off ch n (m :: l) = if offb ch n m then Some m else first_off ch n l.
Proof. reflexivity. Qed.

Lemma keyb_split ch n m : is_note m && k2_eqb (ch, n) (qkey m) = (is_on m || is_off m) && (m_chan m =? ch) && (m_note m =? n).
Proof.
  unfold is_note, k2_eqb, qkey. cbn [fst snd]. rewrite (Z.eqb_sym ch), (Z.eqb_sym n). now rewrite andb_assoc.
Qed.

Lemma ref_cpairs ty ch n : forall s st st' o,
  krun true st (kproj (ch, n) s) = Some st' -> opn st = is_some o -> opn st' = false ->
  cpairs o (kproj (ch, n) s) =
  (match o with Some x => [(x, first_off ch n s)] | None => [] end) ++ filter (on_key n) (ref ty ch s).
Proof.
  induction s as [|m s IH]; intros st st' o Hr Ho Hc.
  - cbn in Hr. injection Hr as <-. rewrite Hc in Ho. destruct o; [discriminate|reflexivity].
  - rewrite kproj_cons_eq in *. rewrite first_off_cons. cbn [ref].
    destruct (is_note m && k2_eqb (ch, n) (qkey m)) eqn:K.
    + rewrite keyb_split in K. apply andb_true_iff in K. destruct K as [K Kn].
      apply andb_true_iff in K. destruct K as [Kt Kc]. apply Z.eqb_eq in Kn.
      cbn [krun] in Hr. destruct (kstep true st m) as [st1|] eqn:KS; [|discriminate].
      pose proof (kstep_opn _ _ _ _ KS) as Hopn.
      destruct (is_on m) eqn:O.
      * destruct (kstep_on _ _ _ _ O KS) as [-> Hno].
        assert (o = None) as -> by (destruct o; [destruct st; cbn in Ho; try discriminate; now destruct (Hno a)|reflexivity]).
        cbn [cpairs app]. rewrite (IH _ _ (Some m) Hr eq_refl Hc). rewrite Kc. cbn [andb filter app].
        assert (Hk : forall X, on_key n (m, X) = true) by (intros X; unfold on_key; cbn [fst]; now rewrite O, Kn, Z.eqb_refl).
        now rewrite Hk, Kn.
      * cbn [orb] in Kt. unfold offb. rewrite Kt, Kc, Kn, Z.eqb_refl. cbn [andb].
        destruct o as [x|]; [|exfalso; rewrite Ho in Hopn; cbn in Hopn;
          unfold kstep in KS; rewrite O in KS; destruct st; try discriminate].
        cbn [cpairs app]. f_equal.
        assert (Ho1 : opn st1 = is_some (@None msg)) by (rewrite Hopn, Ho; reflexivity).
        assert (S : sigb ty m = false) by (unfold sigb, is_note; now rewrite Kt, orb_true_r, andb_false_r).
        rewrite S, ?andb_false_r. now rewrite (IH _ _ None Hr Ho1 Hc).
    + assert (Ob : offb ch n m = false).
      { unfold offb. rewrite keyb_split in K. destruct (is_off m); [|reflexivity]. rewrite orb_true_r in K. exact K. }
      rewrite Ob, (IH _ _ o Hr Ho Hc). f_equal.
      destruct ((m_chan m =? ch) && is_on m) eqn:E1.
      * apply andb_true_iff in E1. destruct E1 as [E1 E2].
        rewrite keyb_split, E1, E2 in K. cbn [orb andb] in K.
        assert (Hk : forall X, on_key n (m, X) = false) by (intros X; unfold on_key; cbn [fst]; now rewrite E2, K).
        cbn [filter]. now rewrite Hk.
      * destruct ((m_chan m =? ch) && sigb ty m) eqn:E2; [|reflexivity].
        apply andb_true_iff in E2. destruct E2 as [_ E2].
        assert (Hk : forall X, on_key n (m, X) = false) by (intros X; unfold on_key; cbn [fst]; now rewrite (sigb_not_on ty m E2)).
        cbn [filter]. now rewrite Hk.
Qed.

(* one note of a key, as (channel, pitch, onset, duration, velocity) *)
Definition note_t : Set := (Z * Z * Z * Z * Z)%type.
Definition note_of (ch : Z) (sp : spair) : note_t :=
  (ch, m_note (fst sp), m_time (fst sp),
   match snd sp with Some o => m_time o | None => m_time (fst sp) end - m_time (fst sp), m_vel (fst sp)).

(* the independent per-key pairing: the note messages of ONE key, in list order, read as on, off, on, off, ... *)
Fixpoint roll_key (L : list msg) : list note_t :=
  match L with
  | on :: off :: L' => (m_chan on, m_note on, m_time on, m_time off - m_time on, m_vel on) :: roll_key L'
  | _ => []
  end.

Lemma roll_key_cpairs ch : forall L, Forall (fun m => m_chan m = ch) L ->
  map (note_of ch) (cpairs None L) = roll_key L.
Proof.
  induction L as [| x | on off L IH] using list_ind2; intros HF; try reflexivity.
  change (cpairs None (on :: off :: L)) with ((on, Some off) :: cpairs None L). cbn [map roll_key].
  inversion HF as [|? ? Hc HF1]; subst. inversion HF1 as [|? ? _ HF2]; subst.
  rewrite (IH HF2). reflexivity.
Qed.

Definition entry_note (e : Z * pairing) : note_t :=
  (fst e, m_note (p_first (snd e)), m_time (p_first (snd e)),
   p_off_time (snd e) - m_time (p_first (snd e)), m_vel (p_first (snd e))).

Lemma filter_map_comm {A B} (p : B -> bool) (f : A -> B) l : filter p (map f l) = map f (filter (fun x => p (f x)) l).
Proof. induction l as [|x l IH]; cbn [map filter]; [reflexivity|]. destruct (p (f x)); cbn [map]; now rewrite IH. Qed.

Lemma filter_andb {A} (p q : A -> bool) l : filter (fun x => p x && q x) l = filter q (filter p l).
Proof. rewrite filter_filter. reflexivity. Qed.

(* the NOTE_ON entries of the view, restricted to one channel and one pitch, in order, are exactly the notes of
   that key; the other entries of the channel are the compared signature messages of the channel, in sorted order *)
Lemma C17_view_notes a its iks : wf_seq a = true ->
  exists ia, view a its iks = Ok ia /\
  (forall ch n,
     map entry_note (filter (fun e => (fst e =? ch) && (is_on (p_first (snd e)) && (m_note (p_first (snd e)) =? n))) ia) =
     roll_key (kproj (ch, n) (sort_abs a))) /\
  (forall ch,
     map (fun e => p_first (snd e)) (filter (fun e => (fst e =? ch) && negb (is_on (p_first (snd e)))) ia) =
     filter (fun m => (m_chan m =? ch) && sigb (eq_types its iks) m) (sort_abs a)).
Proof.
  intros Hwf. destruct (view_spec a its iks Hwf) as (ia & Hv & Hr & _). exists ia. split; [exact Hv|]. split.
  - intros ch n. rewrite filter_andb.
    assert (E : map entry_note (filter (fun e => is_on (p_first (snd e)) && (m_note (p_first (snd e)) =? n))
                                  (filter (fun e : Z * pairing => fst e =? ch) ia)) =
                map (note_of ch) (filter (on_key n) (map (fun e => strip (snd e)) (filter (fun e : Z * pairing => fst e =? ch) ia)))).
    { rewrite filter_map_comm, map_map. unfold on_key, strip. cbn [fst].
      apply map_ext_in. intros e He. apply filter_In in He. destruct He as [He _]. apply filter_In in He.
      destruct He as [_ He]. apply Z.eqb_eq in He. unfold entry_note, note_of, p_off_time. cbn [fst snd]. now rewrite He. }
    rewrite E, Hr. clear E.
    pose proof (wf_seq_keys a Hwf (ch, n)) as Hk. destruct (wf_key_krun _ _ Hk) as (st & Hrun & Hcl).
    pose proof (ref_cpairs (eq_types its iks) ch n (sort_abs a) KNone st None Hrun eq_refl
                  ltac:(destruct st; cbn in *; tauto)) as Hc. cbn [app] in Hc.
    rewrite <- Hc. apply roll_key_cpairs.
    apply Forall_forall. intros m Hm. apply kproj_in in Hm. destruct Hm as (_ & _ & Hq). unfold qkey in Hq. congruence.
  - intros ch. rewrite filter_andb.
    assert (E : map (fun e => p_first (snd e)) (filter (fun e => negb (is_on (p_first (snd e))))
                                  (filter (fun e : Z * pairing => fst e =? ch) ia)) =
                map fst (filter (fun sp : spair => negb (is_on (fst sp)))
                           (map (fun e => strip (snd e)) (filter (fun e : Z * pairing => fst e =? ch) ia)))).
    { rewrite filter_map_comm, map_map. reflexivity. }
    rewrite E, Hr. clear E Hr Hv. induction (sort_abs a) as [|m s IH]; [reflexivity|]. cbn [ref filter].
    destruct (m_chan m =? ch); cbn [andb]; [|exact IH].
    destruct (is_on m) eqn:O.
    + cbn [filter fst]. rewrite O. cbn [negb]. unfold sigb, is_note. rewrite O. cbn. rewrite andb_false_r. exact IH.
    + destruct (sigb (eq_types its iks) m); [|exact IH]. cbn [filter fst]. rewrite O. cbn [negb map fst]. now rewrite IH.
Qed.

(* ---------------------------------------------------------------- sensitivity, any number of channels *)
Definition proj_chan (t : proj_t) : Z := match t with (c, _, _, _, _, _, _, _, _) => c end.

Lemma view_chan_proj a its iks ich ivel ia : wf_seq a = true -> view a its iks = Ok ia ->
  forall ch, map (proj ich ivel) (filter (fun e : Z * pairing => fst e =? ch) ia) = chan_canon ich ivel its iks ch a.
Proof.
  intros Hwf Hv ch. destruct (view_spec a its iks Hwf) as (ia' & Hv' & Hr & _).
  rewrite Hv in Hv'. injection Hv' as <-. unfold chan_canon. rewrite <- Hr, map_map.
  apply map_ext_in. intros [c p] He. apply filter_In in He. destruct He as [_ He]. cbn [fst] in He.
  apply Z.eqb_eq in He. subst c. apply proj_sproj.
Qed.

(* channels compared: if equals says True then every channel has the same canonical list on both sides;
   so a difference in one note or signature of any channel makes equals False *)
Lemma C17_equal_chan a b its iks ivel : wf_seq a = true -> wf_seq b = true ->
  equals a b false its iks ivel = Ok true ->
  forall ch, chan_canon false ivel its iks ch a = chan_canon false ivel its iks ch b.
Proof.
  intros Ha Hb He ch. apply C17_characterise in He. destruct He as (ia & ib & Va & Vb & E).
  rewrite <- (view_chan_proj a its iks false ivel ia Ha Va ch), <- (view_chan_proj b its iks false ivel ib Hb Vb ch).
  assert (F : forall l, map (proj false ivel) (filter (fun e : Z * pairing => fst e =? ch) l) =
                        filter (fun t => proj_chan t =? ch) (map (proj false ivel) l)).
  { intros l. rewrite filter_map_comm. reflexivity. }
  now rewrite !F, E.
Qed.

Lemma wf_view_ok a its iks : wf_seq a = true -> exists ia, view a its iks = Ok ia.
Proof. intros H. destruct (view_spec a its iks H) as (ia & Hv & _). eauto. Qed.

Lemma equals_wf_ok a b ich its iks ivel : wf_seq a = true -> wf_seq b = true ->
  exists r, equals a b ich its iks ivel = Ok r.
Proof.
  intros Ha Hb. destruct (wf_view_ok a its iks Ha) as (ia & Va). destruct (wf_view_ok b its iks Hb) as (ib & Vb).
  rewrite equals_unfold, Va, Vb. eauto.
Qed.

Lemma C17_sensitive_chan a b its iks ivel ch : wf_seq a = true -> wf_seq b = true ->
  chan_canon false ivel its iks ch a <> chan_canon false ivel its iks ch b ->
  equals a b false its iks ivel = Ok false.
Proof.
  intros Ha Hb Hd. destruct (equals_wf_ok a b false its iks ivel Ha Hb) as ([|] & E); [|exact E].
  exfalso. apply Hd. now apply C17_equal_chan.
Qed.

(* ---------------------------------------------------------------- the canonical event list *)
(* every NOTE_ON with the first NOTE_OFF of its (channel, pitch) after it, every compared signature message alone,
   in list order; no channel is singled out *)
Fixpoint events (ty : list mtype) (l : list msg) : list (Z * spair) :=
  match l with
  | [] => []
  | m :: l' =>
      if is_on m then (m_chan m, (m, first_off (m_chan m) (m_note m) l')) :: events ty l'
      else if sigb ty m then (m_chan m, (m, None)) :: events ty l'
      else events ty l'
  end.

Definition canon (ich ivel its iks : bool) (a : list msg) : list proj_t :=
  map (fun e => sproj ich ivel (fst e) (snd e)) (events (eq_types its iks) (sort_abs a)).

(* all compared messages (notes, and the signatures that are not ignored) are on channel c *)
Definition one_chan (ty : list mtype) (c : Z) (a : list msg) : bool :=
  forallb (fun m => negb (tmem (m_type m) ty) || (m_chan m =? c)) a.

Lemma sigb_tmem ty m : sigb ty m = true -> tmem (m_type m) ty = true.
Proof. unfold sigb. intros H. now apply andb_true_iff in H. Qed.

Lemma events_one_chan ty c : tmem NOTE_ON ty = true -> forall l, one_chan ty c l = true ->
  events ty l = map (pair c) (ref ty c l) /\ forall ch, ch <> c -> ref ty ch l = [].
Proof.
  intros Hon. induction l as [|m l IH]; intros H; [split; reflexivity|].
  unfold one_chan in H. cbn [forallb] in H. apply andb_true_iff in H. destruct H as [Hm Hl].
  destruct (IH Hl) as [IH1 IH2]. cbn [events ref]. split.
  - destruct (is_on m) eqn:O.
    + rewrite (tmem_on ty Hon m O) in Hm. cbn in Hm. rewrite Hm. cbn [andb map]. apply Z.eqb_eq in Hm.
      now rewrite IH1, Hm.
    + rewrite andb_false_r. destruct (sigb ty m) eqn:S; [|rewrite andb_false_r; exact IH1].
      rewrite (sigb_tmem ty m S) in Hm. cbn in Hm. rewrite Hm. cbn [andb map]. apply Z.eqb_eq in Hm.
      now rewrite IH1, Hm.
  - intros ch Hne. rewrite (IH2 ch Hne).
    assert (E : tmem (m_type m) ty = true -> (m_chan m =? ch) = false).
    { intros T. rewrite T in Hm. cbn in Hm. apply Z.eqb_eq in Hm. apply Z.eqb_neq. congruence. }
    destruct (is_on m) eqn:O; [now rewrite (E (tmem_on ty Hon m O))|]. rewrite andb_false_r.
    destruct (sigb ty m) eqn:S; [now rewrite (E (sigb_tmem ty m S))|]. now rewrite andb_false_r.
Qed.

Lemma one_chan_sort ty c a : one_chan ty c a = true -> one_chan ty c (sort_abs a) = true.
Proof.
  unfold one_chan. rewrite !forallb_forall. intros H m Hm. apply H. now apply sort_abs_in.
Qed.

(* single channel: the projected view IS the canonical list *)
Lemma view_canon a its iks ich ivel c : wf_seq a = true -> one_chan (eq_types its iks) c a = true ->
  exists ia, view a its iks = Ok ia /\ map (proj ich ivel) ia = canon ich ivel its iks a.
Proof.
  intros Hwf H1. destruct (view_spec a its iks Hwf) as (ia & Hv & Hr & Hk). exists ia. split; [exact Hv|].
  destruct (events_one_chan _ c (eq_types_on its iks) _ (one_chan_sort _ _ _ H1)) as [E1 E2].
  assert (Hall : filter (fun e : Z * pairing => fst e =? c) ia = ia).
  { apply filter_true_in. intros e He. apply Z.eqb_eq. destruct (Z.eq_dec (fst e) c) as [|Hne]; [assumption|].
    exfalso. apply (Hk e He). now apply E2. }
  unfold canon. rewrite E1, map_map. cbn [fst snd]. rewrite <- (Hr c), Hall, map_map.
  apply map_ext_in. intros [c' p] He. rewrite <- Hall in He. apply filter_In in He. destruct He as [_ He].
  cbn [fst] in He. apply Z.eqb_eq in He. subst c'. apply proj_sproj.
Qed.

(* C17_equal_iff_canon, single-channel sequences (each side may use its own channel) *)
Lemma C17_equal_iff_canon_partial a b ich its iks ivel ca cb :
  wf_seq a = true -> wf_seq b = true ->
  one_chan (eq_types its iks) ca a = true -> one_chan (eq_types its iks) cb b = true ->
  (equals a b ich its iks ivel = Ok true <-> canon ich ivel its iks a = canon ich ivel its iks b) /\
  (equals a b ich its iks ivel = Ok false <-> canon ich ivel its iks a <> canon ich ivel its iks b).
Proof.
  intros Ha Hb Ca Cb.
  destruct (view_canon a its iks ich ivel ca Ha Ca) as (ia & Va & Ea).
  destruct (view_canon b its iks ich ivel cb Hb Cb) as (ib & Vb & Eb).
  rewrite C17_characterise, C17_characterise_false, <- Ea, <- Eb. split; split.
  - intros (ia' & ib' & Va' & Vb' & E). congruence.
  - intros E. eauto.
  - intros (ia' & ib' & Va' & Vb' & E). congruence.
  - intros E. eauto.
Qed.

(* the notes and the signature events of the canonical list, separately *)
Definition proj_type (t : proj_t) : mtype := match t with (_, ty, _, _, _, _, _, _, _) => ty end.
Definition canon_notes (ich ivel its iks : bool) (a : list msg) : list proj_t :=
  filter (fun t => mtype_eqb (proj_type t) NOTE_ON) (canon ich ivel its iks a).
Definition canon_sigs (ich ivel its iks : bool) (a : list msg) : list proj_t :=
  filter (fun t => negb (mtype_eqb (proj_type t) NOTE_ON)) (canon ich ivel its iks a).

Lemma C17_equal_notes_sigs a b ich its iks ivel ca cb :
  wf_seq a = true -> wf_seq b = true ->
  one_chan (eq_types its iks) ca a = true -> one_chan (eq_types its iks) cb b = true ->
  equals a b ich its iks ivel = Ok true ->
  canon_notes ich ivel its iks a = canon_notes ich ivel its iks b /\
  canon_sigs ich ivel its iks a = canon_sigs ich ivel its iks b.
Proof.
  intros Ha Hb Ca Cb E. apply (C17_equal_iff_canon_partial a b ich its iks ivel ca cb Ha Hb Ca Cb) in E.
  unfold canon_notes, canon_sigs. now rewrite E.
Qed.

(* one differing entry (a note's pitch, onset, duration, velocity, channel; a signature's value or tick) *)
Lemma C17_canon_sensitive a b ich its iks ivel ca cb i x y :
  wf_seq a = true -> wf_seq b = true ->
  one_chan (eq_types its iks) ca a = true -> one_chan (eq_types its iks) cb b = true ->
  nth_error (canon ich ivel its iks a) i = Some x -> nth_error (canon ich ivel its iks b) i = Some y -> x <> y ->
  equals a b ich its iks ivel = Ok false.
Proof.
  intros Ha Hb Ca Cb Hx Hy Hd. apply (C17_equal_iff_canon_partial a b ich its iks ivel ca cb Ha Hb Ca Cb).
  intros E. rewrite E in Hx. congruence.
Qed.

(* ---------------------------------------------------------------- any number of channels, any flags: multisets *)
Lemma perm_by_chan {X} : forall (L1 L2 : list (Z * X)),
  (forall ch, filter (fun e => fst e =? ch) L1 = filter (fun e => fst e =? ch) L2) -> Permutation L1 L2.
Proof.
  induction L1 as [|[c x] L1 IH]; intros L2 H.
  - destruct L2 as [|[c y] L2]; [constructor|]. specialize (H c). cbn [filter fst] in H. now rewrite Z.eqb_refl in H.
  - assert (Hin : exists A B, L2 = A ++ (c, x) :: B /\ filter (fun e => fst e =? c) A = []).
    { specialize (H c). cbn [filter fst] in H. rewrite Z.eqb_refl in H. clear IH.
      induction L2 as [|[c' y] L2 IH2]; [discriminate|]. cbn [filter fst] in H.
      destruct (Z.eqb_spec c' c) as [->|Hne].
      - injection H as <- H. exists [], L2. split; reflexivity.
      - destruct (IH2 H) as (A & B & -> & HA). exists ((c', y) :: A), B. split; [reflexivity|].
        cbn [filter fst]. destruct (Z.eqb_spec c' c); [contradiction|exact HA]. }
    destruct Hin as (A & B & -> & HA). apply Permutation_cons_app. apply IH. intros ch.
    specialize (H ch). rewrite filter_app in H |- *. cbn [filter fst] in H.
    destruct (Z.eqb_spec c ch) as [->|Hne].
    + rewrite HA in H |- *. cbn [app] in H |- *. now injection H.
    + exact H.
Qed.

Lemma events_chan_filter ty ch : forall l,
  filter (fun e : Z * spair => fst e =? ch) (events ty l) = map (pair ch) (ref ty ch l).
Proof.
  induction l as [|m l IH]; [reflexivity|]. cbn [events ref].
  destruct (is_on m) eqn:O.
  - cbn [filter fst]. rewrite andb_true_r. destruct (Z.eqb_spec (m_chan m) ch) as [->|]; [|exact IH].
    cbn [map]. now rewrite IH.
  - rewrite andb_false_r. destruct (sigb ty m); [|rewrite andb_false_r; exact IH].
    cbn [filter fst]. rewrite andb_true_r. destruct (Z.eqb_spec (m_chan m) ch) as [->|]; [|exact IH].
    cbn [map]. now rewrite IH.
Qed.

(* the view is a re-ordering of the canonical event list (the order of simultaneous events of different channels
   is the only thing that may differ) *)
Lemma view_perm a its iks ich ivel ia : wf_seq a = true -> view a its iks = Ok ia ->
  Permutation (map (proj ich ivel) ia) (canon ich ivel its iks a).
Proof.
  intros Hwf Hv. destruct (view_spec a its iks Hwf) as (ia' & Hv' & Hr & _).
  rewrite Hv in Hv'. injection Hv' as <-.
  assert (P : Permutation (map (fun e : Z * pairing => (fst e, strip (snd e))) ia)
                          (events (eq_types its iks) (sort_abs a))).
  { apply perm_by_chan. intros ch. rewrite events_chan_filter, <- (Hr ch), filter_map_comm, map_map. cbn [fst].
    apply map_ext_in. intros e He. apply filter_In in He. destruct He as [_ He]. apply Z.eqb_eq in He.
    now rewrite He. }
  unfold canon. apply (Permutation_map (fun e => sproj ich ivel (fst e) (snd e))) in P.
  rewrite map_map in P. cbn [fst snd] in P.
  erewrite map_ext; [exact P|]. intros [c p]. apply proj_sproj.
Qed.

(* equality implies that the two sequences have the same multiset of compared events -- every flag combination,
   any number of channels *)
Lemma C17_equal_multiset a b ich its iks ivel : wf_seq a = true -> wf_seq b = true ->
  equals a b ich its iks ivel = Ok true -> Permutation (canon ich ivel its iks a) (canon ich ivel its iks b).
Proof.
  intros Ha Hb He. apply C17_characterise in He. destruct He as (ia & ib & Va & Vb & E).
  eapply Permutation_trans; [apply Permutation_sym, (view_perm a its iks ich ivel ia Ha Va)|].
  rewrite E. apply (view_perm b its iks ich ivel ib Hb Vb).
Qed.

Lemma C17_sensitive_multiset a b ich its iks ivel : wf_seq a = true -> wf_seq b = true ->
  ~ Permutation (canon ich ivel its iks a) (canon ich ivel its iks b) -> equals a b ich its iks ivel = Ok false.
Proof.
  intros Ha Hb Hd. destruct (equals_wf_ok a b ich its iks ivel Ha Hb) as ([|] & E); [|exact E].
  exfalso. apply Hd. now apply C17_equal_multiset.
Qed.

(* in particular: an event (note or signature, as compared under the flags) of one side that the other side does
   not have at all *)
Lemma C17_sensitive_event a b ich its iks ivel x : wf_seq a = true -> wf_seq b = true ->
  In x (canon ich ivel its iks a) -> ~ In x (canon ich ivel its iks b) -> equals a b ich its iks ivel = Ok false.
Proof.
  intros Ha Hb Hx Hn. apply C17_sensitive_multiset; auto. intros P. apply Hn. eapply Permutation_in; eauto.
Qed.

(* ---------------------------------------------------------------- message-level corollaries *)
Lemma ins_sorted_map (g : msg -> msg) x : forall L, (forall y, In y L -> key_le (g x) (g y) = key_le x y) ->
  ins_sorted (g x) (map g L) = map g (ins_sorted x L).
Proof.
  induction L as [|y L IH]; intros H; [reflexivity|]. cbn [map ins_sorted]. rewrite (H y (or_introl eq_refl)).
  destruct (key_le x y); [reflexivity|]. cbn [map]. f_equal. apply IH. intros z Hz. apply H. now right.
Qed.

Lemma sort_abs_map_in (g : msg -> msg) : forall l,
  (forall x y, In x l -> In y l -> key_le (g x) (g y) = key_le x y) -> sort_abs (map g l) = map g (sort_abs l).
Proof.
  induction l as [|x l IH]; intros H; [reflexivity|]. cbn [map sort_abs].
  rewrite IH by (intros u v Hu Hv; apply H; now right).
  apply ins_sorted_map. intros y Hy. apply H; [now left|right; now apply sort_abs_in].
Qed.

(* (V) velocity.  unvel forgets the velocity of a note-on *)
Definition unvel (m : msg) : msg := if is_on m then set_vel m 0 else m.

Lemma unvel_key_le x y : key_le (unvel x) (unvel y) = key_le x y.
Proof. unfold unvel. now destruct (is_on x), (is_on y). Qed.

Lemma unvel_flags m : is_on (unvel m) = is_on m /\ m_chan (unvel m) = m_chan m /\ m_note (unvel m) = m_note m /\
  m_type (unvel m) = m_type m /\ is_off (unvel m) = is_off m.
Proof. unfold unvel. destruct (is_on m) eqn:O; repeat split; auto. Qed.

Lemma first_off_unvel ch n : forall l, first_off ch n (map unvel l) = first_off ch n l.
Proof.
  induction l as [|m l IH]; [reflexivity|]. cbn [map first_off].
  destruct (unvel_flags m) as (_ & F2 & F3 & _ & F5). unfold offb at 1. rewrite F2, F3, F5. fold (offb ch n m).
  destruct (offb ch n m) eqn:O; [|exact IH]. unfold unvel.
  unfold offb in O. destruct (is_on m) eqn:On; [|reflexivity]. now rewrite (is_on_not_off m On) in O.
Qed.

Lemma sproj_unvel ich c m o : sproj ich true c (unvel m, o) = sproj ich true c (m, o).
Proof. unfold unvel. destruct (is_on m); reflexivity. Qed.

Lemma events_unvel ty : forall l, map (fun e => sproj true true (fst e) (snd e)) (events ty (map unvel l)) =
                                   map (fun e => sproj true true (fst e) (snd e)) (events ty l) /\
                                  forall ich, map (fun e => sproj ich true (fst e) (snd e)) (events ty (map unvel l)) =
                                   map (fun e => sproj ich true (fst e) (snd e)) (events ty l).
Proof.
  intros l. assert (H : forall ich, map (fun e => sproj ich true (fst e) (snd e)) (events ty (map unvel l)) =
                                    map (fun e => sproj ich true (fst e) (snd e)) (events ty l)); [|split; [apply H|exact H]].
  intros ich. induction l as [|m l IH]; [reflexivity|]. cbn [map events].
  destruct (unvel_flags m) as (F1 & F2 & F3 & F4 & F5).
  assert (S : sigb ty (unvel m) = sigb ty m) by (unfold sigb, is_note; now rewrite F1, F4, F5).
  rewrite F1, S, F2, F3, first_off_unvel.
  destruct (is_on m); [cbn [map fst snd]; now rewrite sproj_unvel, IH|].
  destruct (sigb ty m); [cbn [map fst snd]; now rewrite sproj_unvel, IH|exact IH].
Qed.

Lemma canon_unvel ich its iks a : canon ich true its iks (map unvel a) = canon ich true its iks a.
Proof.
  unfold canon. rewrite sort_abs_map_in by (intros; apply unvel_key_le). apply events_unvel.
Qed.

(* sequences that differ only in the velocities of their note-ons compare equal with ignore_velocity ... *)
Lemma C17_velocity_only a b ich its iks ca cb :
  wf_seq a = true -> wf_seq b = true ->
  one_chan (eq_types its iks) ca a = true -> one_chan (eq_types its iks) cb b = true ->
  map unvel a = map unvel b ->
  equals a b ich its iks true = Ok true.
Proof.
  intros Ha Hb Ca Cb E. apply (C17_equal_iff_canon_partial a b ich its iks true ca cb Ha Hb Ca Cb).
  now rewrite <- (canon_unvel ich its iks a), E, canon_unvel.
Qed.

(* ... and without it exactly when the sorted message lists are the same, i.e. when no velocity differs *)
Lemma unvel_inj m m' : unvel m = unvel m' -> (is_on m = true -> m_vel m = m_vel m') -> m = m'.
Proof.
  unfold unvel. intros E Hv. destruct (is_on m) eqn:O, (is_on m') eqn:O'.
  - specialize (Hv eq_refl). destruct m, m'. cbn in *. injection E as -> -> -> -> -> -> -> -> -> ->. now subst.
  - subst m'. change (is_on m = false) in O'. congruence.
  - subst m. change (is_on m' = false) in O. congruence.
  - exact E.
Qed.

Lemma cons_inj {A} (x y : A) l l' : x :: l = y :: l' -> x = y /\ l = l'.
Proof. intros H. now injection H. Qed.

Definition proj_vel (t : proj_t) : Z := match t with (_, _, _, _, _, v, _, _, _) => v end.

Lemma events_vel_inj ty : forall s s', map unvel s = map unvel s' ->
  map (fun e => sproj true false (fst e) (snd e)) (events ty s) =
  map (fun e => sproj true false (fst e) (snd e)) (events ty s') -> s = s'.
Proof.
  induction s as [|m s IH]; intros [|m' s'] E H; try discriminate; [reflexivity|].
  cbn [map] in E. injection E as Em Es.
  destruct (unvel_flags m) as (F1 & F2 & F3 & F4 & F5). destruct (unvel_flags m') as (G1 & G2 & G3 & G4 & G5).
  assert (On : is_on m' = is_on m) by (rewrite <- F1, <- G1, Em; reflexivity).
  assert (Sg : sigb ty m' = sigb ty m).
  { unfold sigb, is_note. rewrite <- F4, <- G4, <- F1, <- G1, <- F5, <- G5, Em. reflexivity. }
  cbn [events] in H. rewrite On, Sg in H.
  destruct (is_on m) eqn:O.
  - cbn [map fst snd] in H. apply cons_inj in H. destruct H as [Hh Ht].
    assert (Ev : m_vel m = m_vel m').
    { apply (f_equal proj_vel) in Hh. unfold sproj, proj_vel in Hh. cbn [fst snd] in Hh.
      apply is_on_type in O as T. apply is_on_type in On as T'. now rewrite T, T' in Hh. }
    rewrite (unvel_inj m m' Em (fun _ => Ev)). f_equal. now apply IH.
  - assert (Emm : m = m') by (apply (unvel_inj m m' Em); congruence). subst m'. f_equal.
    destruct (sigb ty m); [cbn [map] in H; apply cons_inj in H; destruct H as [_ H]|]; now apply IH.
Qed.

Lemma canon_ich ich ivel its iks a b : canon ich ivel its iks a = canon ich ivel its iks b ->
  canon true ivel its iks a = canon true ivel its iks b.
Proof.
  unfold canon. intros H.
  assert (F : forall l, map (fun e => sproj true ivel (fst e) (snd e)) l =
                        map (fun t => match t with (_, a1, a2, a3, a4, a5, a6, a7, a8) => (0, a1, a2, a3, a4, a5, a6, a7, a8) end)
                            (map (fun e : Z * spair => sproj ich ivel (fst e) (snd e)) l)).
  { intros l. rewrite map_map. apply map_ext. intros e. reflexivity. }
  now rewrite !F, H.
Qed.

Lemma C17_velocity_strict a b ich its iks ca cb :
  wf_seq a = true -> wf_seq b = true ->
  one_chan (eq_types its iks) ca a = true -> one_chan (eq_types its iks) cb b = true ->
  map unvel a = map unvel b ->
  (equals a b ich its iks false = Ok true <-> sort_abs a = sort_abs b).
Proof.
  intros Ha Hb Ca Cb E. split.
  - intros H. apply (C17_equal_iff_canon_partial a b ich its iks false ca cb Ha Hb Ca Cb) in H.
    apply canon_ich in H. apply (events_vel_inj (eq_types its iks)); [|exact H].
    rewrite <- !sort_abs_map_in by (intros; apply unvel_key_le). now rewrite E.
  - intros H. rewrite (C17_same_sorted a b b ich its iks false H).
    destruct (wf_view_ok b its iks Hb) as (ib & Vb). now apply C17_refl with ib.
Qed.

(* (C) channel.  All messages of a are on channel c; b is a with every message moved to channel c' *)
Definition all_chan (c : Z) (a : list msg) : bool := forallb (fun m => m_chan m =? c) a.

Lemma all_chan_in c a m : all_chan c a = true -> In m a -> m_chan m = c.
Proof. unfold all_chan. rewrite forallb_forall. intros H Hm. apply Z.eqb_eq. now apply H. Qed.

Lemma set_chan_key_le x y c' : m_chan x = m_chan y -> key_le (set_chan x c') (set_chan y c') = key_le x y.
Proof. intros H. unfold key_le. cbn [set_chan m_time m_chan m_type m_note]. now rewrite H, !Z.ltb_irrefl. Qed.

Lemma sort_set_channel c c' a : all_chan c a = true -> sort_abs (set_channel a c') = set_channel (sort_abs a) c'.
Proof.
  intros H. unfold set_channel. apply sort_abs_map_in. intros x y Hx Hy. apply set_chan_key_le.
  now rewrite (all_chan_in c a x H Hx), (all_chan_in c a y H Hy).
Qed.

Lemma all_chan_sort c a : all_chan c a = true -> all_chan c (sort_abs a) = true.
Proof. unfold all_chan. rewrite !forallb_forall. intros H m Hm. apply H. now apply sort_abs_in. Qed.

Definition setc (c' : Z) (m : msg) : msg := set_chan m c'.

Lemma first_off_setc c c' n : forall l, all_chan c l = true ->
  first_off c' n (map (setc c') l) = option_map (setc c') (first_off c n l).
Proof.
  induction l as [|m l IH]; intros H; [reflexivity|]. unfold all_chan in H. cbn [forallb] in H.
  apply andb_true_iff in H. destruct H as [Hm Hl]. cbn [map first_off].
  assert (E : offb c' n (setc c' m) = offb c n m).
  { unfold offb, setc. cbn [set_chan m_chan m_note]. change (is_off (set_chan m c')) with (is_off m).
    now rewrite Hm, Z.eqb_refl. }
  rewrite E. destruct (offb c n m); [reflexivity|now apply IH].
Qed.

Lemma events_setc ty c c' : forall l, all_chan c l = true ->
  events ty (map (setc c') l) =
  map (fun e => (c', (setc c' (fst (snd e)), option_map (setc c') (snd (snd e))))) (events ty l).
Proof.
  induction l as [|m l IH]; intros H; [reflexivity|]. pose proof H as H0. unfold all_chan in H. cbn [forallb] in H.
  apply andb_true_iff in H. destruct H as [Hm Hl]. apply Z.eqb_eq in Hm. cbn [map events].
  change (is_on (setc c' m)) with (is_on m). change (sigb ty (setc c' m)) with (sigb ty m).
  change (m_chan (setc c' m)) with c'. change (m_note (setc c' m)) with (m_note m).
  rewrite (first_off_setc c c' (m_note m) l Hl), Hm, (IH Hl).
  destruct (is_on m); [reflexivity|]. destruct (sigb ty m); reflexivity.
Qed.

Lemma canon_set_channel_ignored c c' ivel its iks a : all_chan c a = true ->
  canon true ivel its iks (set_channel a c') = canon true ivel its iks a.
Proof.
  intros H. unfold canon. rewrite (sort_set_channel c c' a H). unfold set_channel. fold (setc c').
  rewrite (events_setc _ c c' _ (all_chan_sort c a H)), map_map. apply map_ext. intros [ch [m [o|]]]; reflexivity.
Qed.

Lemma krun_setc c' strict : forall L st, krun strict st (map (setc c') L) = krun strict st L.
Proof.
  induction L as [|m L IH]; intros st; [reflexivity|]. cbn [map krun].
  change (kstep strict st (setc c' m)) with (kstep strict st m). destruct (kstep strict st m); [apply IH|reflexivity].
Qed.

Lemma wf_keys_set_channel c c' a : all_chan c a = true -> wf_keys a = true -> wf_keys (set_channel a c') = true.
Proof.
  intros Hc Hwf. pose proof (wf_key_all a Hwf) as Hk. unfold wf_keys. apply forallb_forall. intros m _.
  destruct (qkey m) as [ch n]. unfold wf_key.
  assert (E : kproj (ch, n) (set_channel a c') = if ch =? c' then map (setc c') (kproj (c, n) a) else []).
  { unfold kproj, set_channel. fold (setc c'). rewrite filter_map_comm.
    destruct (Z.eqb_spec ch c') as [->|Hne].
    - f_equal. apply filter_ext_in. intros x Hx. change (is_note (setc c' x)) with (is_note x).
      unfold qkey, k2_eqb. cbn [fst snd setc set_chan m_chan m_note]. now rewrite (all_chan_in c a x Hc Hx), !Z.eqb_refl.
    - replace (filter _ a) with (@nil msg); [reflexivity|]. symmetry. apply filter_none. apply Forall_forall.
      intros x _. unfold qkey, k2_eqb. cbn [fst snd setc set_chan m_chan]. destruct (Z.eqb_spec ch c'); [contradiction|].
      now rewrite andb_false_r. }
  rewrite E. destruct (ch =? c'); [|reflexivity]. rewrite krun_setc. exact (Hk (c, n)).
Qed.

Lemma one_chan_all ty c a : all_chan c a = true -> one_chan ty c a = true.
Proof.
  unfold all_chan, one_chan. rewrite !forallb_forall. intros H m Hm. rewrite (H m Hm). apply orb_true_r.
Qed.

Lemma all_chan_set_channel a c' : all_chan c' (set_channel a c') = true.
Proof.
  unfold all_chan, set_channel. apply forallb_forall. intros m Hm. apply in_map_iff in Hm.
  destruct Hm as (x & <- & _). cbn. apply Z.eqb_refl.
Qed.

Lemma events_nonempty ty x : forall l, In x l -> is_on x || sigb ty x = true -> events ty l <> [].
Proof.
  induction l as [|m l IH]; [intros []|]. intros [->|Hin] Hx; cbn [events].
  - destruct (is_on x); [discriminate|]. cbn [orb] in Hx. now rewrite Hx.
  - destruct (is_on m); [discriminate|]. destruct (sigb ty m); [discriminate|]. now apply IH.
Qed.

Lemma events_chan ty c : forall l, all_chan c l = true -> Forall (fun e => fst e = c) (events ty l).
Proof.
  induction l as [|m l IH]; intros H; [constructor|]. unfold all_chan in H. cbn [forallb] in H.
  apply andb_true_iff in H. destruct H as [Hm Hl]. apply Z.eqb_eq in Hm. cbn [events].
  destruct (is_on m); [constructor; [exact Hm|now apply IH]|].
  destruct (sigb ty m); [constructor; [exact Hm|now apply IH]|now apply IH].
Qed.

(* a uniform relabelling of a single-channel sequence: equal with ignore_channel, unequal without it (when the
   sequence holds at least one note or compared signature and the channel really changes) *)
Lemma C17_relabel a c c' its iks ivel : wf_seq a = true -> all_chan c a = true ->
  equals a (set_channel a c') true its iks ivel = Ok true /\
  (c <> c' -> existsb (fun m => is_on m || sigb (eq_types its iks) m) a = true ->
   equals a (set_channel a c') false its iks ivel = Ok false).
Proof.
  intros Hwf Hc.
  assert (Hwf' : wf_seq (set_channel a c') = true).
  { unfold wf_seq. rewrite (sort_set_channel c c' a Hc). apply (wf_keys_set_channel c c'); [now apply all_chan_sort|exact Hwf]. }
  pose proof (one_chan_all (eq_types its iks) c a Hc) as O1.
  pose proof (one_chan_all (eq_types its iks) c' _ (all_chan_set_channel a c')) as O2.
  split.
  - apply (C17_equal_iff_canon_partial a _ true its iks ivel c c' Hwf Hwf' O1 O2).
    symmetry. now apply canon_set_channel_ignored with c.
  - intros Hne Hex. apply (C17_equal_iff_canon_partial a _ false its iks ivel c c' Hwf Hwf' O1 O2).
    apply existsb_exists in Hex. destruct Hex as (x & Hx & Hrel).
    assert (Hn : events (eq_types its iks) (sort_abs a) <> []).
    { apply (events_nonempty _ x); [now apply sort_abs_in|exact Hrel]. }
    pose proof (events_chan (eq_types its iks) c _ (all_chan_sort c a Hc)) as F1.
    pose proof (events_chan (eq_types its iks) c' _ (all_chan_sort c' _ (all_chan_set_channel a c'))) as F2.
    unfold canon. intros E.
    destruct (events (eq_types its iks) (sort_abs a)) as [|e1 l1]; [congruence|].
    destruct (events (eq_types its iks) (sort_abs (set_channel a c'))) as [|e2 l2]; [discriminate|].
    inversion F1 as [|? ? G1 _]; inversion F2 as [|? ? G2 _]; subst. cbn [map] in E.
    apply cons_inj in E. destruct E as [E _]. apply (f_equal proj_chan) in E. unfold sproj, proj_chan in E. congruence.
Qed.

(* (S) the signature flags, single-channel sequences *)
Definition tsb (m : msg) : bool := mtype_eqb (m_type m) TIME_SIGNATURE.
Definition ksb (m : msg) : bool := mtype_eqb (m_type m) KEY_SIGNATURE.

Lemma sigb_its iks m : sigb (eq_types true iks) m = sigb (eq_types false iks) m && negb (tsb m).
Proof. unfold sigb, tsb, is_note, is_on, is_off, mtype_eqb. destruct iks, (m_type m); reflexivity. Qed.
Lemma sigb_iks its m : sigb (eq_types its true) m = sigb (eq_types its false) m && negb (ksb m).
Proof. unfold sigb, ksb, is_note, is_on, is_off, mtype_eqb. destruct its, (m_type m); reflexivity. Qed.

Lemma events_sub ty ty' (q : msg -> bool) : (forall m, is_on m = true -> q m = true) ->
  (forall m, sigb ty' m = sigb ty m && q m) ->
  forall l, events ty' l = filter (fun e => q (fst (snd e))) (events ty l).
Proof.
  intros Hon Hs. induction l as [|m l IH]; [reflexivity|]. cbn [events]. rewrite Hs.
  destruct (is_on m) eqn:O.
  - cbn [filter fst snd]. now rewrite (Hon m O), IH.
  - destruct (sigb ty m); cbn [andb]; [|exact IH]. cbn [filter fst snd]. destruct (q m); [now rewrite IH|exact IH].
Qed.

Lemma on_not_tsb m : is_on m = true -> negb (tsb m) = true.
Proof. unfold is_on, tsb, mtype_eqb. now destruct (m_type m). Qed.
Lemma on_not_ksb m : is_on m = true -> negb (ksb m) = true.
Proof. unfold is_on, ksb, mtype_eqb. now destruct (m_type m). Qed.

Lemma canon_its ich ivel iks a : canon ich ivel true iks a =
  filter (fun t => negb (mtype_eqb (proj_type t) TIME_SIGNATURE)) (canon ich ivel false iks a).
Proof.
  unfold canon. rewrite (events_sub (eq_types false iks) (eq_types true iks) (fun m => negb (tsb m)) on_not_tsb (sigb_its iks)).
  now rewrite filter_map_comm.
Qed.
Lemma canon_iks ich ivel its a : canon ich ivel its true a =
  filter (fun t => negb (mtype_eqb (proj_type t) KEY_SIGNATURE)) (canon ich ivel its false a).
Proof.
  unfold canon. rewrite (events_sub (eq_types its false) (eq_types its true) (fun m => negb (ksb m)) on_not_ksb (sigb_iks its)).
  now rewrite filter_map_comm.
Qed.

Lemma one_chan_weaken ty ty' c a : (forall t, tmem t ty' = true -> tmem t ty = true) ->
  one_chan ty c a = true -> one_chan ty' c a = true.
Proof.
  intros H. unfold one_chan. rewrite !forallb_forall. intros Ha m Hm. specialize (Ha m Hm).
  destruct (tmem (m_type m) ty') eqn:T; [|reflexivity]. now rewrite (H _ T) in Ha.
Qed.
Lemma eq_types_its iks t : tmem t (eq_types true iks) = true -> tmem t (eq_types false iks) = true.
Proof. destruct iks, t; cbn; congruence. Qed.
Lemma eq_types_iks its t : tmem t (eq_types its true) = true -> tmem t (eq_types its false) = true.
Proof. destruct its, t; cbn; congruence. Qed.

(* on single-channel well-formed sequences the signature flags only relax (contrast
   C17_flags_monotone_signature_refuted: orphan note-offs, or several channels) *)
Lemma C17_flags_monotone_ts a b ich iks ivel ca cb : wf_seq a = true -> wf_seq b = true ->
  one_chan (eq_types false iks) ca a = true -> one_chan (eq_types false iks) cb b = true ->
  equals a b ich false iks ivel = Ok true -> equals a b ich true iks ivel = Ok true.
Proof.
  intros Ha Hb Ca Cb E. apply (C17_equal_iff_canon_partial a b ich false iks ivel ca cb Ha Hb Ca Cb) in E.
  apply (C17_equal_iff_canon_partial a b ich true iks ivel ca cb Ha Hb);
    try (eapply one_chan_weaken; [apply eq_types_its|eassumption]).
  now rewrite !canon_its, E.
Qed.
Lemma C17_flags_monotone_ks a b ich its ivel ca cb : wf_seq a = true -> wf_seq b = true ->
  one_chan (eq_types its false) ca a = true -> one_chan (eq_types its false) cb b = true ->
  equals a b ich its false ivel = Ok true -> equals a b ich its true ivel = Ok true.
Proof.
  intros Ha Hb Ca Cb E. apply (C17_equal_iff_canon_partial a b ich its false ivel ca cb Ha Hb Ca Cb) in E.
  apply (C17_equal_iff_canon_partial a b ich its true ivel ca cb Ha Hb);
    try (eapply one_chan_weaken; [apply eq_types_iks|eassumption]).
  now rewrite !canon_iks, E.
Qed.

(* sequences that differ only in their time-signature messages compare equal with ignore_time_signatures *)
Lemma first_off_filter (q : msg -> bool) ch n : (forall m, is_off m = true -> q m = true) ->
  forall l, first_off ch n (filter q l) = first_off ch n l.
Proof.
  intros Hq. induction l as [|m l IH]; [reflexivity|]. cbn [filter first_off].
  destruct (offb ch n m) eqn:O.
  - assert (Q : q m = true) by (apply Hq; unfold offb in O; now destruct (is_off m)).
    rewrite Q. cbn [first_off]. now rewrite O.
  - destruct (q m); [cbn [first_off]; now rewrite O|exact IH].
Qed.

Lemma events_filter ty (q : msg -> bool) : (forall m, is_off m = true -> q m = true) ->
  (forall m, q m = false -> is_on m = false /\ sigb ty m = false) ->
  forall l, events ty (filter q l) = events ty l.
Proof.
  intros Hoff Hq. induction l as [|m l IH]; [reflexivity|]. cbn [filter events].
  destruct (q m) eqn:Q.
  - cbn [events]. now rewrite (first_off_filter q _ _ Hoff), IH.
  - destruct (Hq m Q) as [-> ->]. exact IH.
Qed.

Lemma canon_drop_ts ich ivel iks a : canon ich ivel true iks (filter (fun m => negb (tsb m)) a) = canon ich ivel true iks a.
Proof.
  unfold canon. rewrite <- filter_sort_abs. f_equal. apply events_filter.
  - intros m H. unfold is_off, tsb, mtype_eqb in *. now destruct (m_type m).
  - intros m H. apply negb_false_iff in H. unfold tsb, is_on, sigb, is_note, is_on, is_off, mtype_eqb in *.
    destruct iks, (m_type m); cbn in *; try discriminate; split; reflexivity.
Qed.
Lemma canon_drop_ks ich ivel its a : canon ich ivel its true (filter (fun m => negb (ksb m)) a) = canon ich ivel its true a.
Proof.
  unfold canon. rewrite <- filter_sort_abs. f_equal. apply events_filter.
  - intros m H. unfold is_off, ksb, mtype_eqb in *. now destruct (m_type m).
  - intros m H. apply negb_false_iff in H. unfold ksb, is_on, sigb, is_note, is_on, is_off, mtype_eqb in *.
    destruct its, (m_type m); cbn in *; try discriminate; split; reflexivity.
Qed.

Lemma C17_ts_only a b ich iks ivel ca cb : wf_seq a = true -> wf_seq b = true ->
  one_chan (eq_types true iks) ca a = true -> one_chan (eq_types true iks) cb b = true ->
  filter (fun m => negb (tsb m)) a = filter (fun m => negb (tsb m)) b ->
  equals a b ich true iks ivel = Ok true.
Proof.
  intros Ha Hb Ca Cb E. apply (C17_equal_iff_canon_partial a b ich true iks ivel ca cb Ha Hb Ca Cb).
  now rewrite <- (canon_drop_ts ich ivel iks a), E, canon_drop_ts.
Qed.
Lemma C17_ks_only a b ich its ivel ca cb : wf_seq a = true -> wf_seq b = true ->
  one_chan (eq_types its true) ca a = true -> one_chan (eq_types its true) cb b = true ->
  filter (fun m => negb (ksb m)) a = filter (fun m => negb (ksb m)) b ->
  equals a b ich its true ivel = Ok true.
Proof.
  intros Ha Hb Ca Cb E. apply (C17_equal_iff_canon_partial a b ich its true ivel ca cb Ha Hb Ca Cb).
  now rewrite <- (canon_drop_ks ich ivel its a), E, canon_drop_ks.
Qed.

(* ... and unequal without the flag as soon as the signature events differ *)
Lemma C17_sigs_differ a b ich its iks ivel ca cb : wf_seq a = true -> wf_seq b = true ->
  one_chan (eq_types its iks) ca a = true -> one_chan (eq_types its iks) cb b = true ->
  canon_sigs ich ivel its iks a <> canon_sigs ich ivel its iks b ->
  equals a b ich its iks ivel = Ok false.
Proof.
  intros Ha Hb Ca Cb Hd. destruct (equals_wf_ok a b ich its iks ivel Ha Hb) as ([|] & E); [|exact E].
  exfalso. apply Hd. now apply (C17_equal_notes_sigs a b ich its iks ivel ca cb Ha Hb Ca Cb E).
Qed.

(* ================================================================ non-vacuity and concrete perturbations *)
Definition rx_a : list msg :=
  [mk_ts 0 3 4 0 false; mk_on 0 60 90 0 false; mk_on 0 64 80 0 false; mk_off 0 60 24 false; mk_on 0 60 70 24 false;
   mk_off 0 64 30 false; mk_ks 0 (Some K_D) 30 false; mk_off 0 60 48 false; mk_cc 1 7 100 3 false].
(* two channels, same pitch on both *)
Definition rx_m : list msg :=
  [mk_on 1 60 90 0 false; mk_on 0 64 80 0 false; mk_off 1 60 24 false; mk_on 0 60 70 24 false; mk_off 0 64 30 false;
   mk_ks 2 (Some K_D) 30 false; mk_off 0 60 48 false; mk_cc 1 7 100 3 false].

Example rx_hyps : wf_seq rx_a = true /\ one_chan (eq_types false false) 0 rx_a = true /\
  wf_seq (rev rx_a) = true /\ wf_keys (rev rx_a) = false /\ wf_seq rx_m = true /\ all_chan 0 (removelast rx_a) = true.
Proof. vm_compute. repeat split. Qed.

Example rx_canon : canon false false false false rx_a =
  [(0, TIME_SIGNATURE, 0, 0, 0, 0, 3, 4, None); (0, NOTE_ON, 0, 60, 24, 90, 0, 0, None);
   (0, NOTE_ON, 0, 64, 30, 80, 0, 0, None); (0, NOTE_ON, 24, 60, 24, 70, 0, 0, None);
   (0, KEY_SIGNATURE, 30, 0, 0, 0, 0, 0, Some K_D)] /\
  roll_key (kproj (0, 60) rx_a) = [(0, 60, 0, 24, 90); (0, 60, 24, 24, 70)].
Proof. vm_compute. split; reflexivity. Qed.

Example rx_multi : chan_canon false false false false 0 rx_m =
  [(0, NOTE_ON, 0, 64, 30, 80, 0, 0, None); (0, NOTE_ON, 24, 60, 24, 70, 0, 0, None)] /\
  chan_canon false false false false 1 rx_m = [(1, NOTE_ON, 0, 60, 24, 90, 0, 0, None)].
Proof. vm_compute. split; reflexivity. Qed.

(* every single-attribute perturbation of rx_a: each satisfies the hypotheses and compares unequal *)
Definition rx_pitch : list msg :=     (* first note 60 -> 61 *)
  [mk_ts 0 3 4 0 false; mk_on 0 61 90 0 false; mk_on 0 64 80 0 false; mk_off 0 61 24 false; mk_on 0 60 70 24 false;
   mk_off 0 64 30 false; mk_ks 0 (Some K_D) 30 false; mk_off 0 60 48 false].
Definition rx_onset : list msg :=     (* second note starts at 1 and keeps its end: onset and duration change *)
  [mk_ts 0 3 4 0 false; mk_on 0 60 90 0 false; mk_on 0 64 80 1 false; mk_off 0 60 24 false; mk_on 0 60 70 24 false;
   mk_off 0 64 30 false; mk_ks 0 (Some K_D) 30 false; mk_off 0 60 48 false].
Definition rx_dur : list msg :=       (* last note ends at 47 *)
  [mk_ts 0 3 4 0 false; mk_on 0 60 90 0 false; mk_on 0 64 80 0 false; mk_off 0 60 24 false; mk_on 0 60 70 24 false;
   mk_off 0 64 30 false; mk_ks 0 (Some K_D) 30 false; mk_off 0 60 47 false].
Definition rx_vel : list msg :=
  [mk_ts 0 3 4 0 false; mk_on 0 60 91 0 false; mk_on 0 64 80 0 false; mk_off 0 60 24 false; mk_on 0 60 70 24 false;
   mk_off 0 64 30 false; mk_ks 0 (Some K_D) 30 false; mk_off 0 60 48 false; mk_cc 1 7 100 3 false].
Definition rx_sigval : list msg :=    (* 3/4 -> 6/8 *)
  [mk_ts 0 6 8 0 false; mk_on 0 60 90 0 false; mk_on 0 64 80 0 false; mk_off 0 60 24 false; mk_on 0 60 70 24 false;
   mk_off 0 64 30 false; mk_ks 0 (Some K_D) 30 false; mk_off 0 60 48 false].
Definition rx_sigtick : list msg :=   (* key change at 31 *)
  [mk_ts 0 3 4 0 false; mk_on 0 60 90 0 false; mk_on 0 64 80 0 false; mk_off 0 60 24 false; mk_on 0 60 70 24 false;
   mk_off 0 64 30 false; mk_ks 0 (Some K_D) 31 false; mk_off 0 60 48 false].

Example rx_perturbations :
  forallb (fun b => wf_seq b && one_chan (eq_types false false) 0 b) [rx_pitch; rx_onset; rx_dur; rx_vel; rx_sigval; rx_sigtick] = true /\
  map (fun b => equals rx_a b false false false false) [rx_pitch; rx_onset; rx_dur; rx_vel; rx_sigval; rx_sigtick] =
  [Ok false; Ok false; Ok false; Ok false; Ok false; Ok false] /\
  map unvel rx_a = map unvel rx_vel /\ equals rx_a rx_vel false false false true = Ok true /\
  equals rx_a rx_sigval false true false false = Ok true /\ equals rx_a rx_sigtick false false true false = Ok true /\
  equals rx_a (rev rx_a) false false false false = Ok true.
Proof. vm_compute. repeat split. Qed.

(* two channels, ignore_channel: the pitch of one note changed *)
Definition rx_m_pitch : list msg :=
  [mk_on 1 60 90 0 false; mk_on 0 65 80 0 false; mk_off 1 60 24 false; mk_on 0 60 70 24 false; mk_off 0 65 30 false;
   mk_ks 2 (Some K_D) 30 false; mk_off 0 60 48 false; mk_cc 1 7 100 3 false].
Example rx_multi_event : wf_seq rx_m_pitch = true /\
  In (0, NOTE_ON, 0, 64, 30, 80, 0, 0, None) (canon true false false false rx_m) /\
  existsb (fun x => match x with (_, _, _, p, _, _, _, _, _) => p =? 64 end) (canon true false false false rx_m_pitch) = false /\
  equals rx_m rx_m_pitch true false false false = Ok false.
Proof.
  split; [vm_compute; reflexivity|]. split; [vm_compute; auto 10|]. split; vm_compute; reflexivity.
Qed.

Example rx_sig_flags :
  filter (fun m => negb (tsb m)) rx_a = filter (fun m => negb (tsb m)) (rx_sigval ++ [mk_cc 1 7 100 3 false]) /\
  canon_sigs false false false false rx_a <> canon_sigs false false false false rx_sigval /\
  one_chan (eq_types true false) 0 rx_a = true.
Proof. split; [vm_compute; reflexivity|]. split; [vm_compute; discriminate|vm_compute; reflexivity]. Qed.

Example rx_relabel :
  equals (removelast rx_a) (set_channel (removelast rx_a) 5) true false false false = Ok true /\
  equals (removelast rx_a) (set_channel (removelast rx_a) 5) false false false false = Ok false /\
  existsb (fun m => is_on m || sigb (eq_types false false) m) (removelast rx_a) = true.
Proof. vm_compute. repeat split. Qed.
