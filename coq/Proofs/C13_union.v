(* C13_union.v -- the clause "one sequence per requested track group whose sounding set is exactly the union of that
   group's tracks" of C13, through the loader's per-group merge (normalise every track, merge, normalise) and, for the
   meta target, through the additional merge with the meta list and the optional 4/4 insertion.
   Builds on Sound_glue.v, C15_sound.v and C13_proofs.v.
   Hypotheses, per track list (the lists characterised by C13_routing_state, i.e. after rounding):
     nnt : non-negative ticks;  sbal : no zero-length note, no orphan note-off, no unclosed note (Sound_glue).
   Notes of one track MAY overlap each other and notes of different tracks of the group may overlap. *)
From Coq Require Import ZArith List Bool Lia Permutation.
From Model Require Import Base Seq Pairing Util Bars Store Midi.
From Proofs Require Import C04_sort C04_proofs C07_proofs C17_proofs C15_proofs Sound_glue C15_sound C13_proofs.
Import ListNotations.
Open Scope Z_scope.

(* the normalised absolute view of a track list, and the sequence object the per-group merge builds *)
Definition nabs (a : list msg) : list msg := to_abs (normalise (to_rel a)).
Definition nseq (a : list msg) : seq := mkseq a (normalise (to_rel a)) true false.
Definition mseq (A0 : list msg) (As : list (list msg)) : seq :=
  mkseq (merge_abs A0 As) (normalise (to_rel (merge_abs A0 As))) true false.

Lemma mapM_ok_map {A B} (f : A -> result B) (h : A -> B) :
  (forall x, f x = Ok (h x)) -> forall l, mapM f l = Ok (map h l).
Proof. intros H. induction l as [|x l IH]; [reflexivity|]. cbn [map mapM]. now rewrite H, IH. Qed.

Lemma refresh_nseq g :
  refresh_abs_all (map nseq g) = Ok (map (fun a => mkseq (nabs a) (normalise (to_rel a)) false false) g, map nabs g).
Proof.
  induction g as [|a g IH]; [reflexivity|]. cbn [map refresh_abs_all]. rewrite IH. reflexivity.
Qed.

Lemma merge_group_ok a g : merge_group (a :: g) = Ok (mseq (nabs a) (map nabs g)).
Proof.
  unfold merge_group. rewrite (mapM_ok_map _ nseq) by (intros x; reflexivity). cbn [map rbind].
  unfold seq_merge. change (get_abs (nseq a)) with (Ok (mkseq (nabs a) (normalise (to_rel a)) false false, nabs a)).
  cbn [rbind]. rewrite refresh_nseq. cbn [rbind]. reflexivity.
Qed.

Lemma existsb_map {A B} (f : B -> bool) (g : A -> B) l : existsb f (map g l) = existsb (fun x => f (g x)) l.
Proof. induction l as [|x l IH]; [reflexivity|]. cbn [map existsb]. now rewrite IH. Qed.
Lemma existsb_ext_in {A} (f g : A -> bool) l : (forall x, In x l -> f x = g x) -> existsb f l = existsb g l.
Proof.
  induction l as [|x l IH]; intros H; [reflexivity|]. cbn [existsb].
  rewrite (H x (or_introl eq_refl)), IH; [reflexivity|]. intros y Hy. apply H. now right.
Qed.

(* every per-track list of a loader state is time-sorted: it is built by binary insertion *)
Lemma ins_all_tsorted ms : tsorted (ins_all ms []) = true.
Proof. apply (fold_insort_tsorted ms []). reflexivity. Qed.

(* ---------------------------------------------------------------- merge_group *)
(* the sequence returned for a group of track lists sounds exactly where one of the (raw) track lists sounds *)
Theorem C13_merge_group_sound (a : list msg) (g : list (list msg)) :
  forallb tsorted (a :: g) = true -> forallb nnt (a :: g) = true -> forallb sbal (a :: g) = true ->
  exists s s' v, merge_group (a :: g) = Ok s /\ get_abs s = Ok (s', v) /\
    (forall k t, C15_proofs.sounding k t v = existsb (C15_proofs.sounding k t) (a :: g)) /\
    tsorted v = true /\ nnt v = true /\ swf v = true /\ sbal v = true.
Proof.
  intros T N S. rewrite merge_group_ok.
  assert (W : forall x, In x (a :: g) ->
              nnt (nabs x) = true /\ sbal (nabs x) = true /\
              forall k t, C15_proofs.sounding k t (nabs x) = C15_proofs.sounding k t x).
  { intros x Hx. rewrite forallb_forall in T, N, S.
    destruct (glue_round_wf x (T x Hx) (N x Hx) (S x Hx)) as (_ & H2 & _ & H4 & _ & H6). auto. }
  assert (N' : forallb nnt (nabs a :: map nabs g) = true).
  { change (nabs a :: map nabs g) with (map nabs (a :: g)). apply forallb_forall. intros y Hy.
    apply in_map_iff in Hy as (x & <- & Hx). apply (W x Hx). }
  assert (S' : forallb sbal (nabs a :: map nabs g) = true).
  { change (nabs a :: map nabs g) with (map nabs (a :: g)). apply forallb_forall. intros y Hy.
    apply in_map_iff in Hy as (x & <- & Hx). apply (W x Hx). }
  destruct (C15_sound (nabs a) (map nabs g) N' S') as (H1 & H2 & H3 & H4 & H5 & _).
  eexists. eexists. eexists. split; [reflexivity|]. split; [reflexivity|]. cbn [mseq s_rel].
  split; [|auto]. intros k t. rewrite H1.
  change (nabs a :: map nabs g) with (map nabs (a :: g)). rewrite existsb_map.
  apply existsb_ext_in. intros x Hx. apply (W x Hx).
Qed.

(* ---------------------------------------------------------------- lists without notes *)
Lemma no_notes_nokey k (l : list msg) : (forall m, In m l -> is_note m = false) ->
  existsb (fun m => is_note m && is_key k m) l = false.
Proof.
  intros H. induction l as [|m l IH]; [reflexivity|]. cbn [existsb].
  rewrite (H m (or_introl eq_refl)), IH; [reflexivity|]. intros y Hy. apply H. now right.
Qed.
Lemma no_notes_sbal (l : list msg) : (forall m, In m l -> is_note m = false) -> sbal l = true.
Proof.
  intros H. apply sbal_intro. intros k. pose proof (no_notes_nokey k l H) as E. split.
  - intros t. unfold sdepth. rewrite asum_nokey by exact E. lia.
  - rewrite <- asum_c1. now apply asum_nokey.
Qed.
Lemma no_notes_silent (l : list msg) k t : (forall m, In m l -> is_note m = false) -> C15_proofs.sounding k t l = false.
Proof.
  intros H. rewrite sounding_adepth. unfold adepth. rewrite asum_nokey by (now apply no_notes_nokey). reflexivity.
Qed.

Lemma sounding_perm k t l l' : Permutation l l' -> C15_proofs.sounding k t l = C15_proofs.sounding k t l'.
Proof. intros P. unfold C15_proofs.sounding. now rewrite (depth_perm k t l l' P). Qed.

(* ---------------------------------------------------------------- the meta target *)
(* merging the group's sequence with the (note-free) meta list, and inserting a 4/4, leaves the sounding set alone *)
Lemma meta_merge_sound (mt mt1 mt2 : seq) (os : list seq) (meta a v : list msg) (mt' : seq) :
  get_abs mt = Ok (mt', v) -> nnt v = true -> sbal v = true ->
  (forall m, In m meta -> is_note m = false) -> nnt meta = true ->
  seq_merge mt [seq_of_abs meta] = Ok (mt1, os) -> get_abs mt1 = Ok (mt2, a) ->
  (forall k t, C15_proofs.sounding k t a = C15_proofs.sounding k t v) /\ get_abs mt2 = Ok (mt2, a) /\
  tsorted a = true /\ nnt a = true.
Proof.
  intros G N S NM NNm SM GA.
  rewrite (seq_merge_spec mt mt' [seq_of_abs meta] [seq_of_abs meta] v [meta] G eq_refl) in SM.
  injection SM as <- _. cbn in GA. injection GA as <- <-.
  assert (N' : forallb nnt [v; meta] = true) by (cbn; now rewrite N, NNm).
  assert (S' : forallb sbal [v; meta] = true) by (cbn; now rewrite S, (no_notes_sbal meta NM)).
  destruct (C15_sound v [meta] N' S') as (H1 & H2 & H3 & _).
  split; [|split; [reflexivity|split; assumption]].
  intros k t. rewrite H1. cbn [existsb]. rewrite (no_notes_silent meta k t NM). now rewrite !orb_false_r.
Qed.

Lemma mapM_nth {A B} (f : A -> result B) : forall l ys i x,
  mapM f l = Ok ys -> nth_error l i = Some x -> exists y, f x = Ok y /\ nth_error ys i = Some y.
Proof.
  induction l as [|x0 l IH]; intros ys i x H Hx; [destruct i; discriminate|].
  cbn [mapM] in H. destruct (f x0) as [y0|] eqn:E0; [|discriminate]. cbn [rbind] in H.
  destruct (mapM f l) as [ys'|] eqn:E1; [|discriminate]. cbn [rbind] in H. injection H as <-.
  destruct i as [|i]; cbn [nth_error] in *.
  - injection Hx as <-. eauto.
  - now apply (IH ys' i x).
Qed.

(* ---------------------------------------------------------------- convert: every returned sequence *)
(* for every group g whose track lists (row g of the loader state, characterised exactly by C13_routing_state) have
   non-negative ticks and no zero-length / orphan / unclosed notes, the g-th returned sequence -- the meta target
   included -- sounds exactly where one of the group's track lists sounds *)
Theorem C13_group_union_rows : forall rnd tpb tracks groups metas mi seqs,
  convert rnd tpb tracks groups metas mi = Ok seqs ->
  exists st, conv_all rnd tpb tracks groups metas = Ok st /\
    forall g row, nth_error (cs_seqs st) g = Some row ->
      forallb nnt row = true -> forallb sbal row = true -> nnt (cs_meta st) = true ->
      exists s s' v, nth_error seqs g = Some s /\ get_abs s = Ok (s', v) /\
        (forall k t, C15_proofs.sounding k t v = existsb (C15_proofs.sounding k t) row) /\ nnt v = true.
Proof.
  intros rnd tpb tracks groups metas mi seqs H.
  destruct (C13_group_union_partial rnd tpb tracks groups metas mi seqs H)
    as (st & merged & Hc & Hm & Hlen & Hother & mt & mt1 & os & mt2 & a & Hmt & Hsm & Hga & Hcase).
  exists st. split; [exact Hc|]. intros g row Hrow N S NM.
  destruct (mapM_nth merge_group _ _ g row Hm Hrow) as (sg & Hsg & Hnth).
  assert (T : forallb tsorted row = true).
  { apply forallb_forall. intros x Hx. apply In_nth_error in Hx as (p & Hp).
    destruct (C13_routing_state rnd tpb groups metas tracks st Hc) as (_ & Hlens & Hcell).
    assert (Hg : exists grp, nth_error groups g = Some grp /\ length row = length grp).
    { apply (f_equal (fun l => nth_error l g)) in Hlens. rewrite !nth_error_map, Hrow in Hlens. cbn in Hlens.
      destruct (nth_error groups g) as [grp|]; [|discriminate]. injection Hlens as E. eauto. }
    destruct Hg as (grp & Hg & Hl).
    assert (Hp' : (p < length grp)%nat) by (rewrite <- Hl; apply nth_error_Some; congruence).
    specialize (Hcell g p grp Hg Hp'). unfold cell in Hcell. rewrite Hrow, Hp in Hcell. injection Hcell as ->.
    apply ins_all_tsorted. }
  destruct row as [|a0 g0]; [cbn in Hsg; discriminate|].
  destruct (C13_merge_group_sound a0 g0 T N S) as (s & s' & v & Hs & Hg & Hv & _ & Nv & _ & Sv).
  rewrite Hs in Hsg. injection Hsg as <-.
  destruct (Nat.eq_dec g (Z.to_nat mi)) as [E|NE].
  - subst g. rewrite Hnth in Hmt. injection Hmt as <-.
    assert (NMn : forall m, In m (cs_meta st) -> is_note m = false)
      by (apply (C13_routing_meta_no_notes rnd tpb tracks groups metas st Hc)).
    destruct (meta_merge_sound s mt1 mt2 os (cs_meta st) a v s' Hg Nv Sv NMn NM Hsm Hga) as (Ha & Hg2 & Ta & Na).
    destruct Hcase as [[_ Hn]|(_ & mt3 & Hadd & Hn)].
    + exists mt2, mt2, a. split; [exact Hn|]. split; [exact Hg2|]. split; [|exact Na].
      intros k t. rewrite Ha. apply Hv.
    + unfold seq_add_abs, upd_abs in Hadd. rewrite Hg2 in Hadd. cbn [rbind] in Hadd. injection Hadd as <-.
      eexists. eexists. eexists. split; [exact Hn|]. split; [reflexivity|]. cbn [s_abs].
      set (x := mk_ts (default_channel tracks groups metas) 4 4 0 false).
      assert (P : Permutation (insort x a) (x :: a)) by (apply C13_proofs.insort_perm).
      split.
      * intros k t. rewrite (sounding_perm k t _ _ P), <- Hv, <- Ha.
        rewrite !sounding_adepth. unfold adepth. rewrite asum_cons, term_nonnote by reflexivity. reflexivity.
      * apply (nnt_perm _ _ (Permutation_sym P)). cbn. exact Na.
  - rewrite (Hother g NE), Hnth. exists s, s', v. auto.
Qed.

Lemma nth_error_ext_eq' {A} : forall (l l' : list A), (forall i, nth_error l i = nth_error l' i) -> l = l'.
Proof.
  induction l as [|x l IH]; intros [|y l'] H; [reflexivity|specialize (H O); discriminate|specialize (H O); discriminate|].
  pose proof (H O) as H0. cbn in H0. injection H0 as <-. f_equal. apply IH. intros i. apply (H (S i)).
Qed.

(* the same in terms of the tracks: row g of the loader state holds, at position p, the insertion of own_msgs g p = the
   note (and program-change) messages of the track located at (g, p); binary insertion only permutes them *)
Theorem C13_group_union : forall rnd tpb tracks groups metas mi seqs,
  convert rnd tpb tracks groups metas mi = Ok seqs ->
  let its := mapi (fun i t => (i, t)) tracks in
  forall g grp, nth_error groups g = Some grp ->
    forallb (fun p => nnt (own_msgs rnd tpb groups its g p) && sbal (own_msgs rnd tpb groups its g p))
            (List.seq 0%nat (length grp)) = true ->
    nnt (meta_msgs rnd tpb groups metas its) = true ->
    exists s s' v, nth_error seqs g = Some s /\ get_abs s = Ok (s', v) /\
      forall k t, C15_proofs.sounding k t v =
                  existsb (fun p => C15_proofs.sounding k t (own_msgs rnd tpb groups its g p)) (List.seq 0%nat (length grp)).
Proof.
  intros rnd tpb tracks groups metas mi seqs H its g grp Hg Hyp NM.
  destruct (C13_group_union_rows rnd tpb tracks groups metas mi seqs H) as (st & Hc & Hrows).
  destruct (C13_routing_state rnd tpb groups metas tracks st Hc) as (Hmeta & Hlens & Hcell). fold its in Hmeta, Hcell.
  assert (Hrow : exists row, nth_error (cs_seqs st) g = Some row /\ length row = length grp).
  { apply (f_equal (fun l => nth_error l g)) in Hlens. rewrite !nth_error_map, Hg in Hlens. cbn in Hlens.
    destruct (nth_error (cs_seqs st) g) as [row|]; [|discriminate]. injection Hlens as E. eauto. }
  destruct Hrow as (row & Hrow & Hl).
  assert (R : row = map (fun p => ins_all (own_msgs rnd tpb groups its g p) []) (List.seq 0%nat (length grp))).
  { apply nth_error_ext_eq'. intros p. destruct (Nat.lt_ge_cases p (length grp)) as [Lt|Ge].
    - specialize (Hcell g p grp Hg Lt). unfold cell in Hcell. rewrite Hrow in Hcell. rewrite Hcell.
      rewrite nth_error_map, (nth_error_nth' _ 0%nat) by (now rewrite seq_length). rewrite seq_nth by exact Lt. reflexivity.
    - rewrite (proj2 (nth_error_None _ _)) by lia.
      symmetry. apply nth_error_None. now rewrite map_length, seq_length. }
  rewrite forallb_forall in Hyp.
  assert (P : forall p, Permutation (ins_all (own_msgs rnd tpb groups its g p) []) (own_msgs rnd tpb groups its g p))
    by (intros p; apply (ins_all_perm _ [])).
  destruct (Hrows g row Hrow) as (s & s' & v & H1 & H2 & H3 & _).
  - rewrite R. apply forallb_forall. intros x Hx. apply in_map_iff in Hx as (p & <- & Hp).
    specialize (Hyp p Hp). apply andb_true_iff in Hyp as [Hn _]. apply (nnt_perm _ _ (Permutation_sym (P p)) Hn).
  - rewrite R. apply forallb_forall. intros x Hx. apply in_map_iff in Hx as (p & <- & Hp).
    specialize (Hyp p Hp). apply andb_true_iff in Hyp as [_ Hs]. apply (sbal_perm _ _ (Permutation_sym (P p)) Hs).
  - rewrite Hmeta. apply (nnt_perm _ _ (Permutation_sym (ins_all_perm _ [])) NM).
  - exists s, s', v. split; [exact H1|]. split; [exact H2|]. intros k t. rewrite H3, R, existsb_map.
    apply existsb_ext_in. intros p _. apply sounding_perm, P.
Qed.

(* ---------------------------------------------------------------- non-vacuity and the excluded case *)
(* group 0 = tracks 0 and 1 whose notes of pitch 60 (channel 0) overlap across the tracks (file ticks 0..960 and
   480..1440 at 480 ticks per beat = library ticks 0..48 and 24..72); track 0 also overlaps ITSELF on pitch 62;
   group 1 = track 2; meta target 0; the file has no time signature, so 4/4 is inserted *)
Definition u_tracks : list (list mev) :=
  [ [mkev MOn 0 60 64 "" 0; mkev MOn 0 62 64 "" 0; mkev MOn 0 62 70 "" 240; mkev MOff 0 62 0 "" 240;
     mkev MOff 0 60 0 "" 480; mkev MOff 0 62 0 "" 0];
    [mkev MOn 0 60 50 "" 480; mkev MOff 0 60 0 "" 960];
    [mkev MOn 1 72 90 "" 100; mkev MOn 1 72 0 "" 100] ].
Definition u_ticks : list Z := [-1; 0; 12; 23; 24; 47; 48; 60; 71; 72; 73].

Example C13_group_union_nonvacuous :
  let its := mapi (fun i t => (i, t)) u_tracks in
  forallb (fun p => nnt (own_msgs round_half_even 480 [[0; 1]; [2]] its 0 p) &&
                    sbal (own_msgs round_half_even 480 [[0; 1]; [2]] its 0 p)) (List.seq 0%nat 2%nat) = true /\
  nnt (meta_msgs round_half_even 480 [[0; 1]; [2]] [] its) = true /\
  exists seqs s s' v, convert round_half_even 480 u_tracks [[0; 1]; [2]] [] 0 = Ok seqs /\
    nth_error seqs 0 = Some s /\ get_abs s = Ok (s', v) /\
    map (fun m => (m_type m, m_chan m, m_note m, m_time m)) v =
      [(NOTE_ON, 0, 60, 0); (NOTE_ON, 0, 62, 0); (TIME_SIGNATURE, 0, -1, 0); (NOTE_OFF, 0, 62, 48); (NOTE_OFF, 0, 60, 72)] /\
    map (fun t => C15_proofs.sounding (0, 60) t v) u_ticks =
      [false; true; true; true; true; true; true; true; true; false; false].
Proof.
  split; [vm_compute; reflexivity|]. split; [vm_compute; reflexivity|].
  eexists. eexists. eexists. eexists. split; [vm_compute; reflexivity|].
  split; [reflexivity|]. split; [reflexivity|]. split; vm_compute; reflexivity.
Qed.

(* excluded: a zero-length note (note-on and note-off of one key rounded to the same library tick) in one track of a
   group silences a real note of the same key in another track that starts at that tick.  At 480 ticks per beat the
   file ticks 470 and 489 both round to library tick 24: such notes arise from rounding alone. *)
Definition z_tracks : list (list mev) :=
  [ [mkev MOn 0 60 64 "" 470; mkev MOff 0 60 0 "" 19];
    [mkev MOn 0 60 50 "" 480; mkev MOff 0 60 0 "" 480] ].
Example C13_group_union_zero_length_refuted :
  let its := mapi (fun i t => (i, t)) z_tracks in
  own_msgs round_half_even 480 [[0; 1]] its 0 0 = [mk_on 0 60 64 24 false; mk_off 0 60 24 false] /\
  sbal (own_msgs round_half_even 480 [[0; 1]] its 0 0) = false /\
  C15_proofs.sounding (0, 60) 30 (own_msgs round_half_even 480 [[0; 1]] its 0 1) = true /\
  exists seqs s s' v, convert round_half_even 480 z_tracks [[0; 1]] [] 0 = Ok seqs /\
    nth_error seqs 0 = Some s /\ get_abs s = Ok (s', v) /\ filter is_note v = [] /\
    C15_proofs.sounding (0, 60) 30 v = false.
Proof.
  split; [vm_compute; reflexivity|]. split; [vm_compute; reflexivity|]. split; [vm_compute; reflexivity|].
  eexists. eexists. eexists. eexists. split; [vm_compute; reflexivity|].
  split; [reflexivity|]. split; [reflexivity|]. split; vm_compute; reflexivity.
Qed.
