(* C03 (piece level), part A -- `normalise` on a list whose notes alternate per key but whose TIME_SIGNATURE messages
   may repeat the signature in force (as in a concatenation of Bar lists, where every bar starts with its signature):
   every non-wait message stays at its tick, except that each time signature equal to the one in force is dropped
   (`tsdrop`).  Generalises C07_proofs.normalise_wellformed (which excludes repeats). *)
From Coq Require Import ZArith List Bool Lia.
From Model Require Import Base Seq.
From Proofs Require Import C07_proofs.
Import ListNotations.
Open Scope Z_scope.

(* drop every time signature that repeats the one in force *)
Fixpoint tsdrop (prev : Z * Z) (l : list (Z * msg)) : list (Z * msg) :=
  match l with
  | [] => []
  | tm :: l' =>
      if is_ts (snd tm)
      then if ts_eqb (m_num (snd tm), m_den (snd tm)) prev then tsdrop prev l'
           else tm :: tsdrop (m_num (snd tm), m_den (snd tm)) l'
      else tm :: tsdrop prev l'
  end.
(* the signature in force after a timed list *)
Fixpoint tl_last (prev : Z * Z) (l : list (Z * msg)) : Z * Z :=
  match l with
  | [] => prev
  | tm :: l' => if is_ts (snd tm) then tl_last (m_num (snd tm), m_den (snd tm)) l' else tl_last prev l'
  end.

Lemma ts_eqb_eq a b : ts_eqb a b = true -> a = b.
Proof.
  unfold ts_eqb. intros H. apply andb_prop in H. destruct H as [H1 H2]. apply Z.eqb_eq in H1, H2.
  destruct a, b. cbn [fst snd] in *. now subst.
Qed.

Lemma tsdrop_app a b : forall prev, tsdrop prev (a ++ b) = tsdrop prev a ++ tsdrop (tl_last prev a) b.
Proof.
  induction a as [|tm a IH]; intros prev; [reflexivity|]. cbn [app tsdrop tl_last].
  destruct (is_ts (snd tm)).
  - destruct (ts_eqb (m_num (snd tm), m_den (snd tm)) prev) eqn:E.
    + apply ts_eqb_eq in E. rewrite E. apply IH.
    + cbn [app]. now rewrite IH.
  - cbn [app]. now rewrite IH.
Qed.

Lemma tl_last_timed p : forall c prev, tl_last prev (timed c p) = ts_last prev p.
Proof.
  induction p as [|m p IH]; intros c prev; [reflexivity|]. cbn [timed ts_last].
  destruct (is_wait m) eqn:Ew.
  - assert (is_ts m = false) as -> by (revert Ew; by_flags m; congruence). apply IH.
  - cbn [tl_last snd]. destruct (is_ts m); apply IH.
Qed.

(* whether a non-wait message of an alternating list is emitted *)
Lemma emit_val s p m :
  is_wait m = false ->
  alt_run (key_of m) false (p ++ [m]) <> None ->
  alt_run (key_of m) false p = Some (is_open (key_of m) (n_open s)) ->
  (depth (key_of m) (n_open s) <= 1)%nat ->
  ks_ok (n_key s) [m] = true ->
  emit s m = if is_ts m then negb (ts_eqb (m_num m, m_den m) (n_ts s)) else true.
Proof.
  intros Ew OK A L K. unfold emit. rewrite alt_run_app, A in OK. cbn [alt_run ks_ok] in *.
  unfold is_key in OK. fold (key_of m) in OK. rewrite k2_eqb_refl in OK. cbn [andb] in OK.
  unfold is_open in OK. revert OK K Ew. by_flags m; intros OK K Ew.
  - discriminate.
  - destruct (depth (key_of m) (n_open s)); cbn [Nat.eqb negb] in *; [reflexivity | congruence].
  - destruct (depth (key_of m) (n_open s)) as [|[|d]]; cbn [Nat.eqb negb] in *; [congruence | reflexivity | lia].
  - reflexivity.
  - now rewrite andb_true_r in K.
  - reflexivity.
Qed.

Definition drop_R (s : nstate) (p : list msg) : Prop :=
  (forall k, alt_run k false p <> None) -> ks_ok None p = true -> nonneg_waits p = true ->
  timed 0 (n_out s) = tsdrop (NONE, NONE) (timed 0 p) /\
  (dur_rel (n_out s) + n_wait s = dur_rel p /\ 0 <= n_wait s) /\
  (forall k, alt_run k false p = Some (is_open k (n_open s)) /\ (depth k (n_open s) <= 1)%nat) /\
  n_ts s = ts_last (NONE, NONE) p /\ n_key s = ks_last None p.

Lemma drop_inv l : drop_R (fold_left nstep l init) l.
Proof.
  apply (fold_inv drop_R).
  - intros _ _ _. repeat split; try reflexivity. cbn. lia.
  - intros s p m IH OK KS NN.
    assert (OKp : forall k, alt_run k false p <> None).
    { intros k H. apply (OK k). now rewrite alt_run_app, H. }
    rewrite ks_ok_app in KS. apply andb_true_iff in KS as [KSp KSm].
    rewrite nonneg_app in NN. apply andb_true_iff in NN as [NNp NNm].
    destruct (IH OKp KSp NNp) as (TM & [D W] & I & Ets & Eks). clear IH.
    pose proof (nonneg_one m NNm) as NN1.
    split; [|split; [apply dur_step; auto | split; [now apply tight_step|]]].
    + rewrite nstep_out, (timed_app p [m]), Z.add_0_l, tsdrop_app, tl_last_timed. cbn [timed].
      destruct (is_wait m) eqn:Ew.
      * assert (E : emit s m = false) by (unfold emit; now rewrite Ew). rewrite E. cbn [tsdrop]. rewrite app_nil_r. exact TM.
      * destruct (I (key_of m)) as [A L]. rewrite <- Eks in KSm.
        rewrite (emit_val s p m Ew (OK (key_of m)) A L KSm). cbn [tsdrop snd]. rewrite <- Ets.
        destruct (is_ts m).
        -- destruct (ts_eqb (m_num m, m_den m) (n_ts s)); cbn [negb]; [rewrite app_nil_r; exact TM|].
           rewrite !timed_app, timed_pend, TM, Z.add_0_l. cbn [app timed]. rewrite Ew.
           rewrite dur_rel_pend by exact W. now rewrite D.
        -- rewrite !timed_app, timed_pend, TM, Z.add_0_l. cbn [app timed]. rewrite Ew.
           rewrite dur_rel_pend by exact W. now rewrite D.
    + rewrite nstep_ts, nstep_key, ts_last_app, ks_last_app, <- Ets, <- Eks. cbn [ts_last ks_last].
      cbn [ks_ok] in KSm. rewrite <- Eks in KSm. split.
      * destruct (is_ts m); [|reflexivity]. cbn [andb].
        destruct (ts_eqb (m_num m, m_den m) (n_ts s)) eqn:E; cbn [negb]; [|reflexivity].
        apply ts_eqb_eq in E. now rewrite E.
      * destruct (is_ks m); [|reflexivity]. rewrite andb_true_r in KSm. now rewrite KSm.
Qed.

(* normalising a list whose notes alternate: every non-wait message keeps its tick; repeated signatures go *)
Lemma normalise_tsdrop o :
  (forall k, alt k false o = true) -> ks_ok None o = true -> nonneg_waits o = true ->
  timed 0 (normalise o) = tsdrop (NONE, NONE) (timed 0 o).
Proof.
  intros AL KS NN.
  assert (A0 : forall k, alt_run k false o = Some false) by (intros k; now apply alt_spec).
  assert (OK : forall k, alt_run k false o <> None) by (intros k; now rewrite A0).
  destruct (drop_inv o OK KS NN) as (TM & [D W] & I & _).
  destruct (alt_inv o) as [ND _]. cbv zeta in ND.
  rewrite normalise_eq, cleanup_closed; [|exact ND|].
  - now rewrite timed_app, timed_pend, app_nil_r.
  - intros k. destruct (I k) as [A _]. rewrite A0 in A. injection A as A. unfold is_open in A.
    destruct (depth k (n_open (fold_left nstep o init))); [reflexivity | discriminate].
Qed.

(* `tsdrop` only touches time signatures *)
Lemma tsdrop_filter (f : Z * msg -> bool) l : (forall tm, is_ts (snd tm) = true -> f tm = false) ->
  forall prev, filter f (tsdrop prev l) = filter f l.
Proof.
  intros Hf. induction l as [|tm l IH]; intros prev; [reflexivity|]. cbn [tsdrop filter].
  destruct (is_ts (snd tm)) eqn:E.
  - rewrite (Hf tm E). destruct (ts_eqb _ _); [apply IH|]. cbn [filter]. rewrite (Hf tm E). apply IH.
  - cbn [filter]. now rewrite IH.
Qed.

Lemma tsdrop_In prev l x : In x (tsdrop prev l) -> In x l.
Proof.
  revert prev. induction l as [|tm l IH]; intros prev H; [destruct H|]. cbn [tsdrop] in H.
  destruct (is_ts (snd tm)).
  - destruct (ts_eqb _ _); [right; now apply IH with prev|]. destruct H as [<-|H]; [now left|right; eapply IH; exact H].
  - destruct H as [<-|H]; [now left|right; eapply IH; exact H].
Qed.

(* a non-signature entry survives *)
Lemma tsdrop_keep prev l x : In x l -> is_ts (snd x) = false -> In x (tsdrop prev l).
Proof.
  revert prev. induction l as [|tm l IH]; intros prev H Hx; [destruct H|]. cbn [tsdrop].
  destruct H as [->|H].
  - rewrite Hx. now left.
  - destruct (is_ts (snd tm)); [destruct (ts_eqb _ _)|]; try (right); now apply IH.
Qed.

(* the time-signature part of tsdrop, computed on the signature entries alone *)
Lemma tsdrop_ts l : forall prev,
  filter (fun tm => is_ts (snd tm)) (tsdrop prev l) = tsdrop prev (filter (fun tm => is_ts (snd tm)) l).
Proof.
  induction l as [|tm l IH]; intros prev; [reflexivity|]. cbn [tsdrop filter].
  destruct (is_ts (snd tm)) eqn:E.
  - cbn [tsdrop]. rewrite E. destruct (ts_eqb _ _); [apply IH|]. cbn [filter]. rewrite E. now rewrite IH.
  - cbn [filter]. rewrite E. apply IH.
Qed.
