(* C15 -- Merging sequences yields exactly the union of their music.
   Model: Seq.merge_abs self others = sort_abs (self ++ concat others) (AbsoluteSequence.merge), followed in
   Store.seq_merge (Sequence.merge) by to_rel and normalise.  Helper definitions (Proofs/C15_proofs.v, C15_norm.v,
   C17_proofs.v):
     sortedb l        := adjacent elements are ordered by key_le          skey m := (time, channel, type rank, pitch)
     tsortedb l       := adjacent elements have non-decreasing times
     key_determines f l := within l, two messages with equal skey have equal images under f   (boolean, quadratic)
     erase m          := m with the velocity of a note-on set to 0
     depth_at k t l   := #note-ons of (channel,pitch) k with time <= t  -  #note-offs of k with time <= t
     sounding k t l   := 0 <? depth_at k t l          wf_depth l := depth_at >= 0 at all keys / ticks occurring in l
     plain_note m     := note message as built by mk_on / mk_off with an integer tick *)
From Coq Require Import ZArith List Bool Permutation.
From Model Require Import Base Seq Pairing Store.
From Proofs Require Import C17_proofs C15_proofs C15_norm.
Import ListNotations.
Open Scope Z_scope.

(* the merged absolute list is the sorted multiset union of the inputs *)
Theorem C15_perm : forall (a : list msg) (others : list (list msg)),
  Permutation (merge_abs a others) (a ++ concat others) /\ sortedb (merge_abs a others) = true.
Proof. exact C15_proofs.C15_perm. Qed.
Print Assumptions C15_perm.

(* what sortedb means: every earlier element is below every later one *)
Theorem C15_sorted_strong : forall l, sortedb l = true ->
  forall i j x y, (i < j)%nat -> nth_error l i = Some x -> nth_error l j = Some y -> key_le x y = true.
Proof. exact C15_proofs.sortedb_strong. Qed.
Print Assumptions C15_sorted_strong.

(* clause "notes do not depend on the order in which the sequences are merged", on the merged absolute list:
   whenever two merges have the same multiset of input messages (any permutation of the arguments, self swapped
   with an argument, ...) the merged lists are permutations of each other with the same sequence of
   (tick, channel, type, pitch) -- for ALL inputs, no well-formedness needed *)
Theorem C15_order_projection : forall (a b : list msg) (o1 o2 : list (list msg)),
  Permutation (a ++ concat o1) (b ++ concat o2) ->
  Permutation (merge_abs a o1) (merge_abs b o2) /\
  map skey (merge_abs a o1) = map skey (merge_abs b o2).
Proof. exact C15_proofs.C15_order_projection. Qed.
Print Assumptions C15_order_projection.

Theorem C15_order_args : forall (a : list msg) (o1 o2 : list (list msg)),
  Permutation o1 o2 -> map skey (merge_abs a o1) = map skey (merge_abs a o2).
Proof. exact C15_proofs.C15_order_args. Qed.
Print Assumptions C15_order_args.

Theorem C15_order_self : forall (a b : list msg) (o : list (list msg)),
  map skey (merge_abs a (b :: o)) = map skey (merge_abs b (a :: o)).
Proof. exact C15_proofs.C15_order_self. Qed.
Print Assumptions C15_order_self.

(* if no two different input messages share a sort key, the merged lists are literally equal *)
Theorem C15_order_full : forall (a b : list msg) (o1 o2 : list (list msg)),
  Permutation (a ++ concat o1) (b ++ concat o2) ->
  key_determines (fun m => m) (a ++ concat o1) = true ->
  merge_abs a o1 = merge_abs b o2.
Proof. exact C15_proofs.C15_order_full. Qed.
Print Assumptions C15_order_full.

(* the same clause through to_rel and normalise, i.e. for the relative view Sequence.merge leaves behind: if input
   messages with equal sort key agree up to note-on velocity, the normalised relative views agree up to note-on
   velocity (same messages, same waits: pitch, onset, duration of every note are independent of the merge order).
   The hypothesis is needed: see C15_order_signature_refuted. *)
Theorem C15_order_rel : forall (a b : list msg) (o1 o2 : list (list msg)),
  Permutation (a ++ concat o1) (b ++ concat o2) ->
  key_determines erase (a ++ concat o1) = true ->
  map erase (normalise (to_rel (merge_abs a o1))) = map erase (normalise (to_rel (merge_abs b o2))).
Proof. exact C15_norm.C15_order_rel. Qed.
Print Assumptions C15_order_rel.

(* the hypothesis holds whenever all inputs consist of plain note messages *)
Theorem C15_order_rel_notes : forall l : list msg, forallb plain_note l = true -> key_determines erase l = true.
Proof. exact C15_norm.plain_notes_key_determines. Qed.
Print Assumptions C15_order_rel_notes.

(* REFUTED without the hypothesis (for signatures, not for notes): two inputs carrying different time signatures at
   the same tick and channel -- which of them ends up in force depends on the merge order *)
Theorem C15_order_signature_refuted : exists (a b : list msg),
  Permutation (a ++ concat [b]) (b ++ concat [a]) /\
  map erase (normalise (to_rel (merge_abs a [b]))) <> map erase (normalise (to_rel (merge_abs b [a]))).
Proof.
  exists C15_norm.ex_t34, C15_norm.ex_t44. destruct C15_norm.C15_ex_sig_order as (H1 & _ & H2). split; assumption.
Qed.
Print Assumptions C15_order_signature_refuted.

(* clause "the duration is the maximum input duration", absolute list: the last message of the merged list is an
   input message whose time is >= every input time, in particular >= the last time of every input; if the inputs
   are time-sorted it IS the last time of one of them (so: the maximum of the inputs' last times) *)
Theorem C15_duration : forall (a : list msg) (others : list (list msg)) (m : msg),
  last_opt (merge_abs a others) = Some m ->
  In m (a ++ concat others) /\
  (forall x, In x (a ++ concat others) -> m_time x <= m_time m) /\
  (forall l x, In l (a :: others) -> last_opt l = Some x -> m_time x <= m_time m) /\
  (forallb tsortedb (a :: others) = true ->
   exists l x, In l (a :: others) /\ last_opt l = Some x /\ m_time x = m_time m).
Proof. exact C15_proofs.C15_duration. Qed.
Print Assumptions C15_duration.

Theorem C15_duration_empty : forall (a : list msg) (others : list (list msg)),
  last_opt (merge_abs a others) = None <-> a ++ concat others = [].
Proof. exact C15_proofs.C15_duration_empty. Qed.
Print Assumptions C15_duration_empty.

(* same clause for the relative view after normalise: the sum of its waits is that maximum (0 if it is negative) *)
Theorem C15_duration_rel : forall (a : list msg) (others : list (list msg)) (m : msg),
  last_opt (merge_abs a others) = Some m ->
  dur_rel (normalise (to_rel (merge_abs a others))) = Z.max 0 (m_time m).
Proof. exact C15_norm.C15_duration_rel. Qed.
Print Assumptions C15_duration_rel.

(* clause "the set of sounding (channel, pitch, tick) triples equals the union of the inputs' sets, overlapping notes
   fused" -- PARTIAL: proved for the merged ABSOLUTE list (before to_rel / normalise):
   (1) its note messages are exactly the inputs' note messages (multiset);
   (2) depth (open minus closed notes of a (channel,pitch) up to a tick) is the sum of the inputs' depths;
   (3) for inputs that never close a note more often than they opened it, (channel,pitch) sounds at tick t in the
       merged list iff it sounds at t in one of the inputs (overlapping notes give depth 2, still "sounding").
   Missing: that normalise (which replaces depth by min(depth,1), i.e. fuses overlapping notes, drops orphan
   note-offs and removes never-closed note-ons) keeps the set {(k,t) | depth > 0} of its input, and the clause on
   signature events (normalise drops a signature equal to the one in force). *)
Theorem C15_sound_notes_partial : forall (a : list msg) (others : list (list msg)),
  Permutation (filter is_note (merge_abs a others)) (filter is_note a ++ concat (map (filter is_note) others)).
Proof. exact C15_proofs.C15_notes_perm. Qed.
Print Assumptions C15_sound_notes_partial.

Theorem C15_sound_depth_partial : forall (a : list msg) (others : list (list msg)) (k : k2) (t : Z),
  depth_at k t (merge_abs a others) = sumZ (map (depth_at k t) (a :: others)).
Proof. exact C15_proofs.C15_depth_sum. Qed.
Print Assumptions C15_sound_depth_partial.

Theorem C15_sound_partial : forall (a : list msg) (others : list (list msg)) (k : k2) (t : Z),
  forallb wf_depth (a :: others) = true ->
  sounding k t (merge_abs a others) = existsb (sounding k t) (a :: others).
Proof. exact C15_proofs.C15_sound. Qed.
Print Assumptions C15_sound_partial.

(* the boolean well-formedness check (finitely many keys / ticks) means: depth >= 0 for every key and tick *)
Theorem C15_wf_depth_spec : forall l : list msg, wf_depth l = true -> forall k t, 0 <= depth_at k t l.
Proof. exact C15_proofs.wf_depth_spec. Qed.
Print Assumptions C15_wf_depth_spec.

(* lift to the Sequence wrapper: what Sequence.merge computes from the (refreshed) absolute views *)
Theorem C15_seq : forall (s s1 : seq) (others os : list seq) (a : list msg) (as_ : list (list msg)),
  get_abs s = Ok (s1, a) -> refresh_abs_all others = Ok (os, as_) ->
  seq_merge s others =
    Ok (mkseq (merge_abs a as_) (normalise (to_rel (merge_abs a as_))) true false, os).
Proof. exact C15_proofs.seq_merge_spec. Qed.
Print Assumptions C15_seq.

(* ---------------------------------------------------------------- sounding-set clause, through normalise *)
From Proofs Require Import C04_sort C07_proofs Sound_glue C15_sound.
(* Definitions (Proofs/Sound_glue.v):  nnt l := all times >= 0;
     sdepth k t l := #note-ons of k with time < t  -  #note-offs of k with time <= t;
     sbal l := for every key of l, sdepth >= 0 at every tick of l and #on = #off  (sbal_spec: then sdepth >= 0 at
               EVERY tick: each note-off closes a note of its key that started STRICTLY earlier; every note is closed);
     nover l := depth_at <= 1 everywhere (no two notes of a key overlap);
     swf l := per key the note messages strictly alternate in list order (on, strictly later off, on, ...);
     tsorted := C04_sort.tsorted (times non-decreasing). *)

(* clause "the set of sounding (channel, pitch, tick) triples equals the union of the inputs' sets, overlapping notes
   of the same channel and pitch being fused into one note" -- FULL for inputs without zero-length notes:
   for absolute inputs with non-negative times and sbal (inputs need not be sorted and MAY overlap each other and
   themselves on a key), the absolute view of the merged, normalised sequence sounds at (k, t) iff one of the inputs
   does; that view is time-sorted, strictly alternating per key (so overlapping notes have become one note from the
   earliest start to the latest end) and satisfies the hypotheses again *)
Theorem C15_sound : forall (a : list msg) (others : list (list msg)),
  forallb nnt (a :: others) = true -> forallb sbal (a :: others) = true ->
  let v := to_abs (normalise (to_rel (merge_abs a others))) in
  (forall k t, C15_proofs.sounding k t v = existsb (C15_proofs.sounding k t) (a :: others)) /\
  tsorted v = true /\ nnt v = true /\ swf v = true /\ sbal v = true /\ nover v = true.
Proof. exact Proofs.C15_sound.C15_sound. Qed.
Print Assumptions C15_sound.

(* the same for the relative view that Sequence.merge leaves fresh, with C07's list-order notion of sounding *)
Theorem C15_sound_rel : forall (a : list msg) (others : list (list msg)),
  forallb nnt (a :: others) = true -> forallb sbal (a :: others) = true ->
  let r := normalise (to_rel (merge_abs a others)) in
  (forall k t, C07_proofs.sounding k t 0 0 r = existsb (C15_proofs.sounding k t) (a :: others)) /\
  (forall k, alt k false r = true) /\ C07_proofs.nonneg_waits r = true.
Proof. exact Proofs.C15_sound.C15_sound_rel. Qed.
Print Assumptions C15_sound_rel.

(* lifted to the Sequence wrapper (Store.seq_merge = Sequence.merge) *)
Theorem C15_sound_seq : forall (s s1 : seq) (others os : list seq) (a : list msg) (as_ : list (list msg)),
  get_abs s = Ok (s1, a) -> refresh_abs_all others = Ok (os, as_) ->
  forallb nnt (a :: as_) = true -> forallb sbal (a :: as_) = true ->
  exists m m' v, seq_merge s others = Ok (m, os) /\ get_abs m = Ok (m', v) /\
    (forall k t, C15_proofs.sounding k t v = existsb (C15_proofs.sounding k t) (a :: as_)) /\
    tsorted v = true /\ swf v = true.
Proof. exact Proofs.C15_sound.C15_sound_seq. Qed.
Print Assumptions C15_sound_seq.

(* time-sorted strictly alternating inputs (swf) satisfy sbal *)
Theorem C15_sound_swf_inputs : forall ls : list (list msg),
  forallb tsorted ls = true -> forallb swf ls = true -> forallb sbal ls = true.
Proof. exact Proofs.C15_sound.swf_inputs_ok. Qed.
Print Assumptions C15_sound_swf_inputs.

(* what sbal means *)
Theorem C15_sbal_spec : forall l : list msg, sbal l = true ->
  forall k, (forall t, 0 <= sdepth k t l) /\ zdelta k l = 0.
Proof. exact Sound_glue.sbal_spec. Qed.
Print Assumptions C15_sbal_spec.

(* REFUTED without "no zero-length note" (finding): both inputs are time-sorted, balanced in list order and never
   have negative depth (they satisfy the hypothesis of C15_sound_partial); the first is a single zero-length note
   (NOTE_ON and NOTE_OFF of (0,60) at tick 5), the second a real note of (0,60) from tick 5 to 10.  After
   Sequence.merge nothing sounds: the sort puts NOTE_OFF before NOTE_ON on one tick (off5 on5 on5 off10), normalise
   drops the first off as an orphan, counts depth 2, is left with an unclosed note and removes its NOTE_ON. *)
Theorem C15_sound_zero_length_refuted : exists (a b : list msg) (k : k2) (t : Z),
  forallb tsorted [a; b] = true /\ forallb nnt [a; b] = true /\ forallb balanced [a; b] = true /\
  forallb wf_depth [a; b] = true /\
  existsb (C15_proofs.sounding k t) [a; b] = true /\
  C15_proofs.sounding k t (to_abs (normalise (to_rel (merge_abs a [b])))) = false.
Proof.
  exists Proofs.C15_sound.z1, Proofs.C15_sound.z2, (0, 60), 7.
  destruct Proofs.C15_sound.C15_sound_zero_length_refuted as (H1 & H2 & H3 & H4 & _ & H6 & H7 & _). auto 10.
Qed.
Print Assumptions C15_sound_zero_length_refuted.

(* ---------------------------------------------------------------- signature clause *)
From Proofs Require Import Sig_glue C15_sigs.
(* Definitions (Proofs/Sig_glue.v), all independent of the model functions:
     ts_events a  := (tick, (numerator, denominator)) of every TIME_SIGNATURE message of the ABSOLUTE list a, in list order
     ks_events a  := (tick, key) of every KEY_SIGNATURE message of a;     tsig := Z * Z, ts_none := (-1,-1) = "none"
     rts_events r / rks_events r := the same for a RELATIVE list r (tick = sum of the WAITs before the message)
     dedup_ts prev l := l without every event whose signature equals that of the previously KEPT event (prev before the
                        list; see C15_sig_dedup_unfold);  dedup_ks likewise with option Key
     ts_in_force d l t := signature of the entry of l with the greatest tick <= t (of several at that tick the last one),
                        d if there is none; for a list with non-decreasing ticks: of the last entry with tick <= t
                        (C15_sig_in_force_sorted);   ks_in_force likewise
     ev_sorted l := ticks non-decreasing;   ts_clash_free l / ks_clash_free l := no two different signatures share a tick *)

Theorem C15_sig_dedup_unfold : forall prev c v l,
  dedup_ts prev [] = [] /\
  dedup_ts prev ((c, v) :: l) = (if ts_eqb v prev then dedup_ts prev l else (c, v) :: dedup_ts v l).
Proof. intros. split; [reflexivity|apply dedup_ts_cons]. Qed.
Print Assumptions C15_sig_dedup_unfold.

Theorem C15_sig_in_force_sorted : forall d l t, ev_sorted l = true ->
  ts_in_force d l t = last_le d l t /\
  last_le d l t = match l with [] => d | (c, v) :: l' => if c <=? t then last_le v l' t else last_le d l' t end.
Proof. intros d l t S. split; [now apply ts_in_force_sorted|]. destruct l as [|[c v] l']; reflexivity. Qed.
Print Assumptions C15_sig_in_force_sorted.

(* clause "every signature event that does not repeat the one in force is kept at its tick" -- FULL for inputs with
   non-negative times: both views of the merged, normalised sequence (the relative view Sequence.merge leaves fresh and
   the absolute view regenerated from it) carry exactly the signature events of the sorted merged list that do not
   repeat the signature in force, in the same order, at the same ticks -- whatever the notes are *)
Theorem C15_signatures : forall (a : list msg) (others : list (list msg)),
  forallb nnt (a :: others) = true ->
  let M := merge_abs a others in
  let r := normalise (to_rel M) in
  rts_events r = dedup_ts ts_none (ts_events M) /\ rks_events r = dedup_ks None (ks_events M) /\
  ts_events (to_abs r) = dedup_ts ts_none (ts_events M) /\ ks_events (to_abs r) = dedup_ks None (ks_events M).
Proof. exact C15_sigs.C15_signatures. Qed.
Print Assumptions C15_signatures.

(* the signature events of the sorted merged list are the inputs' signature events (multiset), ticks non-decreasing *)
Theorem C15_signatures_merged : forall (a : list msg) (others : list (list msg)),
  (Permutation (ts_events (merge_abs a others)) (ts_events (a ++ concat others)) /\
   ev_sorted (ts_events (merge_abs a others)) = true) /\
  (Permutation (ks_events (merge_abs a others)) (ks_events (a ++ concat others)) /\
   ev_sorted (ks_events (merge_abs a others)) = true).
Proof.
  intros a others. destruct (C15_sigs.merge_ts_events a others) as (_ & H1 & H2).
  destruct (C15_sigs.merge_ks_events a others) as (_ & H3 & H4). auto.
Qed.
Print Assumptions C15_signatures_merged.

(* lifted to the Sequence wrapper (Store.seq_merge = Sequence.merge) *)
Theorem C15_signatures_seq : forall (s s1 : seq) (others os : list seq) (a : list msg) (as_ : list (list msg)),
  get_abs s = Ok (s1, a) -> refresh_abs_all others = Ok (os, as_) -> forallb nnt (a :: as_) = true ->
  exists m m' v, seq_merge s others = Ok (m, os) /\ get_abs m = Ok (m', v) /\
    rts_events (s_rel m) = dedup_ts ts_none (ts_events (merge_abs a as_)) /\
    rks_events (s_rel m) = dedup_ks None (ks_events (merge_abs a as_)) /\
    ts_events v = dedup_ts ts_none (ts_events (merge_abs a as_)) /\
    ks_events v = dedup_ks None (ks_events (merge_abs a as_)).
Proof. exact C15_sigs.C15_signatures_seq. Qed.
Print Assumptions C15_signatures_seq.

(* consequence: at every tick the signature in force in the result is the one in force in the sorted merged list *)
Theorem C15_signatures_in_force_sorted : forall (a : list msg) (others : list (list msg)) (t : Z),
  forallb nnt (a :: others) = true ->
  let M := merge_abs a others in
  ts_in_force ts_none (ts_events (to_abs (normalise (to_rel M)))) t = ts_in_force ts_none (ts_events M) t /\
  ks_in_force None (ks_events (to_abs (normalise (to_rel M)))) t = ks_in_force None (ks_events M) t.
Proof. exact C15_sigs.C15_signatures_in_force_sorted. Qed.
Print Assumptions C15_signatures_in_force_sorted.

(* ... and, PROVIDED no two different signatures of that type share a tick across all inputs (then "in force" is well
   defined for a multiset), the one in force in the multiset union of the inputs' signature events *)
Theorem C15_signatures_in_force_ts : forall (a : list msg) (others : list (list msg)) (t : Z),
  forallb nnt (a :: others) = true -> ts_clash_free (ts_events (a ++ concat others)) = true ->
  ts_in_force ts_none (ts_events (to_abs (normalise (to_rel (merge_abs a others))))) t
  = ts_in_force ts_none (ts_events (a ++ concat others)) t.
Proof. exact C15_sigs.C15_signatures_in_force_ts. Qed.
Print Assumptions C15_signatures_in_force_ts.

Theorem C15_signatures_in_force_ks : forall (a : list msg) (others : list (list msg)) (t : Z),
  forallb nnt (a :: others) = true -> ks_clash_free (ks_events (a ++ concat others)) = true ->
  ks_in_force None (ks_events (to_abs (normalise (to_rel (merge_abs a others))))) t
  = ks_in_force None (ks_events (a ++ concat others)) t.
Proof. exact C15_sigs.C15_signatures_in_force_ks. Qed.
Print Assumptions C15_signatures_in_force_ks.

(* hence the signatures in force do not depend on the order in which the sequences are merged *)
Theorem C15_signatures_order : forall (a b : list msg) (o1 o2 : list (list msg)) (t : Z),
  Permutation (a ++ concat o1) (b ++ concat o2) ->
  forallb nnt (a :: o1) = true -> forallb nnt (b :: o2) = true ->
  (ts_clash_free (ts_events (a ++ concat o1)) = true ->
   ts_in_force ts_none (ts_events (to_abs (normalise (to_rel (merge_abs a o1))))) t
   = ts_in_force ts_none (ts_events (to_abs (normalise (to_rel (merge_abs b o2))))) t) /\
  (ks_clash_free (ks_events (a ++ concat o1)) = true ->
   ks_in_force None (ks_events (to_abs (normalise (to_rel (merge_abs a o1))))) t
   = ks_in_force None (ks_events (to_abs (normalise (to_rel (merge_abs b o2))))) t).
Proof. exact C15_sigs.C15_signatures_order. Qed.
Print Assumptions C15_signatures_order.

(* the underlying fact about normalise alone (Sig_glue): for ANY key-sorted absolute list with non-negative times --
   and, in the relative view, any time-sorted one -- normalise keeps exactly the signature events that do not repeat
   the one in force, at their ticks *)
Theorem C15_signatures_normalise : forall a : list msg, nnt a = true ->
  (tsorted a = true ->
   rts_events (normalise (to_rel a)) = dedup_ts ts_none (ts_events a) /\
   rks_events (normalise (to_rel a)) = dedup_ks None (ks_events a)) /\
  (sortedb a = true ->
   ts_events (to_abs (normalise (to_rel a))) = dedup_ts ts_none (ts_events a) /\
   ks_events (to_abs (normalise (to_rel a))) = dedup_ks None (ks_events a)).
Proof.
  intros a N. split; intros S.
  - split; [now apply round_rts|now apply round_rks].
  - split; [now apply round_ts|now apply round_ks].
Qed.
Print Assumptions C15_signatures_normalise.

(* the proviso of C15_signatures_in_force_ts is needed: two inputs with different time signatures at one tick -- which
   of them is in force depends on the merge order (cf. C15_order_signature_refuted) *)
Theorem C15_signatures_in_force_proviso_needed : exists (a b : list msg),
  forallb nnt [a; b] = true /\ ts_clash_free (ts_events (a ++ concat [b])) = false /\
  ts_in_force ts_none (ts_events (to_abs (normalise (to_rel (merge_abs a [b]))))) 0
  <> ts_in_force ts_none (ts_events (to_abs (normalise (to_rel (merge_abs b [a]))))) 0.
Proof.
  exists [mk_ts 0 3 4 0 false], [mk_ts 0 4 4 0 false]. split; [reflexivity|]. split; [reflexivity|].
  vm_compute. discriminate.
Qed.
Print Assumptions C15_signatures_in_force_proviso_needed.

(* non-negative times are needed for the TICKS: to_rel moves a message with a negative time to tick 0 *)
Theorem C15_signatures_negative_time_refuted : exists a : list msg,
  nnt a = false /\ ts_events (merge_abs a []) = [(-5, (3, 4))] /\
  ts_events (to_abs (normalise (to_rel (merge_abs a [])))) = [(0, (3, 4))].
Proof. exists [mk_ts 0 3 4 (-5) false]. vm_compute. repeat split; reflexivity. Qed.
Print Assumptions C15_signatures_negative_time_refuted.
