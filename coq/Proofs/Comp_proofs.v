(* Comp_proofs -- the Bar / Track / Composition objects of Model/Comp.v: bar construction and copy (C10), bar
   transposition (C14), composition copy and frame (C16), integer ticks (C11).  Built on the list-level theorems of
   C10_proofs / C10_copy / C14_proofs / C20_proofs / C11_proofs / C16_proofs; the property theorems are restated in
   Props/C10.v, C14.v, C16.v, C11.v. *)
From Coq Require Import ZArith List Bool Lia.
From Model Require Import Base Seq Pairing Util Bars Store Comp Show.
From Proofs Require Import C18_proofs C10_proofs C10_copy C20_proofs C14_proofs C11_proofs C16_proofs.
Import ListNotations.
Open Scope Z_scope.

(* ================================================================ helpers *)
(* peel one `do x <- r; k` off a hypothesis  E : rbind r k = Ok _ *)
Ltac bindc E x Ex :=
  match type of E with
  | rbind ?r _ = Ok _ => destruct r as [x | ?] eqn:Ex; [cbn [rbind] in E | discriminate E]
  end.

Lemma get_rel_fresh s : s_rel_stale s = false -> get_rel s = Ok (s, s_rel s).
Proof. intros H. unfold get_rel. now rewrite H. Qed.

Lemma get_rel_result s s1 r : get_rel s = Ok (s1, r) -> s_rel_stale s1 = false /\ s_rel s1 = r.
Proof.
  unfold get_rel. destruct (s_rel_stale s) eqn:E.
  - destruct (s_abs_stale s); [discriminate|]. intros H. inversion H; subst. now split.
  - intros H. inversion H; subst. now split.
Qed.

Lemma mapM_Forall2 {A B} (f : A -> result B) l : forall rs, mapM f l = Ok rs -> Forall2 (fun x y => f x = Ok y) l rs.
Proof.
  induction l as [|a l IH]; intros rs E; cbn [mapM] in E; [inversion E; constructor|].
  bindc E y Ey. bindc E ys Eys. inversion E; subst. constructor; auto.
Qed.

Lemma Forall2_mapM {A B} (f : A -> result B) l rs : Forall2 (fun x y => f x = Ok y) l rs -> mapM f l = Ok rs.
Proof. induction 1 as [|a y l rs H _ IH]; cbn [mapM]; [reflexivity|]. now rewrite H, IH. Qed.

Lemma Forall2_nth {A B} (R : A -> B -> Prop) l l' : Forall2 R l l' ->
  length l' = length l /\ forall i x, nth_error l i = Some x -> exists y, nth_error l' i = Some y /\ R x y.
Proof.
  induction 1 as [|a b l l' H _ [IHl IH]]; split; cbn [length]; try congruence.
  - intros [|i] x; discriminate.
  - intros [|i] x Hx; cbn [nth_error] in *; [inversion Hx; subst; eauto|]. now apply IH.
Qed.

Lemma Forall2_impl {A B} (R R' : A -> B -> Prop) l l' : (forall x y, R x y -> R' x y) -> Forall2 R l l' -> Forall2 R' l l'.
Proof. intros H. induction 1; constructor; auto. Qed.

Lemma cbar_new_inv s num den key b : cbar_new s num den key = Ok b ->
  exists s1 r r', get_rel s = Ok (s1, r) /\ bar_init r num den = Ok r' /\
                  b = mkcbar (mkseq (s_abs s1) r' true false) num den key.
Proof.
  intros E. unfold cbar_new in E. bindc E x Ex. destruct x as [s1 r]. bindc E r' Er. inversion E; subst. eauto 6.
Qed.

(* ================================================================ C14: Bar.transpose *)
(* the key attribute of the bar is transposed by the same interval (never becomes undefined, new tonic = old tonic +
   k mod 12), the signature is kept, and the bar's sequence is exactly Sequence.transpose of the old one, returning
   the same flag -- so every C14_seq* theorem describes it *)
Theorem C14_bar_key : forall (b b' : cbar) (k : Z) (f : bool), cbar_transpose b k = Ok (b', f) ->
  seq_transpose (cb_seq b) k = Ok (cb_seq b', f) /\
  cb_num b' = cb_num b /\ cb_den b' = cb_den b /\
  (forall ky, cb_key b = Some ky ->
     exists ky' t, cb_key b' = Some ky' /\ transpose_key ky k = Some ky' /\
                   tonic ky = Some t /\ tonic ky' = Some ((t + k) mod 12)) /\
  (cb_key b = None -> cb_key b' = None).
Proof.
  intros b b' k f E. unfold cbar_transpose in E. bindc E x Ex. destruct x as [s' f0]. inversion E; subst.
  cbn [cb_seq cb_num cb_den cb_key]. repeat split.
  - intros ky Hk. rewrite Hk.
    destruct (C20_tonic_scale ky k) as (k' & t & sc & t' & sc' & Ht & Hto & _ & Hto' & _ & Et & _).
    exists k', t. subst t'. auto.
  - intros Hk. now rewrite Hk.
Qed.

(* Bar.transpose never raises on a bar whose sequence can be read, and the flag is the flag of the relative view *)
Theorem C14_bar_transpose_total : forall (b : cbar) (k : Z) (s1 : seq) (r : list msg),
  get_rel (cb_seq b) = Ok (s1, r) -> exists b', cbar_transpose b k = Ok (b', snd (transpose r k)).
Proof.
  intros b k s1 r Hg. destruct (C14_seq_flag _ _ _ k Hg) as [s' Hs]. unfold cbar_transpose. rewrite Hs. cbn [rbind].
  eauto.
Qed.

(* in particular on every bar made by the constructor *)
Theorem C14_bar_transpose_new : forall (s : seq) (num den : Z) (key : option Key) (b : cbar) (k : Z),
  cbar_new s num den key = Ok b ->
  exists b', cbar_transpose b k = Ok (b', snd (transpose (s_rel (cb_seq b)) k)).
Proof.
  intros s num den key b k E. destruct (cbar_new_inv _ _ _ _ _ E) as (s1 & r & r' & _ & _ & ->).
  eapply C14_bar_transpose_total. apply get_rel_fresh. reflexivity.
Qed.

(* flag false: the bar's new relative view is the plainly transposed list *)
Theorem C14_bar_plain : forall (b b' : cbar) (k : Z) (s1 : seq) (r : list msg),
  get_rel (cb_seq b) = Ok (s1, r) -> cbar_transpose b k = Ok (b', false) ->
  cb_seq b' = mkseq (s_abs s1) (map (plain_msg k) r) true false.
Proof.
  intros b b' k s1 r Hg E. destruct (C14_bar_key _ _ _ _ E) as (Hs & _).
  destruct (C14_seq_flag _ _ _ k Hg) as [s' Hs']. rewrite Hs in Hs'. injection Hs' as _ Hf.
  symmetry in Hf. rewrite (C14_seq _ _ _ k Hg Hf) in Hs. injection Hs as Hq. now rewrite <- (C14_plain r k Hf).
Qed.

Definition ex_bar_seq : seq := seq_of_rel [ks 0 K_D_B 0; on 0 60 100 0; wt 0 24; of 0 60 0].
Example C14_bar_ex :
  exists b, cbar_new ex_bar_seq 4 4 (Some K_D_B) = Ok b /\
  exists b', cbar_transpose b 1 = Ok (b', false) /\ cb_key b' = Some K_D /\
  exists b'', cbar_transpose b 60 = Ok (b'', true) /\ cb_key b'' = Some K_D_B.
Proof. eexists. split; [vm_compute; reflexivity|]. eexists. split; [vm_compute; reflexivity|]. split; [reflexivity|].
  eexists. split; [vm_compute; reflexivity|]. reflexivity. Qed.

(* ================================================================ C10: the Bar object *)
Theorem C10_bar_object : forall (s : seq) (num den : Z) (key : option Key) (b : cbar),
  cbar_new s num den key = Ok b ->
  s_rel_stale (cb_seq b) = false /\ s_abs_stale (cb_seq b) = true /\
  dur_rel (s_rel (cb_seq b)) = bar_capacity num den /\
  (exists tl, s_rel (cb_seq b) = mk_ts 0 num den 0 false :: tl /\ forallb (fun m => negb (is_ts m)) tl = true) /\
  cb_num b = num /\ cb_den b = den /\ cb_key b = key.
Proof.
  intros s num den key b E. destruct (cbar_new_inv _ _ _ _ _ E) as (s1 & r & r' & _ & Hb & ->).
  cbn [cb_seq cb_num cb_den cb_key s_rel s_rel_stale s_abs_stale]. repeat split.
  - exact (C10_duration _ _ _ _ Hb).
  - exact (C10_signature _ _ _ _ Hb).
Qed.

(* the constructor either yields a bar or raises: a bar error, or the sequence error of an unreadable sequence *)
Theorem C10_bar_total : forall (s : seq) (num den : Z) (key : option Key),
  (exists b, cbar_new s num den key = Ok b) \/ cbar_new s num den key = Err BarErr \/
  (cbar_new s num den key = Err SeqErr /\ s_abs_stale s = true /\ s_rel_stale s = true).
Proof.
  intros s num den key. unfold cbar_new, get_rel.
  destruct (s_rel_stale s) eqn:Er; [destruct (s_abs_stale s) eqn:Ea|]; cbn [rbind]; [right; right; auto| |].
  - destruct (C10_total (to_rel (s_abs s)) num den) as [[r ->]| ->]; cbn [rbind]; eauto.
  - destruct (C10_total (s_rel s) num den) as [[r ->]| ->]; cbn [rbind]; eauto.
Qed.

Lemma cbar_copy_spec b r2 : s_rel_stale (cb_seq b) = false -> s_abs_stale (cb_seq b) = true ->
  bar_init (s_rel (cb_seq b)) (cb_num b) (cb_den b) = Ok r2 ->
  cbar_copy b = Ok (mkcbar (mkseq [] r2 true false) (cb_num b) (cb_den b) (cb_key b)).
Proof.
  intros Hr Ha Hb. unfold cbar_copy, cbar_new, seq_copy. rewrite Hr, Ha. unfold seq_of_rel, get_rel.
  cbn [s_rel_stale s_rel s_abs rbind]. rewrite Hb. reflexivity.
Qed.

Theorem C10_bar_copy : forall (s : seq) (num den : Z) (key : option Key) (b : cbar),
  cbar_new s num den key = Ok b ->
  exists b', cbar_copy b = Ok b' /\ cb_num b' = num /\ cb_den b' = den /\ cb_key b' = key /\
             s_rel_stale (cb_seq b') = false /\ s_abs_stale (cb_seq b') = true /\
             ticks (s_rel (cb_seq b')) 0 = ticks (s_rel (cb_seq b)) 0 /\
             dur_rel (s_rel (cb_seq b')) = dur_rel (s_rel (cb_seq b)).
Proof.
  intros s num den key b E. destruct (cbar_new_inv _ _ _ _ _ E) as (s1 & r & r' & _ & Hb & ->).
  destruct (C10_copy _ _ _ _ Hb) as (r2 & H2 & Ht & Hd).
  eexists. split; [apply cbar_copy_spec; [reflexivity|reflexivity|exact H2]|].
  cbn [cb_seq cb_num cb_den cb_key s_rel s_rel_stale s_abs_stale]. auto 10.
Qed.

(* the copy is itself a constructor-made bar (so it can be copied again, transposed, ...) *)
Lemma cbar_copy_new b b' : cbar_copy b = Ok b' -> cbar_new (seq_copy (cb_seq b)) (cb_num b') (cb_den b') (cb_key b') = Ok b'.
Proof.
  intros E. unfold cbar_copy in E. destruct (cbar_new_inv _ _ _ _ _ E) as (s1 & r & r' & _ & _ & Eb).
  rewrite Eb at 1 2 3. cbn [cb_num cb_den cb_key]. exact E.
Qed.

Example C10_bar_ex :
  exists b, cbar_new ex_bar_seq 4 4 (Some K_D_B) = Ok b /\ dur_rel (s_rel (cb_seq b)) = 96 /\
  exists b', cbar_copy b = Ok b' /\ s_rel (cb_seq b') = s_rel (cb_seq b).
Proof. eexists. split; [vm_compute; reflexivity|]. split; [reflexivity|]. eexists. split; vm_compute; reflexivity. Qed.
Example C10_bar_ex_reject : cbar_new (seq_of_rel [wt 0 100]) 3 4 None = Err BarErr /\ cbar_new (mkseq [] [] true true) 4 4 None = Err SeqErr.
Proof. split; vm_compute; reflexivity. Qed.

(* ================================================================ C16: frame of an operation on one bar *)
(* comp_on_bar c ti bi f applies the bar operation f (transpose, copy, any history on the bar's sequence ...) to bar
   bi of track ti.  Every other track is literally unchanged, and in track ti every other bar and the program are
   literally unchanged; the shape is kept. *)
Theorem C16_comp_frame : forall (c c' : comp) (ti bi : nat) (f : cbar -> result cbar),
  comp_on_bar c ti bi f = Ok c' ->
  length c' = length c /\
  (forall tj, tj <> ti -> nth_error c' tj = nth_error c tj) /\
  exists t b b' t', nth_error c ti = Some t /\ nth_error (ct_bars t) bi = Some b /\ f b = Ok b' /\
    nth_error c' ti = Some t' /\ ct_program t' = ct_program t /\ length (ct_bars t') = length (ct_bars t) /\
    nth_error (ct_bars t') bi = Some b' /\
    (forall bj, bj <> bi -> nth_error (ct_bars t') bj = nth_error (ct_bars t) bj).
Proof.
  intros c c' ti bi f E. unfold comp_on_bar in E.
  destruct (nth_error c ti) as [t|] eqn:Et; [|discriminate].
  destruct (nth_error (ct_bars t) bi) as [b|] eqn:Eb; [|discriminate].
  bindc E b' Ef. inversion E; subst. split; [apply set_nth_length|]. split.
  - intros tj Hj. apply nth_error_set_nth_other. congruence.
  - exists t, b, b'. eexists. split; [reflexivity|]. split; [exact Eb|]. split; [exact Ef|].
    split; [exact (nth_error_set_nth_same _ _ _ _ Et)|]. cbn [ct_program ct_bars].
    split; [reflexivity|]. split; [apply set_nth_length|].
    split; [exact (nth_error_set_nth_same _ _ _ _ Eb)|].
    intros bj Hj. apply nth_error_set_nth_other. congruence.
Qed.

(* nothing else can happen: the call fails exactly when an index is out of range or the bar operation fails, and then
   there is no new composition at all (the model is functional: the old one is still the value of c) *)
Theorem C16_comp_frame_err : forall (c : comp) (ti bi : nat) (f : cbar -> result cbar) (e : err),
  comp_on_bar c ti bi f = Err e ->
  (e = IndexErr /\ (nth_error c ti = None \/ exists t, nth_error c ti = Some t /\ nth_error (ct_bars t) bi = None)) \/
  exists t b, nth_error c ti = Some t /\ nth_error (ct_bars t) bi = Some b /\ f b = Err e.
Proof.
  intros c ti bi f e E. unfold comp_on_bar in E.
  destruct (nth_error c ti) as [t|] eqn:Et; [|inversion E; auto].
  destruct (nth_error (ct_bars t) bi) as [b|] eqn:Eb; [|inversion E; left; split; [reflexivity|right; eauto]].
  destruct (f b) as [b'|e'] eqn:Ef; [discriminate|]. cbn [rbind] in E. inversion E; subst. right. eauto.
Qed.

(* ================================================================ C16: a copy of a composition equals its original *)
(* "made by the constructors": every bar is a value returned by the Bar constructor, every track a value returned by
   the Track constructor on its own bars *)
Definition bar_built (b : cbar) : Prop := exists s, cbar_new s (cb_num b) (cb_den b) (cb_key b) = Ok b.
Definition track_built (t : ctrack) : Prop := Forall bar_built (ct_bars t) /\ track_new (ct_bars t) = Ok t.
Definition comp_built (c : comp) : Prop := Forall track_built c.

(* equality of bars as musical objects: signature, key, the timed events of the (fresh) relative view, duration *)
Definition bar_equal (b b' : cbar) : Prop :=
  cb_num b' = cb_num b /\ cb_den b' = cb_den b /\ cb_key b' = cb_key b /\
  s_rel_stale (cb_seq b) = false /\ s_rel_stale (cb_seq b') = false /\
  ticks (s_rel (cb_seq b')) 0 = ticks (s_rel (cb_seq b)) 0 /\
  dur_rel (s_rel (cb_seq b')) = dur_rel (s_rel (cb_seq b)).
Definition track_equal (t t' : ctrack) : Prop :=
  ct_program t' = ct_program t /\ Forall2 bar_equal (ct_bars t) (ct_bars t').

Definition rel_of (b : cbar) : list msg := s_rel (cb_seq b).
Definition is_pc (m : msg) : bool := mtype_eqb (m_type m) PROGRAM_CHANGE.

Lemma bar_built_fresh b : bar_built b -> s_rel_stale (cb_seq b) = false /\ s_abs_stale (cb_seq b) = true.
Proof. intros [s E]. destruct (C10_bar_object _ _ _ _ _ E) as (H1 & H2 & _). auto. Qed.

Lemma bar_built_copy b : bar_built b -> exists b', cbar_copy b = Ok b' /\ bar_equal b b' /\ bar_built b'.
Proof.
  intros [s E]. destruct (C10_bar_object _ _ _ _ _ E) as (Hf & _).
  destruct (C10_bar_copy _ _ _ _ _ E) as (b' & Ec & Hn & Hd & Hk & Hr & _ & Ht & Hu).
  exists b'. split; [exact Ec|]. split; [unfold bar_equal; auto 10|].
  exists (seq_copy (cb_seq b)). exact (cbar_copy_new _ _ Ec).
Qed.

Lemma bars_rels_fresh bs : Forall (fun b => s_rel_stale (cb_seq b) = false) bs ->
  bars_rels bs = Ok (bs, map rel_of bs).
Proof.
  induction 1 as [|b bs Hb _ IH]; cbn [bars_rels map]; [reflexivity|].
  rewrite (get_rel_fresh _ Hb). cbn [rbind]. rewrite IH. cbn [rbind]. destruct b; reflexivity.
Qed.

Definition track_prog (l : list msg) : result (option Z) :=
  match filter is_pc l with
  | [] => Ok None
  | p :: _ => if forallb (fun m => Z.eqb (m_prog m) (m_prog p)) (filter is_pc l) then Ok (Some (m_prog p)) else Err TrackErr
  end.

Lemma track_new_eq bs :
  track_new bs = do '(bs1, rs) <- bars_rels bs; do p <- track_prog (concat rs); Ok (mkctrack bs1 p).
Proof.
  unfold track_new, bars_to_sequence, track_prog. destruct (bars_rels bs) as [[bs1 rs]|e]; [|reflexivity].
  cbn [rbind s_rel]. fold is_pc. destruct (filter is_pc (concat rs)) as [|p l]; [reflexivity|].
  destruct (forallb _ _); reflexivity.
Qed.

Lemma track_new_fresh bs : Forall (fun b => s_rel_stale (cb_seq b) = false) bs ->
  track_new bs = do p <- track_prog (concat (map rel_of bs)); Ok (mkctrack bs p).
Proof. intros H. rewrite track_new_eq, (bars_rels_fresh _ H). reflexivity. Qed.

Lemma filter_concat {A} (p : A -> bool) ls : filter p (concat ls) = concat (map (filter p) ls).
Proof. induction ls as [|l ls IH]; [reflexivity|]. cbn [concat map]. now rewrite filter_app, IH. Qed.

Lemma filter_ticks (p : msg -> bool) l : (forall m, is_wait m = true -> p m = false) ->
  forall cur, filter p l = filter p (map fst (ticks l cur)).
Proof.
  intros Hp. induction l as [|m l IH]; intros cur; [reflexivity|]. cbn [ticks filter].
  destruct (is_wait m) eqn:W; [rewrite (Hp _ W); apply IH|]. cbn [map fst filter]. now rewrite <- IH.
Qed.

Lemma wait_not_pc m : is_wait m = true -> is_pc m = false.
Proof. unfold is_wait, is_pc. destruct (m_type m); cbn; congruence. Qed.

Lemma bars_equal_pcs bs bs' : Forall2 bar_equal bs bs' ->
  filter is_pc (concat (map rel_of bs')) = filter is_pc (concat (map rel_of bs)).
Proof.
  intros H. rewrite !filter_concat. f_equal. induction H as [|b b' bs bs' Hb _ IH]; [reflexivity|].
  cbn [map]. rewrite IH. f_equal. destruct Hb as (_ & _ & _ & _ & _ & Ht & _). unfold rel_of.
  rewrite (filter_ticks is_pc _ wait_not_pc 0), Ht, <- (filter_ticks is_pc _ wait_not_pc 0). reflexivity.
Qed.

Lemma track_prog_filter l l' : filter is_pc l' = filter is_pc l -> track_prog l' = track_prog l.
Proof. unfold track_prog. now intros ->. Qed.

Lemma bars_built_copy bs : Forall bar_built bs ->
  exists bs', mapM cbar_copy bs = Ok bs' /\ Forall2 bar_equal bs bs' /\ Forall bar_built bs'.
Proof.
  induction 1 as [|b bs Hb _ (bs' & Em & He & Hbs)].
  { exists []. split; [reflexivity|]. split; constructor. }
  destruct (bar_built_copy _ Hb) as (b' & Ec & Heq & Hb'). exists (b' :: bs'). cbn [mapM]. rewrite Ec, Em.
  cbn [rbind]. auto.
Qed.

Lemma Forall_fresh bs : Forall bar_built bs -> Forall (fun b => s_rel_stale (cb_seq b) = false) bs.
Proof. apply Forall_impl. intros b H. apply (bar_built_fresh _ H). Qed.

Lemma track_built_inv t : track_built t ->
  track_prog (concat (map rel_of (ct_bars t))) = Ok (ct_program t).
Proof.
  intros [Hb Ht]. rewrite (track_new_fresh _ (Forall_fresh _ Hb)) in Ht.
  destruct (track_prog _) as [p|e]; [|discriminate]. cbn [rbind] in Ht. inversion Ht as [Hq]. now rewrite <- Hq.
Qed.

Lemma ctrack_copy_built t : track_built t ->
  exists t', ctrack_copy t = Ok t' /\ track_equal t t' /\ track_built t'.
Proof.
  intros Ht. pose proof (track_built_inv _ Ht) as Hp. destruct Ht as [Hb Ht].
  destruct (bars_built_copy _ Hb) as (bs' & Em & He & Hb').
  assert (En : track_new bs' = Ok (mkctrack bs' (ct_program t))).
  { rewrite (track_new_fresh _ (Forall_fresh _ Hb')), (track_prog_filter _ _ (bars_equal_pcs _ _ He)), Hp. reflexivity. }
  exists (mkctrack bs' (ct_program t)). unfold ctrack_copy. rewrite Em. cbn [rbind].
  split; [exact En|]. split; [split; [reflexivity|exact He]|]. split; [exact Hb'|exact En].
Qed.

Lemma comp_copy_built c : comp_built c ->
  exists c', comp_copy c = Ok c' /\ Forall2 track_equal c c' /\ comp_built c'.
Proof.
  unfold comp_copy, comp_built. induction 1 as [|t c Ht _ (c' & Em & He & Hc)].
  { exists []. split; [reflexivity|]. split; constructor. }
  destruct (ctrack_copy_built _ Ht) as (t' & Ec & Heq & Ht'). exists (t' :: c'). cbn [mapM]. rewrite Ec, Em.
  cbn [rbind]. split; [reflexivity|]. split; constructor; auto.
Qed.

(* ---------------------------------------------------------------- what Composition.from_sequences builds *)
Lemma collect_bars_inv (P : bar -> Prop) num den key (bars : list (result (list msg))) : forall newbars,
  fold_right (fun b acc' => match b, acc' with
                            | Ok r, Ok l => Ok (mkbar r num den key :: l)
                            | Err e, _ => Err e
                            | _, Err e => Err e end) (Ok []) bars = Ok newbars ->
  (forall r, In (Ok r) bars -> P (mkbar r num den key)) -> Forall P newbars.
Proof.
  induction bars as [| b bars IH]; intros newbars E Hb; cbn [fold_right] in E.
  - inversion E. constructor.
  - destruct b as [r | e]; [| discriminate].
    destruct (fold_right _ _ bars) as [l | e]; [| discriminate]. inversion E; subst.
    constructor; [apply Hb; left; reflexivity|]. apply IH; [reflexivity|]. intros r' Hr'. apply Hb. now right.
Qed.

Lemma sb_loop_inv (P : bar -> Prop) :
  (forall rel num den key r, bar_init rel num den = Ok r -> P (mkbar r num den key)) ->
  forall fuel qnl seqs tsq ksq cur num den key acc res,
  Forall (Forall P) acc ->
  sb_loop fuel qnl seqs tsq ksq cur num den key acc = Ok res -> Forall (Forall P) res.
Proof.
  intros HP. induction fuel as [| f IH]; intros qnl seqs tsq ksq cur num den key acc res Ha E; [discriminate |].
  cbn [sb_loop] in E.
  destruct (match tsq with m :: r => if m_time m <=? cur then (m_num m, m_den m, r) else (num, den, tsq)
                         | [] => (num, den, tsq) end) as [[num1 den1] tsq1].
  destruct (match ksq with m :: r => if m_time m <=? cur then (m_key m, r) else (key, ksq)
                         | [] => (key, ksq) end) as [key1 ksq1].
  set (len := PPQN * num1 * 4 / den1) in *.
  set (rounds := map (sb_track qnl len) seqs) in *.
  destruct (fold_right _ _ _) as [newbars | e] eqn:Ef; [| discriminate].
  assert (Hn : Forall P newbars).
  { eapply collect_bars_inv; [exact Ef |]. intros r Hin. apply in_map_iff in Hin.
    destruct Hin as [x [Ex Hx]]. eapply HP. exact Ex. }
  assert (Ha' : Forall (Forall P) (map (fun ab : list bar * bar => (fst ab ++ [snd ab])%list) (combine acc newbars))).
  { apply Forall_forall. intros bs Hbs. apply in_map_iff in Hbs. destruct Hbs as [[a b] [Eb Hab]]. subst bs.
    cbn [fst snd]. apply Forall_app. split.
    - apply in_combine_l in Hab. rewrite Forall_forall in Ha. now apply Ha.
    - apply in_combine_r in Hab. rewrite Forall_forall in Hn. constructor; [now apply Hn|constructor]. }
  destruct (existsb _ rounds).
  - eapply IH; [exact Ha' | exact E].
  - inversion E; subst. exact Ha'.
Qed.

Definition bar_initd (b : bar) : Prop := exists rel, bar_init rel (b_num b) (b_den b) = Ok (b_rel b).

Lemma split_bars_initd rels meta qnl bars : split_bars rels meta qnl = Ok bars -> Forall (Forall bar_initd) bars.
Proof.
  intros E. unfold split_bars in E. eapply (sb_loop_inv bar_initd); [| | exact E].
  - intros rel num den key r H. exists rel. exact H.
  - apply Forall_forall. intros bs Hbs. apply in_map_iff in Hbs. destruct Hbs as [x [Ex _]]. subst. constructor.
Qed.

Definition bar_obj (b : bar) : cbar := mkcbar (mkseq [] (b_rel b) true false) (b_num b) (b_den b) (b_key b).

Lemma bar_obj_built b : bar_initd b -> bar_built (bar_obj b).
Proof.
  intros [rel H]. exists (seq_of_rel rel). unfold cbar_new, seq_of_rel, get_rel, bar_obj.
  cbn [s_rel_stale s_rel s_abs rbind cb_num cb_den cb_key]. rewrite H. reflexivity.
Qed.

Lemma track_of_bars_built tb t : Forall bar_initd tb -> track_new (map bar_obj tb) = Ok t -> track_built t.
Proof.
  intros Hb E. assert (Hbb : Forall bar_built (map bar_obj tb)).
  { apply Forall_forall. intros b Hin. apply in_map_iff in Hin. destruct Hin as (x & <- & Hx).
    apply bar_obj_built. rewrite Forall_forall in Hb. now apply Hb. }
  pose proof E as E'. rewrite (track_new_fresh _ (Forall_fresh _ Hbb)) in E'.
  destruct (track_prog _) as [p|e]; [|discriminate]. cbn [rbind] in E'. inversion E'; subst.
  split; cbn [ct_bars]; [exact Hbb|exact E].
Qed.

Theorem comp_from_sequences_built rels meta c : comp_from_sequences rels meta = Ok c -> comp_built c.
Proof.
  intros E. unfold comp_from_sequences in E. bindc E bars Eb. pose proof (split_bars_initd _ _ _ _ Eb) as Hi.
  apply mapM_Forall2 in E. unfold comp_built. clear Eb. induction E as [|tb t bars c Ht _ IH]; [constructor|].
  inversion Hi; subst. constructor; [|now apply IH]. eapply track_of_bars_built; [|exact Ht]. assumption.
Qed.

(* ---------------------------------------------------------------- the C16 copy theorems *)
(* same shape, same programs, bar by bar equal *)
Definition comp_equal (c c' : comp) : Prop :=
  length c' = length c /\
  forall ti t, nth_error c ti = Some t ->
    exists t', nth_error c' ti = Some t' /\ ct_program t' = ct_program t /\
      length (ct_bars t') = length (ct_bars t) /\
      forall bi b, nth_error (ct_bars t) bi = Some b ->
        exists b', nth_error (ct_bars t') bi = Some b' /\ bar_equal b b'.

Lemma comp_equal_of c c' : Forall2 track_equal c c' -> comp_equal c c'.
Proof.
  intros H. destruct (Forall2_nth _ _ _ H) as [Hl Hn]. split; [exact Hl|].
  intros ti t Ht. destruct (Hn _ _ Ht) as (t' & Ht' & Hp & Hb). exists t'. split; [exact Ht'|]. split; [exact Hp|].
  destruct (Forall2_nth _ _ _ Hb) as [Hl' Hn']. split; [exact Hl'|]. exact Hn'.
Qed.

(* general form: any composition made by the constructors (e.g. a copy, see the last conjunct) *)
Theorem C16_comp_copy_built : forall c : comp, comp_built c ->
  exists c', comp_copy c = Ok c' /\ comp_equal c c' /\ comp_built c'.
Proof.
  intros c H. destruct (comp_copy_built _ H) as (c' & E & He & Hb). exists c'. auto using comp_equal_of.
Qed.

Theorem C16_comp_copy : forall (rels : list (list msg)) (meta : nat) (c : comp),
  comp_from_sequences rels meta = Ok c ->
  exists c', comp_copy c = Ok c' /\ comp_equal c c' /\ comp_built c'.
Proof. intros rels meta c E. apply C16_comp_copy_built. exact (comp_from_sequences_built _ _ _ E). Qed.

(* track level *)
Theorem C16_track_copy : forall t : ctrack, track_built t ->
  exists t', ctrack_copy t = Ok t' /\ ct_program t' = ct_program t /\ length (ct_bars t') = length (ct_bars t) /\
    (forall bi b, nth_error (ct_bars t) bi = Some b -> exists b', nth_error (ct_bars t') bi = Some b' /\ bar_equal b b') /\
    track_built t'.
Proof.
  intros t H. destruct (ctrack_copy_built _ H) as (t' & E & [Hp Hb] & Ht'). exists t'.
  destruct (Forall2_nth _ _ _ Hb) as [Hl Hn]. auto 6.
Qed.

(* laid end to end (Composition.to_sequences), original and copy are the same music: same timed events, same length *)
Lemma ticks_shift l : forall cur, ticks l cur = map (fun p => (fst p, snd p + cur)) (ticks l 0).
Proof.
  induction l as [|m l IH]; intros cur; [reflexivity|]. cbn [ticks]. destruct (is_wait m).
  - rewrite (IH (cur + m_time m)), (IH (0 + m_time m)), map_map. apply map_ext. intros [x t]. cbn [fst snd].
    f_equal. lia.
  - cbn [map fst snd]. rewrite (IH cur). reflexivity.
Qed.

Lemma ticks_eq_shift l l' cur : ticks l' 0 = ticks l 0 -> ticks l' cur = ticks l cur.
Proof. intros H. now rewrite (ticks_shift l'), (ticks_shift l), H. Qed.

Lemma bars_equal_concat bs bs' : Forall2 bar_equal bs bs' ->
  dur_rel (concat (map rel_of bs')) = dur_rel (concat (map rel_of bs)) /\
  forall cur, ticks (concat (map rel_of bs')) cur = ticks (concat (map rel_of bs)) cur.
Proof.
  induction 1 as [|b b' bs bs' Hb _ [IHd IHt]]; [split; reflexivity|].
  destruct Hb as (_ & _ & _ & _ & _ & Ht & Hd). fold (rel_of b) (rel_of b') in Ht, Hd. cbn [map concat].
  split; [now rewrite !dur_rel_app, Hd, IHd|]. intros cur. now rewrite !ticks_app, Hd, IHt, (ticks_eq_shift _ _ cur Ht).
Qed.

Lemma comp_to_sequences_built c : comp_built c ->
  comp_to_sequences c = Ok (map (fun t => mkseq [] (concat (map rel_of (ct_bars t))) true false) c).
Proof.
  unfold comp_to_sequences, comp_built. induction 1 as [|t c [Hb _] _ IH]; [reflexivity|]. cbn [mapM map].
  unfold bars_to_sequence at 1. rewrite (bars_rels_fresh _ (Forall_fresh _ Hb)). cbn [rbind]. rewrite IH. reflexivity.
Qed.

Theorem C16_comp_copy_sequences : forall c c' : comp, comp_built c -> comp_copy c = Ok c' ->
  exists ss ss', comp_to_sequences c = Ok ss /\ comp_to_sequences c' = Ok ss' /\ length ss' = length ss /\
    forall ti s, nth_error ss ti = Some s ->
      exists s', nth_error ss' ti = Some s' /\ ticks (s_rel s') 0 = ticks (s_rel s) 0 /\
                 dur_rel (s_rel s') = dur_rel (s_rel s).
Proof.
  intros c c' H E. destruct (comp_copy_built _ H) as (c2 & E2 & He & Hb). rewrite E in E2. inversion E2; subst c2.
  rewrite (comp_to_sequences_built _ H), (comp_to_sequences_built _ Hb). eexists. eexists.
  split; [reflexivity|]. split; [reflexivity|]. destruct (Forall2_nth _ _ _ He) as [Hl Hn].
  split; [now rewrite !map_length|]. intros ti s Hs. rewrite nth_error_map in Hs.
  destruct (nth_error c ti) as [t|] eqn:Et; [|discriminate]. cbn [option_map] in Hs. inversion Hs; subst s.
  destruct (Hn _ _ Et) as (t' & Et' & _ & Hbs). rewrite nth_error_map, Et'. cbn [option_map]. eexists.
  split; [reflexivity|]. cbn [s_rel]. destruct (bars_equal_concat _ _ Hbs) as [Hd Ht]. auto.
Qed.

(* non-vacuity: a two-track composition (a note that is cut at the bar line, a program change, an empty track) *)
Definition ex_rels : list (list msg) :=
  [[pc 0 5 0; on 0 60 100 0; wt 0 120; of 0 60 0; wt 0 72]; []].
Example C16_comp_ex :
  exists c, comp_from_sequences ex_rels 0 = Ok c /\ length c = 2%nat /\
            map (fun t => length (ct_bars t)) c = [2%nat; 2%nat] /\ map ct_program c = [Some 5; None] /\
  exists c', comp_copy c = Ok c' /\ map ct_program c' = [Some 5; None] /\
  exists c'', comp_on_bar c 0 1 (fun b => do '(b', _) <- cbar_transpose b 3; Ok b') = Ok c'' /\ c'' <> c.
Proof.
  eexists. split; [vm_compute; reflexivity|]. split; [reflexivity|]. split; [reflexivity|]. split; [reflexivity|].
  eexists. split; [vm_compute; reflexivity|]. split; [reflexivity|].
  eexists. split; [vm_compute; reflexivity|]. discriminate.
Qed.
(* the invariant is needed: a hand-made track whose bars carry two different programs cannot be copied (Track raises) *)
Example C16_comp_copy_needs_built :
  exists b1 b2, cbar_new (seq_of_rel [pc 0 1 0]) 4 4 None = Ok b1 /\ cbar_new (seq_of_rel [pc 0 2 0]) 4 4 None = Ok b2 /\
                comp_copy [mkctrack [b1; b2] None] = Err TrackErr.
Proof. eexists. eexists. split; [vm_compute; reflexivity|]. split; [vm_compute; reflexivity|]. vm_compute. reflexivity. Qed.

(* ================================================================ C11: integer ticks in compositions *)
Definition ints_bar (b : cbar) : bool := ints_seq (cb_seq b).
Definition ints_track (t : ctrack) : bool := forallb ints_bar (ct_bars t).
(* every stored list (both views, fresh or stale) of every bar's sequence has integer times only *)
Definition ints_comp (c : comp) : bool := forallb ints_track c.

Lemma cbar_new_ints s num den key b : ints_seq s = true -> cbar_new s num den key = Ok b -> ints_bar b = true.
Proof.
  intros H E. destruct (cbar_new_inv _ _ _ _ _ E) as (s1 & r & r' & Hg & Hb & ->).
  destruct (get_rel_ints _ _ _ H Hg) as [H1 Hr]. unfold ints_bar. cbn [cb_seq]. apply ints_seq_mk.
  - now apply ints_seq_abs.
  - exact (bar_init_ints _ _ _ _ Hr Hb).
Qed.

Lemma cbar_copy_ints b b' : ints_bar b = true -> cbar_copy b = Ok b' -> ints_bar b' = true.
Proof. intros H E. unfold cbar_copy in E. eapply cbar_new_ints; [|exact E]. now apply seq_copy_ints. Qed.

Lemma cbar_transpose_ints b k b' f : ints_bar b = true -> cbar_transpose b k = Ok (b', f) -> ints_bar b' = true.
Proof.
  intros H E. destruct (C14_bar_key _ _ _ _ E) as (Hs & _). unfold ints_bar. exact (seq_transpose_ints _ _ _ _ H Hs).
Qed.

Lemma bars_rels_ints bs : forall bs1 rs, forallb ints_bar bs = true -> bars_rels bs = Ok (bs1, rs) ->
  forallb ints_bar bs1 = true /\ intss rs = true.
Proof.
  induction bs as [|b bs IH]; intros bs1 rs H E; cbn [bars_rels] in E; [inversion E; split; reflexivity|].
  cbn [forallb] in H. apply andb_true_iff in H. destruct H as [Hb Hbs].
  bindc E x Ex. destruct x as [s1 r]. bindc E y Ey. destruct y as [bs2 rs2]. inversion E; subst.
  destruct (get_rel_ints _ _ _ Hb Ex) as [H1 Hr]. destruct (IH _ _ Hbs eq_refl) as [H2 H3].
  cbn [forallb intss]. unfold ints_bar at 1. cbn [cb_seq]. fold (intss rs2). now rewrite H1, Hr, H2, H3.
Qed.

Lemma track_new_ints bs t : forallb ints_bar bs = true -> track_new bs = Ok t -> ints_track t = true.
Proof.
  intros H E. rewrite track_new_eq in E. bindc E x Ex. destruct x as [bs1 rs]. bindc E p Ep. inversion E; subst.
  exact (proj1 (bars_rels_ints _ _ _ H Ex)).
Qed.

Lemma mapM_forallb2 {A B} (f : A -> result B) (P : A -> bool) (Q : B -> bool) l : forall rs,
  (forall x y, P x = true -> f x = Ok y -> Q y = true) -> forallb P l = true -> mapM f l = Ok rs -> forallb Q rs = true.
Proof.
  induction l as [| a l IH]; intros rs Hf Hp E; cbn [mapM] in E; [inversion E; reflexivity |].
  cbn [forallb] in Hp. apply andb_true_iff in Hp. destruct Hp as [Ha Hl].
  bindc E y Ey. bindc E ys Eys. inversion E; subst. cbn [forallb]. now rewrite (Hf _ _ Ha Ey), (IH _ Hf Hl eq_refl).
Qed.

Lemma ctrack_copy_ints t t' : ints_track t = true -> ctrack_copy t = Ok t' -> ints_track t' = true.
Proof.
  intros H E. unfold ctrack_copy in E. bindc E bs Eb. eapply track_new_ints; [|exact E].
  exact (mapM_forallb2 _ _ _ _ _ cbar_copy_ints H Eb).
Qed.

Theorem comp_copy_ints c c' : ints_comp c = true -> comp_copy c = Ok c' -> ints_comp c' = true.
Proof. intros H E. exact (mapM_forallb2 _ _ _ _ _ ctrack_copy_ints H E). Qed.

Theorem comp_from_sequences_ints rels meta c : intss rels = true -> comp_from_sequences rels meta = Ok c ->
  ints_comp c = true.
Proof.
  intros H E. unfold comp_from_sequences in E. bindc E bars Eb. pose proof (split_bars_ints _ _ _ _ H Eb) as Hi.
  refine (mapM_forallb2 _ bars_ints _ _ _ _ Hi E). intros tb t Htb Et. eapply track_new_ints; [|exact Et].
  rewrite forallb_forall. intros b Hin. apply in_map_iff in Hin. destruct Hin as (x & <- & Hx).
  unfold bars_ints in Htb. rewrite forallb_forall in Htb. unfold ints_bar. cbn [cb_seq]. apply ints_seq_mk; [reflexivity|].
  now apply Htb.
Qed.

Theorem comp_to_sequences_ints c ss : ints_comp c = true -> comp_to_sequences c = Ok ss -> ints_store ss = true.
Proof.
  intros H E. refine (mapM_forallb2 _ ints_track _ _ _ _ H E). intros t s Ht Es. cbv beta in Es.
  bindc Es x Ex. destruct x as [bs0 s0]. inversion Es; subst s0.
  unfold bars_to_sequence in Ex. bindc Ex y Ey. destruct y as [bs1 rs]. inversion Ex; subst.
  apply ints_seq_mk; [reflexivity|]. apply ints_concat. exact (proj2 (bars_rels_ints _ _ _ Ht Ey)).
Qed.

Theorem comp_on_bar_ints c ti bi f c' : (forall b b', ints_bar b = true -> f b = Ok b' -> ints_bar b' = true) ->
  ints_comp c = true -> comp_on_bar c ti bi f = Ok c' -> ints_comp c' = true.
Proof.
  intros Hf H E. unfold comp_on_bar in E.
  destruct (nth_error c ti) as [t|] eqn:Et; [|discriminate].
  destruct (nth_error (ct_bars t) bi) as [b|] eqn:Eb; [|discriminate].
  bindc E b' Ef. inversion E; subst. unfold ints_comp in *.
  assert (Ht : ints_track t = true). { rewrite forallb_forall in H. apply H. eapply nth_error_In; eauto. }
  assert (Hb : ints_bar b = true). { unfold ints_track in Ht. rewrite forallb_forall in Ht. apply Ht. eapply nth_error_In; eauto. }
  pose proof (Hf _ _ Hb Ef) as Hb'.
  assert (Ht' : ints_track (mkctrack (set_nth bi (fun _ => b') (ct_bars t)) (ct_program t)) = true).
  { unfold ints_track. cbn [ct_bars]. apply set_nth_forallb; [intros _ _; exact Hb'|exact Ht]. }
  apply set_nth_forallb; [intros _ _; exact Ht'|exact H].
Qed.

(* C11 for the composition objects: building a composition from integer-tick sequences yields integer ticks in every
   view of every bar; copying (composition, track, bar), transposing a bar -- alone or inside a composition -- and
   laying the bars end to end again keep them *)
Theorem C11_comp :
  (forall rels meta c, intss rels = true -> comp_from_sequences rels meta = Ok c -> ints_comp c = true) /\
  (forall s num den key b, ints_seq s = true -> cbar_new s num den key = Ok b -> ints_bar b = true) /\
  (forall b b', ints_bar b = true -> cbar_copy b = Ok b' -> ints_bar b' = true) /\
  (forall b k b' f, ints_bar b = true -> cbar_transpose b k = Ok (b', f) -> ints_bar b' = true) /\
  (forall t t', ints_track t = true -> ctrack_copy t = Ok t' -> ints_track t' = true) /\
  (forall c c', ints_comp c = true -> comp_copy c = Ok c' -> ints_comp c' = true) /\
  (forall c ti bi k c', ints_comp c = true ->
     comp_on_bar c ti bi (fun b => do '(b', _) <- cbar_transpose b k; Ok b') = Ok c' -> ints_comp c' = true) /\
  (forall c ti bi c', ints_comp c = true -> comp_on_bar c ti bi cbar_copy = Ok c' -> ints_comp c' = true) /\
  (forall c ss, ints_comp c = true -> comp_to_sequences c = Ok ss -> ints_store ss = true).
Proof.
  split; [exact comp_from_sequences_ints|]. split; [exact cbar_new_ints|]. split; [exact cbar_copy_ints|].
  split; [exact cbar_transpose_ints|]. split; [exact ctrack_copy_ints|]. split; [exact comp_copy_ints|].
  split; [|split; [|exact comp_to_sequences_ints]].
  - intros c ti bi k c' H E. eapply comp_on_bar_ints; [|exact H|exact E]. intros b b' Hb Ef. cbv beta in Ef.
    bindc Ef x Ex. destruct x as [b2 f]. inversion Ef; subst. exact (cbar_transpose_ints _ _ _ _ Hb Ex).
  - intros c ti bi c' H E. eapply comp_on_bar_ints; [|exact H|exact E]. exact cbar_copy_ints.
Qed.

Example C11_comp_ex :
  intss ex_rels = true /\
  exists c, comp_from_sequences ex_rels 0 = Ok c /\ ints_comp c = true /\
  exists c' ss, comp_copy c = Ok c' /\ comp_to_sequences c' = Ok ss /\ ints_store ss = true.
Proof.
  split; [reflexivity|]. eexists. split; [vm_compute; reflexivity|]. split; [vm_compute; reflexivity|].
  eexists. eexists. split; [vm_compute; reflexivity|]. split; vm_compute; reflexivity.
Qed.
(* the hypothesis matters: a float tick in the input is still a float in the composition *)
Example C11_comp_ex_float :
  exists c, comp_from_sequences [[on 0 60 100 0; Fl (wt 0 24); of 0 60 0]] 0 = Ok c /\ ints_comp c = false.
Proof. eexists. split; vm_compute; reflexivity. Qed.

(* ================================================================ C14 inside a composition *)
(* transposing any bar of a constructor-made composition never raises; by C16_comp_frame nothing but that bar changes,
   by C14_bar_key its key and sequence are transposed *)
Theorem C14_comp_bar_transpose : forall (c : comp) (ti bi : nat) (t : ctrack) (b : cbar) (k : Z),
  comp_built c -> nth_error c ti = Some t -> nth_error (ct_bars t) bi = Some b ->
  exists b' c', cbar_transpose b k = Ok (b', snd (transpose (s_rel (cb_seq b)) k)) /\
    comp_on_bar c ti bi (fun x => do '(x', _) <- cbar_transpose x k; Ok x') = Ok c' /\
    exists t', nth_error c' ti = Some t' /\ nth_error (ct_bars t') bi = Some b'.
Proof.
  intros c ti bi t b k Hc Et Eb. unfold comp_built in Hc. rewrite Forall_forall in Hc.
  destruct (Hc t (nth_error_In _ _ Et)) as [Hbs _]. rewrite Forall_forall in Hbs.
  destruct (Hbs b (nth_error_In _ _ Eb)) as [s Es]. destruct (C14_bar_transpose_new _ _ _ _ _ k Es) as [b' Hb'].
  exists b'. unfold comp_on_bar. rewrite Et, Eb, Hb'. cbn [rbind]. eexists. split; [reflexivity|]. split; [reflexivity|].
  eexists. split; [exact (nth_error_set_nth_same _ _ _ _ Et)|]. cbn [ct_bars]. exact (nth_error_set_nth_same _ _ _ _ Eb).
Qed.
