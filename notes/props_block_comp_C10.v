
(* ================================================================ the Bar OBJECT (Model/Comp.v, Proofs/Comp_proofs.v)
   cbar_new s num den key = Bar(sequence, numerator, denominator, key) on the Sequence wrapper object s;
   cbar_copy b = Bar.copy().  cb_seq / cb_num / cb_den / cb_key are the bar's attributes. *)
From Model Require Import Store Comp.
From Proofs Require Import Comp_proofs.

(* object level "either raises or yields a bar": the only failures are the bar error and the sequence error of a
   sequence with both views stale *)
Theorem C10_bar_total : forall (s : seq) (num den : Z) (key : option Key),
  (exists b, cbar_new s num den key = Ok b) \/ cbar_new s num den key = Err BarErr \/
  (cbar_new s num den key = Err SeqErr /\ s_abs_stale s = true /\ s_rel_stale s = true).
Proof. exact Comp_proofs.C10_bar_total. Qed.
Print Assumptions C10_bar_total.

(* a constructed bar: its sequence has a fresh relative view (absolute view stale) that lasts exactly the capacity,
   starts with the bar's time signature and contains no other; the attributes are the constructor's arguments *)
Theorem C10_bar_object : forall (s : seq) (num den : Z) (key : option Key) (b : cbar),
  cbar_new s num den key = Ok b ->
  s_rel_stale (cb_seq b) = false /\ s_abs_stale (cb_seq b) = true /\
  dur_rel (s_rel (cb_seq b)) = bar_capacity num den /\
  (exists tl, s_rel (cb_seq b) = mk_ts 0 num den 0 false :: tl /\ forallb (fun m => negb (is_ts m)) tl = true) /\
  cb_num b = num /\ cb_den b = den /\ cb_key b = key.
Proof. exact Comp_proofs.C10_bar_object. Qed.
Print Assumptions C10_bar_object.

(* clause "copying a bar yields an equal bar", object level: Bar.copy of a constructed bar never raises and gives a
   bar with the same signature and key whose (fresh) relative view has the same timed events and the same duration *)
Theorem C10_bar_copy : forall (s : seq) (num den : Z) (key : option Key) (b : cbar),
  cbar_new s num den key = Ok b ->
  exists b', cbar_copy b = Ok b' /\ cb_num b' = num /\ cb_den b' = den /\ cb_key b' = key /\
             s_rel_stale (cb_seq b') = false /\ s_abs_stale (cb_seq b') = true /\
             ticks (s_rel (cb_seq b')) 0 = ticks (s_rel (cb_seq b)) 0 /\
             dur_rel (s_rel (cb_seq b')) = dur_rel (s_rel (cb_seq b)).
Proof. exact Comp_proofs.C10_bar_copy. Qed.
Print Assumptions C10_bar_copy.
