(* C12_sigs.v -- the SIGNATURE clause of C12: "the designated meta sequence carries the signatures of all saved
   sequences such that the time signature and the key signature in force at every tick are the ones that were saved
   (4/4 being in force from tick 0 when the file specifies nothing there)", for save_load (default arguments: one
   group per track, every track a meta track, meta target = sequence 0).  Builds on Sig_glue.v, C12_proofs.v,
   C12_notes.v, C13_proofs.v.
     rts_events r / rks_events r : the (tick, signature) events of a saved RELATIVE list (tick = sum of the waits before)
     sort_ev l                   : l stably sorted by tick (insertion after the last entry with tick <= the new one)
     dedup_ts / dedup_ks         : without the events that repeat the signature in force
     ts_events v / ks_events v   : the events of the loaded ABSOLUTE list, in list order
     ts_in_force d l t           : signature of the entry with the greatest tick <= t, d if there is none *)
From Coq Require Import ZArith List Bool Lia Permutation.
From Model Require Import Base Seq Pairing Util Bars Store Midi Show.
From Proofs Require Import C04_sort C04_proofs C07_proofs C17_proofs C15_proofs Sound_glue C15_sound C13_proofs C13_union
                           C12_proofs C12_notes Sig_glue C15_sigs.
Import ListNotations.
Open Scope Z_scope.
Open Scope list_scope.

Notation is_ts := C07_proofs.is_ts.
Notation is_ks := C07_proofs.is_ks.

(* ---------------------------------------------------------------- the saved events and the loader's meta list *)
(* all saved signature events, in the order the loader meets them (track after track) *)
Definition saved_ts (rels : list (list msg)) : list (Z * tsig) := flat_map rts_events rels.
Definition saved_ks (rels : list (list msg)) : list (Z * option Key) := flat_map rks_events rels.
(* what sequences_load does when no time signature sits on tick 0 *)
Definition with_default_ts (K : list (Z * tsig)) : list (Z * tsig) :=
  if existsb (fun e => fst e =? 0) K then K else ins_ev (0, (4, 4)) K.

Definition meta_sel (mt : msg * Z) : bool :=
  match m_type (fst mt) with TIME_SIGNATURE | KEY_SIGNATURE | CONTROL_CHANGE => true | _ => false end.
Definition meta_msg (mt : msg * Z) : msg :=
  match m_type (fst mt) with
  | TIME_SIGNATURE => mk_ts 0 (m_num (fst mt)) (m_den (fst mt)) (snd mt) false
  | KEY_SIGNATURE => mk_ks 0 (m_key (fst mt)) (snd mt) false
  | _ => mk_cc 0 (m_ctrl (fst mt)) (m_vel (fst mt)) (snd mt) false
  end.
Lemma loaded_meta_eq r : loaded_meta r = map meta_msg (filter meta_sel (stamped r 0)).
Proof. reflexivity. Qed.

Lemma ts_events_cons x l : ts_events (x :: l) = if is_ts x then (m_time x, ts_of x) :: ts_events l else ts_events l.
Proof. unfold ts_events. cbn [filter]. now destruct (is_ts x). Qed.
Lemma ks_events_cons x l : ks_events (x :: l) = if is_ks x then (m_time x, m_key x) :: ks_events l else ks_events l.
Proof. unfold ks_events. cbn [filter]. now destruct (is_ks x). Qed.

Lemma meta_case_ts m c :
  (is_ts m = true /\ meta_sel (m, c) = true /\ meta_msg (m, c) = mk_ts 0 (m_num m) (m_den m) c false) \/
  (is_ts m = false /\ (meta_sel (m, c) = false \/ is_ts (meta_msg (m, c)) = false)).
Proof.
  unfold C07_proofs.is_ts, meta_sel, meta_msg, mtype_eqb. cbn [fst snd]. destruct (m_type m); cbn; auto.
Qed.
Lemma meta_case_ks m c :
  (is_ks m = true /\ meta_sel (m, c) = true /\ meta_msg (m, c) = mk_ks 0 (m_key m) c false) \/
  (is_ks m = false /\ (meta_sel (m, c) = false \/ is_ks (meta_msg (m, c)) = false)).
Proof.
  unfold C07_proofs.is_ks, meta_sel, meta_msg, mtype_eqb. cbn [fst snd]. destruct (m_type m); cbn; auto.
Qed.

Lemma loaded_meta_ts r : forall c,
  ts_events (map meta_msg (filter meta_sel (stamped r c))) =
  map (fun x => (fst x, ts_of (snd x))) (filter (fun x => is_ts (snd x)) (timed c r)).
Proof.
  induction r as [|m r IH]; intros c; [reflexivity|]. cbn [stamped timed].
  destruct (is_wait m) eqn:W; [apply IH|]. cbn [filter snd].
  destruct (meta_case_ts m c) as [(H1 & H2 & H3)|(H1 & [H2|H2])]; rewrite H1.
  - rewrite H2. cbn [map]. rewrite H3, ts_events_cons. change (is_ts (mk_ts 0 (m_num m) (m_den m) c false)) with true.
    cbv iota. cbn [fst snd]. f_equal. apply IH.
  - rewrite H2. apply IH.
  - destruct (meta_sel (m, c)); [|apply IH]. cbn [map]. rewrite ts_events_cons, H2. apply IH.
Qed.
Lemma loaded_meta_ks r : forall c,
  ks_events (map meta_msg (filter meta_sel (stamped r c))) =
  map (fun x => (fst x, m_key (snd x))) (filter (fun x => is_ks (snd x)) (timed c r)).
Proof.
  induction r as [|m r IH]; intros c; [reflexivity|]. cbn [stamped timed].
  destruct (is_wait m) eqn:W; [apply IH|]. cbn [filter snd].
  destruct (meta_case_ks m c) as [(H1 & H2 & H3)|(H1 & [H2|H2])]; rewrite H1.
  - rewrite H2. cbn [map]. rewrite H3, ks_events_cons. change (is_ks (mk_ks 0 (m_key m) c false)) with true.
    cbv iota. cbn [fst snd]. f_equal. apply IH.
  - rewrite H2. apply IH.
  - destruct (meta_sel (m, c)); [|apply IH]. cbn [map]. rewrite ks_events_cons, H2. apply IH.
Qed.

Lemma loaded_meta_events r : ts_events (loaded_meta r) = rts_events r /\ ks_events (loaded_meta r) = rks_events r.
Proof. rewrite loaded_meta_eq. split; [apply loaded_meta_ts|apply loaded_meta_ks]. Qed.

Lemma flat_meta_events rels :
  ts_events (flat_map loaded_meta rels) = saved_ts rels /\ ks_events (flat_map loaded_meta rels) = saved_ks rels.
Proof.
  unfold saved_ts, saved_ks. induction rels as [|r rels [IH1 IH2]]; [split; reflexivity|]. cbn [flat_map].
  destruct (loaded_meta_events r) as [E1 E2]. now rewrite ts_events_app, ks_events_app, IH1, IH2, E1, E2.
Qed.

(* the loader's meta list holds the saved signature events, stably sorted by tick *)
Lemma meta_list_events rels :
  ts_events (ins_all (flat_map loaded_meta rels) []) = sort_ev (saved_ts rels) /\
  ks_events (ins_all (flat_map loaded_meta rels) []) = sort_ev (saved_ks rels).
Proof.
  destruct (flat_meta_events rels) as [E1 E2]. unfold ins_all, sort_ev. split.
  - rewrite <- E1. apply (events_fold_insort is_ts ts_of _ []). reflexivity.
  - rewrite <- E2. apply (events_fold_insort is_ks m_key _ []). reflexivity.
Qed.

(* ---------------------------------------------------------------- lists without signature messages *)
Lemma no_sigs_round a : tsorted a = true -> nnt a = true -> ts_events a = [] -> ks_events a = [] ->
  ts_events (nabs a) = [] /\ ks_events (nabs a) = [].
Proof.
  intros T N E1 E2. split; apply Permutation_nil, Permutation_sym.
  - pose proof (round_ts_perm a T N) as P. now rewrite E1 in P.
  - pose proof (round_ks_perm a T N) as P. now rewrite E2 in P.
Qed.

Lemma loaded_notes_no_sigs r : ts_events (loaded_notes r) = [] /\ ks_events (loaded_notes r) = [].
Proof.
  assert (H : forall x, In x (loaded_notes r) -> is_ts x = false /\ is_ks x = false).
  { intros x Hx. unfold loaded_notes in Hx. apply in_map_iff in Hx as ([m t] & <- & _). cbn [fst snd].
    destruct (is_on m); split; reflexivity. }
  unfold ts_events, ks_events. rewrite !C15_proofs.filter_nil; [split; reflexivity| |]; intros x Hx; now apply H.
Qed.

Lemma events_nil_filter_ts l : ts_events l = [] -> filter is_ts l = [].
Proof. unfold ts_events. apply map_eq_nil. Qed.
Lemma events_nil_filter_ks l : ks_events l = [] -> filter is_ks l = [].
Proof. unfold ks_events. apply map_eq_nil. Qed.

(* the absolute view of the per-group sequence built from the notes of one saved track carries no signature *)
Lemma group_seq_no_sigs r : C07_proofs.nonneg_waits r = true ->
  let a2 := sort_abs (to_abs (normalise (to_rel (loaded_notes r))) ++ []) in
  let V := to_abs (normalise (to_rel a2)) in
  ts_events V = [] /\ ks_events V = [] /\ wfa V = true.
Proof.
  intros NN a2 V. destruct (LN_props r 0 NN) as (_ & T & W); [lia|]. rewrite <- loaded_notes_LN in T, W.
  destruct (loaded_notes_no_sigs r) as [E1 E2].
  destruct (no_sigs_round (loaded_notes r) T (wfa_nnt _ W) E1 E2) as [F1 F2]. fold (nabs (loaded_notes r)) in a2.
  assert (Pa : Permutation a2 (nabs (loaded_notes r))).
  { unfold a2. rewrite app_nil_r. apply C15_proofs.sort_abs_perm. }
  assert (Wa : wfa a2 = true).
  { apply (wfa_perm (nabs (loaded_notes r)) a2); [now apply Permutation_sym|]. apply to_abs_wfa, nonneg_normalise. }
  assert (G1 : ts_events a2 = []).
  { apply Permutation_nil, Permutation_sym. rewrite <- F1. now apply ts_events_perm. }
  assert (G2 : ks_events a2 = []).
  { apply Permutation_nil, Permutation_sym. rewrite <- F2. now apply ks_events_perm. }
  destruct (no_sigs_round a2 (sort_abs_tsorted _) (wfa_nnt _ Wa) G1 G2) as [H1 H2].
  split; [exact H1|]. split; [exact H2|]. apply to_abs_wfa, nonneg_normalise.
Qed.

(* every message of the loader's meta list sits on channel 0 and has no pitch *)
Lemma meta_list_fields rels m : In m (ins_all (flat_map loaded_meta rels) []) -> m_chan m = 0 /\ m_note m = NONE.
Proof.
  intros H. apply ins_all_in in H as [[]|H]. apply in_flat_map in H as (r & _ & H).
  rewrite loaded_meta_eq in H. apply in_map_iff in H as (mt & <- & _). unfold meta_msg.
  destruct (m_type (fst mt)); split; reflexivity.
Qed.
Lemma wfa_meta_list rels : forallb C12_proofs.nonneg_waits rels = true -> wfa (ins_all (flat_map loaded_meta rels) []) = true.
Proof.
  intros Hnn. apply (wfa_perm (flat_map loaded_meta rels)); [apply Permutation_sym, (ins_all_perm _ [])|].
  apply wfa_flat_map. intros l Hl. apply wfa_loaded_meta. rewrite forallb_forall in Hnn. now apply Hnn.
Qed.

(* merging a signature-free list with the meta list: the signature events are those of the meta list *)
Lemma merge_meta_events V rels : ts_events V = [] -> ks_events V = [] ->
  let meta := ins_all (flat_map loaded_meta rels) [] in
  ts_events (merge_abs V [meta]) = ts_events meta /\ ks_events (merge_abs V [meta]) = ks_events meta.
Proof.
  intros E1 E2 meta. unfold merge_abs. cbn [concat]. rewrite app_nil_r.
  pose proof (ins_all_tsorted (flat_map loaded_meta rels)) as T. fold meta in T. split.
  - rewrite ts_events_sort_abs, filter_app, (events_nil_filter_ts V E1). cbn [app].
    rewrite sort_abs_of_sorted; [reflexivity|].
    apply (tsorted_same_sortedb _ 0 (mtype_rank TIME_SIGNATURE) NONE); [now apply tsorted_filter|].
    intros m Hm. apply filter_In in Hm as [Hm Ts]. destruct (meta_list_fields rels m Hm) as [C N].
    split; [exact C|]. split; [|exact N]. unfold C07_proofs.is_ts, mtype_eqb in Ts. now apply Z.eqb_eq.
  - rewrite ks_events_sort_abs, filter_app, (events_nil_filter_ks V E2). cbn [app].
    rewrite sort_abs_of_sorted; [reflexivity|].
    apply (tsorted_same_sortedb _ 0 (mtype_rank KEY_SIGNATURE) NONE); [now apply tsorted_filter|].
    intros m Hm. apply filter_In in Hm as [Hm Ts]. destruct (meta_list_fields rels m Hm) as [C N].
    split; [exact C|]. split; [|exact N]. unfold C07_proofs.is_ks, mtype_eqb in Ts. now apply Z.eqb_eq.
Qed.

(* ---------------------------------------------------------------- what sequences_load returns as sequence 0 *)
Lemma meta_target_shape : forall rels : list (list msg),
  forallb rt_ok rels = true -> forallb C12_proofs.nonneg_waits rels = true ->
  forall seqs, save_load rels = Ok seqs ->
  exists r0 s v,
    nth_error rels 0 = Some r0 /\ nth_error seqs 0 = Some s /\ get_abs s = Ok (s, v) /\
    let a2 := sort_abs (to_abs (normalise (to_rel (loaded_notes r0))) ++ []) in
    let V := to_abs (normalise (to_rel a2)) in
    let a := nabs (merge_abs V [ins_all (flat_map loaded_meta rels) []]) in
    (existsb (fun m => is_ts m && (m_time m =? 0)) a = true /\ v = a) \/
    (existsb (fun m => is_ts m && (m_time m =? 0)) a = false /\ exists ch, v = insort (mk_ts ch 4 4 0 false) a).
Proof.
  intros rels Hok Hnn seqs Hsl.
  destruct (C12_notes_partial rels Hok Hnn) as (st & Hc & Hs & _ & _).
  destruct (C12_loaded_lists rels Hok) as (st0 & Hc0 & _ & Hm). rewrite Hc in Hc0. injection Hc0 as <-.
  unfold save_load, convert_exec in Hsl.
  destruct (C13_group_union_partial _ _ _ _ _ _ _ Hsl)
    as (st' & merged & Hc' & Hmg & _ & _ & mt & mt1 & os & mt2 & a & Hmt & Hsm & Hga & Hcase).
  change (map (fun i : Z => [i]) (rangeZ_aux (length rels) 0)) with (sl_groups (length rels)) in Hc'.
  rewrite Hc in Hc'. injection Hc' as <-.
  rewrite Hs in Hmg.
  rewrite (mapM_map_ok merge_group (fun r => [loaded_notes r]) (fun r => loaded_seq (loaded_notes r))
             (fun r => merge_group_single (loaded_notes r))) in Hmg. injection Hmg as <-.
  change (Z.to_nat 0) with O in *.
  destruct rels as [|r0 rels']; [discriminate Hmt|]. cbn [map nth_error] in Hmt. injection Hmt as <-.
  exists r0. rewrite Hm in Hsm.
  set (meta := ins_all (flat_map loaded_meta (r0 :: rels')) []) in *.
  set (a2 := sort_abs (to_abs (normalise (to_rel (loaded_notes r0))) ++ [])) in *.
  set (rf := normalise (to_rel a2)) in *. set (V := to_abs rf) in *.
  change (loaded_seq (loaded_notes r0)) with (mkseq a2 rf true false) in Hsm.
  rewrite (seq_merge_spec (mkseq a2 rf true false) (mkseq V rf false false) [seq_of_abs meta]
             [seq_of_abs meta] V [meta] eq_refl eq_refl) in Hsm.
  injection Hsm as <- _. cbv [get_abs s_abs_stale s_rel_stale s_rel] in Hga. injection Hga as <- <-.
  fold (nabs (merge_abs V [meta])) in *.
  destruct Hcase as [[He Hn]|(He & mt3 & Hadd & Hn)].
  - eexists. eexists. split; [reflexivity|]. split; [exact Hn|]. split; [reflexivity|]. left. split; [exact He|reflexivity].
  - cbv [seq_add_abs upd_abs get_abs s_abs_stale s_rel_stale s_rel s_abs rbind] in Hadd. apply Ok_inj in Hadd. subst mt3.
    eexists. eexists. split; [reflexivity|]. split; [exact Hn|]. split; [reflexivity|]. right. split; [exact He|].
    eexists. reflexivity.
Qed.

Lemma ts_at_zero a : existsb (fun m => is_ts m && (m_time m =? 0)) a = existsb (fun e => fst e =? 0) (ts_events a).
Proof.
  induction a as [|x a IH]; [reflexivity|]. cbn [existsb]. rewrite ts_events_cons, IH.
  destruct (is_ts x); reflexivity.
Qed.

(* ---------------------------------------------------------------- C12_signatures: the events *)
(* the absolute view of the loaded sequence 0 carries, as time-signature events, the stably time-sorted union of all
   saved time-signature events without those that repeat the signature in force, plus a 4/4 at tick 0 when none of
   them sits at tick 0; and as key-signature events the same for the saved key signatures (nothing added) *)
Theorem C12_signatures : forall rels : list (list msg),
  forallb rt_ok rels = true -> forallb C12_proofs.nonneg_waits rels = true ->
  forall seqs, save_load rels = Ok seqs ->
  exists s v, nth_error seqs 0 = Some s /\ get_abs s = Ok (s, v) /\
    ts_events v = with_default_ts (dedup_ts ts_none (sort_ev (saved_ts rels))) /\
    ks_events v = dedup_ks None (sort_ev (saved_ks rels)).
Proof.
  intros rels Hok Hnn seqs Hsl.
  destruct (meta_target_shape rels Hok Hnn seqs Hsl) as (r0 & s & v & Hr & Hs & Hg & Hcase).
  exists s, v. split; [exact Hs|]. split; [exact Hg|]. cbv zeta in Hcase.
  assert (NNr : C07_proofs.nonneg_waits r0 = true).
  { rewrite forallb_forall in Hnn. apply Hnn. eapply nth_error_In; eauto. }
  destruct (group_seq_no_sigs r0 NNr) as (E1 & E2 & WV). cbv zeta in E1, E2, WV.
  set (V := to_abs (normalise (to_rel (sort_abs (to_abs (normalise (to_rel (loaded_notes r0))) ++ []))))) in *.
  set (meta := ins_all (flat_map loaded_meta rels) []) in *.
  destruct (merge_meta_events V rels E1 E2) as [M1 M2]. cbv zeta in M1, M2. fold meta in M1, M2.
  destruct (meta_list_events rels) as [L1 L2]. fold meta in L1, L2.
  assert (N : forallb nnt [V; meta] = true).
  { cbn [forallb]. rewrite (wfa_nnt V WV), (wfa_nnt meta (wfa_meta_list rels Hnn)). reflexivity. }
  destruct (C15_sigs.merge_sorted_nnt V [meta] N) as (SM & TM & NM).
  pose proof (round_ts _ SM NM) as RT. pose proof (round_ks _ SM NM) as RK.
  rewrite M1, L1 in RT. rewrite M2, L2 in RK.
  set (a := nabs (merge_abs V [meta])) in *.
  assert (Ta : tsorted a = true) by apply to_abs_tsorted.
  unfold with_default_ts. rewrite <- RT, <- ts_at_zero.
  destruct Hcase as [[He ->]|(He & ch & ->)]; rewrite He.
  - split; [reflexivity|exact RK].
  - rewrite (ts_events_insort _ a Ta), (ks_events_insort _ a Ta). split; [reflexivity|exact RK].
Qed.

(* ---------------------------------------------------------------- C12_signatures: the signature in force *)
(* no saved time signature is the degenerate "none" signature (numerator and denominator None) *)
Definition ts_proper (l : list (Z * tsig)) : bool := forallb (fun e => negb (ts_eqb (snd e) ts_none)) l.

Lemma timed_ge r : forall c x, C07_proofs.nonneg_waits r = true -> In x (timed c r) -> c <= fst x.
Proof.
  induction r as [|m r IH]; intros c x NN H; [contradiction|]. apply nonneg_cons in NN as (Wm & NN & _).
  cbn [timed] in H. destruct (is_wait m).
  - specialize (Wm eq_refl). specialize (IH _ _ NN H). lia.
  - destruct H as [<-|H]; [cbn; lia|now apply IH].
Qed.
Lemma saved_ts_nonneg rels e : forallb C12_proofs.nonneg_waits rels = true -> In e (saved_ts rels) -> 0 <= fst e.
Proof.
  intros Hnn H. unfold saved_ts in H. apply in_flat_map in H as (r & Hr & H).
  unfold rts_events in H. apply in_map_iff in H as (x & <- & Hx). apply filter_In in Hx as [Hx _]. cbn [fst].
  apply (timed_ge r 0 x); [|exact Hx]. rewrite forallb_forall in Hnn. now apply Hnn.
Qed.

Lemma default_in_force U t : ev_sorted U = true -> (forall e, In e U -> 0 <= fst e) -> ts_proper U = true -> 0 <= t ->
  ts_in_force ts_none (with_default_ts (dedup_ts ts_none U)) t = ts_in_force (4, 4) U t.
Proof.
  intros S NN P T. assert (T' : (0 <=? t) = true) by now apply Z.leb_le.
  unfold tsig, sev_t in *. destruct U as [|[c v] U'].
  - unfold with_default_ts, ts_in_force, in_force. cbn. now rewrite T'.
  - cbn [ts_proper forallb snd] in P. apply andb_true_iff in P as [E _]. apply negb_true_iff in E.
    pose proof (NN (c, v) (or_introl eq_refl)) as C0. cbn [fst] in C0.
    pose proof (dedup_ev_sorted ts_eqb _ ts_none S) as SK. fold (dedup_ts ts_none ((c, v) :: U')) in SK.
    pose proof (last_le_dedup_hd ts_eqb ts_eqb_spec) as LH.
    rewrite (ts_in_force_sorted (4, 4) _ t S).
    assert (DK : dedup_ts ts_none ((c, v) :: U') = (c, v) :: dedup_ts v U') by (rewrite dedup_ts_cons; now rewrite E).
    unfold with_default_ts. destruct (c =? 0) eqn:C; [apply Z.eqb_eq in C|apply Z.eqb_neq in C].
    + assert (X : existsb (fun e : Z * tsig => fst e =? 0) (dedup_ts ts_none ((c, v) :: U')) = true).
      { rewrite DK. cbn [existsb fst]. subst c. reflexivity. }
      rewrite X, (ts_in_force_sorted _ _ t SK). unfold dedup_ts, tsig. rewrite (LH ts_none ts_none c v U' t S E).
      cbn [last_le]. subst c. now rewrite T'.
    + assert (X : existsb (fun e : Z * tsig => fst e =? 0) (dedup_ts ts_none ((c, v) :: U')) = false).
      { destruct (existsb _ _) eqn:X; [|reflexivity]. exfalso. apply existsb_exists in X as (e & He & Hz).
        apply Z.eqb_eq in Hz. apply dedup_In in He. destruct He as [<-|He]; [cbn in Hz; lia|].
        pose proof (ev_sorted_head _ _ S e He) as Hh. cbn [fst] in Hh. unfold tsig, sev_t in *. lia. }
      rewrite X. rewrite ins_ev_first.
      * assert (SK' : ev_sorted ((0, (4, 4)) :: dedup_ts ts_none ((c, v) :: U')) = true).
        { apply ev_sorted_cons_intro; [exact SK|]. intros x Hx. apply dedup_In in Hx. cbn [fst]. now apply NN. }
        rewrite (ts_in_force_sorted _ _ t SK'). cbn [last_le]. rewrite T'. unfold dedup_ts, tsig.
        now rewrite (LH (4, 4) ts_none c v U' t S E).
      * intros x Hx. apply dedup_In in Hx. cbn [fst]. destruct Hx as [<-|Hx]; [cbn; lia|].
        pose proof (ev_sorted_head _ _ S x Hx) as Hh. cbn [fst] in Hh. unfold tsig, sev_t in *. lia.
Qed.

Lemma forallb_perm {A} (f : A -> bool) l l' : Permutation l l' -> forallb f l = true -> forallb f l' = true.
Proof.
  intros P H. rewrite forallb_forall in *. intros x Hx. apply H. eapply Permutation_in; [symmetry|]; eassumption.
Qed.

(* at every tick t >= 0 the time signature in force in the loaded sequence 0 is the saved one -- the one of the last
   saved event at or before t in the stably time-sorted union of all saved sequences, 4/4 before the first one;
   at every tick the key in force is the saved one (none before the first saved key signature) *)
Theorem C12_signatures_in_force : forall rels : list (list msg),
  forallb rt_ok rels = true -> forallb C12_proofs.nonneg_waits rels = true ->
  forall seqs, save_load rels = Ok seqs ->
  exists s v, nth_error seqs 0 = Some s /\ get_abs s = Ok (s, v) /\
    (ts_proper (saved_ts rels) = true ->
     forall t, 0 <= t -> ts_in_force ts_none (ts_events v) t = ts_in_force (4, 4) (sort_ev (saved_ts rels)) t) /\
    (forall t, ks_in_force None (ks_events v) t = ks_in_force None (sort_ev (saved_ks rels)) t).
Proof.
  intros rels Hok Hnn seqs Hsl.
  destruct (C12_signatures rels Hok Hnn seqs Hsl) as (s & v & Hs & Hg & Ht & Hk).
  exists s, v. split; [exact Hs|]. split; [exact Hg|]. split.
  - intros P t T. rewrite Ht. apply default_in_force; [apply sort_ev_sorted| | |exact T].
    + intros e He. apply (saved_ts_nonneg rels e Hnn).
      eapply Permutation_in; [apply Permutation_sym, sort_ev_perm|exact He].
    + apply (forallb_perm _ _ _ (sort_ev_perm _) P).
  - intros t. rewrite Hk. apply (in_force_dedup okey_eqb okey_eqb_spec). apply sort_ev_sorted.
Qed.

(* when no two different signatures of one type were saved at one tick, "in force" does not depend on any order:
   it is the signature of a saved event with the greatest tick <= t, over all saved sequences *)
Theorem C12_signatures_in_force_union : forall rels : list (list msg),
  forallb rt_ok rels = true -> forallb C12_proofs.nonneg_waits rels = true ->
  forall seqs, save_load rels = Ok seqs ->
  exists s v, nth_error seqs 0 = Some s /\ get_abs s = Ok (s, v) /\
    (ts_proper (saved_ts rels) = true -> ts_clash_free (saved_ts rels) = true ->
     forall t, 0 <= t -> ts_in_force ts_none (ts_events v) t = ts_in_force (4, 4) (saved_ts rels) t) /\
    (ks_clash_free (saved_ks rels) = true ->
     forall t, ks_in_force None (ks_events v) t = ks_in_force None (saved_ks rels) t).
Proof.
  intros rels Hok Hnn seqs Hsl.
  destruct (C12_signatures_in_force rels Hok Hnn seqs Hsl) as (s & v & Hs & Hg & Ht & Hk).
  exists s, v. split; [exact Hs|]. split; [exact Hg|]. split.
  - intros P CF t T. rewrite (Ht P t T). symmetry.
    apply (in_force_perm ts_eqb ts_eqb_spec); [apply sort_ev_perm|exact CF].
  - intros CF t. rewrite (Hk t). symmetry.
    apply (in_force_perm okey_eqb okey_eqb_spec); [apply sort_ev_perm|exact CF].
Qed.

(* ---------------------------------------------------------------- non-vacuity, and the hypotheses *)
(* two saved sequences: a leading rest, the same 3/4 announced three times (twice at one tick, by both sequences), two
   further changes, nothing at tick 0 (4/4 is inserted); key G at tick 0 of the second sequence, F sharp at tick 17 of
   both *)
Definition sx_r0 : list msg :=
  [wt 0 5; ts 0 3 4 0; on 0 60 64 0; wt 0 12; of 0 60 0; ks 0 K_F_S 0; wt 0 7; ts 0 3 4 0; wt 0 2; ts 0 4 4 0].
Definition sx_r1 : list msg :=
  [ks 1 K_G 0; on 0 50 10 0; wt 0 17; ks 0 K_F_S 0; wt 0 7; of 0 50 0; ts 0 3 4 0; wt 0 10; ts 0 6 8 0].

Example C12_signatures_nonvacuous :
  forallb rt_ok [sx_r0; sx_r1] = true /\ forallb C12_proofs.nonneg_waits [sx_r0; sx_r1] = true /\
  ts_proper (saved_ts [sx_r0; sx_r1]) = true /\
  ts_clash_free (saved_ts [sx_r0; sx_r1]) = true /\ ks_clash_free (saved_ks [sx_r0; sx_r1]) = true /\
  saved_ts [sx_r0; sx_r1] = [(5, (3, 4)); (24, (3, 4)); (26, (4, 4)); (24, (3, 4)); (34, (6, 8))] /\
  saved_ks [sx_r0; sx_r1] = [(17, Some K_F_S); (0, Some K_G); (17, Some K_F_S)] /\
  exists seqs s v, save_load [sx_r0; sx_r1] = Ok seqs /\ nth_error seqs 0 = Some s /\ get_abs s = Ok (s, v) /\
    ts_events v = [(0, (4, 4)); (5, (3, 4)); (26, (4, 4)); (34, (6, 8))] /\
    ks_events v = [(0, Some K_G); (17, Some K_F_S)] /\
    map (ts_in_force (4, 4) (saved_ts [sx_r0; sx_r1])) [0; 4; 5; 25; 26; 40] = [(4, 4); (4, 4); (3, 4); (3, 4); (4, 4); (6, 8)].
Proof.
  split; [vm_compute; reflexivity|]. split; [vm_compute; reflexivity|]. split; [vm_compute; reflexivity|].
  split; [vm_compute; reflexivity|]. split; [vm_compute; reflexivity|]. split; [vm_compute; reflexivity|].
  split; [vm_compute; reflexivity|].
  eexists. eexists. eexists. split; [vm_compute; reflexivity|]. split; [reflexivity|]. split; [reflexivity|].
  split; [vm_compute; reflexivity|]. split; vm_compute; reflexivity.
Qed.

(* outside ts_proper: a saved time signature without numerator and denominator is dropped by normalise (it "repeats" the
   initial none), so the loader sees nothing at tick 0 and inserts 4/4 *)
Example C12_signatures_needs_proper :
  let r := [mk_ts 0 (-1) (-1) 0 false; wt 0 4] in
  rt_ok r = true /\ C12_proofs.nonneg_waits r = true /\ ts_proper (saved_ts [r]) = false /\
  exists seqs s v, save_load [r] = Ok seqs /\ nth_error seqs 0 = Some s /\ get_abs s = Ok (s, v) /\
    ts_in_force ts_none (ts_events v) 2 = (4, 4) /\ ts_in_force (4, 4) (sort_ev (saved_ts [r])) 2 = (-1, -1).
Proof.
  split; [vm_compute; reflexivity|]. split; [vm_compute; reflexivity|]. split; [vm_compute; reflexivity|].
  eexists. eexists. eexists. split; [vm_compute; reflexivity|]. split; [reflexivity|]. split; [reflexivity|].
  split; vm_compute; reflexivity.
Qed.
