(* C05_wf -- per-(channel, pitch) well-formedness and the invariant of the quantise loop on well-formed input. *)
From Coq Require Import ZArith List Bool Lia Permutation.
From Model Require Import Base Seq Pairing.
From Proofs Require Import C05_closest C05_proofs.
Import ListNotations.
Open Scope Z_scope.

(* ------------------------------------------------------------------ per-key projection and alternation *)
(* the note messages of one (channel, pitch) key, in list order *)
Definition kproj (k : k2) (l : list msg) : list msg :=
  filter (fun m => is_note m && k2_eqb k (qkey m)) l.

(* state of one key: never seen / sounding since a / last note was [a, b] *)
Inductive kst : Set := KNone | KOpen (a : Z) | KClosed (a b : Z).

(* a note-on is legal when the key is silent and does not start before the end of the previous note;
   a note-off is legal when the key sounds and ends (strictly, if strict) after the start *)
Definition kstep (strict : bool) (st : kst) (m : msg) : option kst :=
  if is_on m then
    match st with
    | KOpen _ => None
    | KNone => Some (KOpen (m_time m))
    | KClosed _ b => if b <=? m_time m then Some (KOpen (m_time m)) else None
    end
  else
    match st with
    | KOpen a => if (if strict then a <? m_time m else a <=? m_time m) then Some (KClosed a (m_time m)) else None
    | _ => None
    end.

Fixpoint krun (strict : bool) (st : kst) (l : list msg) : option kst :=
  match l with
  | [] => Some st
  | m :: l' => match kstep strict st m with Some st' => krun strict st' l' | None => None end
  end.

(* one key is well-formed: on/off alternate starting with on, every on is closed, off strictly later than its on,
   the next on not before the previous off *)
Definition wf_key (k : k2) (l : list msg) : bool :=
  match krun true KNone (kproj k l) with
  | Some KNone | Some (KClosed _ _) => true
  | _ => false
  end.

(* well-formed absolute list: sorted by time and every key that occurs is well-formed *)
Definition wf_abs (l : list msg) : bool :=
  sorted_time l && forallb (fun m => wf_key (qkey m) l) (filter is_note l).

Lemma krun_app strict st a b :
  krun strict st (a ++ b) = match krun strict st a with Some st' => krun strict st' b | None => None end.
Proof.
  revert st. induction a as [|m a IH]; intros st; cbn [app krun]; [reflexivity|].
  destruct (kstep strict st m); [apply IH|reflexivity].
Qed.

Lemma kproj_snoc k l m :
  kproj k (l ++ [m]) = kproj k l ++ (if is_note m && k2_eqb k (qkey m) then [m] else []).
Proof. exact (filter_snoc (fun m => is_note m && k2_eqb k (qkey m)) l m). Qed.

Lemma kproj_snoc_other k l m : is_note m && k2_eqb k (qkey m) = false -> kproj k (l ++ [m]) = kproj k l.
Proof. intros H. rewrite kproj_snoc, H. apply app_nil_r. Qed.

Lemma kproj_snoc_same l m : is_note m = true -> kproj (qkey m) (l ++ [m]) = kproj (qkey m) l ++ [m].
Proof. intros H. now rewrite kproj_snoc, H, k2_eqb_refl. Qed.

Lemma filter_nil_of_existsb {A} (p : A -> bool) l : existsb p l = false -> filter p l = [].
Proof.
  induction l as [|x l IH]; cbn [existsb filter]; [reflexivity|].
  intros H. apply orb_false_iff in H. destruct H as [-> H]. auto.
Qed.

Lemma wf_key_all l : forallb (fun m => wf_key (qkey m) l) (filter is_note l) = true -> forall k, wf_key k l = true.
Proof.
  intros H k. rewrite forallb_forall in H.
  destruct (existsb (fun m => is_note m && k2_eqb k (qkey m)) l) eqn:E.
  - apply existsb_exists in E. destruct E as (m & Hm & E). apply andb_true_iff in E. destruct E as [E1 E2].
    apply k2_eqb_eq in E2. subst k. apply H. apply filter_In. now split.
  - unfold wf_key, kproj. now rewrite filter_nil_of_existsb.
Qed.

Lemma wf_abs_spec l : wf_abs l = true <-> sorted_time l = true /\ forall k, wf_key k l = true.
Proof.
  unfold wf_abs. rewrite andb_true_iff. split.
  - intros [H1 H2]. split; [exact H1|now apply wf_key_all].
  - intros [H1 H2]. split; [exact H1|]. apply forallb_forall. intros m _. apply H2.
Qed.

(* ------------------------------------------------------------------ the loop invariant *)
Definition agree (st : kst) (o : option Z) (tm : option (list Z)) : Prop :=
  match st with
  | KNone => o = None /\ tm = None
  | KOpen a => o = Some a /\ tm = Some [a]
  | KClosed a b => o = None /\ tm = Some [a; b]
  end.

Definition key_inv (pre : list msg) (s : qstate) (k : k2) : Prop :=
  exists st, krun false KNone (kproj k (q_out s)) = Some st /\
    agree st (dget k2_eqb k (q_open s)) (dget k2_eqb k (q_tim s)) /\
    (forall a, st = KOpen a -> exists a', krun true KNone (kproj k pre) = Some (KOpen a')).

Definition wf_inv (pre : list msg) (s : qstate) : Prop :=
  uniq (q_open s) /\ uniq (q_tim s) /\ forall k, key_inv pre s k.

(* no key has failed so far in the input *)
Definition no_fail (pre : list msg) : Prop := forall k, krun true KNone (kproj k pre) <> None.

Lemma no_fail_prefix pre m : no_fail (pre ++ [m]) -> no_fail pre.
Proof.
  intros H k Hk. apply (H k). rewrite kproj_snoc, krun_app, Hk. reflexivity.
Qed.

Lemma is_note_set_time m t f : is_note (set_time m t f) = is_note m.
Proof. reflexivity. Qed.
Lemma is_on_set_time m t f : is_on (set_time m t f) = is_on m.
Proof. reflexivity. Qed.
Lemma qkey_set_time m t f : qkey (set_time m t f) = qkey m.
Proof. reflexivity. Qed.

Lemma dget2_dset k k' {V} (v : V) d :
  dget k2_eqb k (dset k2_eqb k' v d) = if k2_eqb k k' then Some v else dget k2_eqb k d.
Proof. apply dget_dset. apply k2_eqb_eq. Qed.

Lemma dget2_ddel k k' {V} (d : list (k2 * V)) : uniq d ->
  dget k2_eqb k (ddel k2_eqb k' d) = if k2_eqb k k' then None else dget k2_eqb k d.
Proof. apply dget_ddel. apply k2_eqb_eq. Qed.

(* messages of other keys do not disturb the invariant of key k *)
Lemma key_inv_other pre s m k s' :
  is_note m && k2_eqb k (qkey m) = false ->
  kproj k (q_out s') = kproj k (q_out s) ->
  dget k2_eqb k (q_open s') = dget k2_eqb k (q_open s) ->
  dget k2_eqb k (q_tim s') = dget k2_eqb k (q_tim s) ->
  key_inv pre s k -> key_inv (pre ++ [m]) s' k.
Proof.
  intros Hk Ho Hop Htm (st & Hr & Ha & Hin). exists st. rewrite Ho, Hop, Htm.
  split; [exact Hr|]. split; [exact Ha|]. rewrite kproj_snoc_other by exact Hk. exact Hin.
Qed.

Lemma agree_not_open st o tm : agree st o tm -> o = None -> forall a, st <> KOpen a.
Proof. intros H Ho a ->. cbn in H. destruct H. congruence. Qed.

Lemma key_inv_closed pre s m k st :
  krun false KNone (kproj k (q_out s)) = Some st ->
  agree st (dget k2_eqb k (q_open s)) (dget k2_eqb k (q_tim s)) ->
  (forall a, st <> KOpen a) -> key_inv (pre ++ [m]) s k.
Proof.
  intros Hr Ha Hn. exists st. split; [exact Hr|]. split; [exact Ha|]. intros a ->. now destruct (Hn a).
Qed.

Lemma kstep_on strict st m st' : is_on m = true -> kstep strict st m = Some st' ->
  st' = KOpen (m_time m) /\ forall a, st <> KOpen a.
Proof.
  unfold kstep. intros ->. destruct st as [|a|a b]; try discriminate.
  - intros [= <-]. split; [reflexivity|discriminate].
  - destruct (b <=? m_time m); [|discriminate]. intros [= <-]. split; [reflexivity|discriminate].
Qed.

Lemma is_on_off_false m : m_type m = NOTE_OFF -> is_on m = false.
Proof. intros T. unfold is_on, mtype_eqb. now rewrite T. Qed.

Lemma wf_step steps pre s m : no_fail (pre ++ [m]) -> wf_inv pre s ->
  wf_inv (pre ++ [m]) (qstep steps s m) /\ (m_type m = NOTE_ON -> q_retrig steps s m = s).
Proof.
  intros Hnf (Hu1 & Hu2 & Hk).
  destruct (is_note m) eqn:N.
  2:{ (* not a note *)
    assert (T : m_type m <> NOTE_ON /\ m_type m <> NOTE_OFF).
    { apply nonnote_type. unfold nonnote. now rewrite N. }
    destruct T as [T1 T2]. split; [|intros; congruence].
    rewrite qstep_other by assumption. split; [exact Hu1|]. split; [exact Hu2|]. intros k.
    apply key_inv_other with (s := s); try reflexivity; [now rewrite N|idtac|apply Hk].
    cbn [q_out]. apply kproj_snoc_other. unfold qmove. now rewrite is_note_set_time, N. }
  assert (Hother : forall k s', k2_eqb k (qkey m) = false ->
            kproj k (q_out s') = kproj k (q_out s) ->
            dget k2_eqb k (q_open s') = dget k2_eqb k (q_open s) ->
            dget k2_eqb k (q_tim s') = dget k2_eqb k (q_tim s) -> key_inv (pre ++ [m]) s' k).
  { intros k s' E H1 H2 H3. apply key_inv_other with (s := s); auto. now rewrite E, andb_false_r. }
  apply is_note_type in N. destruct N as [T|T].
  - (* NOTE_ON *)
    assert (Hon : is_on m = true) by now apply is_on_type.
    assert (Hnote : is_note m = true) by (apply is_note_type; now left).
    pose proof (Hnf (qkey m)) as Hnf0. rewrite kproj_snoc_same, krun_app in Hnf0 by exact Hnote.
    destruct (krun true KNone (kproj (qkey m) pre)) as [stin|] eqn:Rin; [|congruence].
    cbn [krun] in Hnf0. destruct (kstep true stin m) as [stin'|] eqn:KS; [|congruence]. clear Hnf0.
    destruct (kstep_on _ _ _ _ Hon KS) as [-> Hstin].
    destruct (Hk (qkey m)) as (st & Hr & Ha & Hin).
    assert (Hst : forall a, st <> KOpen a).
    { intros a ->. destruct (Hin a eq_refl) as (a' & Hr'). rewrite Rin in Hr'. injection Hr' as ->. now destruct (Hstin a'). }
    assert (Hop : dget k2_eqb (qkey m) (q_open s) = None).
    { destruct st as [|a|a b]; cbn in Ha; try tauto. now destruct (Hst a). }
    assert (Hret : q_retrig steps s m = s) by (unfold q_retrig; now rewrite Hop).
    split; [|intros _; exact Hret].
    rewrite qstep_on by exact T. cbv zeta. rewrite Hret.
    destruct (q_can_open steps s m) eqn:C.
    + split; [now apply uniq_dset; [apply k2_eqb_eq|]|]. split; [now apply uniq_dset; [apply k2_eqb_eq|]|].
      intros k. destruct (k2_eqb k (qkey m)) eqn:E.
      * apply k2_eqb_eq in E. subst k. exists (KOpen (qnt steps m)). cbn [q_out q_open q_tim].
        split; [|split].
        -- change (qkey m) with (qkey (qmove steps m)). rewrite kproj_snoc_same by exact Hnote.
           change (qkey (qmove steps m)) with (qkey m). rewrite krun_app, Hr. cbn [krun].
           unfold kstep. change (is_on (qmove steps m)) with (is_on m). rewrite Hon.
           change (m_time (qmove steps m)) with (qnt steps m).
           destruct st as [|a|a b]; [reflexivity|now destruct (Hst a)|].
           unfold q_can_open in C. cbn in Ha. destruct Ha as [_ Ha]. rewrite Ha in C. cbn [nth] in C.
           apply negb_true_iff, Z.ltb_ge in C. apply Z.leb_le in C. now rewrite C.
        -- cbn. now rewrite !dget2_dset, k2_eqb_refl.
        -- intros a _. exists (m_time m). rewrite kproj_snoc_same, krun_app, Rin by exact Hnote.
           cbn [krun]. now rewrite KS.
      * apply Hother; [exact E|..]; cbn [q_out q_open q_tim].
        -- apply kproj_snoc_other. change (qkey (qmove steps m)) with (qkey m). now rewrite E, andb_false_r.
        -- now rewrite dget2_dset, E.
        -- now rewrite dget2_dset, E.
    + split; [exact Hu1|]. split; [exact Hu2|]. intros k. destruct (k2_eqb k (qkey m)) eqn:E.
      * apply k2_eqb_eq in E. subst k. now apply key_inv_closed with (st := st).
      * now apply Hother.
  - (* NOTE_OFF *)
    split; [|intros; congruence].
    assert (Hon : is_on m = false) by now apply is_on_off_false.
    assert (Hnote : is_note m = true) by (apply is_note_type; now right).
    rewrite qstep_off by exact T.
    destruct (Hk (qkey m)) as (st & Hr & Ha & Hin).
    destruct (dget k2_eqb (qkey m) (q_open s)) as [ot|] eqn:G.
    + set (nt := closest (m_time m) (q_valid steps ot m)).
      assert (Hnt : ot <= nt).
      { pose proof (closest_in (m_time m) (q_valid steps ot m) (q_valid_nonempty _ _ _)) as Hc.
        apply q_valid_in in Hc. fold nt in Hc. lia. }
      split; [now apply uniq_ddel|]. split; [unfold q_tim_app; now apply uniq_dset; [apply k2_eqb_eq|]|].
      intros k. destruct (k2_eqb k (qkey m)) eqn:E.
      * apply k2_eqb_eq in E. subst k.
        destruct st as [|a|a b]; cbn in Ha; destruct Ha as [Ha1 Ha2]; try discriminate.
        injection Ha1 as <-. exists (KClosed ot nt). cbn [q_out q_open q_tim]. split; [|split].
        -- change (qkey m) with (qkey (set_time m nt (m_tf m))). rewrite kproj_snoc_same by exact Hnote.
           change (qkey (set_time m nt (m_tf m))) with (qkey m). rewrite krun_app, Hr. cbn [krun].
           unfold kstep. change (is_on (set_time m nt (m_tf m))) with (is_on m). rewrite Hon.
           change (m_time (set_time m nt (m_tf m))) with nt.
           apply Z.leb_le in Hnt. now rewrite Hnt.
        -- cbn. rewrite dget2_ddel, k2_eqb_refl by exact Hu1. split; [reflexivity|].
           unfold q_tim_app. now rewrite dget2_dset, k2_eqb_refl, Ha2.
        -- intros a [=].
      * apply Hother; [exact E|..]; cbn [q_out q_open q_tim].
        -- apply kproj_snoc_other. change (qkey (set_time m nt (m_tf m))) with (qkey m). now rewrite E, andb_false_r.
        -- now rewrite dget2_ddel, E by exact Hu1.
        -- unfold q_tim_app. now rewrite dget2_dset, E.
    + split; [exact Hu1|]. split; [exact Hu2|]. intros k. destruct (k2_eqb k (qkey m)) eqn:E.
      * apply k2_eqb_eq in E. subst k. apply key_inv_closed with (st := st); [exact Hr|now rewrite G|].
        now apply (agree_not_open _ _ _ Ha).
      * now apply Hother.
Qed.

(* ------------------------------------------------------------------ the loop on well-formed input *)
Lemma wf_key_no_fail l : (forall k, wf_key k l = true) -> no_fail l.
Proof.
  intros H k Hk. specialize (H k). unfold wf_key in H. rewrite Hk in H. discriminate.
Qed.

Definition wfm_inv (M : Z) (pre : list msg) (s : qstate) : Prop := wf_inv pre s /\ move_inv false M pre s.

Lemma wfm_core l steps : steps <> [] -> pos_steps steps = true -> wf_abs l = true ->
  wfm_inv (maxZ steps) l (quantise_core l steps).
Proof.
  intros Hne Hpos Hwf. apply wf_abs_spec in Hwf. destruct Hwf as [Hs Hk]. unfold quantise_core.
  apply (fold_inv_pre (qstep steps) (wfm_inv (maxZ steps))
           (fun p => sorted_time p = true /\ no_fail p)) with (pre := []) (l := l).
  - intros pre m [H1 H2]. split; [exact (proj1 (sorted_time_app _ _ H1))|now apply no_fail_prefix with m].
  - intros pre s m [Hq1 Hq2] [Hw Hm]. destruct (wf_step steps pre s m Hq2 Hw) as [Hw' Hret].
    split; [exact Hw'|]. apply move_step; auto.
  - split; [exact Hs|now apply wf_key_no_fail].
  - split.
    + split; [constructor|]. split; [constructor|]. intros k. exists KNone. cbn. repeat split; discriminate.
    + split; constructor.
Qed.

(* end state of a key that is not sounding *)
Definition kst_closed (st : kst) : Prop := match st with KOpen _ => False | _ => True end.

(* the loop result: per key, on/off alternate starting with on and ending with off; off >= on; the next on is not
   before the previous off (non-strict run) *)
Lemma wf_core l steps : (forall k, wf_key k l = true) -> wf_inv l (quantise_core l steps).
Proof.
  intros Hk. unfold quantise_core.
  apply (fold_inv_pre (qstep steps) wf_inv no_fail) with (pre := []) (l := l).
  - intros pre m H. now apply no_fail_prefix with m.
  - intros pre s m Hq Hw. exact (proj1 (wf_step steps pre s m Hq Hw)).
  - now apply wf_key_no_fail.
  - split; [constructor|]. split; [constructor|]. intros k. exists KNone. cbn. repeat split; discriminate.
Qed.

Lemma C05_wf_core : forall l steps, (forall k, wf_key k l = true) ->
  forall k, exists st, krun false KNone (kproj k (q_out (quantise_core l steps))) = Some st /\ kst_closed st.
Proof.
  intros l steps Hkeys k. destruct (wf_core l steps Hkeys) as (_ & _ & Hk).
  destruct (Hk k) as (st & Hr & _ & Hin). exists st. split; [exact Hr|].
  destruct st as [|a|a b]; cbn; auto. destruct (Hin a eq_refl) as (a' & Hr').
  specialize (Hkeys k). unfold wf_key in Hkeys.
  rewrite Hr' in Hkeys. discriminate.
Qed.

(* on well-formed input no note-off is ever inserted: every message of the loop result is an input message moved
   by at most max steps *)
Lemma C05_no_insert_core : forall l steps, steps <> [] -> pos_steps steps = true -> wf_abs l = true ->
  Forall (moved_from false (maxZ steps) l) (q_out (quantise_core l steps)).
Proof. intros l steps Hne Hpos Hwf. exact (proj1 (proj2 (wfm_core l steps Hne Hpos Hwf))). Qed.

Lemma C05_no_insert : forall l steps out, steps <> [] -> pos_steps steps = true -> wf_abs l = true ->
  quantise l steps = Ok out ->
  Forall (fun x => exists m t', In m l /\ Z.abs (t' - m_time m) <= maxZ steps /\ x = set_time m t' (m_tf m)) out.
Proof.
  intros l steps out Hne Hpos Hwf H. rewrite quantise_eq in H by exact Hne. injection H as <-.
  apply sort_abs_Forall, remove_indices_Forall.
  eapply Forall_impl; [|exact (C05_no_insert_core l steps Hne Hpos Hwf)].
  intros x (m & t' & H1 & H2 & [H3|[H3 _]]); [|discriminate]. exists m, t'. tauto.
Qed.

(* ------------------------------------------------------------------ pairing up an alternating list *)
Definition spair : Set := (msg * option msg)%type.

Fixpoint cpairs (o : option msg) (L : list msg) : list spair :=
  match L with
  | [] => []
  | m :: L' => match o with None => cpairs (Some m) L' | Some on => (on, Some m) :: cpairs None L' end
  end.

Fixpoint popen (o : option msg) (L : list msg) : option msg :=
  match L with
  | [] => o
  | m :: L' => match o with None => popen (Some m) L' | Some _ => popen None L' end
  end.

Definition pairs_from (o : option msg) (L : list msg) : list spair :=
  cpairs o L ++ match popen o L with Some on => [(on, None)] | None => [] end.

Lemma cpairs_snoc L : forall o m,
  cpairs o (L ++ [m]) = cpairs o L ++ match popen o L with Some on => [(on, Some m)] | None => [] end.
Proof.
  induction L as [|x L IH]; intros o m; cbn [app cpairs popen].
  - destruct o; reflexivity.
  - destruct o; rewrite IH; reflexivity.
Qed.

Lemma popen_snoc L : forall o m,
  popen o (L ++ [m]) = match popen o L with Some _ => None | None => Some m end.
Proof.
  induction L as [|x L IH]; intros o m; cbn [app popen].
  - destruct o; reflexivity.
  - destruct o; apply IH.
Qed.

Definition opn (st : kst) : bool := match st with KOpen _ => true | _ => false end.
Definition is_some {A} (o : option A) : bool := match o with Some _ => true | None => false end.

Lemma kstep_opn strict st m st' : kstep strict st m = Some st' -> opn st' = negb (opn st).
Proof.
  unfold kstep. destruct (is_on m), st as [|a|a b]; try discriminate.
  - intros [= <-]. reflexivity.
  - destruct (b <=? m_time m); [|discriminate]. intros [= <-]. reflexivity.
  - destruct (if strict then _ else _); [|discriminate]. intros [= <-]. reflexivity.
Qed.

Lemma krun_popen strict : forall L st o st', krun strict st L = Some st' -> opn st = is_some o ->
  opn st' = is_some (popen o L).
Proof.
  induction L as [|m L IH]; intros st o st' Hr Ho; cbn [krun popen] in *.
  - now injection Hr as <-.
  - destruct (kstep strict st m) as [st1|] eqn:KS; [|discriminate].
    apply kstep_opn in KS. destruct o; cbn [is_some] in Ho; apply (IH st1 _ st' Hr); rewrite KS, Ho; reflexivity.
Qed.

Lemma cpairs_in o L on off : In (on, Some off) (cpairs o L) -> (In on L \/ o = Some on) /\ In off L.
Proof.
  revert o. induction L as [|m L IH]; intros o; cbn [cpairs]; [intros []|].
  destruct o as [x|].
  - intros [[= <- <-]|H]; [split; [now right|now left]|].
    destruct (IH None H) as [[H1|H1] H2]; [|discriminate]. split; [left|]; now right.
  - intros H. destruct (IH (Some m) H) as [[H1|H1] H2].
    + split; [left|]; now right.
    + injection H1 as <-. split; [left; now left|now right].
Qed.

Lemma cpairs_closed o L sp : In sp (cpairs o L) -> exists off, snd sp = Some off.
Proof.
  revert o. induction L as [|m L IH]; intros o; cbn [cpairs]; [intros []|].
  destruct o as [x|]; [intros [<-|H]; [now exists m|eauto]|eauto].
Qed.


Lemma kproj_app k a b : kproj k (a ++ b) = kproj k a ++ kproj k b.
Proof. unfold kproj. apply filter_app. Qed.

Lemma no_fail_app a b : no_fail (a ++ b) -> no_fail a.
Proof. intros H k Hk. apply (H k). now rewrite kproj_app, krun_app, Hk. Qed.

Lemma kproj_in k l m : In m (kproj k l) -> In m l /\ is_note m = true /\ qkey m = k.
Proof.
  unfold kproj. intros H. apply filter_In in H. destruct H as [H1 H2]. apply andb_true_iff in H2.
  destruct H2 as [H2 H3]. apply k2_eqb_eq in H3. auto.
Qed.

Lemma kproj_cons_eq k x l :
  kproj k (x :: l) = if is_note x && k2_eqb k (qkey x) then x :: kproj k l else kproj k l.
Proof. reflexivity. Qed.

(* ------------------------------------------------------------------ examples *)
Definition ex_l : list msg :=
  [ mk_on 0 60 90 1 false; mk_on 1 60 80 1 false; mk_cc 0 7 100 2 false; mk_off 0 60 2 false;
    mk_on 0 60 70 2 false; mk_off 1 60 5 false; mk_off 0 60 9 false; mk_on 0 62 64 9 false;
    mk_pc 1 5 10 false; mk_off 0 62 17 false ].

Example ex_l_wf : wf_abs ex_l = true /\ pos_steps [4; 6] = true.
Proof. vm_compute. split; reflexivity. Qed.

Example ex_l_out : exists out, quantise ex_l [4; 6] = Ok out /\ wf_abs out = true /\ length out = 8%nat.
Proof. eexists. split; [vm_compute; reflexivity|]. vm_compute. split; reflexivity. Qed.
