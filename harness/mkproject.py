#!/usr/bin/env python3
"""Regenerate coq/_CoqProject: Gen + Model + the Proofs/Props files of the properties listed in coq/READY."""
import os, glob
COQ = os.path.join(os.path.dirname(os.path.dirname(os.path.abspath(__file__))), "coq")
ready = [l.strip() for l in open(os.path.join(COQ, "READY")) if l.strip() and not l.startswith("#")]
lines = ["-Q Gen Gen", "-Q Model Model", "-Q Proofs Proofs", "-Q Props Props", "Gen/Enums.v", "Gen/MusicTheory.v"]
lines += ["Model/" + f for f in ["Base.v", "Seq.v", "Pairing.v", "Util.v", "Bars.v", "Store.v", "ScaleDown.v", "Tok.v", "Midi.v", "Comp.v", "Getters.v", "Show.v", "ShowX.v"]]
lines += ["Proofs/Sound_glue.v", "Proofs/Sig_glue.v"]          # shared library (sounding-set glue between the views)
for p in ready:
    lines += sorted(os.path.relpath(f, COQ) for f in glob.glob(os.path.join(COQ, "Proofs", f"{p}_*.v")))
    lines.append(f"Props/{p}.v")
lines.insert(lines.index("Props/C01.v"), "Proofs/Comp_proofs.v")   # Bar / Track / Composition lemmas (used by Props C10 C11 C14 C16)
open(os.path.join(COQ, "_CoqProject"), "w").write("\n".join(lines) + "\n")
print("ready:", ready)
