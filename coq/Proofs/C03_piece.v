(* C03 (piece level), final part -- a piece given bar by bar (every bar: its signature and the content of every track,
   the relative list of the bar being `mk_ts 0 num den 0 false :: content` as built by the Bar constructor), any
   partition of the bar sequence into consecutive call groups: the threaded `tokenise` calls and the single call on the
   whole piece detokenise to the same notes. *)
From Coq Require Import ZArith List Bool Lia Permutation Sorted.
From Model Require Import Base Util Seq Pairing Tok.
From Proofs Require Import C05_closest C04_sort C04_proofs C07_proofs.
From Proofs Require Import C01_frontend_sig C01_frontend_pipe C01_frontend_pair C01_rest C01_proofs C01_frontend C03_proofs.
From Proofs Require Import C03_piece_norm C03_piece_fe C03_piece_bars C03_piece_clock C03_piece_join C03_piece_groups.
Import ListNotations.
Open Scope Z_scope.

(* ================================================================ bars *)
(* one bar of the piece: numerator, denominator, and the content of every track (without the leading signature) *)
Definition bar_col : Set := (Z * Z * list (list msg))%type.
Definition bc_sig (b : bar_col) : Z * Z := fst b.
Definition bc_cont (b : bar_col) : list (list msg) := snd b.
Definition bc_cap (c : cfg) (b : bar_col) : Z := bar_cap c (fst (bc_sig b)) (snd (bc_sig b)).
(* the relative list of track i of the bar, as the Bar constructor leaves it *)
Definition bar_rel (b : bar_col) (i : nat) : list msg :=
  mk_ts 0 (fst (bc_sig b)) (snd (bc_sig b)) 0 false :: nth i (bc_cont b) [].
(* track i of a run of bars, and the lists handed to `tokenise` for the run *)
Definition track_of (cols : list bar_col) (i : nat) : list msg := concat (map (fun b => bar_rel b i) cols).
Definition join (nt : nat) (cols : list bar_col) : list (list msg) := map (track_of cols) (List.seq 0%nat nt).
Definition sigs_of (cols : list bar_col) : list (Z * Z) := map bc_sig cols.

(* the content of one track of a bar: non-negative waits, only WAIT / NOTE_ON / NOTE_OFF messages, per pitch the
   notes alternate on / off with positive durations and are all closed (they end within the bar), total duration = the
   bar's capacity, every note valid for the tokeniser *)
Definition content_ok (g : Z) (c : cfg) (cap : Z) (r : list msg) : bool :=
  wfr r && forallb (fun m => is_wait m || is_note m) r &&
  forallb (fun m => negb (is_note m) || sig_ok (psig (m_note m) 0 r)) r &&
  (dur_rel r =? cap) && forallb (note_ok g c) (notes_of r).
Definition bar_ok (g : Z) (c : cfg) (nt : nat) (b : bar_col) : bool :=
  Nat.eqb (length (bc_cont b)) nt && sig_valid g c (bc_sig b) && forallb (content_ok g c (bc_cap c b)) (bc_cont b).
(* no message at the bar's last instant: every track of the bar ends with a positive wait *)
Definition open_bar (c : cfg) (b : bar_col) : bool :=
  forallb (fun r => forallb (fun tm => fst tm <? bc_cap c b) (timed 0 r)) (bc_cont b).
Definition dummy_bar : bar_col := (0, 0, []).
(* a call group: at least one bar, every bar valid, the last one open-ended *)
Definition bars_group_ok (g : Z) (c : cfg) (nt : nat) (cols : list bar_col) : bool :=
  negb (match cols with [] => true | _ => false end) && forallb (bar_ok g c nt) cols && open_bar c (last cols dummy_bar).

Lemma content_ok_parts g c cap r : content_ok g c cap r = true ->
  wfr r = true /\ (forall m, In m r -> is_wait m || is_note m = true) /\ (forall p, sig_ok (psig p 0 r) = true) /\
  dur_rel r = cap /\ (forall x, In x (notes_of r) -> note_ok g c x = true).
Proof.
  unfold content_ok. intros H. apply andb_prop in H. destruct H as [H H5]. apply andb_prop in H. destruct H as [H H4].
  apply andb_prop in H. destruct H as [H H3]. apply andb_prop in H. destruct H as [H1 H2].
  rewrite forallb_forall in H2, H5. apply Z.eqb_eq in H4.
  split; [exact H1|]. split; [exact H2|]. split; [|split; [exact H4|exact H5]].
  intros n. rewrite forallb_forall in H3.
  destruct (existsb (fun m => is_note m && (m_note m =? n)) r) eqn:E.
  - apply existsb_exists in E. destruct E as (m & Hm & E). apply andb_prop in E. destruct E as [E1 E2].
    apply Z.eqb_eq in E2. subst n. specialize (H3 m Hm). now rewrite E1 in H3.
  - rewrite psig_nil; [reflexivity|]. intros m Hm Hn Heq.
    assert (existsb (fun m => is_note m && (m_note m =? n)) r = true); [|congruence].
    apply existsb_exists. exists m. split; [exact Hm|]. rewrite Hn. now apply Z.eqb_eq.
Qed.

Lemma no_ts_content r m : (forall x, In x r -> is_wait x || is_note x = true) -> In m r -> is_ts m = false.
Proof.
  intros H Hm. specialize (H m Hm). destruct (is_ts m) eqn:E; [|reflexivity].
  rewrite (ts_not_wait m E), (ts_not_note m E) in H. discriminate.
Qed.

Section Track.
  Variables (g : Z) (c : cfg) (nt : nat) (i : nat).
  Hypothesis Hg : 0 < g.
  Hypothesis Hi : (i < nt)%nat.

  Lemma bar_content b : bar_ok g c nt b = true ->
    sig_valid g c (bc_sig b) = true /\ 0 < bc_cap c b /\ (g | bc_cap c b) /\ content_ok g c (bc_cap c b) (nth i (bc_cont b) []) = true.
  Proof.
    unfold bar_ok. intros H. apply andb_prop in H. destruct H as [H H3]. apply andb_prop in H. destruct H as [H1 H2].
    apply Nat.eqb_eq in H1. split; [exact H2|].
    pose proof H2 as H2'. unfold sig_valid in H2'. apply andb_prop in H2'. destruct H2' as [H2' V5].
    apply andb_prop in H2'. destruct H2' as [_ V4]. apply Z.ltb_lt in V4. apply divb_true in V5; [|exact Hg].
    split; [exact V4|]. split; [exact V5|]. rewrite forallb_forall in H3. apply H3. apply nth_In. lia.
  Qed.

  Lemma bar_rel_dur b : bar_ok g c nt b = true -> dur_rel (bar_rel b i) = bc_cap c b.
  Proof.
    intros H. destruct (bar_content b H) as (_ & _ & _ & Hc). destruct (content_ok_parts _ _ _ _ Hc) as (_ & _ & _ & Hd & _).
    unfold bar_rel. rewrite C04_proofs.dur_rel_cons. cbn. exact Hd.
  Qed.

  Lemma bar_rel_wfr b : bar_ok g c nt b = true -> wfr (bar_rel b i) = true.
  Proof.
    intros H. destruct (bar_content b H) as (_ & _ & _ & Hc). destruct (content_ok_parts _ _ _ _ Hc) as (Hw & _).
    unfold bar_rel. cbn [wfr forallb]. fold (wfr (nth i (bc_cont b) [])). now rewrite Hw.
  Qed.

  Lemma bar_rel_sig b p : bar_ok g c nt b = true -> sig_ok (psig p 0 (bar_rel b i)) = true.
  Proof.
    intros H. destruct (bar_content b H) as (_ & _ & _ & Hc). destruct (content_ok_parts _ _ _ _ Hc) as (_ & _ & Hs & _).
    unfold bar_rel. cbn [psig]. apply Hs.
  Qed.

  Lemma bar_rel_notes b : notes_of (bar_rel b i) = notes_of (nth i (bc_cont b) []).
  Proof. reflexivity. Qed.

  Lemma track_dur cols : forallb (bar_ok g c nt) cols = true -> dur_rel (track_of cols i) = bars_dur c (sigs_of cols).
  Proof.
    induction cols as [|b cols IH]; intros H; [reflexivity|]. cbn [forallb] in H. apply andb_prop in H. destruct H as [Hb H].
    unfold track_of. cbn [map concat sigs_of bars_dur]. rewrite C04_proofs.dur_rel_app, (bar_rel_dur b Hb).
    fold (track_of cols i). fold (sigs_of cols). rewrite (IH H). reflexivity.
  Qed.

  Lemma track_wfr cols : forallb (bar_ok g c nt) cols = true -> wfr (track_of cols i) = true.
  Proof.
    induction cols as [|b cols IH]; intros H; [reflexivity|]. cbn [forallb] in H. apply andb_prop in H. destruct H as [Hb H].
    unfold track_of. cbn [map concat]. rewrite wfr_app, (bar_rel_wfr b Hb). apply (IH H).
  Qed.

  Lemma track_msgs cols m : forallb (bar_ok g c nt) cols = true -> In m (track_of cols i) -> gmsg_ok m = true.
  Proof.
    induction cols as [|b cols IH]; intros H Hm; [destruct Hm|]. cbn [forallb] in H. apply andb_prop in H. destruct H as [Hb H].
    unfold track_of in Hm. cbn [map concat] in Hm. apply in_app_or in Hm. destruct Hm as [Hm|Hm]; [|now apply IH].
    unfold bar_rel in Hm. destruct Hm as [<-|Hm]; [reflexivity|].
    destruct (bar_content b Hb) as (_ & _ & _ & Hc). destruct (content_ok_parts _ _ _ _ Hc) as (_ & Hk & _).
    specialize (Hk m Hm). unfold gmsg_ok. now rewrite Hk.
  Qed.

  (* every pitch of a run of bars is well formed *)
  Lemma track_sig cols p : forallb (bar_ok g c nt) cols = true -> sig_ok (psig p 0 (track_of cols i)) = true.
  Proof.
    induction cols as [|b cols IH]; intros H; [reflexivity|]. cbn [forallb] in H. apply andb_prop in H. destruct H as [Hb H].
    unfold track_of. cbn [map concat]. fold (track_of cols i). rewrite psig_app, Z.add_0_l.
    apply sig_ok_app; [now apply bar_rel_sig| |].
    - rewrite <- (Z.add_0_l (dur_rel (bar_rel b i))), psig_shift, sig_ok_shift. now apply IH.
    - intros x y Hx Hy. pose proof (psig_upper p _ (bar_rel_wfr b Hb) 0 x Hx) as Bx.
      pose proof (psig_upper p _ (track_wfr cols H) _ y Hy) as By. lia.
  Qed.

  Lemma track_gtrack cols : forallb (bar_ok g c nt) cols = true -> gtrack_ok (track_of cols i) = true.
  Proof.
    intros H. unfold gtrack_ok. rewrite (track_wfr cols H). cbn [andb]. apply andb_true_intro. split.
    - apply forallb_forall. intros m Hm. now apply track_msgs with cols.
    - apply forallb_forall. intros m _. rewrite (track_sig cols (m_note m) H). apply orb_true_r.
  Qed.

  (* a time signature exactly at every bar start *)
  Lemma track_tsv cols : forallb (bar_ok g c nt) cols = true -> forall cur,
    tsv (ev_rel_from cur (track_of cols i)) = bar_tsl c cur (sigs_of cols).
  Proof.
    induction cols as [|b cols IH]; intros H cur; [reflexivity|]. cbn [forallb] in H. apply andb_prop in H. destruct H as [Hb H].
    unfold track_of. cbn [map concat sigs_of bar_tsl]. fold (track_of cols i). fold (sigs_of cols).
    rewrite ev_rel_from_app, tsv_app, (bar_rel_dur b Hb), (IH H). f_equal.
    unfold bar_rel. cbn [ev_rel_from is_wait is_internal mtype_eqb mk_ts m_type mtype_rank Z.eqb Pos.eqb].
    destruct (bar_content b Hb) as (_ & _ & _ & Hc). destruct (content_ok_parts _ _ _ _ Hc) as (_ & Hk & _).
    change (tsv ((cur, strip_time (mk_ts 0 (fst (bc_sig b)) (snd (bc_sig b)) 0 false)) :: ev_rel_from cur (nth i (bc_cont b) [])))
      with ((cur, fst (bc_sig b), snd (bc_sig b)) :: tsv (ev_rel_from cur (nth i (bc_cont b) []))).
    rewrite tsv_no_ts; [reflexivity|]. intros m Hm. now apply no_ts_content with (nth i (bc_cont b) []).
  Qed.

  (* no message at the last instant of the run when the last bar is open-ended *)
  Lemma track_open cols : cols <> [] -> forallb (bar_ok g c nt) cols = true -> open_bar c (last cols dummy_bar) = true ->
    forall cur tm, In tm (timed cur (track_of cols i)) -> fst tm < cur + bars_dur c (sigs_of cols).
  Proof.
    induction cols as [|b cols IH]; intros Hne H Ho cur tm Htm; [congruence|].
    cbn [forallb] in H. apply andb_prop in H. destruct H as [Hb H].
    destruct (bar_content b Hb) as (_ & Hcap & _ & Hc). destruct (content_ok_parts _ _ _ _ Hc) as (Hw & _ & _ & Hd & _).
    unfold track_of in Htm. cbn [map concat] in Htm. fold (track_of cols i) in Htm.
    rewrite timed_app, (bar_rel_dur b Hb) in Htm. cbn [sigs_of map bars_dur]. fold (sigs_of cols). fold (bc_cap c b).
    apply in_app_or in Htm. destruct Htm as [Htm|Htm].
    - assert (Hpos : 0 <= bars_dur c (sigs_of cols)).
      { apply bars_dur_nonneg. apply Forall_forall. intros nd Hnd. unfold sigs_of in Hnd. apply in_map_iff in Hnd.
        destruct Hnd as (b' & <- & Hb'). rewrite forallb_forall in H. now destruct (bar_content b' (H b' Hb')) as (_ & Hp & _). }
      unfold bar_rel in Htm. cbn [timed is_wait mtype_eqb mk_ts m_type mtype_rank Z.eqb Pos.eqb] in Htm.
      destruct Htm as [<-|Htm]; [cbn [fst]; lia|].
      destruct cols as [|b' cols'].
      + (* the last bar: open-ended *)
        cbn [last] in Ho. unfold open_bar in Ho. rewrite forallb_forall in Ho.
        assert (Hin : In (nth i (bc_cont b) []) (bc_cont b)).
        { apply nth_In. unfold bar_ok in Hb. apply andb_prop in Hb. destruct Hb as [Hb _]. apply andb_prop in Hb.
          destruct Hb as [Hb _]. apply Nat.eqb_eq in Hb. lia. }
        specialize (Ho _ Hin). rewrite forallb_forall in Ho.
        rewrite <- (Z.add_0_l cur), timed_shift in Htm. apply in_map_iff in Htm. destruct Htm as (tm0 & <- & Htm0).
        specialize (Ho _ Htm0). apply Z.ltb_lt in Ho. cbn [fst bars_dur sigs_of map]. lia.
      + pose proof (timed_bounds _ Hw cur tm Htm) as Bd. rewrite Hd in Bd.
        assert (0 < bars_dur c (sigs_of (b' :: cols'))).
        { cbn [sigs_of map bars_dur]. cbn [forallb] in H. apply andb_prop in H. destruct H as [Hb' H].
          destruct (bar_content b' Hb') as (_ & Hp' & _). fold (bc_cap c b').
          assert (0 <= bars_dur c (map bc_sig cols')); [|lia].
          apply bars_dur_nonneg. apply Forall_forall. intros nd Hnd. apply in_map_iff in Hnd.
          destruct Hnd as (b'' & <- & Hb''). rewrite forallb_forall in H. now destruct (bar_content b'' (H b'' Hb'')) as (_ & Hp & _). }
        lia.
    - destruct cols as [|b' cols']; [destruct Htm|].
      assert (Hlast : last (b :: b' :: cols') dummy_bar = last (b' :: cols') dummy_bar) by reflexivity.
      rewrite Hlast in Ho. specialize (IH ltac:(discriminate) H Ho _ _ Htm). lia.
  Qed.

  (* the notes of a run of bars: those of every bar, moved to the bar's start *)
  Fixpoint bars_notes (s : Z) (cols : list bar_col) : list note :=
    match cols with
    | [] => []
    | b :: cols' => map (shiftn s) (notes_of (nth i (bc_cont b) [])) ++ bars_notes (s + bc_cap c b) cols'
    end.

  Lemma bars_notes_shift a cols : forall s, map (shiftn a) (bars_notes s cols) = bars_notes (s + a) cols.
  Proof.
    induction cols as [|b cols IH]; intros s; [reflexivity|]. cbn [bars_notes]. rewrite map_app, map_map, IH.
    f_equal; [|f_equal; lia]. apply map_ext. intros x. apply shiftn_shiftn.
  Qed.

  Lemma track_notes_of cols : forallb (bar_ok g c nt) cols = true ->
    Permutation (notes_of (track_of cols i)) (bars_notes 0 cols).
  Proof.
    induction cols as [|b cols IH]; intros H; [constructor|]. cbn [forallb] in H. apply andb_prop in H. destruct H as [Hb H].
    unfold track_of. cbn [map concat bars_notes]. fold (track_of cols i).
    eapply perm_trans; [apply notes_of_app; intros p; now apply bar_rel_sig|].
    rewrite bar_rel_notes, (bar_rel_dur b Hb). apply Permutation_app.
    - rewrite (map_ext (shiftn 0) (fun x => x)) by apply shiftn_0. rewrite map_id. apply Permutation_refl.
    - eapply perm_trans; [apply Permutation_map, (IH H)|]. rewrite bars_notes_shift. apply Permutation_refl.
  Qed.

  Lemma note_ok_shift a x : (g | a) -> note_ok g c (shiftn a x) = note_ok g c x.
  Proof.
    intros Ha. destruct x as [[[p t] t'] v]. unfold note_ok, shiftn. rewrite (divb_shift g a t Hg Ha).
    replace (t' + a - (t + a)) with (t' - t) by lia. reflexivity.
  Qed.

  Lemma bars_notes_ok cols : forallb (bar_ok g c nt) cols = true -> forall s x, (g | s) ->
    In x (bars_notes s cols) -> note_ok g c x = true.
  Proof.
    induction cols as [|b cols IH]; intros H s x Hs Hx; [destruct Hx|]. cbn [forallb] in H. apply andb_prop in H.
    destruct H as [Hb H]. destruct (bar_content b Hb) as (_ & _ & Hdiv & Hc).
    destruct (content_ok_parts _ _ _ _ Hc) as (_ & _ & _ & _ & Hn).
    cbn [bars_notes] in Hx. apply in_app_or in Hx. destruct Hx as [Hx|Hx].
    - apply in_map_iff in Hx. destruct Hx as (x0 & <- & Hx0). rewrite note_ok_shift by exact Hs. now apply Hn.
    - apply (IH H (s + bc_cap c b)); [|exact Hx]. now apply Z.divide_add_r.
  Qed.
End Track.

(* ================================================================ a run of bars is a group *)
Lemma join_nth nt cols i : (i < nt)%nat -> nth i (join nt cols) [] = track_of cols i.
Proof.
  intros Hi. unfold join. rewrite (nth_indep _ [] (track_of cols 0%nat)) by (rewrite map_length, seq_length; exact Hi).
  rewrite (map_nth (track_of cols) (List.seq 0%nat nt) 0%nat i), seq_nth by exact Hi. reflexivity.
Qed.

Lemma join_In nt cols r : In r (join nt cols) -> exists i, (i < nt)%nat /\ r = track_of cols i.
Proof.
  unfold join. intros H. apply in_map_iff in H. destruct H as (i & <- & Hi). apply in_seq in Hi. exists i. split; [lia|reflexivity].
Qed.

Lemma bars_group g c nt cols :
  valid_cfg g c = true -> Z.of_nat nt = c_ntracks c -> bars_group_ok g c nt cols = true ->
  group_ok g c (sigs_of cols) (join nt cols) = true.
Proof.
  intros Hc Hnt H. destruct (valid_cfg_parts g c Hc) as (_ & Hg & _).
  unfold bars_group_ok in H. apply andb_prop in H. destruct H as [H Ho]. apply andb_prop in H. destruct H as [Hne Hb].
  assert (Hne' : cols <> []) by (destruct cols; [discriminate|discriminate]).
  assert (Hsv : forallb (sig_valid g c) (sigs_of cols) = true).
  { apply forallb_forall. intros nd Hnd. unfold sigs_of in Hnd. apply in_map_iff in Hnd. destruct Hnd as (b & <- & Hb').
    rewrite forallb_forall in Hb. specialize (Hb b Hb'). unfold bar_ok in Hb. apply andb_prop in Hb. destruct Hb as [Hb _].
    now apply andb_prop in Hb. }
  assert (HT : 0 < bars_dur c (sigs_of cols)).
  { pose proof (sig_valid_pos g c _ Hsv) as Hp. destruct cols as [|b cols]; [congruence|].
    cbn [sigs_of map bars_dur] in *. inversion Hp as [|? ? H1 H2]; subst. pose proof (bars_dur_nonneg c _ H2). lia. }
  unfold group_ok. apply andb_true_intro. split; [apply andb_true_intro; split; [apply andb_true_intro; split; [apply andb_true_intro; split|]|]|].
  - apply Z.eqb_eq. unfold lenZ, join. rewrite map_length, seq_length. exact Hnt.
  - now apply Z.ltb_lt.
  - exact Hsv.
  - apply forallb_forall. intros r Hr. destruct (join_In nt cols r Hr) as (i & Hi & ->).
    unfold gbar_track. rewrite (track_gtrack g c nt i Hg Hi cols Hb). cbn [andb].
    unfold ev_rel. rewrite (track_tsv g c nt i Hg Hi cols Hb 0), (track_dur g c nt i Hg Hi cols Hb), Z.eqb_refl.
    assert (E : tsl_eqb (bar_tsl c 0 (sigs_of cols)) (bar_tsl c 0 (sigs_of cols)) = true).
    { induction (bar_tsl c 0 (sigs_of cols)) as [|x l IH]; [reflexivity|]. cbn [tsl_eqb]. now rewrite !Z.eqb_refl, IH. }
    rewrite E. cbn [andb]. apply forallb_forall. intros tm Htm. apply Z.ltb_lt.
    pose proof (track_open g c nt i Hg Hi cols Hne' Hb Ho 0 tm Htm). lia.
  - apply forallb_forall. intros r Hr. destruct (join_In nt cols r Hr) as (i & Hi & ->).
    apply forallb_forall. intros x Hx.
    eapply Permutation_in in Hx; [|apply (track_notes_of g c nt i Hg Hi cols Hb)].
    apply (bars_notes_ok g c nt i Hg Hi cols Hb 0 x); [apply Z.divide_0_r|exact Hx].
Qed.

