From Model Require Export Store.
