(* C01 (front end), part 2 -- the sorted absolute list handed to the pairing step by `tok_frontend`, for tracks whose
   notes are well formed per pitch: every (channel, pitch) key keeps exactly the signature of its track, nothing but
   note messages and at most one INTERNAL cap (at the duration of the longest track) is present. *)
From Coq Require Import ZArith List Bool Lia Permutation.
From Model Require Import Base Util Seq Pairing Tok.
From Proofs Require Import C04_sort C04_proofs C07_proofs C01_frontend_sig.
Import ListNotations.
Open Scope Z_scope.

(* ================================================================ track well-formedness (notes only) *)
(* only WAIT / NOTE_ON / NOTE_OFF messages *)
Definition msg_ok (m : msg) : bool := is_wait m || is_note m.
(* non-negative waits; only waits and notes; the signature of every pitch that occurs is well formed *)
Definition sig_track_ok (r : list msg) : bool :=
  wfr r && forallb msg_ok r && forallb (fun m => negb (is_note m) || sig_ok (psig (m_note m) 0 r)) r.

Lemma psig_nil n r : (forall m, In m r -> is_note m = true -> m_note m <> n) -> forall cur, psig n cur r = [].
Proof.
  induction r as [|m r IH]; intros H cur; [reflexivity|]. cbn [psig].
  assert (IH' : forall c, psig n c r = []) by (apply IH; intros x Hx; apply H; now right).
  destruct (is_wait m); [apply IH'|].
  destruct (is_note m) eqn:En; cbn [andb]; [|apply IH'].
  destruct (Z.eqb_spec n (m_note m)) as [E|E]; [|apply IH'].
  exfalso. apply (H m (or_introl eq_refl) En). now symmetry.
Qed.

Lemma sig_track_ok_parts r : sig_track_ok r = true ->
  wfr r = true /\ (forall m, In m r -> msg_ok m = true) /\ forall n, sig_ok (psig n 0 r) = true.
Proof.
  unfold sig_track_ok. intros H. apply andb_prop in H. destruct H as [H H3]. apply andb_prop in H. destruct H as [H1 H2].
  split; [exact H1|]. split; [now apply forallb_forall|].
  intros n. rewrite forallb_forall in H3.
  destruct (existsb (fun m => is_note m && (m_note m =? n)) r) eqn:E.
  - apply existsb_exists in E. destruct E as (m & Hm & E). apply andb_prop in E. destruct E as [E1 E2].
    apply Z.eqb_eq in E2. subst n. specialize (H3 m Hm). now rewrite E1 in H3.
  - rewrite psig_nil; [reflexivity|]. intros m Hm Hn Heq.
    assert (existsb (fun m => is_note m && (m_note m =? n)) r = true); [|congruence].
    apply existsb_exists. exists m. split; [exact Hm|]. rewrite Hn. now apply Z.eqb_eq.
Qed.

Lemma psig_sle n r : sig_track_ok r = true -> ForallOrdPairs sle (psig n 0 r).
Proof.
  intros H. destruct (sig_track_ok_parts r H) as (Hw & _ & Hs).
  apply sig_ok_sle; [apply Hs|]. now apply psig_times.
Qed.

(* ================================================================ the stages of tok_frontend *)
Definition chs (tracks : list (list msg)) : list (list msg) := mapi (fun i r => set_channel r i) tracks.
Definition fe_abs (tracks : list (list msg)) : list msg := merge_abs [] (map to_abs (chs tracks)).
Definition fe_rel0 (tracks : list (list msg)) : list msg := to_rel (fe_abs tracks).
Definition fe_rel (tracks : list (list msg)) : list msg := normalise (fe_rel0 tracks).
Definition fe_sorted (tracks : list (list msg)) : list msg := sort_abs (to_abs (fe_rel tracks)).

Lemma tok_frontend_eq tracks : tok_frontend tracks = interleaved TOK_TYPES PPQN true (fe_sorted tracks).
Proof. reflexivity. Qed.

(* the signature of key k in the piece: the pitch signature of track (fst k), tracks numbered from j *)
Fixpoint piece_sig (j : Z) (tracks : list (list msg)) (k : k2) : list sigent :=
  match tracks with
  | [] => []
  | r :: ts => if fst k =? j then psig (snd k) 0 r else piece_sig (j + 1) ts k
  end.
(* duration of the longest track *)
Definition piece_dur (tracks : list (list msg)) : Z := fold_right Z.max 0 (map dur_rel tracks).

Lemma piece_sig_sle tracks k : Forall (fun r => sig_track_ok r = true) tracks -> forall j, ForallOrdPairs sle (piece_sig j tracks k).
Proof.
  induction 1 as [|r ts Hr _ IH]; intros j; cbn [piece_sig]; [constructor|].
  destruct (fst k =? j); [now apply psig_sle|apply IH].
Qed.

Lemma piece_sig_ok tracks k : Forall (fun r => sig_track_ok r = true) tracks -> forall j, sig_ok (piece_sig j tracks k) = true.
Proof.
  induction 1 as [|r ts Hr _ IH]; intros j; cbn [piece_sig]; [reflexivity|].
  destruct (fst k =? j); [now apply sig_track_ok_parts|apply IH].
Qed.

Lemma piece_sig_nth tracks n : forall j i, (i < length tracks)%nat ->
  piece_sig j tracks (j + Z.of_nat i, n) = psig n 0 (nth i tracks []).
Proof.
  induction tracks as [|r ts IH]; intros j i Hi; [cbn in Hi; lia|]. cbn [piece_sig fst snd].
  destruct i as [|i].
  - rewrite Z.add_0_r, Z.eqb_refl. reflexivity.
  - destruct (Z.eqb_spec (j + Z.of_nat (S i)) j) as [E|E]; [lia|].
    replace (j + Z.of_nat (S i)) with ((j + 1) + Z.of_nat i) by lia. cbn [nth]. apply IH. cbn in Hi. lia.
Qed.

Lemma piece_sig_out tracks k : forall j, (fst k < j \/ j + Z.of_nat (length tracks) <= fst k) -> piece_sig j tracks k = [].
Proof.
  induction tracks as [|r ts IH]; intros j H; [reflexivity|]. cbn [piece_sig length] in *.
  destruct (Z.eqb_spec (fst k) j) as [E|E]; [lia|]. apply IH. lia.
Qed.

(* ================================================================ channels *)
Definition chan_all (c : Z) (l : list msg) : Prop := Forall (fun m => m_chan m = c) l.

Lemma set_channel_chan r i : chan_all i (set_channel r i).
Proof. unfold chan_all, set_channel. apply Forall_forall. intros x Hx. apply in_map_iff in Hx. destruct Hx as (m & <- & _). reflexivity. Qed.

Lemma to_abs_chan c l : chan_all c l -> chan_all c (to_abs l).
Proof.
  unfold chan_all. rewrite !Forall_forall. intros H x Hx. destruct l as [|m0 l]; [destruct Hx|].
  destruct (to_abs_In _ _ Hx) as [->|(m & t & f & Hm & _ & ->)].
  - cbn [first_chan mk_internal m_chan]. apply H. now left.
  - cbn [set_time m_chan]. now apply H.
Qed.

Lemma asig_other_chan k c l : chan_all c l -> fst k <> c -> asig k l = [].
Proof.
  intros H Hne. rewrite asig_kp. unfold kp. rewrite filter_none; [reflexivity|].
  intros m Hm. unfold chan_all in H. rewrite Forall_forall in H. specialize (H m Hm).
  unfold nkey. destruct (k2_eqb k (m_chan m, m_note m)) eqn:E; [|apply andb_false_r].
  apply k2_eqb_eq in E. subst k. cbn [fst] in Hne. congruence.
Qed.

Lemma wfr_set_channel r i : wfr (set_channel r i) = wfr r.
Proof. unfold wfr, set_channel. induction r as [|m r IH]; cbn [map forallb]; [reflexivity|]. now rewrite IH. Qed.

Lemma dur_rel_set_channel r i : dur_rel (set_channel r i) = dur_rel r.
Proof.
  unfold set_channel. induction r as [|m r IH]; [reflexivity|]. cbn [map].
  rewrite !C04_proofs.dur_rel_cons, IH. reflexivity.
Qed.

(* ================================================================ per-track conversion and merge *)
Lemma asig_track j n r : sig_track_ok r = true -> asig (j, n) (to_abs (set_channel r j)) = psig n 0 r.
Proof.
  intros H. unfold ev_rel. rewrite asig_to_abs; unfold ev_rel; rewrite esig_set_channel; [reflexivity|].
  now apply psig_sle.
Qed.

Definition setch (i : Z) (r : list msg) : list msg := set_channel r i.

Lemma asig_tracks_above tracks k : forall j, fst k < j -> asig k (concat (map to_abs (mapi_aux setch j tracks))) = [].
Proof.
  induction tracks as [|r ts IH]; intros j Hj; [reflexivity|]. cbn [mapi_aux map concat].
  rewrite asig_app, IH by lia. rewrite app_nil_r.
  apply asig_other_chan with j; [|lia]. apply to_abs_chan, set_channel_chan.
Qed.

Lemma asig_tracks tracks k : Forall (fun r => sig_track_ok r = true) tracks ->
  forall j, asig k (concat (map to_abs (mapi_aux setch j tracks))) = piece_sig j tracks k.
Proof.
  induction 1 as [|r ts Hr _ IH]; intros j; [reflexivity|]. cbn [mapi_aux map concat piece_sig].
  rewrite asig_app. destruct (Z.eqb_spec (fst k) j) as [E|E].
  - rewrite asig_tracks_above by lia. rewrite app_nil_r. destruct k as [c n]. cbn [fst snd] in *. subst c.
    now apply asig_track.
  - rewrite IH. replace (asig k (to_abs (setch j r))) with (@nil sigent); [reflexivity|].
    symmetry. apply asig_other_chan with j; [|exact E]. apply to_abs_chan, set_channel_chan.
Qed.

Lemma chs_eq tracks : chs tracks = mapi_aux setch 0 tracks.
Proof. reflexivity. Qed.

Lemma mapi_aux_In {A B} (f : Z -> A -> B) l : forall j y, In y (mapi_aux f j l) -> exists i x, In x l /\ y = f i x.
Proof.
  induction l as [|a l IH]; intros j y H; [destruct H|]. cbn [mapi_aux] in H. destruct H as [<-|H].
  - exists j, a. split; [now left|reflexivity].
  - destruct (IH _ _ H) as (i & x & Hx & ->). exists i, x. split; [now right|reflexivity].
Qed.

Section Piece.
  Variable tracks : list (list msg).
  Hypothesis Hok : Forall (fun r => sig_track_ok r = true) tracks.

  Lemma track_wfr r : In r tracks -> wfr r = true.
  Proof. intros H. rewrite Forall_forall in Hok. now apply sig_track_ok_parts, Hok. Qed.

  Lemma concat_wfa : wfa (concat (map to_abs (chs tracks))) = true.
  Proof.
    unfold wfa. apply forallb_forall. intros x Hx. apply in_concat in Hx. destruct Hx as (l & Hl & Hx).
    apply in_map_iff in Hl. destruct Hl as (c & <- & Hc). apply mapi_aux_In in Hc. destruct Hc as (i & r & Hr & ->).
    assert (Hw : wfa (to_abs (set_channel r i)) = true) by (apply to_abs_wfa; rewrite wfr_set_channel; now apply track_wfr).
    unfold wfa in Hw. rewrite forallb_forall in Hw. now apply Hw.
  Qed.

  Lemma fe_abs_perm : Permutation (concat (map to_abs (chs tracks))) (fe_abs tracks).
  Proof. unfold fe_abs, merge_abs. cbn [app]. apply sort_abs_perm. Qed.
  Lemma fe_abs_tsorted : tsorted (fe_abs tracks) = true.
  Proof. apply sort_abs_tsorted. Qed.
  Lemma fe_abs_wfa : wfa (fe_abs tracks) = true.
  Proof. eapply wfa_perm; [apply fe_abs_perm|apply concat_wfa]. Qed.

  Lemma fe_abs_sig k : asig k (fe_abs tracks) = piece_sig 0 tracks k.
  Proof.
    unfold fe_abs, merge_abs. cbn [app]. rewrite asig_sort_abs; rewrite chs_eq, asig_tracks by exact Hok.
    - reflexivity.
    - now apply piece_sig_sle.
  Qed.

  (* every message of the merged absolute list is a note or an INTERNAL cap *)
  Lemma fe_abs_types x : In x (fe_abs tracks) -> is_note x = true \/ is_internal x = true.
  Proof.
    intros Hx. eapply Permutation_in in Hx; [|symmetry; apply fe_abs_perm].
    apply in_concat in Hx. destruct Hx as (l & Hl & Hx).
    apply in_map_iff in Hl. destruct Hl as (c & <- & Hc). apply mapi_aux_In in Hc. destruct Hc as (i & r & Hr & ->).
    destruct (to_abs_In _ _ Hx) as [->|(m & t & f & Hm & Hw & ->)]; [now right|]. left.
    unfold set_channel in Hm. apply in_map_iff in Hm. destruct Hm as (m0 & <- & Hm0).
    rewrite Forall_forall in Hok. destruct (sig_track_ok_parts r (Hok r Hr)) as (_ & Ht & _).
    specialize (Ht m0 Hm0). unfold msg_ok in Ht. change (is_wait (set_chan m0 i)) with (is_wait m0) in Hw.
    rewrite Hw in Ht. exact Ht.
  Qed.

  (* the relative list before normalise *)
  Lemma fe_rel0_ev : ev_rel (fe_rel0 tracks) = ev_abs (fe_abs tracks).
  Proof. apply to_rel_events; [apply fe_abs_tsorted|apply fe_abs_wfa]. Qed.

  Lemma fe_rel0_types x : In x (fe_rel0 tracks) -> is_wait x = true \/ is_note x = true.
  Proof.
    intros Hx. destruct (to_rel_aux_In _ _ _ _ Hx) as [H|(m & Hm & Hi & ->)]; [now left|]. right.
    destruct (fe_abs_types m Hm) as [H|H]; [exact H|congruence].
  Qed.

  Lemma fe_rel0_alt k : alt k false (fe_rel0 tracks) = true.
  Proof.
    rewrite (alt_esig k _ 0 false). fold (ev_rel (fe_rel0 tracks)). rewrite fe_rel0_ev.
    fold (asig k (fe_abs tracks)). rewrite fe_abs_sig. apply sig_ok_alt_bits. now apply piece_sig_ok.
  Qed.

  Lemma type_flags x : is_wait x = true \/ is_note x = true -> is_ts x = false /\ is_ks x = false.
  Proof.
    unfold is_wait, is_note, is_on, is_off, is_ts, is_ks, mtype_eqb. destruct (m_type x); cbn; intros [H|H];
      try discriminate; split; reflexivity.
  Qed.

  Lemma fe_rel_timed : timed 0 (fe_rel tracks) = timed 0 (fe_rel0 tracks).
  Proof.
    apply normalise_wellformed.
    - apply fe_rel0_alt.
    - apply no_ts_ok. intros m Hm. now apply type_flags, fe_rel0_types.
    - apply no_ks_ok. intros m Hm. now apply type_flags, fe_rel0_types.
    - apply to_rel_wfr.
  Qed.

  Lemma fe_rel_ev : ev_rel (fe_rel tracks) = ev_abs (fe_abs tracks).
  Proof. unfold ev_rel. rewrite ev_rel_timed, fe_rel_timed, <- ev_rel_timed. apply fe_rel0_ev. Qed.

  Lemma fe_rel_wfr : wfr (fe_rel tracks) = true.
  Proof. apply nonneg_normalise. Qed.

  Lemma fe_rel_types x : In x (fe_rel tracks) -> is_wait x = true \/ is_note x = true.
  Proof.
    intros Hx. destruct (is_wait x) eqn:Ew; [now left|].
    destruct (In_timed _ 0 x Hx Ew) as [t Ht]. rewrite fe_rel_timed in Ht.
    apply timed_In in Ht. destruct Ht as [Ht _]. destruct (fe_rel0_types x Ht) as [H|H]; [congruence|now right].
  Qed.

  (* ---- the final sorted list *)
  Lemma fe_sorted_sig k : asig k (fe_sorted tracks) = piece_sig 0 tracks k.
  Proof.
    assert (E : esig k (ev_rel (fe_rel tracks)) = piece_sig 0 tracks k).
    { rewrite fe_rel_ev. fold (asig k (fe_abs tracks)). apply fe_abs_sig. }
    assert (O : ForallOrdPairs sle (piece_sig 0 tracks k)) by now apply piece_sig_sle.
    unfold fe_sorted. rewrite asig_sort_abs; rewrite asig_to_abs; rewrite E; auto.
  Qed.

  Lemma fe_sorted_tsorted : tsorted (fe_sorted tracks) = true.
  Proof. apply sort_abs_tsorted. Qed.
  Lemma fe_sorted_wfa : wfa (fe_sorted tracks) = true.
  Proof. eapply wfa_perm; [apply sort_abs_perm|]. apply to_abs_wfa, fe_rel_wfr. Qed.

  Lemma maxt_app a b : maxt (a ++ b) = Z.max (maxt a) (maxt b).
  Proof. induction a as [|x a IH]; cbn [app]; [pose proof (maxt_ge b); cbn; lia|]. rewrite !maxt_cons, IH. lia. Qed.

  Lemma maxt_tracks ts : (forall r, In r ts -> wfr r = true) -> forall j,
    maxt (concat (map to_abs (mapi_aux setch j ts))) = piece_dur ts.
  Proof.
    induction ts as [|r ts IH]; intros Hw j; [reflexivity|]. cbn [mapi_aux map concat].
    unfold piece_dur. cbn [map fold_right]. fold (piece_dur ts).
    rewrite maxt_app, IH by (intros x Hx; apply Hw; now right). f_equal.
    assert (Hr : wfr (setch j r) = true) by (unfold setch; rewrite wfr_set_channel; apply Hw; now left).
    rewrite <- dur_abs_maxt; [|apply to_abs_tsorted|apply wfa_Forall, to_abs_wfa, Hr].
    rewrite to_abs_dur by exact Hr. apply dur_rel_set_channel.
  Qed.

  Lemma fe_rel_dur : dur_rel (fe_rel tracks) = piece_dur tracks.
  Proof.
    unfold fe_rel. rewrite C07_duration by apply to_rel_wfr.
    unfold fe_rel0. rewrite to_rel_dur; [|apply fe_abs_tsorted|apply fe_abs_wfa].
    rewrite dur_abs_maxt; [|apply fe_abs_tsorted|apply wfa_Forall, fe_abs_wfa].
    rewrite <- (maxt_perm _ _ fe_abs_perm). rewrite chs_eq. apply maxt_tracks. exact track_wfr.
  Qed.

  (* every message handed to the pairing step is a note, or the cap at the end of the longest track *)
  Lemma fe_sorted_types x : In x (fe_sorted tracks) ->
    is_note x = true \/ (is_internal x = true /\ m_time x = piece_dur tracks).
  Proof.
    intros Hx. unfold fe_sorted in Hx. eapply Permutation_in in Hx; [|symmetry; apply sort_abs_perm].
    destruct (to_abs_In _ _ Hx) as [->|(m & t & f & Hm & Hw & ->)].
    - right. split; [reflexivity|]. cbn [mk_internal m_time]. apply fe_rel_dur.
    - left. destruct (fe_rel_types m Hm) as [H|H]; [congruence|exact H].
  Qed.
End Piece.
