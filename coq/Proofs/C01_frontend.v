(* C01 (front end), part 4 -- the front end `tok_frontend` on valid pieces (notes only, no time-signature messages):
   it succeeds, its events are ordered by time, the NOTE_ON events of channel i are the notes of track i, the event
   list is valid for the core, hence the piece-level round trip. *)
From Coq Require Import ZArith List Bool Lia Permutation Sorted.
From Model Require Import Base Util Seq Pairing Tok.
From Proofs Require Import C04_sort C04_proofs C05_closest C07_proofs.
From Proofs Require Import C01_frontend_sig C01_frontend_pipe C01_frontend_pair C01_rest C01_proofs.
Import ListNotations.
Open Scope Z_scope.

(* ================================================================ the notes of a relative track *)
Definition note : Set := (Z * Z * Z * Z)%type.          (* pitch, onset tick, offset tick, velocity *)
Definition n_pitch (x : note) : Z := fst (fst (fst x)).

(* independent reference: run a clock over the waits; a NOTE_ON opens its pitch (remembering tick and velocity),
   a NOTE_OFF closes it and yields the note *)
Fixpoint notes_acc (r : list msg) (cur : Z) (opn : list (Z * (Z * Z))) : list note :=
  match r with
  | [] => []
  | m :: r' =>
      if is_wait m then notes_acc r' (cur + m_time m) opn
      else if is_on m then notes_acc r' cur (dset Z.eqb (m_note m) (cur, m_vel m) opn)
      else if is_off m then
        match dget Z.eqb (m_note m) opn with
        | Some (t, v) => (m_note m, t, cur, v) :: notes_acc r' cur (ddel Z.eqb (m_note m) opn)
        | None => notes_acc r' cur opn
        end
      else notes_acc r' cur opn
  end.
Definition notes_of (r : list msg) : list note := notes_acc r 0 [].

(* the notes of one pitch, read off its signature *)
Fixpoint sig_notes (n : Z) (o : option (Z * Z)) (s : list sigent) : list note :=
  match s with
  | [] => []
  | e :: s' =>
      if s_on e then sig_notes n (Some (s_time e, snd e)) s'
      else match o with
           | Some (t0, v0) => (n, t0, s_time e, v0) :: sig_notes n None s'
           | None => sig_notes n None s'
           end
  end.

Definition pitch_is (n : Z) (x : note) : bool := n_pitch x =? n.

Lemma notes_acc_pitch n r : forall cur opn, uniq opn ->
  filter (pitch_is n) (notes_acc r cur opn) = sig_notes n (dget Z.eqb n opn) (psig n cur r).
Proof.
  induction r as [|m r IH]; intros cur opn Hu; [reflexivity|]. cbn [notes_acc psig].
  destruct (is_wait m) eqn:Ew; [now apply IH|].
  destruct (is_on m) eqn:Eon.
  - rewrite (on_is_note m Eon). cbn [andb].
    rewrite IH by (apply uniq_dset; [apply Z.eqb_eq|exact Hu]). rewrite dgetZ_dset.
    destruct (n =? m_note m); [|reflexivity]. cbn [sig_notes]. unfold s_on, s_time. cbn [fst snd]. reflexivity.
  - destruct (is_off m) eqn:Eoff.
    + rewrite (off_is_note m Eoff). cbn [andb].
      destruct (Z.eqb_spec n (m_note m)) as [->|Hne].
      * cbn [sig_notes]. unfold s_on, s_time. cbn [fst snd].
        destruct (dget Z.eqb (m_note m) opn) as [[t v]|] eqn:G.
        -- cbn [filter]. unfold pitch_is at 1, n_pitch. cbn [fst]. rewrite Z.eqb_refl. f_equal.
           rewrite IH by (now apply uniq_ddel). rewrite dgetZ_ddel by exact Hu. now rewrite Z.eqb_refl.
        -- rewrite IH by exact Hu. now rewrite G.
      * destruct (dget Z.eqb (m_note m) opn) as [[t v]|] eqn:G; [|now apply IH].
        cbn [filter]. unfold pitch_is at 1, n_pitch. cbn [fst].
        destruct (Z.eqb_spec (m_note m) n); [congruence|].
        rewrite IH by (now apply uniq_ddel). rewrite dgetZ_ddel by exact Hu.
        destruct (Z.eqb_spec n (m_note m)); [contradiction|reflexivity].
    + assert (is_note m = false) as -> by (unfold is_note; now rewrite Eon, Eoff). cbn [andb]. now apply IH.
Qed.

Lemma notes_of_pitch n r : filter (pitch_is n) (notes_of r) = sig_notes n None (psig n 0 r).
Proof. unfold notes_of. rewrite notes_acc_pitch by constructor. reflexivity. Qed.

(* ================================================================ the notes of a list of pairings *)
Definition pnote (p : pairing) : note := (m_note (p_first p), m_time (p_first p), p_off_time p, m_vel (p_first p)).
Definition snote (sp : spair) : note :=
  (m_note (fst sp), m_time (fst sp), match snd sp with Some o => m_time o | None => m_time (fst sp) end, m_vel (fst sp)).
Lemma pnote_strip p : pnote p = snote (strip p).
Proof. reflexivity. Qed.

Definition omv (o : option msg) : option (Z * Z) := option_map (fun on => (m_time on, m_vel on)) o.

Lemma cpairs_sig_notes k L : Forall (fun m => nkey k m = true) L -> forall o,
  alt_bits (is_some o) (map sigm L) = true -> (forall on, o = Some on -> m_note on = snd k) ->
  map snote (cpairs o L) = sig_notes (snd k) (omv o) (map sigm L).
Proof.
  induction 1 as [|m L Hm _ IH]; intros o Ha Ho; [reflexivity|]. cbn [map alt_bits cpairs sig_notes] in *.
  change (s_on (sigm m)) with (is_on m) in *. change (s_time (sigm m)) with (m_time m).
  change (snd (sigm m)) with (m_vel m).
  assert (Hn : m_note m = snd k).
  { unfold nkey in Hm. apply andb_prop in Hm. destruct Hm as [_ Hm]. apply k2_eqb_eq in Hm. now subst k. }
  destruct (is_on m).
  - apply andb_prop in Ha. destruct Ha as [Ho' Ha]. destruct o; [discriminate|]. cbn [omv option_map].
    rewrite (IH (Some m)); [reflexivity|exact Ha|]. intros on [= <-]. exact Hn.
  - apply andb_prop in Ha. destruct Ha as [Ho' Ha]. destruct o as [on|]; [|discriminate]. cbn [omv option_map map].
    rewrite (IH None); [|exact Ha|intros ? [=]]. unfold snote at 1. cbn [fst snd]. now rewrite (Ho on eq_refl).
Qed.

Definition on_notes (pl : list pairing) : list note :=
  flat_map (fun p => if is_on (p_first p) then [pnote p] else []) pl.

Lemma on_notes_pitch n pl : filter (pitch_is n) (on_notes pl) = map pnote (filter (onpitch n) pl).
Proof.
  induction pl as [|p pl IH]; [reflexivity|]. unfold on_notes in *. cbn [flat_map filter]. rewrite filter_app, IH.
  unfold onpitch at 2. destruct (is_on (p_first p)); cbn [andb filter]; [|reflexivity].
  unfold pitch_is at 1, n_pitch, pnote. cbn [fst]. destruct (m_note (p_first p) =? n); reflexivity.
Qed.

(* two lists agree up to order when they agree, pitch by pitch *)
Lemma note_eq_dec (x y : note) : {x = y} + {x <> y}.
Proof. repeat decide equality. Qed.

Lemma count_occ_filter (p : note -> bool) l x :
  count_occ note_eq_dec (filter p l) x = if p x then count_occ note_eq_dec l x else 0%nat.
Proof.
  induction l as [|y l IH]; cbn [filter]; [now destruct (p x)|].
  destruct (p y) eqn:Py; cbn [count_occ]; destruct (note_eq_dec y x) as [->|Hne].
  - rewrite IH, Py. reflexivity.
  - exact IH.
  - rewrite IH, Py. reflexivity.
  - exact IH.
Qed.

Lemma perm_by_pitch (A B : list note) :
  (forall n, filter (pitch_is n) A = filter (pitch_is n) B) -> Permutation A B.
Proof.
  intros H. apply (Permutation_count_occ note_eq_dec). intros x.
  pose proof (count_occ_filter (pitch_is (n_pitch x)) A x) as HA.
  pose proof (count_occ_filter (pitch_is (n_pitch x)) B x) as HB.
  unfold pitch_is at 2 in HA. unfold pitch_is at 2 in HB. rewrite Z.eqb_refl in HA, HB. rewrite <- HA, <- HB, H. reflexivity.
Qed.

(* ================================================================ validity of a piece *)
(* per-track well-formedness: non-negative waits, only WAIT / NOTE_ON / NOTE_OFF messages, and per pitch the notes
   strictly alternate on / off with a positive wait sum between an on and its off (no overlap, nothing left open).
   The track index is not used in this notes-only version (time signatures, which would be allowed on track 0 only,
   are excluded). *)
Definition valid_track (i : Z) (r : list msg) : bool := sig_track_ok r.

Definition note_ok (g : Z) (c : cfg) (x : note) : bool :=
  let '(p, t, t', v) := x in
  divb g t && in_range (c_plo c) p (c_phi c) && memZ (t' - t) (c_values c) && (0 <=? t' - t) && (v <=? VELOCITY_MAX).

(* one track per configured track; every track well formed; every note on the grid, in the pitch range, with a
   duration among the note values and a velocity <= 127; the duration of the longest track on the grid *)
Definition valid_piece (g : Z) (c : cfg) (tracks : list (list msg)) : bool :=
  (lenZ tracks =? c_ntracks c) &&
  forallb (fun ir => valid_track (fst ir) (snd ir)) (mapi (fun i r => (i, r)) tracks) &&
  forallb (fun r => forallb (note_ok g c) (notes_of r)) tracks &&
  divb g (piece_dur tracks).

Lemma mapi_aux_pair_In {A} (l : list A) : forall j r, In r l -> exists i, In (i, r) (mapi_aux (fun i r => (i, r)) j l).
Proof.
  induction l as [|a l IH]; intros j r H; [destruct H|]. cbn [mapi_aux]. destruct H as [->|H].
  - exists j. now left.
  - destruct (IH (j + 1) r H) as [i Hi]. exists i. now right.
Qed.

Lemma valid_piece_parts g c tracks : valid_piece g c tracks = true ->
  lenZ tracks = c_ntracks c /\ Forall (fun r => sig_track_ok r = true) tracks /\
  (forall r x, In r tracks -> In x (notes_of r) -> note_ok g c x = true) /\ divb g (piece_dur tracks) = true.
Proof.
  unfold valid_piece. intros H. apply andb_prop in H. destruct H as [H H4]. apply andb_prop in H. destruct H as [H H3].
  apply andb_prop in H. destruct H as [H1 H2]. apply Z.eqb_eq in H1. rewrite forallb_forall in H2, H3.
  split; [exact H1|]. split; [|split; [|exact H4]].
  - apply Forall_forall. intros r Hr. destruct (mapi_aux_pair_In tracks 0 r Hr) as [i Hi]. exact (H2 (i, r) Hi).
  - intros r x Hr Hx. specialize (H3 r Hr). rewrite forallb_forall in H3. now apply H3.
Qed.

(* ================================================================ the events of a valid piece *)
Definition ev_local_ok (g : Z) (c : cfg) (e : C01_rest.event) : bool :=
  let m := ev_msg e in
  divb g (m_time m) &&
  match m_type m with
  | NOTE_ON =>
      (0 <=? m_chan m) && (m_chan m <? c_ntracks c) && in_range (c_plo c) (m_note m) (c_phi c) &&
      memZ (ev_dur e) (c_values c) && (0 <=? ev_dur e) && (m_vel m <=? VELOCITY_MAX)
  | TIME_SIGNATURE => false
  | _ => true
  end.

Lemma valid_from_local g c evs : forall k,
  StronglySorted ele evs -> (forall e, In e evs -> ev_local_ok g c e = true /\ r_time k <= ev_time e) ->
  valid_from g c k evs = true.
Proof.
  induction evs as [|e evs IH]; intros k Hs H; [reflexivity|]. cbn [valid_from].
  destruct (H e (or_introl eq_refl)) as [Hl Ht]. apply andb_true_intro. split.
  - unfold ev_ok. unfold ev_local_ok in Hl. apply andb_prop in Hl. destruct Hl as [Hd Hl]. fold (ev_time e).
    rewrite Hd. replace (r_time k <=? ev_time e) with true by (symmetry; now apply Z.leb_le). cbn [andb].
    destruct (m_type (ev_msg e)); try reflexivity; try exact Hl. discriminate.
  - inversion Hs as [|? ? Hs' He]; subst. apply IH; [exact Hs'|]. intros x Hx.
    split; [apply H; now right|]. rewrite Forall_forall in He. specialize (He x Hx). unfold ele, ptime in He.
    assert (Hr : r_time (fst (ref_step c k e)) = ev_time e).
    { unfold ref_step. fold (ev_time e). destruct (m_type (ev_msg e)); reflexivity. }
    rewrite Hr. exact He.
Qed.

(* the notes of channel i among the events *)
Definition track_notes (i : Z) (evs : list C01_rest.event) : list note :=
  flat_map (fun e => if is_on (ev_msg e) && (m_chan (ev_msg e) =? i) then [pnote (snd e)] else []) evs.

Lemma track_notes_flat i P : uniq P ->
  (forall ch pl, In (ch, pl) P -> Forall (fun p => m_chan (p_first p) = ch) pl) ->
  track_notes i (flat P) = on_notes (chan_pairs i P).
Proof.
  unfold uniq, chan_pairs. induction P as [|[c pl] P IH]; intros Hu Hc; [reflexivity|].
  cbn [map fst] in Hu. inversion Hu as [|? ? Hn Hu']; subst.
  assert (Hloc : forall pl' ch, Forall (fun p => m_chan (p_first p) = ch) pl' ->
            track_notes i (map (pair ch) pl') = if ch =? i then on_notes pl' else []).
  { induction pl' as [|p pl' IHp]; intros ch Hf; [now destruct (ch =? i)|].
    inversion Hf as [|? ? Hp Hf']; subst. unfold track_notes in *. cbn [map flat_map]. rewrite (IHp _ Hf').
    unfold ev_msg. cbn [snd]. rewrite Hp. destruct (m_chan (p_first p) =? i).
    - rewrite andb_true_r. unfold on_notes. cbn [flat_map]. reflexivity.
    - rewrite andb_false_r. reflexivity. }
  unfold flat. cbn [flat_map fst snd dget]. fold (flat P). unfold track_notes. rewrite flat_map_app.
  fold (track_notes i (map (pair c) pl)). fold (track_notes i (flat P)).
  rewrite (Hloc pl c (Hc c pl (or_introl eq_refl))).
  destruct (Z.eqb_spec i c) as [->|Hne].
  - rewrite Z.eqb_refl.
    assert (Hrest : track_notes c (flat P) = []).
    { clear IH Hloc. induction P as [|[c' pl'] P IHP]; [reflexivity|].
      unfold flat. cbn [flat_map fst snd]. fold (flat P). unfold track_notes. rewrite flat_map_app.
      fold (track_notes c (flat P)). rewrite IHP.
      - rewrite app_nil_r. assert (Hne : c' <> c) by (intros ->; apply Hn; now left).
        pose proof (Hc c' pl' (or_intror (or_introl eq_refl))) as Hf.
        induction pl' as [|p pl' IHp]; [reflexivity|]. inversion Hf as [|? ? Hp Hf']; subst. cbn [map flat_map].
        rewrite IHp; [|intros ch pl0 [H|[H|H]]; [apply Hc; now left|injection H as <- <-; exact Hf'|apply Hc; right; now right]|exact Hf'].
        unfold ev_msg. cbn [snd]. destruct (Z.eqb_spec (m_chan (p_first p)) c); [congruence|]. now rewrite andb_false_r.
      - intros H. apply Hn. now right.
      - cbn [map fst] in Hu'. now inversion Hu'.
      - intros ch pl0 [H|H]; [apply Hc; now left|apply Hc; right; now right]. }
    rewrite Hrest, app_nil_r. reflexivity.
  - destruct (Z.eqb_spec c i); [congruence|]. cbn [app]. apply IH; [exact Hu'|].
    intros ch pl0 H. apply Hc. now right.
Qed.

Section Valid.
  Variables (g : Z) (c : cfg) (tracks : list (list msg)).
  Hypothesis Hc : valid_cfg g c = true.
  Hypothesis Hv : valid_piece g c tracks = true.

  Let S := fe_sorted tracks.
  Let P := pairings_sorted TOK_TYPES PPQN true S.
  Let Hok : Forall (fun r => sig_track_ok r = true) tracks := proj1 (proj2 (valid_piece_parts g c tracks Hv)).

  Lemma S_alt k : alt k false S = true.
  Proof.
    assert (H : forall l cur, alt k false l = alt_bits false (esig k (ev_rel_from cur l))) by (intros; apply alt_esig).
    (* alt on an absolute list: through its signature *)
    assert (Ha : alt k false S = alt_bits false (asig k S)).
    { clear H. unfold asig. generalize false. induction S as [|m l IH]; intros b; [reflexivity|]. cbn [alt].
      unfold is_key. unfold ev_abs. cbn [filter]. fold (ev_abs l).
      destruct (is_internal m) eqn:Ei; cbn [negb].
      - assert (is_on m = false /\ is_off m = false) as [-> ->].
        { unfold is_internal, is_on, is_off, mtype_eqb in *. destruct (m_type m); cbn in *; split; congruence. }
        rewrite !andb_false_r. apply IH.
      - cbn [map]. unfold esig. cbn [filter snd]. rewrite nkey_strip. unfold nkey, is_note.
        destruct (k2_eqb k (m_chan m, m_note m)); cbn [andb].
        + destruct (is_on m) eqn:Eon; cbn [orb andb map alt_bits].
          * change (s_on (sige (m_time m, strip_time m))) with (is_on m). rewrite Eon. f_equal. apply IH.
          * destruct (is_off m) eqn:Eoff; cbn [andb map alt_bits]; [|apply IH].
            change (s_on (sige (m_time m, strip_time m))) with (is_on m). rewrite Eon. f_equal. apply IH.
        + rewrite andb_false_r. apply IH. }
    rewrite Ha. unfold S. rewrite fe_sorted_sig by exact Hok. apply sig_ok_alt_bits. now apply piece_sig_ok.
  Qed.

  Lemma P_facts :
    uniq P /\
    (forall ch pl, In (ch, pl) P -> pl <> [] /\ Forall (pgood S ch) pl /\ ForallOrdPairs mle (map p_first pl)) /\
    (forall ch n, map strip (filter (onpitch n) (chan_pairs ch P)) = cpairs None (kp (ch, n) S)).
  Proof. apply pairings_tok; [apply fe_sorted_tsorted|exact S_alt]. Qed.

  Definition fe_events : list C01_rest.event := interleave P.

  (* 1. the front end succeeds *)
  Lemma frontend_ok : tok_frontend tracks = Ok fe_events.
  Proof.
    rewrite tok_frontend_eq. apply interleaved_ok. intros ch pl H. destruct P_facts as (_ & H2 & _). now apply (H2 ch pl).
  Qed.

  Lemma P_sorted kv : In kv P -> ForallOrdPairs ple (snd kv).
  Proof.
    destruct kv as [ch pl]. intros H. destruct P_facts as (_ & H2 & _). destruct (H2 ch pl H) as (_ & _ & H3). cbn [snd].
    apply (FOP_map_inv ple mle p_first); [|exact H3]. intros x y _ _ Hxy. exact Hxy.
  Qed.

  Lemma events_perm : Permutation fe_events (flat P).
  Proof. apply interleave_spec, P_sorted. Qed.
  Lemma events_sorted : StronglySorted ele fe_events.
  Proof. apply interleave_spec, P_sorted. Qed.

  Lemma event_in e : In e fe_events -> exists pl, In (fst e, pl) P /\ In (snd e) pl.
  Proof.
    intros H. eapply Permutation_in in H; [|apply events_perm]. unfold flat in H. apply in_flat_map in H.
    destruct H as ([ch pl] & Hkv & He). cbn [fst snd] in He. apply in_map_iff in He. destruct He as (p & <- & Hp).
    exists pl. cbn [fst snd]. now split.
  Qed.

  (* the note pairings of channel ch and pitch n are the notes of that pitch in track ch *)
  Lemma chan_notes_pitch ch n :
    map pnote (filter (onpitch n) (chan_pairs ch P)) = sig_notes n None (piece_sig 0 tracks (ch, n)).
  Proof.
    destruct P_facts as (_ & _ & H3). specialize (H3 ch n).
    rewrite (map_ext pnote (fun p => snote (strip p))) by (intros; apply pnote_strip).
    rewrite <- map_map, H3. rewrite <- (fe_sorted_sig tracks Hok (ch, n)). fold S. rewrite asig_kp.
    apply (cpairs_sig_notes (ch, n) (kp (ch, n) S)) with (o := None).
    - apply Forall_forall. intros m Hm. unfold kp in Hm. now apply filter_In in Hm.
    - rewrite <- asig_kp. unfold S. rewrite fe_sorted_sig by exact Hok. apply sig_ok_alt_bits. now apply piece_sig_ok.
    - intros ? [=].
  Qed.

  Lemma P_chan ch pl : In (ch, pl) P -> Forall (fun p => m_chan (p_first p) = ch) pl.
  Proof.
    intros H. destruct P_facts as (_ & H2 & _). destruct (H2 ch pl H) as (_ & Hg & _).
    eapply Forall_impl; [|exact Hg]. intros p Hp. apply Hp.
  Qed.

  (* 2. the NOTE_ON events of channel i are, up to the order of the events, the notes of track i *)
  Lemma frontend_notes i : (i < length tracks)%nat ->
    Permutation (track_notes (Z.of_nat i) fe_events) (notes_of (nth i tracks [])).
  Proof.
    intros Hi. eapply perm_trans.
    - unfold track_notes. apply Permutation_flat_map. apply events_perm.
    - fold (track_notes (Z.of_nat i) (flat P)). destruct P_facts as (Hu & _ & _).
      rewrite track_notes_flat; [|exact Hu|exact P_chan].
      apply perm_by_pitch. intros n. rewrite on_notes_pitch, chan_notes_pitch, notes_of_pitch.
      rewrite <- (piece_sig_nth tracks n 0 i Hi). reflexivity.
  Qed.

  (* ... and per pitch even in the same order *)
  Lemma frontend_notes_pitch i n : (i < length tracks)%nat ->
    filter (pitch_is n) (on_notes (chan_pairs (Z.of_nat i) P)) = filter (pitch_is n) (notes_of (nth i tracks [])).
  Proof.
    intros Hi. rewrite on_notes_pitch, chan_notes_pitch, notes_of_pitch.
    rewrite <- (piece_sig_nth tracks n 0 i Hi). reflexivity.
  Qed.

  Lemma event_local e : In e fe_events -> ev_local_ok g c e = true /\ 0 <= ev_time e.
  Proof.
    intros He. destruct (event_in e He) as (pl & Hkv & Hp). destruct e as [ch p]. cbn [fst snd] in *.
    destruct P_facts as (Hu & H2 & _). destruct (H2 ch pl Hkv) as (_ & Hg & _).
    rewrite Forall_forall in Hg. destruct (Hg p Hp) as (Hch & Hin & Hft).
    destruct (valid_piece_parts g c tracks Hv) as (Hlen & _ & Hnotes & Hdur).
    assert (Hnn : 0 <= m_time (p_first p)).
    { pose proof (wfa_Forall _ (fe_sorted_wfa tracks)) as Hw. rewrite Forall_forall in Hw. now apply Hw. }
    split; [|exact Hnn]. unfold ev_local_ok, ev_msg. cbn [snd].
    destruct (fe_sorted_types tracks Hok _ Hin) as [Hn|[Hi Ht]].
    - (* a note: it is a NOTE_ON, and one of the notes of track ch *)
      assert (Hon : is_on (p_first p) = true).
      { unfold ftype in Hft. destruct (is_on (p_first p)); [reflexivity|]. cbn [orb] in Hft.
        apply orb_prop in Hft. destruct Hft as [Hf|Hf].
        - unfold is_ts, is_note, is_on, is_off, mtype_eqb in *. destruct (m_type (p_first p)); cbn in *; congruence.
        - apply note_not_internal in Hn. congruence. }
      assert (Hpl : chan_pairs ch P = pl) by (unfold chan_pairs; now rewrite (In_dget _ _ _ Hu Hkv)).
      assert (Hx : In (pnote p) (sig_notes (m_note (p_first p)) None (piece_sig 0 tracks (ch, m_note (p_first p))))).
      { rewrite <- chan_notes_pitch, Hpl. apply in_map. apply filter_In. split; [exact Hp|].
        unfold onpitch. now rewrite Hon, Z.eqb_refl. }
      assert (Hrange : 0 <= ch < Z.of_nat (length tracks)).
      { destruct (Z_lt_dec ch 0) as [Hlt|Hge]; [rewrite piece_sig_out in Hx by (cbn [fst]; lia); destruct Hx|].
        destruct (Z_lt_dec ch (Z.of_nat (length tracks))); [lia|].
        rewrite piece_sig_out in Hx by (cbn [fst]; lia). destruct Hx. }
      set (i := Z.to_nat ch). assert (Hi : (i < length tracks)%nat) by lia.
      replace ch with (0 + Z.of_nat i) in Hx by lia. rewrite piece_sig_nth in Hx by exact Hi.
      rewrite <- notes_of_pitch in Hx. apply filter_In in Hx. destruct Hx as [Hx _].
      specialize (Hnotes (nth i tracks []) (pnote p) (nth_In _ _ Hi) Hx).
      unfold note_ok, pnote in Hnotes.
      apply andb_prop in Hnotes. destruct Hnotes as [Hnotes N5]. apply andb_prop in Hnotes. destruct Hnotes as [Hnotes N4].
      apply andb_prop in Hnotes. destruct Hnotes as [Hnotes N3]. apply andb_prop in Hnotes. destruct Hnotes as [N1 N2].
      apply is_on_type in Hon. rewrite Hon, N1. unfold ev_dur, ev_time, ev_msg. cbn [snd]. rewrite Hch, N2, N3, N4, N5.
      unfold lenZ in Hlen.
      replace (0 <=? ch) with true by (symmetry; apply Z.leb_le; lia).
      replace (ch <? c_ntracks c) with true by (symmetry; apply Z.ltb_lt; lia). reflexivity.
    - (* the cap *)
      rewrite Ht, Hdur. unfold is_internal, mtype_eqb in Hi. destruct (m_type (p_first p)); cbn in Hi; try discriminate.
      reflexivity.
  Qed.

  (* 3. the events are valid for the core *)
  Lemma frontend_valid : valid_events g c fe_events = true.
  Proof.
    unfold valid_events. apply valid_from_local; [apply events_sorted|]. intros e He. cbn [rclk0 r_time].
    now apply event_local.
  Qed.
End Valid.
