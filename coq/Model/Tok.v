(* Tok.v -- MultiTrackLargeVocabularyNotelikeTokeniser (scoda/tokenisation/notelike_tokenisation.py, fixed code):
   configuration, structured tokens with their string rendering and parsing, vocabulary, tokenise, detokenise,
   encode / decode, get_info. *)
From Coq Require Import Ascii DecimalString.
From Model Require Export Store.

(* ---------------------------------------------------------------- configuration *)
Record cfg : Set := mkcfg {
  c_ppqn : Z; c_ntracks : Z; c_plo : Z; c_phi : Z;
  c_steps : list Z;        (* sorted ascending, as after self.step_sizes.sort() *)
  c_values : list Z;       (* sorted ascending *)
  c_vbins : list Z;
  c_tslo : Z; c_tshi : Z;
  c_running : bool; c_ftrk : bool; c_fval : bool; c_fvel : bool; c_simplify : bool }.

Fixpoint insZ (x : Z) (l : list Z) : list Z :=
  match l with [] => [x] | y :: l' => if x <=? y then x :: y :: l' else y :: insZ x l' end.
Fixpoint sortZ (l : list Z) : list Z := match l with [] => [] | x :: l' => insZ x (sortZ l') end.

(* the constructor: MultiTrackLargeVocabularyNotelikeTokeniser(num_tracks, pitch_range, step_sizes, note_values,
   velocity_bins, flags...) with ppqn = PPQN and the default time_signature_range *)
Definition make_cfg (ntracks plo phi : Z) (steps values : option (list Z)) (nbins : Z)
           (running ftrk fval fvel simplify : bool) : cfg :=
  mkcfg PPQN ntracks plo phi
        (sortZ (match steps with Some s => s | None => get_default_step_sizes 0 1 end))
        (sortZ (match values with Some v => v | None => get_default_note_values end))
        (velocity_bins nbins) (fst DEFAULT_TS_RANGE) (snd DEFAULT_TS_RANGE) running ftrk fval fvel simplify.

(* int(ppqn * 4 * numerator / denominator) *)
Definition bar_cap (c : cfg) (num den : Z) : Z := (c_ppqn c * 4 * num) / den.

(* ---------------------------------------------------------------- tokens *)
Inductive tok : Set :=
| TPad | TSta | TSto | TBar
| TRest (v : Z) | TTrk (t : Z) | TVal (v : Z) | TVel (v : Z)
| TNote (trk : option Z) (pit : Z) (val : option Z) (vel : option Z)
| TTsg (n d : Z).

Definition oZ_eqb (a b : option Z) : bool :=
  match a, b with Some x, Some y => Z.eqb x y | None, None => true | _, _ => false end.
Definition tok_eqb (a b : tok) : bool :=
  match a, b with
  | TPad, TPad | TSta, TSta | TSto, TSto | TBar, TBar => true
  | TRest x, TRest y | TTrk x, TTrk y | TVal x, TVal y | TVel x, TVel y => Z.eqb x y
  | TNote t p v w, TNote t' p' v' w' => oZ_eqb t t' && Z.eqb p p' && oZ_eqb v v' && oZ_eqb w w'
  | TTsg n d, TTsg n' d' => Z.eqb n n' && Z.eqb d d'
  | _, _ => false
  end.

(* ---- rendering: f"{x:0w}" for integers (sign-aware zero padding) *)
Local Open Scope string_scope.
Fixpoint zeros (n : nat) : string := match n with O => "" | S n' => "0" ++ zeros n' end.
Definition digits (n : N) : string := NilZero.string_of_uint (N.to_uint n).
Definition padded (w : nat) (s : string) : string := zeros (w - String.length s) ++ s.
Definition fmt (w : nat) (z : Z) : string :=
  match z with
  | Zneg p => "-" ++ padded (w - 1) (digits (Npos p))
  | _ => padded w (digits (Z.to_N z))
  end.

Definition render_part (pfx : string) (w : nat) (z : Z) : string := pfx ++ "_" ++ fmt w z.
Fixpoint join_dash (l : list string) : string :=
  match l with [] => "" | [x] => x | x :: l' => x ++ "-" ++ join_dash l' end.
Definition render_tok (t : tok) : string :=
  match t with
  | TPad => PFX_PAD | TSta => PFX_START | TSto => PFX_STOP | TBar => PFX_BAR
  | TRest v => render_part PFX_REST 2 v
  | TTrk v => render_part PFX_TRACK 2 v
  | TVal v => render_part PFX_VALUE 2 v
  | TVel v => render_part PFX_VELOCITY 3 v
  | TNote t p v w =>
      let parts := ((match t with Some x => [render_part PFX_TRACK 2 x] | None => [] end) ++
                    [render_part PFX_PITCH 3 p] ++
                    (match v with Some x => [render_part PFX_VALUE 2 x] | None => [] end) ++
                    (match w with Some x => [render_part PFX_VELOCITY 3 x] | None => [] end))%list in
      join_dash parts
  | TTsg n d => PFX_TIME_SIGNATURE ++ "_" ++ fmt 2 n ++ "_" ++ fmt 2 d
  end.

(* ---- parsing (token.split("-"), part.split("_"), int(...)); only the shapes the tokeniser produces *)
Fixpoint split_on (c : ascii) (s : string) : list string :=
  match s with
  | EmptyString => [EmptyString]
  | String a s' =>
      if Ascii.eqb a c then EmptyString :: split_on c s'
      else match split_on c s' with
           | [] => [String a EmptyString]          (* unreachable *)
           | x :: r => String a x :: r
           end
  end.
Definition parse_int (s : string) : option Z :=
  match s with
  | EmptyString => None
  | _ => option_map (fun u => Z.of_N (N.of_uint u)) (NilZero.uint_of_string s)
  end.

Definition parse_parts (t : string) : list (list string) := map (split_on "_"%char) (split_on "-"%char t).

Definition part_int (pfx : string) (p : list string) : option Z :=
  match p with [h; v] => if String.eqb h pfx then parse_int v else None | _ => None end.

Definition parse_tok (s : string) : option tok :=
  match parse_parts s with
  | [[h]] => if String.eqb h PFX_PAD then Some TPad else if String.eqb h PFX_START then Some TSta
             else if String.eqb h PFX_STOP then Some TSto else if String.eqb h PFX_BAR then Some TBar else None
  | [[h; a; b]] => if String.eqb h PFX_TIME_SIGNATURE
                   then match parse_int a, parse_int b with Some n, Some d => Some (TTsg n d) | _, _ => None end
                   else None
  | [p] =>
      match part_int PFX_REST p, part_int PFX_TRACK p, part_int PFX_VALUE p, part_int PFX_VELOCITY p, part_int PFX_PITCH p with
      | Some v, _, _, _, _ => Some (TRest v)
      | _, Some v, _, _, _ => Some (TTrk v)
      | _, _, Some v, _, _ => Some (TVal v)
      | _, _, _, Some v, _ => Some (TVel v)
      | _, _, _, _, Some v => Some (TNote None v None None)
      | _, _, _, _, _ => None
      end
  | ps =>
      (* [trk]? pit [val]? [vel]? in this order *)
      let '(t, ps1) := match ps with p :: r => match part_int PFX_TRACK p with Some v => (Some v, r) | None => (None, ps) end | [] => (None, ps) end in
      match ps1 with
      | pp :: ps2 =>
          match part_int PFX_PITCH pp with
          | None => None
          | Some pit =>
              let '(v, ps3) := match ps2 with p :: r => match part_int PFX_VALUE p with Some x => (Some x, r) | None => (None, ps2) end | [] => (None, ps2) end in
              let '(w, ps4) := match ps3 with p :: r => match part_int PFX_VELOCITY p with Some x => (Some x, r) | None => (None, ps3) end | [] => (None, ps3) end in
              match ps4 with [] => Some (TNote t pit v w) | _ => None end
          end
      | [] => None
      end
  end.
Local Close Scope string_scope.

(* ---------------------------------------------------------------- vocabulary *)
Definition rangeZ (lo hi : Z) : list Z := rangeZ_aux (Z.to_nat (hi - lo)) lo.   (* range(lo, hi) *)

Definition note_tokens (c : cfg) : list tok :=
  let trks := if c_ftrk c then map Some (rangeZ 0 (c_ntracks c)) else [None] in
  let vals := if c_fval c then map Some (c_values c) else [None] in
  let vels := if c_fvel c then map Some (c_vbins c) else [None] in
  flat_map (fun t => flat_map (fun p => flat_map (fun v => map (fun w => TNote t p v w) vels) vals)
                                       (rangeZ (c_plo c) (c_phi c + 1))) trks.

Definition vocab (c : cfg) : list tok :=
  [TPad; TSta; TSto; TBar] ++ map TRest (c_steps c) ++
  (if c_ftrk c then [] else map TTrk (rangeZ 0 (c_ntracks c))) ++
  (if c_fval c then [] else map TVal (c_values c)) ++
  (if c_fvel c then [] else map TVel (c_vbins c)) ++
  note_tokens c ++
  map (fun n => TTsg n DEFAULT_TS_DEN) (rangeZ (c_tslo c) (c_tshi c + 1)).

(* dictionary[token] = id, later duplicates overwrite; dictionary_size counts every insertion *)
Fixpoint last_index_aux (t : tok) (l : list tok) (i : Z) (found : option Z) : option Z :=
  match l with [] => found | x :: l' => last_index_aux t l' (i + 1) (if tok_eqb t x then Some i else found) end.
Definition encode1 (c : cfg) (t : tok) : result Z :=
  match last_index_aux t (vocab c) 0 None with Some i => Ok i | None => Err KeyErr end.
Definition decode1 (c : cfg) (i : Z) : result tok :=
  if (i <? 0) then Err KeyErr else
  match nth_error (vocab c) (Z.to_nat i) with
  | Some t => match encode1 c t with Ok j => if Z.eqb i j then Ok t else Err KeyErr | Err e => Err e end
  | None => Err KeyErr
  end.
Definition encode (c : cfg) (ts : list tok) : result (list Z) := mapM (encode1 c) ts.
Definition decode (c : cfg) (is_ : list Z) : result (list tok) := mapM (decode1 c) is_.
Definition dictionary_size (c : cfg) : Z := lenZ (vocab c).

(* ---------------------------------------------------------------- tokenise *)
Record tstate : Set := mkts {
  t_time : Z; t_tbar : Z; t_num : Z; t_den : Z; t_rem : Z; t_ptrk : Z; t_pval : Z; t_pvel : Z }.
Definition tstate0 (c : cfg) : tstate :=
  mkts 0 0 DEFAULT_TS_NUM DEFAULT_TS_DEN (bar_cap c DEFAULT_TS_NUM DEFAULT_TS_DEN) (-1) (-1) (-1).

(* loop state inside one call *)
Record lstate : Set := mkls {
  l_toks : list tok; l_time : Z; l_tbar : Z; l_num : Z; l_den : Z; l_total : Z; l_rem : Z;
  l_ptrk : Z; l_pval : Z; l_pvel : Z; l_has : bool }.

Definition last_step (c : cfg) : Z := last (c_steps c) 0.
(* next(step for step in reversed(steps) if nxt >= step) *)
Definition largest_le (steps : list Z) (x : Z) : option Z := last_opt (filter (fun s => s <=? x) steps).

Fixpoint apply_rest (fuel : nat) (c : cfg) (s : lstate) (buf : Z) : result lstate :=
  if buf <=? 0 then Ok s else
  match fuel with
  | O => Err OutOfFuel
  | S f =>
      let nxt := Z.min buf (l_rem s) in
      let v := if last_step c <? nxt then Some (last_step c) else largest_le (c_steps c) nxt in
      match v with
      | None => Err TokErr
      | Some v =>
          let rem := l_rem s - v in
          let atend := Z.eqb rem 0 in
          let s' := mkls (l_toks s ++ [TRest v] ++ (if atend then [TBar] else []))
                         (l_time s + v) (if atend then 0 else l_tbar s + v) (l_num s) (l_den s) (l_total s)
                         (if atend then l_total s else rem) (l_ptrk s) (l_pval s) (l_pvel s)
                         (if atend then false else l_has s) in
          apply_rest f c s' (buf - v)
      end
  end.
Definition rest_fuel (buf : Z) : nat := S (Z.to_nat buf).

Definition note_tok (c : cfg) (s : lstate) (ch pit val vel : Z) : list tok :=
  let pre_t := if negb (c_ftrk c) && (negb (Z.eqb ch (l_ptrk s)) || negb (c_running c)) then [TTrk ch] else [] in
  let pre_v := if negb (c_fval c) && (negb (Z.eqb val (l_pval s)) || negb (c_running c)) then [TVal val] else [] in
  let pre_w := if negb (c_fvel c) && (negb (Z.eqb vel (l_pvel s)) || negb (c_running c)) then [TVel vel] else [] in
  pre_t ++ pre_v ++ pre_w ++
  [TNote (if c_ftrk c then Some ch else None) pit (if c_fval c then Some val else None) (if c_fvel c then Some vel else None)].

Definition tok_event (c : cfg) (shift : Z) (s : lstate) (e : Z * pairing) : result lstate :=
  let m := p_first (snd e) in
  let mt := m_time m + shift in
  do s1 <- (if Z.eqb (l_time s) mt then Ok s else apply_rest (rest_fuel (mt - l_time s)) c s (mt - l_time s));
  match m_type m with
  | NOTE_ON =>
      let val := p_off_time (snd e) - m_time m in
      let bi := bin_velocity (m_vel m) (c_vbins c) in
      match nth_error (c_vbins c) (Z.to_nat bi) with
      | None => Err IndexErr
      | Some vel =>
          if negb ((c_plo c <=? m_note m) && (m_note m <=? c_phi c)) then Err TokErr else
          if negb (memZ val (c_values c)) then Err TokErr else
          Ok (mkls (l_toks s1 ++ note_tok c s1 (m_chan m) (m_note m) val vel) (l_time s1) (l_tbar s1) (l_num s1) (l_den s1)
                   (l_total s1) (l_rem s1) (m_chan m) val vel true)
      end
  | TIME_SIGNATURE =>
      if 0 <? l_tbar s1 then Ok s1 else
      (* scaled = numerator * (DEFAULT_DENOMINATOR / denominator) must be an integer *)
      if negb (Z.eqb ((m_num m * DEFAULT_TS_DEN) mod m_den m) 0) then Err TokErr else
      let scaled := (m_num m * DEFAULT_TS_DEN) / m_den m in
      if negb ((c_tslo c <=? scaled) && (scaled <=? c_tshi c)) then Err TokErr else
      let total := bar_cap c (m_num m) (m_den m) in
      Ok (mkls (l_toks s1 ++ [TTsg scaled DEFAULT_TS_NUM]) (l_time s1) (l_tbar s1) (m_num m) (m_den m) total total
               (l_ptrk s1) (l_pval s1) (l_pvel s1) (l_has s1))
  | _ => Ok s1
  end.

Definition TOK_TYPES : list mtype := [NOTE_ON; NOTE_OFF; TIME_SIGNATURE; INTERNAL].

(* set_channel(i) on every track, merge into a new Sequence, interleaved pairings of the merged sequence *)
Definition tok_frontend (tracks : list (list msg)) : result (list (Z * pairing)) :=
  let chs := mapi (fun i r => set_channel r i) tracks in
  let merged_abs := merge_abs [] (map to_abs chs) in
  let merged_rel := normalise (to_rel merged_abs) in
  interleaved TOK_TYPES PPQN true (sort_abs (to_abs merged_rel)).

Definition tokenise (c : cfg) (st : tstate) (tracks : list (list msg)) : result (list tok * tstate) :=
  if negb (Z.eqb (lenZ tracks) (c_ntracks c)) then Err TokErr else
  do evs <- tok_frontend tracks;
  let total := bar_cap c (t_num st) (t_den st) in
  let s0 := mkls [] (t_time st) (t_tbar st) (t_num st) (t_den st) total (t_rem st) (t_ptrk st) (t_pval st) (t_pvel st) false in
  do s1 <- foldM (tok_event c (t_time st)) evs s0;
  do s2 <- (if ((0 <? l_tbar s1) || l_has s1) && (0 <? l_rem s1)
            then apply_rest (rest_fuel (l_rem s1)) c s1 (l_rem s1) else Ok s1);
  Ok (l_toks s2, mkts (l_time s2) (l_tbar s2) (l_num s2) (l_den s2) (l_rem s2) (l_ptrk s2) (l_pval s2) (l_pvel s2)).

(* ---------------------------------------------------------------- detokenise *)
Record dstate : Set := mkds {
  d_seqs : list (list msg);       (* absolute lists, one per track *)
  d_time : Z; d_tbar : Z; d_num : Z; d_den : Z; d_total : Z; d_rem : Z;
  d_ptrk : Z; d_pval : Z; d_pvel : Z }.

Definition dstate0 (c : cfg) : dstate :=
  let total := bar_cap c DEFAULT_TS_NUM DEFAULT_TS_DEN in
  mkds (map (fun _ => []) (rangeZ 0 (c_ntracks c))) 0 0 DEFAULT_TS_NUM DEFAULT_TS_DEN total total 0 24 127.

(* sequences[i] with Python indexing *)
Definition py_index (n i : Z) : option nat :=
  if (0 <=? i) && (i <? n) then Some (Z.to_nat i) else if (i <? 0) && (- n <=? i) then Some (Z.to_nat (n + i)) else None.

Definition set_clock (s : dstate) (seqs : list (list msg)) (time tbar num den total rem : Z) : dstate :=
  mkds seqs time tbar num den total rem (d_ptrk s) (d_pval s) (d_pvel s).

Definition detok_step (c : cfg) (s : dstate) (t : tok) : result dstate :=
  match t with
  | TPad | TSta | TSto => Ok s
  | TBar =>
      let time := d_time s + d_rem s in
      Ok (set_clock s (map (insort (mk_internal 0 time)) (d_seqs s)) time 0 (d_num s) (d_den s) (d_total s) (d_total s))
  | TRest v => Ok (set_clock s (d_seqs s) (d_time s + v) (d_tbar s + v) (d_num s) (d_den s) (d_total s) (d_rem s - v))
  | TTrk v => Ok (mkds (d_seqs s) (d_time s) (d_tbar s) (d_num s) (d_den s) (d_total s) (d_rem s) v (d_pval s) (d_pvel s))
  | TVal v => Ok (mkds (d_seqs s) (d_time s) (d_tbar s) (d_num s) (d_den s) (d_total s) (d_rem s) (d_ptrk s) v (d_pvel s))
  | TVel v => Ok (mkds (d_seqs s) (d_time s) (d_tbar s) (d_num s) (d_den s) (d_total s) (d_rem s) (d_ptrk s) (d_pval s) v)
  | TNote t p v w =>
      let trk := match t with Some x => x | None => d_ptrk s end in
      let val := match v with Some x => x | None => d_pval s end in
      let vel := match w with Some x => x | None => d_pvel s end in
      match py_index (lenZ (d_seqs s)) trk with
      | None => Err IndexErr
      | Some i =>
          let seqs := set_nth i (fun a => insort (mk_off 0 p (d_time s + val) false) (insort (mk_on 0 p vel (d_time s) false) a)) (d_seqs s) in
          Ok (mkds seqs (d_time s) (d_tbar s) (d_num s) (d_den s) (d_total s) (d_rem s) trk val vel)
      end
  | TTsg n d =>
      if 0 <? d_tbar s then Ok s else
      if Z.eqb d 0 then Err OutOfModel else
      let switched := negb (Z.eqb (d_num s) n && Z.eqb (d_den s) d) in
      let total := bar_cap c n d in
      let '(n', d') := if c_simplify c && Z.eqb (n mod 2) 0 && Z.eqb (d mod 2) 0 then (n / 2, d / 2) else (n, d) in
      let seqs := if switched || negb (c_running c)
                  then match d_seqs s with
                       | a :: r => insort (mk_ts 0 n' d' (d_time s) false) a :: r
                       | [] => []          (* sequences[0] of an empty list: IndexError, excluded by num_tracks >= 1 *)
                       end
                  else d_seqs s in
      Ok (set_clock s seqs (d_time s) (d_tbar s) n' d' total total)
  end.

Definition detokenise (c : cfg) (ts : list tok) : result (list (list msg)) :=
  do s <- foldM (detok_step c) ts (dstate0 c); Ok (d_seqs s).

(* string-level wrappers *)
Definition parse_all (ss : list string) : result (list tok) :=
  mapM (fun s => match parse_tok s with Some t => Ok t | None => Err OutOfModel end) ss.

(* ---------------------------------------------------------------- get_info *)
Record istate : Set := mkis { i_time : Z; i_tbar : Z; i_total : Z; i_rem : Z }.
Definition istate0 (c : cfg) : istate :=
  let total := bar_cap c DEFAULT_TS_NUM DEFAULT_TS_DEN in mkis 0 0 total total.
Definition PRV_PITCH : Z := 69.

(* returns the new clock and the (pitch, cof) annotation; None = nan *)
Definition info_step (c : cfg) (impute : bool) (s : istate) (t : tok) : istate * option (Z * option Z) :=
  let dflt := if impute then Some (PRV_PITCH, get_position PRV_PITCH) else None in
  match t with
  | TBar => (mkis (i_time s + i_rem s) 0 (i_total s) (i_total s), dflt)
  | TRest v => (mkis (i_time s + v) (i_tbar s + v) (i_total s) (i_rem s - v), dflt)
  | TNote _ p _ _ => (s, Some (p, get_position p))
  | TTsg n d =>
      if 0 <? i_tbar s then (s, dflt)
      else let total := bar_cap c n d in (mkis (i_time s) (i_tbar s) total total, dflt)
  | _ => (s, dflt)
  end.

Record info : Set := mkinfo { f_pos : list Z; f_time : list Z; f_tbar : list Z; f_pitch : list (option (Z * option Z)) }.
Fixpoint get_info_aux (c : cfg) (impute : bool) (s : istate) (pos : Z) (ts : list tok) : info :=
  match ts with
  | [] => mkinfo [] [] [] []
  | t :: ts' =>
      let '(s', a) := info_step c impute s t in
      let r := get_info_aux c impute s' (pos + 1) ts' in
      mkinfo (pos :: f_pos r) (i_time s :: f_time r) (i_tbar s :: f_tbar r) (a :: f_pitch r)
  end.
Definition get_info (c : cfg) (impute : bool) (ts : list tok) : info := get_info_aux c impute (istate0 c) 0 ts.
